(* C07.1 / C14.3: packet ids handed out by concurrent _mid_generate calls.
   For EVERY schedule (any list of thread ids, any length) and ANY number of publisher threads:
   - mutual exclusion on _mid_generate_mutex;
   - the ids, in the order in which the calls return them (= order of lock acquisition), are
     mid_next m0, mid_next (mid_next m0), ...  (Codec/Mid.v);
   - hence any 65535 consecutive allocations are pairwise distinct, and so are the ids returned to
     different (thread, message) pairs. *)
From PahoV Require Import Base.Prelude Codec.Mid Codec.MidProofs Conc.Sched Conc.SchedLemmas.

Definition in_cs (k : ppc) : bool :=
  match k with PRd1 | PWr1 | PRd2 | PWrap | PRd3 | PRel => true | _ => false end.

Definition allocated (k : ppc) : bool :=
  match k with PRel | PSock | PAppend | PPipe | PRet => true | _ => false end.

(* the lock is held by j exactly when thread j is inside the critical section *)
Definition lock_ok (c : conf) : Prop :=
  forall j p, nth_error (pubs c) j = Some p -> (in_cs (pc p) = true <-> mid_lock c = Some j).

Definition holder_ok (M lm : Z) (p : pub) : Prop :=
  match pc p with
  | PRd1 => lm = M
  | PWr1 => lm = M /\ tmp p = M
  | PRd2 => lm = M + 1
  | PWrap => lm = 65536 /\ M + 1 = 65536
  | PRd3 => lm = mid_next M
  | PRel => lm = M /\ ret p = M
  | _ => False
  end.

(* _last_mid as a function of the number of completed allocations and of where the holder is *)
Definition val_ok (m0 : Z) (c : conf) : Prop :=
  match mid_lock c with
  | None => last_mid c = mid_iter (length (alloc_log c)) m0
  | Some j => match nth_error (pubs c) j with
              | Some p => holder_ok (mid_iter (length (alloc_log c)) m0) (last_mid c) p
              | None => False
              end
  end.

Definition log_ok (m0 : Z) (c : conf) : Prop :=
  map snd (alloc_log c) = mid_seq (length (alloc_log c)) m0.

(* what a thread returns to its caller is what the generator logged for that (thread, message) *)
Definition res_ok (c : conf) : Prop :=
  forall i p, nth_error (pubs c) i = Some p ->
    (allocated (pc p) = true -> In (i, idx p, ret p) (alloc_log c)) /\
    (forall k m q, In (k, m, q) (results p) -> In (i, k, m) (alloc_log c)).

Definition Inv (m0 : Z) (c : conf) : Prop := lock_ok c /\ val_ok m0 c /\ log_ok m0 c /\ res_ok c.

(* ------------------------------------------------------------------ initial configurations *)
Lemma nth_new_pub l j p : nth_error (map new_pub l) j = Some p -> exists n, p = new_pub n.
Proof.
  intros H. apply nth_error_In in H. apply in_map_iff in H as [n [<- _]]. exists n; reflexivity.
Qed.

Lemma new_pub_pc n : pc (new_pub n) = PAcq \/ pc (new_pub n) = PDone.
Proof. destruct n; cbn; auto. Qed.

Lemma Inv_init m0 l0 pipe0 nmsgs : Inv m0 (init m0 l0 pipe0 nmsgs).
Proof.
  unfold Inv, init. split; [|split; [|split]].
  - intros j p Hp. cbn in Hp |- *. apply nth_new_pub in Hp as [n ->].
    destruct (new_pub_pc n) as [E|E]; rewrite E; cbn; split; discriminate.
  - unfold val_ok; cbn. reflexivity.
  - unfold log_ok; cbn. reflexivity.
  - intros i p Hp. cbn in Hp. apply nth_new_pub in Hp as [n ->]. split.
    + destruct (new_pub_pc n) as [E|E]; rewrite E; cbn; discriminate.
    + intros k m q H. destruct n; cbn in H; contradiction.
Qed.

(* ------------------------------------------------------------------ steps that do not touch the generator *)
Lemma Inv_frame m0 c c' :
  pubs c' = pubs c -> last_mid c' = last_mid c -> mid_lock c' = mid_lock c -> alloc_log c' = alloc_log c ->
  Inv m0 c -> Inv m0 c'.
Proof.
  intros E1 E2 E3 E4 (Hl & Hv & Hg & Hr).
  unfold Inv, lock_ok, val_ok, log_ok, res_ok in *. rewrite E1, E2, E3, E4. repeat split; try assumption.
  - apply Hl; assumption.
  - apply Hl; assumption.
  - apply Hr; assumption.
  - apply Hr; assumption.
Qed.

(* ------------------------------------------------------------------ publisher steps *)
Ltac open_pstep Hs :=
  unfold pstep in Hs;
  repeat match type of Hs with
         | context [match ?x with _ => _ end] => destruct x eqn:?
         end; try discriminate; inversion Hs; subst; clear Hs; unfold set_pub.

Lemma next_msg_pc p b : pc (next_msg p b) = PAcq \/ pc (next_msg p b) = PDone.
Proof. unfold next_msg; cbn. destruct (todo p) as [|[|n]]; auto. Qed.

Lemma pstep_lock_ok i p c c' :
  lock_ok c -> nth_error (pubs c) i = Some p -> pstep i p c = Some c' -> lock_ok c'.
Proof.
  intros Hl Hp Hs. pose proof (Hl i p Hp) as Hi.
  open_pstep Hs; intros j q Hq; cbn in Hq |- *;
    apply nth_upd_inv in Hq as [[<- ->]|[Hn Hq]];
    try (pose proof (Hl j q Hq) as Hj);
    repeat match goal with
    | H : pc p = _ |- _ => rewrite H in Hi
    end; cbn [in_cs] in Hi;
    try (destruct (next_msg_pc p false) as [E|E]; rewrite E; cbn [in_cs]);
    try (destruct (next_msg_pc p true) as [E|E]; rewrite E; cbn [in_cs]);
    cbn [pc with_pc in_cs];
    repeat match goal with H : mid_lock c = _ |- _ => rewrite H in * end;
    try tauto; intuition (try congruence).
Qed.

Lemma holder_cs M lm p : holder_ok M lm p -> in_cs (pc p) = true.
Proof. unfold holder_ok. destruct (pc p); cbn; tauto. Qed.

Lemma pstep_val_ok m0 i p c c' : 0 <= m0 <= 65535 ->
  lock_ok c -> val_ok m0 c -> nth_error (pubs c) i = Some p -> pstep i p c = Some c' -> val_ok m0 c'.
Proof.
  intros Hm Hl Hv Hp Hs. pose proof (Hl i p Hp) as Hi.
  pose proof (mid_iter_range0 (length (alloc_log c)) m0 Hm) as Hr.
  unfold val_ok in *.
  destruct (pc p) eqn:Epc; cbn [in_cs] in Hi.
  - (* PAcq *) open_pstep Hs. cbn in Hv |- *. rewrite (nth_upd_eq i _ p _ Hp).
    unfold holder_ok; cbn. assumption.
  - (* PRd1 *) assert (El : mid_lock c = Some i) by tauto. rewrite El, Hp in Hv. unfold holder_ok in Hv; rewrite Epc in Hv.
    open_pstep Hs. cbn. rewrite El, (nth_upd_eq i _ p _ Hp). unfold holder_ok; cbn. split; [assumption|assumption].
  - (* PWr1 *) assert (El : mid_lock c = Some i) by tauto. rewrite El, Hp in Hv. unfold holder_ok in Hv; rewrite Epc in Hv.
    open_pstep Hs. cbn. rewrite El, (nth_upd_eq i _ p _ Hp). unfold holder_ok; cbn. lia.
  - (* PRd2 *) assert (El : mid_lock c = Some i) by tauto. rewrite El, Hp in Hv. unfold holder_ok in Hv; rewrite Epc in Hv.
    open_pstep Hs; cbn; rewrite El, (nth_upd_eq i _ p _ Hp); unfold holder_ok; cbn;
      match goal with H : (last_mid c =? 65536) = _ |- _ => rename H into E end.
    + split; lia.
    + unfold mid_next. rewrite <- Hv, E. reflexivity.
  - (* PWrap *) assert (El : mid_lock c = Some i) by tauto. rewrite El, Hp in Hv. unfold holder_ok in Hv; rewrite Epc in Hv.
    open_pstep Hs. cbn. rewrite El, (nth_upd_eq i _ p _ Hp). unfold holder_ok; cbn.
    unfold mid_next. destruct Hv as [_ Hv]. rewrite Hv. reflexivity.
  - (* PRd3 *) assert (El : mid_lock c = Some i) by tauto. rewrite El, Hp in Hv. unfold holder_ok in Hv; rewrite Epc in Hv.
    open_pstep Hs. cbn. rewrite El, (nth_upd_eq i _ p _ Hp). unfold holder_ok; cbn.
    rewrite app_length; cbn [length]. rewrite Nat.add_1_r, mid_iter_S_r. split; assumption.
  - (* PRel *) assert (El : mid_lock c = Some i) by tauto. rewrite El, Hp in Hv. unfold holder_ok in Hv; rewrite Epc in Hv.
    open_pstep Hs. cbn. tauto.
  - (* PSock *)
    assert (Hne : mid_lock c <> Some i) by (intro E; apply Hi in E; discriminate).
    open_pstep Hs; cbn; (destruct (mid_lock c) as [j|] eqn:El; [|assumption]);
      rewrite nth_upd_neq by congruence; assumption.
  - (* PAppend *)
    assert (Hne : mid_lock c <> Some i) by (intro E; apply Hi in E; discriminate).
    open_pstep Hs; cbn; (destruct (mid_lock c) as [j|] eqn:El; [|assumption]);
      rewrite nth_upd_neq by congruence; assumption.
  - (* PPipe *)
    assert (Hne : mid_lock c <> Some i) by (intro E; apply Hi in E; discriminate).
    open_pstep Hs; cbn; (destruct (mid_lock c) as [j|] eqn:El; [|assumption]);
      rewrite nth_upd_neq by congruence; assumption.
  - (* PRet *)
    assert (Hne : mid_lock c <> Some i) by (intro E; apply Hi in E; discriminate).
    open_pstep Hs; cbn; (destruct (mid_lock c) as [j|] eqn:El; [|assumption]);
      rewrite nth_upd_neq by congruence; assumption.
  - (* PDone *) unfold pstep in Hs. rewrite Epc in Hs. discriminate.
Qed.

Lemma pstep_log_ok m0 i p c c' : 0 <= m0 <= 65535 ->
  lock_ok c -> val_ok m0 c -> log_ok m0 c -> nth_error (pubs c) i = Some p -> pstep i p c = Some c' -> log_ok m0 c'.
Proof.
  intros Hm Hl Hv Hg Hp Hs. pose proof (Hl i p Hp) as Hi. unfold log_ok in *.
  destruct (pc p) eqn:Epc; cbn [in_cs] in Hi;
    try (open_pstep Hs; cbn; assumption).
  - (* PRd3 *) assert (El : mid_lock c = Some i) by tauto.
    unfold val_ok in Hv. rewrite El, Hp in Hv. unfold holder_ok in Hv; rewrite Epc in Hv.
    open_pstep Hs. cbn. rewrite map_app, app_length; cbn [map length snd].
    rewrite Nat.add_1_r, mid_seq_snoc, Hg, mid_iter_S_r, Hv. reflexivity.
Qed.

Lemma next_msg_fields p b :
  idx (next_msg p b) = S (idx p) /\ ret (next_msg p b) = ret p /\
  results (next_msg p b) = results p ++ [(idx p, ret p, b)] /\ allocated (pc (next_msg p b)) = false.
Proof. unfold next_msg; cbn. repeat split. destruct (todo p) as [|[|n]]; reflexivity. Qed.

Lemma pstep_res_local i p c c' :
  (allocated (pc p) = true -> In (i, idx p, ret p) (alloc_log c)) ->
  (forall k m q, In (k, m, q) (results p) -> In (i, k, m) (alloc_log c)) ->
  pstep i p c = Some c' ->
  exists p', pubs c' = upd i p' (pubs c) /\ (forall x, In x (alloc_log c) -> In x (alloc_log c')) /\
     (allocated (pc p') = true -> In (i, idx p', ret p') (alloc_log c')) /\
     (forall k m q, In (k, m, q) (results p') -> In (i, k, m) (alloc_log c')).
Proof.
  intros Ha Hres Hs.
  destruct (pc p) eqn:Epc; cbn [allocated] in Ha; open_pstep Hs;
    (eexists; split; [reflexivity|]); cbn [alloc_log pc idx ret results with_pc allocated].
  - (* PAcq *) repeat split; auto; try (intros HH; discriminate HH).
  - (* PRd1 *) repeat split; auto; try (intros HH; discriminate HH).
  - (* PWr1 *) repeat split; auto; try (intros HH; discriminate HH).
  - (* PRd2, wrap *) repeat split; auto; try (intros HH; discriminate HH).
  - (* PRd2, no wrap *) repeat split; auto; try (intros HH; discriminate HH).
  - (* PWrap *) repeat split; auto; try (intros HH; discriminate HH).
  - (* PRd3 *) split; [intros x Hx; apply in_or_app; left; assumption|]. split.
    + intros _. apply in_or_app; right; left; reflexivity.
    + intros k m q Hk. apply in_or_app; left. eapply Hres; eassumption.
  - (* PRel *) repeat split; auto.
  - (* PSock, socket present *) repeat split; auto.
  - (* PSock, no socket *) destruct (next_msg_fields p false) as (E1 & E2 & E3 & E4). rewrite E4, E3.
    split; [auto|]. split; [intros HH; discriminate HH|].
    intros k m b Hk. apply in_app_or in Hk as [Hk|[Hk|[]]]; [eapply Hres; eassumption|].
    inversion Hk; subst. apply Ha; reflexivity.
  - (* PAppend *) repeat split; auto.
  - (* PPipe *) repeat split; auto.
  - (* PRet *) destruct (next_msg_fields p true) as (E1 & E2 & E3 & E4). rewrite E4, E3.
    split; [auto|]. split; [intros HH; discriminate HH|].
    intros k m b Hk. apply in_app_or in Hk as [Hk|[Hk|[]]]; [eapply Hres; eassumption|].
    inversion Hk; subst. apply Ha; reflexivity.
Qed.

Lemma pstep_res_ok i p c c' :
  res_ok c -> nth_error (pubs c) i = Some p -> pstep i p c = Some c' -> res_ok c'.
Proof.
  intros Hr Hp Hs. destruct (Hr i p Hp) as [Ha Hres].
  destruct (pstep_res_local i p c c' Ha Hres Hs) as (p' & Epubs & Hmono & Ha' & Hres').
  intros j q Hq. rewrite Epubs in Hq. apply nth_upd_inv in Hq as [[<- ->]|[Hn Hq]].
  - split; assumption.
  - destruct (Hr j q Hq) as [H1 H2]. split.
    + intros E. apply Hmono. apply H1; assumption.
    + intros k m b Hk. apply Hmono. eapply H2; eassumption.
Qed.

Lemma Inv_step m0 t c c' : 0 <= m0 <= 65535 -> Inv m0 c -> tstep t c = Some c' -> Inv m0 c'.
Proof.
  intros Hm HI Hs. apply tstep_cases in Hs as [[_ Hs]|[[_ Hs]|(i & p & _ & Hp & Hs)]].
  - apply lstep_frame in Hs as (E1 & E2 & E3 & E4). eapply Inv_frame; eassumption.
  - apply timeout_frame in Hs as (E1 & E2 & E3 & E4 & _). eapply Inv_frame; eassumption.
  - destruct HI as (Hl & Hv & Hg & Hr). split; [|split; [|split]].
    + eapply pstep_lock_ok; eassumption.
    + eapply pstep_val_ok; eassumption.
    + eapply pstep_log_ok; eassumption.
    + eapply pstep_res_ok; eassumption.
Qed.

Lemma Inv_run m0 l0 pipe0 nmsgs s : 0 <= m0 <= 65535 -> Inv m0 (sched_run s (init m0 l0 pipe0 nmsgs)).
Proof.
  intros Hm. apply run_inv.
  - intros t c c' HI Hs. eapply Inv_step; eassumption.
  - apply Inv_init.
Qed.

(* ------------------------------------------------------------------ the theorems *)
(* mutual exclusion: at most one thread is between acquire and release *)
Theorem mutual_exclusion m0 l0 pipe0 nmsgs s i j p q : 0 <= m0 <= 65535 ->
  let c := sched_run s (init m0 l0 pipe0 nmsgs) in
  nth_error (pubs c) i = Some p -> nth_error (pubs c) j = Some q ->
  in_cs (pc p) = true -> in_cs (pc q) = true -> i = j.
Proof.
  intros Hm c Hp Hq Hi Hj. destruct (Inv_run m0 l0 pipe0 nmsgs s Hm) as (Hl & _).
  apply (Hl i p Hp) in Hi. apply (Hl j q Hq) in Hj. fold c in Hi, Hj. congruence.
Qed.

(* the ids in the order they were returned: the sequential sequence of Codec/Mid.v *)
Theorem mids_sequence m0 l0 pipe0 nmsgs s : 0 <= m0 <= 65535 ->
  let c := sched_run s (init m0 l0 pipe0 nmsgs) in
  map snd (alloc_log c) = mid_seq (length (alloc_log c)) m0.
Proof. intros Hm c. destruct (Inv_run m0 l0 pipe0 nmsgs s Hm) as (_ & _ & Hg & _). exact Hg. Qed.

(* any window of fewer than 65535 further allocations never returns to the same id *)
Theorem mids_window_distinct m0 l0 pipe0 nmsgs s a b : 0 <= m0 <= 65535 ->
  let ids := map snd (alloc_log (sched_run s (init m0 l0 pipe0 nmsgs))) in
  (a < b < length ids)%nat -> Z.of_nat b - Z.of_nat a < 65535 -> nth a ids 0 <> nth b ids 0.
Proof.
  intros Hm ids Hab Hw. unfold ids in *. rewrite mids_sequence in * by assumption.
  rewrite mid_seq_length in Hab. rewrite !mid_seq_nth by lia.
  cbn [mid_iter]. apply mid_iter_distinct; [apply mid_next_range; assumption | lia | lia].
Qed.

Theorem mids_all_distinct m0 l0 pipe0 nmsgs s : 0 <= m0 <= 65535 ->
  let c := sched_run s (init m0 l0 pipe0 nmsgs) in
  Z.of_nat (length (alloc_log c)) <= 65535 -> NoDup (map snd (alloc_log c)).
Proof. intros Hm c Hk. unfold c in *. rewrite mids_sequence by assumption. apply mid_seq_NoDup; assumption. Qed.

Lemma NoDup_map_inj {A B} (f : A -> B) l x y :
  NoDup (map f l) -> In x l -> In y l -> f x = f y -> x = y.
Proof.
  induction l as [|a l IH]; cbn; intros Hn Hx Hy E; [contradiction|].
  inversion Hn as [|? ? Hnot Hn']; subst.
  destruct Hx as [->|Hx], Hy as [->|Hy]; try reflexivity.
  - exfalso; apply Hnot. rewrite E. apply in_map; assumption.
  - exfalso; apply Hnot. rewrite <- E. apply in_map; assumption.
  - apply IH; assumption.
Qed.

(* the statement of C07 / C14: ids returned to different (thread, message) pairs differ *)
Theorem mids_distinct m0 l0 pipe0 nmsgs s i j p q k1 m1 b1 k2 m2 b2 : 0 <= m0 <= 65535 ->
  let c := sched_run s (init m0 l0 pipe0 nmsgs) in
  Z.of_nat (length (alloc_log c)) <= 65535 ->
  nth_error (pubs c) i = Some p -> nth_error (pubs c) j = Some q ->
  In (k1, m1, b1) (results p) -> In (k2, m2, b2) (results q) ->
  (i, k1) <> (j, k2) -> m1 <> m2.
Proof.
  intros Hm c Hk Hp Hq H1 H2 Hne E.
  destruct (Inv_run m0 l0 pipe0 nmsgs s Hm) as (_ & _ & _ & Hr). fold c in Hr.
  destruct (Hr i p Hp) as [_ Hr1]. destruct (Hr j q Hq) as [_ Hr2].
  apply Hr1 in H1. apply Hr2 in H2.
  pose proof (mids_all_distinct m0 l0 pipe0 nmsgs s Hm Hk) as Hn. fold c in Hn.
  assert (X : (i, k1, m1) = (j, k2, m2)) by (eapply (NoDup_map_inj snd); eauto).
  inversion X; subst. apply Hne; reflexivity.
Qed.

(* no thread is ever blocked on the lock for ever: while someone holds it, the holder can step *)
Theorem lock_holder_can_step m0 l0 pipe0 nmsgs s j : 0 <= m0 <= 65535 ->
  let c := sched_run s (init m0 l0 pipe0 nmsgs) in
  mid_lock c = Some j -> tstep (Pub j) c <> None.
Proof.
  intros Hm c El. destruct (Inv_run m0 l0 pipe0 nmsgs s Hm) as (Hl & Hv & _). fold c in Hl, Hv.
  unfold val_ok in Hv. rewrite El in Hv. cbn [tstep].
  destruct (nth_error (pubs c) j) as [p|] eqn:Ep; [|contradiction].
  apply holder_cs in Hv. unfold pstep. destruct (pc p); try discriminate.
Qed.

(* the modelled threads never deadlock: while a publisher is unfinished some publisher can step *)
Theorem sched_no_deadlock m0 l0 pipe0 nmsgs s : 0 <= m0 <= 65535 ->
  let c := sched_run s (init m0 l0 pipe0 nmsgs) in
  (exists i p, nth_error (pubs c) i = Some p /\ pc p <> PDone) ->
  exists j, tstep (Pub j) c <> None.
Proof.
  intros Hm c (i & p & Hp & Hnd).
  destruct (mid_lock c) as [j|] eqn:El.
  - exists j. apply (lock_holder_can_step m0 l0 pipe0 nmsgs s j Hm). exact El.
  - exists i. cbn [tstep]. rewrite Hp. unfold pstep. rewrite El.
    destruct (pc p); try discriminate; try (destruct (sock c); discriminate). contradiction.
Qed.
