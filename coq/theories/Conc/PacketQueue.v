(* C18, third statement: a small model of _packet_queue's try-lock guard and of the
   _packet_write loop (client.py 3167-3257, 3770-3807).  Whole-packet writes that always
   succeed (partial writes are C06's subject).  Model only, no proofs. *)
From PahoV Require Import Base.Prelude.
From Coq Require Import NArith.

Record qst : Type := mkQ {
  outq : list N;        (* _out_packet, oldest first (packet ids) *)
  wire : list N;        (* packets handed to the transport, oldest first *)
  in_cb : bool;         (* _in_callback_mutex held by this thread: a user callback is running *)
  ext : bool;           (* loop thread running, or on_socket_register_write installed: never write from _packet_queue *)
  want_reg : bool       (* write interest registered (want_write() is true) *)
}.

Definition enqueue (p : N) (s : qst) : qst := mkQ (outq s ++ [p]) (wire s) (in_cb s) (ext s) true.

(* what a completion callback does: the packets it publishes when packet p has been written *)
Definition callback := N -> list N.

(* while True: pop; send; on completion run the user callback under _in_callback_mutex - every
   publish() it makes goes through _packet_queue with the lock held, i.e. is only enqueued *)
Fixpoint packet_write (fuel : nat) (cb : callback) (s : qst) : qst :=
  match fuel with
  | O => s
  | S f =>
      match outq s with
      | [] => s
      | p :: q =>
          let s1 := mkQ q (wire s ++ [p]) (in_cb s) (ext s) (want_reg s) in
          packet_write f cb (fold_left (fun st x => enqueue x st) (cb p) s1)
      end
  end.

Definition is_nil {A} (l : list A) : bool := match l with [] => true | _ => false end.

Definition loop_write (fuel : nat) (cb : callback) (s : qst) : qst :=
  let s' := packet_write fuel cb s in
  mkQ (outq s') (wire s') (in_cb s') (ext s') (negb (is_nil (outq s'))).

(* self._out_packet.append(mpkt); if no external loop: if _in_callback_mutex.acquire(False): release; loop_write() *)
Definition packet_queue (fuel : nat) (cb : callback) (p : N) (s : qst) : qst :=
  let s1 := enqueue p s in
  if negb (ext s1) && negb (in_cb s1) then loop_write fuel cb s1 else s1.
