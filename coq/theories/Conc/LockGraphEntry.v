(* C18: parameters of the check and the integer entry points used by the correspondence
   harness (extracted by Extract/ExtractLockGraph.v).  Model side only, no proofs. *)
From PahoV Require Import Base.Prelude Conc.LockGraph Gen.GenLockGraph.
Open Scope N_scope.

(* the API methods property C18 allows inside callbacks *)
Definition c18_apis : list N :=
  [m_publish; m_subscribe; m_unsubscribe; m_disconnect; m_reconnect;
   m_message_callback_add; m_message_callback_remove; m_loop_stop].

(* entry points, nothing held: every public method of Client and the loop thread's body *)
Definition c18_entries : list N := public_methods ++ [m_priv_thread_main].

Definition fuel : nat := N.to_nat 200000.

(* bit c of the mask set <-> callback c installed *)
Definition inst_of_mask (mask : N) : list N := filter (fun c => N.testbit mask c) all_callbacks.

Definition params_of_mask (mask : N) : params :=
  mkParams prog lock_kinds c18_apis (inst_of_mask mask) c18_entries.

(* 1: [inst_mask] -> stuck sites, 5 integers each: callback, api, kind (0 lock / 1 block), lock or wait id, method *)
Definition entry_stuck (args : list Z) : list Z :=
  match args with
  | [mask] => flat_map enc_site (stuck_sites (params_of_mask (Z.to_N mask)) fuel)
  | _ => []
  end.

(* 2: [inst_mask] -> callback invocation contexts, 2 integers each: callback, mask of held locks *)
Definition entry_cbctx (args : list Z) : list Z :=
  match args with
  | [mask] => flat_map (fun x => [Z.of_N (fst x); Z.of_N (snd x)]) (cb_contexts (params_of_mask (Z.to_N mask)) fuel)
  | _ => []
  end.

(* 3: [inst_mask; callback; held mask; api] -> stuck sites of that one nested call (same encoding as 1) *)
Definition entry_predict (args : list Z) : list Z :=
  match args with
  | [mask; cb; H; a] =>
      flat_map enc_site (predict (params_of_mask (Z.to_N mask)) fuel (Z.to_N cb) (Z.to_N H) (Z.to_N a))
  | _ => []
  end.

(* 4: [inst_mask] -> [number of reachable abstract states; methods; locks; callbacks] *)
Definition entry_stats (args : list Z) : list Z :=
  match args with
  | [mask] => [Z.of_nat (idx_size (explore (params_of_mask (Z.to_N mask)) fuel));
               Z.of_nat (length prog); Z.of_nat (length lock_kinds); Z.of_nat (length all_callbacks)]
  | _ => []
  end.
