From PahoV Require Import Base.Prelude Conc.PacketQueue.

(* the guard: a packet queued while a callback runs is appended, nothing is written re-entrantly,
   and write interest is registered *)
Lemma packet_queue_in_callback fuel cb p s :
  in_cb s = true ->
  outq (packet_queue fuel cb p s) = outq s ++ [p] /\
  wire (packet_queue fuel cb p s) = wire s /\
  want_reg (packet_queue fuel cb p s) = true.
Proof.
  intro H. unfold packet_queue. cbn [enqueue ext in_cb]. rewrite H, andb_false_r. cbn. auto.
Qed.

Lemma fold_enqueue_all l : forall s,
  wire (fold_left (fun st x => enqueue x st) l s) = wire s /\
  outq (fold_left (fun st x => enqueue x st) l s) = outq s ++ l.
Proof.
  induction l as [|x l IH]; intro s; cbn [fold_left].
  - now rewrite app_nil_r.
  - destruct (IH (enqueue x s)) as [H1 H2]. rewrite H1, H2. cbn [enqueue wire outq].
    now rewrite <- app_assoc.
Qed.

(* wire ++ outq only ever grows at the end: FIFO, nothing dropped, nothing reordered *)
Lemma packet_write_prefix fuel cb : forall s,
  exists extra, wire (packet_write fuel cb s) ++ outq (packet_write fuel cb s) = wire s ++ outq s ++ extra.
Proof.
  induction fuel as [|f IH]; intro s; cbn [packet_write].
  - exists []. now rewrite app_nil_r.
  - destruct (outq s) as [|p q] eqn:E.
    + exists []. now rewrite E, !app_nil_r.
    + match goal with |- context [packet_write f cb ?s2] => destruct (IH s2) as [extra Hx];
        destruct (fold_enqueue_all (cb p) (mkQ q (wire s ++ [p]) (in_cb s) (ext s) (want_reg s))) as [Hw Ho] end.
      rewrite Hx, Hw, Ho. cbn [wire outq]. exists (cb p ++ extra).
      rewrite <- !app_assoc. reflexivity.
Qed.

(* next iteration: once loop_write has drained the queue, everything that was queued - including the
   packet a callback queued earlier - is on the wire, in order *)
Lemma loop_write_writes_queue fuel cb s :
  outq (loop_write fuel cb s) = [] ->
  exists extra, wire (loop_write fuel cb s) = wire s ++ outq s ++ extra.
Proof.
  unfold loop_write. cbn [outq wire]. intro H.
  destruct (packet_write_prefix fuel cb s) as [extra Hx]. rewrite H, app_nil_r in Hx. eauto.
Qed.

(* enclosing iteration: the packets the completion callback of p publishes are written by the SAME
   _packet_write loop, after p and after what was already queued *)
Lemma packet_write_writes_callback_packets fuel cb s p q :
  outq s = p :: q ->
  outq (packet_write (S fuel) cb s) = [] ->
  exists extra, wire (packet_write (S fuel) cb s) = wire s ++ [p] ++ q ++ cb p ++ extra.
Proof.
  intros E H. cbn [packet_write] in *. rewrite E in *.
  match type of H with outq (packet_write fuel cb ?s2) = [] =>
    destruct (packet_write_prefix fuel cb s2) as [extra Hx];
    destruct (fold_enqueue_all (cb p) (mkQ q (wire s ++ [p]) (in_cb s) (ext s) (want_reg s))) as [Hw Ho] end.
  rewrite H, app_nil_r, Hw, Ho in Hx. cbn [wire outq] in Hx. exists extra. rewrite Hx.
  rewrite <- !app_assoc. reflexivity.
Qed.

Example written_next_nonvacuous :
  let cb := fun p => if N.eqb p 1 then [7%N] else [] in
  let s := mkQ [] [] false false false in
  wire (packet_queue 10 cb 1%N s) = [1%N; 7%N] /\ outq (packet_queue 10 cb 1%N s) = [].
Proof. split; reflexivity. Qed.
