(* C07.4: deadlock freedom by lock order.

   Generic part.  Any number of threads, each running a finite sequence of lock operations
   (Acq l / Rel l, anything else is Op).  A thread can execute Acq l iff no OTHER thread holds l (and, for a
   non-reentrant lock, it does not hold l itself).  [run_held] executes a program symbolically and checks the
   lock-order discipline: whenever l is acquired, every lock h already held is l itself (and l is reentrant) or
   has a strictly smaller rank.  [lock_ok_prog p] = the discipline holds along p and p ends holding nothing.

   THEOREM [no_lock_deadlock]: from an initial configuration whose programs all pass the check, no reachable
   configuration has an unfinished thread while every thread is blocked: some thread can always step.
   The "held while acquiring" relation of a program is [edges]; passing the check means that relation is
   contained in the strict order (rank), i.e. it is acyclic.

   Instance.  The lock skeletons of the threads of property C07 (publisher QoS 0, publisher QoS 1/2, the loop
   thread's handlers, the control thread), any number of each, loop handlers in any order and number.  The
   skeletons are transcribed from client.py; the harness compares every (held, acquired) pair it observes in
   the scheduler runs with [client_edges] through the extracted model. *)
From PahoV Require Import Base.Prelude Conc.Sched Conc.SchedLemmas.

Inductive lop : Type := Acq (l : nat) | Rel (l : nat) | Op.

Record lthread : Type := mkL { lprog : list lop; lheld : list nat }.

Section Generic.
  Variable rank : nat -> nat.
  Variable reent : nat -> bool.

  Fixpoint memn (x : nat) (l : list nat) : bool :=
    match l with [] => false | y :: r => Nat.eqb x y || memn x r end.

  Fixpoint remove1n (x : nat) (l : list nat) : list nat :=
    match l with [] => [] | y :: r => if Nat.eqb x y then r else y :: remove1n x r end.

  Definition acq_ok (held : list nat) (l : nat) : bool :=
    forallb (fun h => (Nat.eqb h l && reent l) || (rank h <? rank l)%nat) held.

  (* symbolic execution: final held set, or None if the discipline is violated *)
  Fixpoint run_held (held : list nat) (p : list lop) : option (list nat) :=
    match p with
    | [] => Some held
    | Op :: r => run_held held r
    | Acq l :: r => if acq_ok held l then run_held (l :: held) r else None
    | Rel l :: r => run_held (remove1n l held) r
    end.

  Definition state_ok (th : lthread) : Prop := run_held (lheld th) (lprog th) = Some [].
  Definition lock_ok_prog (p : list lop) : bool :=
    match run_held [] p with Some [] => true | _ => false end.

  (* the "held while acquiring" relation of a program *)
  Fixpoint edges_from (held : list nat) (p : list lop) : list (nat * nat) :=
    match p with
    | [] => []
    | Op :: r => edges_from held r
    | Acq l :: r => map (fun h => (h, l)) held ++ edges_from (l :: held) r
    | Rel l :: r => edges_from (remove1n l held) r
    end.
  Definition edges (p : list lop) : list (nat * nat) := edges_from [] p.

  (* ---------------------------------------------------------------- semantics *)
  Fixpoint others_hold (l t : nat) (C : list lthread) (i : nat) : bool :=
    match C with
    | [] => false
    | th :: r => (negb (Nat.eqb i t) && memn l (lheld th)) || others_hold l t r (S i)
    end.

  Definition blocked_acq (t : nat) (th : lthread) (l : nat) (C : list lthread) : bool :=
    others_hold l t C 0 || (memn l (lheld th) && negb (reent l)).

  Definition lstep_t (t : nat) (C : list lthread) : option (list lthread) :=
    match nth_error C t with
    | None => None
    | Some th =>
        match lprog th with
        | [] => None
        | Op :: r => Some (upd t (mkL r (lheld th)) C)
        | Acq l :: r => if blocked_acq t th l C then None else Some (upd t (mkL r (l :: lheld th)) C)
        | Rel l :: r => Some (upd t (mkL r (remove1n l (lheld th))) C)
        end
    end.

  Fixpoint lrun (s : list nat) (C : list lthread) : list lthread :=
    match s with
    | [] => C
    | t :: s' => lrun s' (match lstep_t t C with Some C' => C' | None => C end)
    end.

  (* ---------------------------------------------------------------- basic facts *)
  Lemma memn_In x l : memn x l = true <-> In x l.
  Proof.
    induction l as [|y r IH]; cbn; [split; [discriminate|contradiction]|].
    rewrite orb_true_iff, IH, Nat.eqb_eq. split; intros [H|H]; auto.
  Qed.

  Lemma remove1n_In x y l : In x (remove1n y l) -> In x l.
  Proof.
    induction l as [|z r IH]; cbn; [auto|]. destruct (Nat.eqb y z); cbn; [auto|]. intros [H|H]; auto.
  Qed.

  Lemma others_hold_spec l t C : forall i,
    others_hold l t C i = true <->
    exists j th, nth_error C j = Some th /\ (i + j)%nat <> t /\ In l (lheld th).
  Proof.
    induction C as [|th r IH]; intros i; cbn [others_hold].
    - split; [discriminate|]. intros (j & th & H & _). destruct j; discriminate.
    - rewrite orb_true_iff, andb_true_iff, negb_true_iff, Nat.eqb_neq, memn_In, IH. split.
      + intros [[H1 H2]|(j & th' & H1 & H2 & H3)].
        * exists O, th. cbn. rewrite Nat.add_0_r. auto.
        * exists (S j), th'. cbn. rewrite Nat.add_succ_r. auto.
      + intros (j & th' & H1 & H2 & H3). destruct j as [|j]; cbn in H1.
        * inversion H1; subst. left. rewrite Nat.add_0_r in H2. auto.
        * right. exists j, th'. rewrite Nat.add_succ_r in H2. auto.
  Qed.

  (* ---------------------------------------------------------------- invariants *)
  Definition all_ok (C : list lthread) : Prop := forall t th, nth_error C t = Some th -> state_ok th.
  Definition exclusive (C : list lthread) : Prop :=
    forall t1 t2 th1 th2 l, t1 <> t2 -> nth_error C t1 = Some th1 -> nth_error C t2 = Some th2 ->
      In l (lheld th1) -> In l (lheld th2) -> False.

  Lemma step_all_ok t C C' : all_ok C -> lstep_t t C = Some C' -> all_ok C'.
  Proof.
    intros Hok Hs. unfold lstep_t in Hs. destruct (nth_error C t) as [th|] eqn:Et; [|discriminate].
    pose proof (Hok t th Et) as Hth. unfold state_ok in Hth.
    destruct (lprog th) as [|[l|l|] r] eqn:Ep; try discriminate.
    - destruct (blocked_acq t th l C); [discriminate|]. inversion Hs; subst. intros j q Hq.
      apply nth_upd_inv in Hq as [[<- ->]|[Hn Hq]]; [|exact (Hok j q Hq)].
      unfold state_ok; cbn. cbn in Hth. destruct (acq_ok (lheld th) l); [assumption|discriminate].
    - inversion Hs; subst. intros j q Hq.
      apply nth_upd_inv in Hq as [[<- ->]|[Hn Hq]]; [|exact (Hok j q Hq)]. exact Hth.
    - inversion Hs; subst. intros j q Hq.
      apply nth_upd_inv in Hq as [[<- ->]|[Hn Hq]]; [|exact (Hok j q Hq)]. exact Hth.
  Qed.

  Lemma step_exclusive t C C' : exclusive C -> lstep_t t C = Some C' -> exclusive C'.
  Proof.
    intros Hex Hs. unfold lstep_t in Hs. destruct (nth_error C t) as [th|] eqn:Et; [|discriminate].
    destruct (lprog th) as [|[l|l|] r] eqn:Ep; try discriminate.
    - destruct (blocked_acq t th l C) eqn:Eb; [discriminate|]. inversion Hs; subst.
      apply orb_false_iff in Eb as [Eb _].
      intros t1 t2 th1 th2 x Hne H1 H2 I1 I2.
      apply nth_upd_inv in H1 as [[<- ->]|[N1 H1]]; apply nth_upd_inv in H2 as [[<- ->]|[N2 H2]].
      + contradiction.
      + cbn in I1. destruct I1 as [<-|I1]; [|exact (Hex t t2 th th2 x Hne Et H2 I1 I2)].
        assert (X : others_hold l t C 0 = true) by (apply others_hold_spec; exists t2, th2; cbn; auto).
        congruence.
      + cbn in I2. destruct I2 as [<-|I2]; [|exact (Hex t1 t th1 th x Hne H1 Et I1 I2)].
        assert (X : others_hold l t C 0 = true) by (apply others_hold_spec; exists t1, th1; cbn; auto).
        congruence.
      + exact (Hex t1 t2 th1 th2 x Hne H1 H2 I1 I2).
    - inversion Hs; subst. intros t1 t2 th1 th2 x Hne H1 H2 I1 I2.
      apply nth_upd_inv in H1 as [[<- ->]|[N1 H1]]; apply nth_upd_inv in H2 as [[<- ->]|[N2 H2]].
      + contradiction.
      + cbn in I1. apply remove1n_In in I1. exact (Hex t t2 th th2 x Hne Et H2 I1 I2).
      + cbn in I2. apply remove1n_In in I2. exact (Hex t1 t th1 th x Hne H1 Et I1 I2).
      + exact (Hex t1 t2 th1 th2 x Hne H1 H2 I1 I2).
    - inversion Hs; subst. intros t1 t2 th1 th2 x Hne H1 H2 I1 I2.
      apply nth_upd_inv in H1 as [[<- ->]|[N1 H1]]; apply nth_upd_inv in H2 as [[<- ->]|[N2 H2]].
      + contradiction.
      + cbn in I1. exact (Hex t t2 th th2 x Hne Et H2 I1 I2).
      + cbn in I2. exact (Hex t1 t th1 th x Hne H1 Et I1 I2).
      + exact (Hex t1 t2 th1 th2 x Hne H1 H2 I1 I2).
  Qed.

  Lemma lrun_inv s : forall C, all_ok C -> exclusive C -> all_ok (lrun s C) /\ exclusive (lrun s C).
  Proof.
    induction s as [|t s IH]; intros C H1 H2; cbn [lrun]; [auto|].
    destruct (lstep_t t C) as [C'|] eqn:E; [|auto].
    apply IH; [eapply step_all_ok; eassumption | eapply step_exclusive; eassumption].
  Qed.

  (* ---------------------------------------------------------------- the chain argument *)
  (* a thread that holds a lock is not finished *)
  Lemma holder_unfinished th l : state_ok th -> In l (lheld th) -> lprog th <> [].
  Proof. unfold state_ok. intros H Hin E. rewrite E in H. cbn in H. inversion H as [E']. rewrite E' in Hin. contradiction. Qed.

  Lemma acq_ok_spec held l h : acq_ok held l = true -> In h held -> (h = l /\ reent l = true) \/ (rank h < rank l)%nat.
  Proof.
    unfold acq_ok. rewrite forallb_forall. intros H Hin. specialize (H h Hin).
    apply orb_true_iff in H as [H|H].
    - apply andb_true_iff in H as [H1 H2]. apply Nat.eqb_eq in H1. auto.
    - apply Nat.ltb_lt in H. auto.
  Qed.

  (* from a thread blocked on a lock of rank >= B - d, following "is held by" reaches an enabled thread *)
  Lemma chain B C : all_ok C -> exclusive C -> (forall l, (rank l < B)%nat) ->
    forall d t th l r, (B - rank l <= d)%nat -> nth_error C t = Some th -> lprog th = Acq l :: r ->
      exists t', lstep_t t' C <> None.
  Proof.
    intros Hok Hex HB. induction d as [|d IH]; intros t th l r Hd Ht Hp.
    - specialize (HB l). lia.
    - destruct (lstep_t t C) as [C'|] eqn:Es; [exists t; congruence|].
      unfold lstep_t in Es. rewrite Ht, Hp in Es.
      destruct (blocked_acq t th l C) eqn:Eb; [|discriminate]. clear Es.
      pose proof (Hok t th Ht) as Hth. unfold state_ok in Hth. rewrite Hp in Hth. cbn in Hth.
      destruct (acq_ok (lheld th) l) eqn:Ea; [|discriminate].
      unfold blocked_acq in Eb. apply orb_true_iff in Eb as [Eb|Eb].
      + (* l is held by another thread t2 *)
        apply others_hold_spec in Eb as (t2 & th2 & H2 & Hne & Hin). cbn in Hne.
        pose proof (Hok t2 th2 H2) as Hth2.
        pose proof (holder_unfinished th2 l Hth2 Hin) as Hnf.
        destruct (lstep_t t2 C) as [C'|] eqn:Es2; [exists t2; congruence|].
        unfold lstep_t in Es2. rewrite H2 in Es2.
        destruct (lprog th2) as [|[l2|l2|] r2] eqn:Ep2; try contradiction; try discriminate.
        destruct (blocked_acq t2 th2 l2 C) eqn:Eb2; [|discriminate].
        unfold state_ok in Hth2. rewrite Ep2 in Hth2. cbn in Hth2.
        destruct (acq_ok (lheld th2) l2) eqn:Ea2; [|discriminate].
        destruct (acq_ok_spec _ _ _ Ea2 Hin) as [[-> Hre]|Hlt].
        * (* t2 wants the reentrant lock it already holds: nobody else can hold it *)
          exfalso. unfold blocked_acq in Eb2. rewrite Hre in Eb2. cbn in Eb2. rewrite andb_false_r, orb_false_r in Eb2.
          apply others_hold_spec in Eb2 as (t3 & th3 & H3 & Hne3 & Hin3). cbn in Hne3.
          exact (Hex t2 t3 th2 th3 l2 (fun E => Hne3 (eq_sym E)) H2 H3 Hin Hin3).
        * apply (IH t2 th2 l2 r2); [lia | assumption | assumption].
      + (* non-reentrant lock already held by the thread itself: excluded by the discipline *)
        apply andb_true_iff in Eb as [Em Er]. apply memn_In in Em. apply negb_true_iff in Er.
        destruct (acq_ok_spec _ _ _ Ea Em) as [[_ Hre]|Hlt]; [congruence|lia].
  Qed.

  Theorem no_lock_deadlock_conf B C : all_ok C -> exclusive C -> (forall l, (rank l < B)%nat) ->
    (exists t th, nth_error C t = Some th /\ lprog th <> []) ->
    exists t', lstep_t t' C <> None.
  Proof.
    intros Hok Hex HB (t & th & Ht & Hnf).
    destruct (lprog th) as [|[l|l|] r] eqn:Ep; [contradiction| | |].
    - eapply (chain B C Hok Hex HB (B - rank l) t th l r); [lia | assumption | assumption].
    - exists t. unfold lstep_t. rewrite Ht, Ep. discriminate.
    - exists t. unfold lstep_t. rewrite Ht, Ep. discriminate.
  Qed.

  Definition start (ps : list (list lop)) : list lthread := map (fun p => mkL p []) ps.

  Lemma start_ok ps : forallb lock_ok_prog ps = true -> all_ok (start ps) /\ exclusive (start ps).
  Proof.
    intros H. rewrite forallb_forall in H. split.
    - intros t th Ht. unfold start in Ht. apply nth_error_In in Ht. apply in_map_iff in Ht as [p [<- Hp]].
      specialize (H p Hp). unfold lock_ok_prog in H. unfold state_ok; cbn.
      destruct (run_held [] p) as [[|]|]; try discriminate; reflexivity.
    - intros t1 t2 th1 th2 l _ H1 _ I1 _. unfold start in H1. apply nth_error_In in H1.
      apply in_map_iff in H1 as [p [<- _]]. cbn in I1. contradiction.
  Qed.

  (* every schedule, any number of threads: while some thread is unfinished, some thread can step *)
  Theorem no_lock_deadlock B ps s : forallb lock_ok_prog ps = true -> (forall l, (rank l < B)%nat) ->
    let C := lrun s (start ps) in
    (exists t th, nth_error C t = Some th /\ lprog th <> []) -> exists t', lstep_t t' C <> None.
  Proof.
    intros Hps HB C Hun. destruct (start_ok ps Hps) as [H1 H2].
    destruct (lrun_inv s (start ps) H1 H2) as [H3 H4]. eapply no_lock_deadlock_conf; eassumption.
  Qed.

  (* the check says exactly that the held-while-acquiring relation goes up in rank (hence is acyclic) *)
  Lemma edges_ranked : forall p held, run_held held p <> None ->
    forall h l, In (h, l) (edges_from held p) -> (h = l /\ reent l = true) \/ (rank h < rank l)%nat.
  Proof.
    induction p as [|[l|l|] r IH]; intros held Hr h x Hin; cbn in *.
    - contradiction.
    - destruct (acq_ok held l) eqn:Ea; [|congruence]. apply in_app_or in Hin as [Hin|Hin].
      + apply in_map_iff in Hin as [h' [E Hh]]. inversion E; subst. eapply acq_ok_spec; eassumption.
      + eapply IH; eassumption.
    - eapply IH; eassumption.
    - eapply IH; eassumption.
  Qed.

  (* composition: balanced programs can be concatenated *)
  Lemma run_held_app p1 : forall held p2, run_held held (p1 ++ p2) =
    match run_held held p1 with Some h => run_held h p2 | None => None end.
  Proof.
    induction p1 as [|[l|l|] r IH]; intros held p2; cbn; try apply IH; [reflexivity|].
    destruct (acq_ok held l); [apply IH|reflexivity].
  Qed.

  Lemma lock_ok_app p1 p2 : lock_ok_prog p1 = true -> lock_ok_prog p2 = true -> lock_ok_prog (p1 ++ p2) = true.
  Proof.
    unfold lock_ok_prog. rewrite run_held_app. destruct (run_held [] p1) as [[|]|]; try discriminate. auto.
  Qed.

  Lemma lock_ok_concat ps : forallb lock_ok_prog ps = true -> lock_ok_prog (concat ps) = true.
  Proof.
    induction ps as [|p r IH]; cbn; [reflexivity|]. intros H. apply andb_true_iff in H as [H1 H2].
    apply lock_ok_app; auto.
  Qed.
End Generic.

(* ------------------------------------------------------------------ the client's locks *)
Definition L_mid : nat := 0.        (* _mid_generate_mutex   Lock  *)
Definition L_out : nat := 1.        (* _out_message_mutex    RLock *)
Definition L_incb : nat := 2.       (* _in_callback_mutex    Lock  *)
Definition L_cb : nat := 3.         (* _callback_mutex       RLock *)
Definition L_time : nat := 4.       (* _msgtime_mutex        Lock  *)
Definition L_inmsg : nat := 5.      (* _in_message_mutex     Lock  *)
Definition L_delay : nat := 6.      (* _reconnect_delay_mutex Lock *)
Definition L_cond : nat := 7.       (* MQTTMessageInfo._condition (RLock inside Condition) *)

Definition client_reent (l : nat) : bool := Nat.eqb l L_out || Nat.eqb l L_cb || Nat.eqb l L_cond.

(* _out_message_mutex  <  _in_callback_mutex  <  every lock that is only ever taken innermost *)
Definition client_rank (l : nat) : nat :=
  if Nat.eqb l L_out then 0 else if Nat.eqb l L_incb then 1 else 2.

Definition with_lock (l : nat) (body : list lop) : list lop := Acq l :: body ++ [Rel l].

(* _call_socket_register_write / _call_socket_unregister_write / reading a callback attribute *)
Definition sk_cb : list lop := with_lock L_cb [Op].
(* _mid_generate *)
Definition sk_mid : list lop := with_lock L_mid [Op; Op; Op; Op; Op].
(* _packet_queue while the loop thread exists: append, wake byte, _call_socket_register_write *)
Definition sk_queue : list lop := [Op; Op; Op] ++ sk_cb.
(* a user callback invoked by the library *)
Definition sk_callback : list lop := sk_cb ++ with_lock L_incb [Op].
(* MQTTMessageInfo._set_as_published *)
Definition sk_published : list lop := with_lock L_cond [Op].

(* publish() QoS 0 *)
Definition sk_pub0 : list lop := sk_mid ++ [Op] ++ sk_queue.
(* publish() QoS 1/2: everything after _mid_generate is under _out_message_mutex *)
Definition sk_pub12 : list lop := sk_mid ++ with_lock L_out ([Op; Op; Op] ++ sk_queue).
(* _loop: want_write, select, drain, loop_write -> _packet_write of one QoS 0 PUBLISH, loop_misc *)
Definition sk_loop_write : list lop :=
  [Op; Op; Op; Op; Op] ++ sk_callback ++ sk_published ++ with_lock L_time [Op] ++ sk_cb ++ with_lock L_time [Op].
(* _loop: loop_read of PUBACK / PUBCOMP: _handle_pubackcomp -> _do_on_publish -> _update_inflight -> _send_publish *)
Definition sk_loop_ack : list lop :=
  [Op; Op; Op] ++ with_lock L_time [Op] ++
  with_lock L_out (sk_callback ++ [Op] ++ sk_published ++ sk_queue) ++ with_lock L_time [Op].
(* _loop: loop_read of PUBREC: _handle_pubrec -> _send_pubrel *)
Definition sk_loop_rec : list lop :=
  [Op; Op; Op] ++ with_lock L_time [Op] ++ with_lock L_out ([Op] ++ sk_queue) ++ with_lock L_time [Op].
(* _loop: loop_read of CONNACK: on_connect, then retransmission under _out_message_mutex with
   _in_callback_mutex held around _send_publish and loop_write() after each message *)
Definition sk_loop_connack : list lop :=
  [Op; Op; Op] ++ with_lock L_time [Op] ++ sk_callback ++
  with_lock L_out (with_lock L_incb sk_queue ++ [Op; Op] ++ sk_callback ++ sk_published ++ with_lock L_time [Op] ++ sk_cb).
(* reconnect() *)
Definition sk_reconnect : list lop :=
  [Op; Op; Op; Op] ++ with_lock L_time [Op] ++ with_lock L_out [Op] ++ with_lock L_inmsg [Op] ++ sk_cb ++
  [Op] ++ sk_cb ++ sk_queue.
(* connection lost: _loop_rc_handle -> on_disconnect; _reconnect_wait *)
Definition sk_lost : list lop := [Op] ++ sk_cb ++ sk_callback ++ with_lock L_delay [Op].
(* disconnect() and loop_stop() *)
Definition sk_control : list lop := [Op] ++ sk_queue ++ [Op; Op].

Definition loop_handlers : list (list lop) :=
  [sk_loop_write; sk_loop_ack; sk_loop_rec; sk_loop_connack; sk_reconnect; sk_lost].

(* the loop thread: any sequence of handlers (chosen by index) *)
Definition sk_loop (hs : list nat) : list lop :=
  concat (map (fun i => nth i loop_handlers []) hs).

(* n0 QoS 0 publishers with k0 messages each, n12 QoS>0 publishers with k12 messages each, the loop thread, control *)
Definition client_threads (n0 k0 n12 k12 : nat) (hs : list nat) : list (list lop) :=
  repeat (concat (repeat sk_pub0 k0)) n0 ++ repeat (concat (repeat sk_pub12 k12)) n12 ++ [sk_loop hs; sk_control].

Definition lk := lock_ok_prog client_rank client_reent.

Lemma handlers_ok : forallb lk loop_handlers = true.
Proof. vm_compute. reflexivity. Qed.

Lemma forallb_repeat {A} (f : A -> bool) x n : f x = true -> forallb f (repeat x n) = true.
Proof. intros H. induction n; cbn; [reflexivity|]. now rewrite H, IHn. Qed.

Lemma sk_loop_ok hs : lk (sk_loop hs) = true.
Proof.
  unfold sk_loop, lk. apply lock_ok_concat. induction hs as [|i hs IH]; cbn [map forallb]; [reflexivity|].
  rewrite IH, andb_true_r.
  pose proof handlers_ok as H. unfold lk in H. rewrite forallb_forall in H.
  destruct (Nat.lt_ge_cases i (length loop_handlers)) as [Hlt|Hge].
  - apply H. apply nth_In. assumption.
  - rewrite nth_overflow by assumption. reflexivity.
Qed.

Lemma client_threads_ok n0 k0 n12 k12 hs : forallb lk (client_threads n0 k0 n12 k12 hs) = true.
Proof.
  unfold client_threads. rewrite !forallb_app. cbn [forallb].
  rewrite sk_loop_ok. unfold lk.
  assert (H0 : lock_ok_prog client_rank client_reent (concat (repeat sk_pub0 k0)) = true)
    by (apply lock_ok_concat, forallb_repeat; vm_compute; reflexivity).
  assert (H12 : lock_ok_prog client_rank client_reent (concat (repeat sk_pub12 k12)) = true)
    by (apply lock_ok_concat, forallb_repeat; vm_compute; reflexivity).
  rewrite (forallb_repeat _ _ n0 H0), (forallb_repeat _ _ n12 H12).
  vm_compute. reflexivity.
Qed.

Lemma client_rank_bound l : (client_rank l < 3)%nat.
Proof. unfold client_rank. destruct (Nat.eqb l L_out); [lia|]. destruct (Nat.eqb l L_incb); lia. Qed.

(* deadlock freedom of the modelled client threads: any number of publishers of either kind, any number of
   messages, the loop thread running any sequence of its handlers, the control thread; every schedule *)
Theorem client_no_lock_deadlock n0 k0 n12 k12 hs s :
  let C := lrun client_reent s (start (client_threads n0 k0 n12 k12 hs)) in
  (exists t th, nth_error C t = Some th /\ lprog th <> []) ->
  exists t', lstep_t client_reent t' C <> None.
Proof.
  intros C. apply (no_lock_deadlock client_rank client_reent 3).
  - apply client_threads_ok.
  - apply client_rank_bound.
Qed.

(* the held-while-acquiring relation of the skeletons (what the harness compares its observations with) *)
Definition client_edges : list (nat * nat) :=
  flat_map edges (sk_pub0 :: sk_pub12 :: sk_control :: loop_handlers).

Fixpoint dedup (l : list (nat * nat)) : list (nat * nat) :=
  match l with
  | [] => []
  | x :: r => if existsb (fun y => Nat.eqb (fst x) (fst y) && Nat.eqb (snd x) (snd y)) r then dedup r else x :: dedup r
  end.

Lemma client_edges_value :
  dedup client_edges = [(L_incb, L_cb); (L_out, L_incb); (L_out, L_cond); (L_out, L_time); (L_out, L_cb)].
Proof. vm_compute. reflexivity. Qed.

Theorem client_edges_acyclic : forall h l, In (h, l) client_edges ->
  (h = l /\ client_reent l = true) \/ (client_rank h < client_rank l)%nat.
Proof.
  intros h l Hin. unfold client_edges in Hin. apply in_flat_map in Hin as [p [Hp Hin]].
  apply (edges_ranked client_rank client_reent p []); [|exact Hin].
  assert (X : forallb lk (sk_pub0 :: sk_pub12 :: sk_control :: loop_handlers) = true) by (vm_compute; reflexivity).
  rewrite forallb_forall in X. specialize (X p Hp). unfold lk, lock_ok_prog in X.
  destruct (run_held client_rank client_reent [] p); [discriminate|discriminate X].
Qed.

(* integer interface: the relation as a flat list h1 l1 h2 l2 ... *)
Definition entry_lock_edges (_ : list Z) : list Z :=
  flat_map (fun e => [Z.of_nat (fst e); Z.of_nat (snd e)]) (dedup client_edges).
