(* Generic soundness of the lock-graph checker, proved once for every program:
   a set of abstract states that contains the entry states and is closed under the
   successor function covers every configuration reachable by executions of any length
   and any callback -> API -> callback nesting depth. *)
From PahoV Require Import Base.Prelude Conc.LockGraph.
Open Scope N_scope.

(* ------------------------------------------------------------------ equality tests *)
Lemma pair_eqb_eq a b : pair_eqb a b = true -> a = b.
Proof.
  destruct a as [a1 a2], b as [b1 b2]; unfold pair_eqb; cbn [fst snd]; intro H.
  destruct (N.eqb a1 b1) eqn:H1; [|discriminate]. apply N.eqb_eq in H1, H. congruence.
Qed.

Lemma ctx_eqb_eq a b : ctx_eqb a b = true -> a = b.
Proof.
  destruct a, b; cbn [ctx_eqb]; intro H; try discriminate; [|reflexivity].
  apply pair_eqb_eq in H. congruence.
Qed.

Lemma ctx_eqb_refl a : ctx_eqb a a = true.
Proof. destruct a as [[x y]|]; cbn [ctx_eqb]; [|reflexivity]. unfold pair_eqb; cbn [fst snd]. now rewrite !N.eqb_refl. Qed.

Lemma why_eqb_eq a b : why_eqb a b = true -> a = b.
Proof. destruct a, b; cbn [why_eqb]; intro H; try discriminate; apply N.eqb_eq in H; congruence. Qed.

Lemma site_eqb_eq a b : site_eqb a b = true -> a = b.
Proof.
  destruct a as [[c1 y1] m1], b as [[c2 y2] m2]; cbn [site_eqb]; intro H3.
  destruct (ctx_eqb c1 c2) eqn:H1; [|discriminate]. destruct (why_eqb y1 y2) eqn:H2; [|discriminate].
  apply ctx_eqb_eq in H1. apply why_eqb_eq in H2. apply N.eqb_eq in H3. congruence.
Qed.

Lemma mem_site_In t K : mem_site t K = true -> In t K.
Proof.
  unfold mem_site; intro H. apply existsb_exists in H as [x [Hx He]].
  apply site_eqb_eq in He. congruence.
Qed.

Lemma mem_pair_In x l : mem_pair x l = true -> In x l.
Proof.
  induction l as [|y r IH]; cbn [mem_pair]; [discriminate|].
  destruct (pair_eqb x y) eqn:E; [intros _; left; symmetry; apply pair_eqb_eq; assumption | intro H; right; auto].
Qed.

Lemma idx_mem_In s Ix : idx_mem s Ix = true -> In s (idx_states Ix).
Proof.
  induction Ix as [|[c l] r IH]; cbn [idx_mem]; [discriminate|].
  intro H. unfold idx_states; cbn [flat_map]. apply in_or_app.
  destruct (ctx_eqb c (snd s)) eqn:Hc; [|right; apply IH; assumption].
  destruct (mem_pair (fst s) l) eqn:Hl; [|right; apply IH; assumption].
  left. apply ctx_eqb_eq in Hc. apply mem_pair_In in Hl.
  apply in_map_iff. exists (fst s). split; [|assumption]. cbn [fst snd].
  destruct s as [[m H'] cx]; cbn [fst snd] in *. rewrite Hc. reflexivity.
Qed.

(* ------------------------------------------------------------------ held multiset vs bit mask *)
Lemma testbit_set_of h l : N.testbit (set_of h) l = memN l h.
Proof.
  induction h as [|x h IH]; cbn [set_of fold_right memN existsb].
  - apply N.bits_0.
  - fold (set_of h). rewrite N.setbit_eqb, IH. unfold memN. now rewrite (N.eqb_sym l x).
Qed.

(* ------------------------------------------------------------------ the invariant *)
Section Sound.
  Variable P : params.
  Variable K : list site.       (* stuck sites that are allowed (known) *)
  Variable Ix : index.
  Hypothesis Hclosed : closedb P K Ix = true.

  Definition out_ok (o : out) : Prop :=
    match o with OState s => In s (idx_states Ix) | OStuck t => In t K end.

  Definition act_ok (m : N) (H : N) (cx : option (N * N)) (a : act) : Prop :=
    forall o, In o (walk_act P m cx H a) -> out_ok o.

  Fixpoint cont_inv (h : list N) (c : list (N * N)) (k : list item) {struct k} : Prop :=
    match k with
    | [] => True
    | Do m a :: k' => act_ok m (set_of h) (hd_error c) a /\ cont_inv h c k'
    | Rel l :: k' => cont_inv (remove1 l h) c k'
    | Pop :: k' => cont_inv h (tl c) k'
    end.

  Definition inv (cfg : config) : Prop := let '(h, c, k) := cfg in cont_inv h c k.

  Lemma out_okb_ok o : out_okb K Ix o = true -> out_ok o.
  Proof. destruct o; cbn [out_okb out_ok]; [apply idx_mem_In | apply mem_site_In]. Qed.

  Lemma entries_in e : In e (p_entries P) -> In (e, 0, None) (idx_states Ix).
  Proof.
    intro He. unfold closedb in Hclosed. apply andb_true_iff in Hclosed as [H1 _].
    rewrite forallb_forall in H1. apply idx_mem_In. apply H1; assumption.
  Qed.

  Lemma member_body_ok m H cx :
    In (m, H, cx) (idx_states Ix) -> forall a, In a (body_of P m) -> act_ok m H cx a.
  Proof.
    intros Hin a Ha o Ho. unfold closedb in Hclosed. apply andb_true_iff in Hclosed as [_ H2].
    rewrite forallb_forall in H2. specialize (H2 _ Hin). rewrite forallb_forall in H2.
    apply out_okb_ok. apply H2. unfold outs_of. apply in_flat_map. exists a; split; assumption.
  Qed.

  Lemma cont_inv_app_do m h c b k :
    (forall a, In a b -> act_ok m (set_of h) (hd_error c) a) ->
    cont_inv h c k -> cont_inv h c (map (Do m) b ++ k).
  Proof.
    induction b as [|a b IH]; intros Hb Hk; cbn [map app cont_inv]; [assumption|].
    split; [apply Hb; left; reflexivity | apply IH; [intros; apply Hb; right; assumption | assumption]].
  Qed.

  Lemma flat_map_ok m H cx b :
    (forall o, In o (flat_map (walk_act P m cx H) b) -> out_ok o) ->
    forall a, In a b -> act_ok m H cx a.
  Proof. intros Hall a Ha o Ho. apply Hall. apply in_flat_map. exists a; split; assumption. Qed.

  Lemma step_inv cfg cfg' : step P cfg cfg' -> inv cfg -> inv cfg'.
  Proof.
    intros Hs; destruct Hs; unfold inv; cbn [cont_inv].
    - (* skip *) intros [_ Hk]; assumption.
    - (* acq *) intros [Ha Hk].
      apply cont_inv_app_do.
      + unfold act_ok in Ha. cbn [walk_act] in Ha. rewrite testbit_set_of, H in Ha.
        cbn [set_of fold_right]. fold (set_of h). apply flat_map_ok; assumption.
      + cbn [cont_inv remove1]. rewrite N.eqb_refl. assumption.
    - (* rel *) intro; assumption.
    - (* try *) intros [Ha Hk]. apply cont_inv_app_do; [|assumption].
      unfold act_ok in Ha. cbn [walk_act] in Ha. rewrite testbit_set_of, H in Ha.
      apply flat_map_ok; assumption.
    - (* ifcb *) intros [Ha Hk]. apply cont_inv_app_do; [|assumption].
      unfold act_ok in Ha. cbn [walk_act] in Ha. rewrite H in Ha. apply flat_map_ok; assumption.
    - (* call *) intros [Ha Hk]. apply cont_inv_app_do; [|assumption].
      apply member_body_ok. apply (Ha (OState (m', set_of h, hd_error c))). cbn [walk_act]. left; reflexivity.
    - (* user callback makes an API call *) intros [Ha Hk]. cbn [hd_error tl]. repeat split; try assumption.
      intros o Ho. cbn [walk_act] in Ho. destruct Ho as [<-|[]].
      apply Ha. cbn [walk_act]. rewrite H. apply in_map_iff. exists a. split; [reflexivity|].
      unfold memN in H0. apply existsb_exists in H0 as [x [Hx He]]. apply N.eqb_eq in He. congruence.
    - (* pop *) cbn [tl]. intro; assumption.
  Qed.

  Lemma init_inv e : In e (p_entries P) -> inv (init e).
  Proof.
    intro He. unfold inv, init. cbn [cont_inv]. split; [|exact I].
    intros o Ho. cbn [walk_act set_of fold_right hd_error] in Ho. destruct Ho as [<-|[]].
    cbn [out_ok]. apply entries_in; assumption.
  Qed.

  Lemma reachable_inv cfg : reachable P cfg -> inv cfg.
  Proof.
    intros [e [He Hstar]]. remember (init e) as c0 eqn:E0. induction Hstar.
    - subst. apply init_inv; assumption.
    - eapply step_inv; [eassumption | apply IHHstar; assumption].
  Qed.

  Lemma inv_stuck cfg t : inv cfg -> stuck_info P cfg = Some t -> In t K.
  Proof.
    destruct cfg as [[h c] k]. unfold inv, stuck_info.
    destruct k as [|[m a| |] k]; try discriminate.
    destruct a; try discriminate; cbn [cont_inv]; intros [Ha _] Ht.
    - destruct (plainb P l && memN l h) eqn:E; [|discriminate]. inversion Ht; subst.
      apply (Ha (OStuck (hd_error c, WLock l, m))). cbn [walk_act]. rewrite testbit_set_of, E. left; reflexivity.
    - inversion Ht; subst. apply (Ha (OStuck (hd_error c, WBlock w, m))). cbn [walk_act]. left; reflexivity.
  Qed.

  (* every reachable stuck configuration is stuck at an allowed site *)
  Theorem closed_sound_sites : forall cfg t, reachable P cfg -> stuck_info P cfg = Some t -> In t K.
  Proof. intros cfg t Hr Hs. eapply inv_stuck; [apply reachable_inv; eassumption | eassumption]. Qed.
End Sound.

(* verified decision procedure: a closed set with NO allowed stuck site proves deadlock freedom *)
Theorem closed_sound P Ix : closedb P [] Ix = true -> no_stuck_reachable P.
Proof.
  intros Hc cfg Hr. destruct (stuck_info P cfg) as [t|] eqn:E; [|reflexivity].
  exfalso. exact (closed_sound_sites P [] Ix Hc cfg t Hr E).
Qed.

(* ------------------------------------------------------------------ replaying a witness *)
Lemma step_by_sound P ch cfg cfg' : step_by P ch cfg = Some cfg' -> step P cfg cfg'.
Proof.
  destruct cfg as [[h c] k]. unfold step_by.
  destruct ch as [| |ap]; destruct k as [|[m a|l|] k]; try discriminate.
  - intro H; inversion H; subst. apply s_skip.
  - destruct a; try discriminate.
    + destruct (plainb P l && memN l h) eqn:E; [discriminate|]. intro H; inversion H; subst. apply s_acq; assumption.
    + destruct (memN l h) eqn:E; [discriminate|]. intro H; inversion H; subst. apply s_try; assumption.
    + destruct (memN c0 (p_inst P)) eqn:E; [|discriminate]. intro H; inversion H; subst. apply s_ifcb; assumption.
    + intro H; inversion H; subst. apply s_call.
  - intro H; inversion H; subst. apply s_rel.
  - destruct c as [|x c]; [discriminate|]. intro H; inversion H; subst. apply s_pop.
  - destruct a; try discriminate.
    destruct (memN c0 (p_inst P) && memN ap (p_apis P)) eqn:E; [|discriminate].
    apply andb_true_iff in E as [E1 E2]. intro H; inversion H; subst. apply s_cb; assumption.
Qed.

Lemma star_trans P x y z : star P x y -> star P y z -> star P x z.
Proof.
  intros Hxy Hyz. induction Hyz as [a|a b c Hab IH Hbc]; [assumption|].
  apply (star_step P x b c); [apply IH; assumption | assumption].
Qed.

Lemma run_by_sound P chs : forall cfg cfg', run_by P chs cfg = Some cfg' -> star P cfg cfg'.
Proof.
  induction chs as [|ch r IH]; intros cfg cfg'; cbn [run_by].
  - intro H; inversion H; subst. apply star_refl.
  - destruct (step_by P ch cfg) as [c1|] eqn:E; [|discriminate]. intro H.
    eapply star_trans; [|apply IH; eassumption].
    eapply star_step; [apply star_refl | apply (step_by_sound P ch); eassumption].
Qed.

Lemma check_witness_sound P t w :
  check_witness P t w = true -> exists cfg, reachable P cfg /\ stuck_info P cfg = Some t.
Proof.
  unfold check_witness. intro H. apply andb_true_iff in H as [He H].
  destruct (run_by P (snd w) (init (fst w))) as [cfg|] eqn:E; [|discriminate].
  destruct (stuck_info P cfg) as [t'|] eqn:Es; [|discriminate].
  apply site_eqb_eq in H. subst t'. exists cfg. split; [|assumption].
  exists (fst w). split; [|apply (run_by_sound P (snd w)); assumption].
  unfold memN in He. apply existsb_exists in He as [x [Hx Hq]]. apply N.eqb_eq in Hq. congruence.
Qed.

Lemma all_witnessed_sound P fuel K :
  all_witnessed P fuel K = true ->
  forall t, In t K -> exists cfg, reachable P cfg /\ stuck_info P cfg = Some t.
Proof.
  unfold all_witnessed. intros H t Ht. rewrite forallb_forall in H. specialize (H t Ht).
  destruct (witness P (explore_tree P fuel) t) as [w|]; [|discriminate].
  eapply check_witness_sound; eassumption.
Qed.
