(* M3 Link / writer side (property C06).  Model only, no proofs.
   Transliteration of src/paho/mqtt/client.py:
     _sock_send 1108-1121, loop_write 2107-2135, want_write 2137-2141, _packet_write 3167-3250,
     _packet_queue 3772-3808, _call_socket_register_write / _call_socket_unregister_write 2911-2981,
     _sock_close 1122-1135, _loop_rc_handle 3042-3060 (socket part).
   The transport under _sock_send is a parameter (T, tsend): the raw socket is [raw_send] below,
   the WebSocket wrapper is Link/WsWriter.v. *)
From PahoV Require Import Base.Prelude.

(* what _packet_write looks at in packet['command'] / packet['qos'] *)
Inductive pkind := KPub0 (* PUBLISH with qos 0 *) | KDisc (* DISCONNECT *) | KOther | KConn (* CONNECT: queued at the head *).

Record opkt := mkpkt {
  p_bytes : list Z;      (* packet['packet'] *)
  p_pos : Z;             (* packet['pos'] *)
  p_top : Z;             (* packet['to_process'] *)
  p_kind : pkind;
  p_id : Z;              (* names packet['info'] (the MQTTMessageInfo) / the packet itself *)
  p_cbraise : bool       (* oracle: the user's on_publish raises when called for this packet *)
}.

(* outcome of one send() on the raw socket *)
Inductive outcome :=
| Accept (k : Z)         (* returns min(max(k,0), len(offered)) *)
| Block                  (* raises BlockingIOError (also ssl want-read/want-write) *)
| Fail                   (* raises OSError *)
| FailV.                 (* raises ValueError / AttributeError *)

Inductive sendres := SWrote (n : Z) | SBlock | SFail | SFailV.

Inductive event :=
| Wire (bs : list Z)     (* bytes accepted by the raw socket in one send() *)
| Acc (bs : list Z)      (* ghost: the bytes _packet_write counts as written (write_length bytes from pos) *)
| CbPublish (id : Z)     (* on_publish called for QoS 0 packet id *)
| SetPublished (id : Z)  (* packet['info']._set_as_published() *)
| RegW                   (* _registered_write False -> True (on_socket_register_write called if installed) *)
| UnregW                 (* _registered_write True -> False (on_socket_unregister_write called if installed) *)
| CbDisconnect           (* _do_on_disconnect *)
| SockClose.             (* _sock_close on an open socket *)

Inductive rcode := RcSuccess | RcAgain | RcConnLost | RcNoConn | RcRaised | RcOutOfFuel.

Record cfg := mkcfg {
  c_ext : bool;          (* on_socket_register_write installed or loop thread running: _packet_queue does not write *)
  c_onpub : bool;        (* on_publish installed *)
  c_suppress : bool      (* suppress_exceptions *)
}.

(* an exhausted schedule accepts everything (like vlib.impl.FakeSock) *)
Definition next_outcome (offered : Z) (s : list outcome) : outcome * list outcome :=
  match s with
  | [] => (Accept offered, [])
  | o :: s' => (o, s')
  end.

Definition zlen (l : list Z) : Z := Z.of_nat (length l).
Definition clip (k n : Z) : Z := Z.max 0 (Z.min k n).
Definition zskip (n : Z) (l : list Z) : list Z := skipn (Z.to_nat n) l.
Definition ztake (n : Z) (l : list Z) : list Z := firstn (Z.to_nat n) l.

(* the raw socket as a transport: no state *)
Definition raw_send (t : unit) (data : list Z) (s : list outcome)
  : sendres * unit * list Z * list outcome :=
  let '(o, s') := next_outcome (zlen data) s in
  match o with
  | Accept k => let n := clip k (zlen data) in (SWrote n, tt, ztake n data, s')
  | Block => (SBlock, tt, [], s')
  | Fail => (SFail, tt, [], s')
  | FailV => (SFailV, tt, [], s')
  end.

Section Generic.
Variable T : Type.
Variable tsend : T -> list Z -> list outcome -> sendres * T * list Z * list outcome.

Record wstate := mkst {
  outq : list opkt;      (* _out_packet, head = left *)
  sock : bool;           (* _sock is not None *)
  regw : bool;           (* _registered_write *)
  connq : bool;          (* _connect_queued: the CONNECT of this connection has been queued *)
  tst : T                (* state of the transport object in _sock *)
}.

Definition set_outq st q := mkst q (sock st) (regw st) (connq st) (tst st).
Definition set_tst st t := mkst (outq st) (sock st) (regw st) (connq st) t.

(* if not self._sock or self._registered_write: return; self._registered_write = True; callback *)
Definition call_reg_write (st : wstate) : wstate * list event :=
  if negb (sock st) || regw st then (st, [])
  else (mkst (outq st) (sock st) true (connq st) (tst st), [RegW]).

(* sock = sock or self._sock; if not sock or not self._registered_write: return; flag = False; callback *)
Definition call_unreg_write (have_sock : bool) (st : wstate) : wstate * list event :=
  if negb have_sock || negb (regw st) then (st, [])
  else (mkst (outq st) (sock st) false (connq st) (tst st), [UnregW]).

(* if not self._sock: return; sock = self._sock; self._sock = None; unregister_write(sock); on_socket_close; close *)
Definition sock_close (st : wstate) : wstate * list event :=
  if negb (sock st) then (st, [])
  else let '(st1, ev) := call_unreg_write true (mkst (outq st) false (regw st) (connq st) (tst st)) in
       (st1, ev ++ [SockClose]).

Definition wire_ev (raw : list Z) : list event :=
  match raw with [] => [] | _ => [Wire raw] end.

(* _sock_send *)
Definition sock_send (st : wstate) (data : list Z) (s : list outcome)
  : sendres * wstate * list event * list outcome :=
  if negb (sock st) then (SFail, st, [], s)          (* ConnectionError("self._sock is None") is an OSError *)
  else
    let '(r, t', raw, s') := tsend (tst st) data s in
    let st1 := set_tst st t' in
    match r with
    | SBlock => let '(st2, ev) := call_reg_write st1 in (SBlock, st2, wire_ev raw ++ ev, s')
    | _ => (r, st1, wire_ev raw, s')
    end.

Definition offered (p : opkt) : list Z := zskip (p_pos p) (p_bytes p).

Definition advance (p : opkt) (n : Z) : opkt :=
  mkpkt (p_bytes p) (p_pos p + n) (p_top p - n) (p_kind p) (p_id p) (p_cbraise p).

Definition is_pub0 (p : opkt) : bool := match p_kind p with KPub0 => true | _ => false end.
Definition is_disc (p : opkt) : bool := match p_kind p with KDisc => true | _ => false end.
Definition is_conn (p : opkt) : bool := match p_kind p with KConn => true | _ => false end.

(* the QoS 0 branch: on_publish (may raise), then info._set_as_published().  None = exception propagates *)
Definition pub0_events (c : cfg) (p : opkt) : list event * bool (* raised *) :=
  if is_pub0 p then
    if c_onpub c then
      if p_cbraise p && negb (c_suppress c) then ([CbPublish (p_id p)], true)
      else ([CbPublish (p_id p); SetPublished (p_id p)], false)
    else ([SetPublished (p_id p)], false)
  else ([], false).

(* measure bounding the iterations of `while True`: every iteration that continues either removes a
   packet from the queue or advances pos of the head by at least one byte *)
Definition pkt_measure (p : opkt) : nat := S (length (offered p)).
Fixpoint q_measure (q : list opkt) : nat :=
  match q with [] => O | p :: q' => (pkt_measure p + q_measure q')%nat end.

Fixpoint packet_write_fuel (fuel : nat) (c : cfg) (st : wstate) (s : list outcome)
  : wstate * list event * rcode * list outcome :=
  match fuel with
  | O => (st, [], RcOutOfFuel, s)
  | S fuel' =>
    match outq st with
    | [] => (st, [], RcSuccess, s)                               (* except IndexError: return SUCCESS *)
    | p :: q =>
      let st0 := set_outq st q in                                (* popleft *)
      let '(r, st1, ev1, s1) := sock_send st0 (offered p) s in
      let requeue := set_outq st1 (p :: outq st1) in             (* appendleft(packet) *)
      match r with
      | SFailV => (requeue, ev1, RcSuccess, s1)
      | SBlock => (requeue, ev1, RcAgain, s1)
      | SFail => (requeue, ev1, RcConnLost, s1)
      | SWrote n =>
        if 0 <? n then
          let p' := advance p n in
          let ev2 := ev1 ++ [Acc (ztake n (offered p))] in
          if p_top p' =? 0 then
            let '(evp, raised) := pub0_events c p' in
            if raised then (st1, ev2 ++ evp, RcRaised, s1)
            else if is_disc p' then
              (* _do_on_disconnect; if self._sock is disconnected_sock: self._sock_close()
                 (the model's on_disconnect does not reconnect) *)
              let '(st2, evc) := sock_close st1 in
              (st2, ev2 ++ evp ++ [CbDisconnect] ++ evc, RcSuccess, s1)
            else
              let '(st3, ev3, r3, s3) := packet_write_fuel fuel' c st1 s1 in
              (st3, ev2 ++ evp ++ ev3, r3, s3)
          else
            let st2 := set_outq st1 (p' :: outq st1) in          (* not finished: appendleft, loop again *)
            let '(st3, ev3, r3, s3) := packet_write_fuel fuel' c st2 s1 in
            (st3, ev2 ++ ev3, r3, s3)
        else (requeue, ev1, RcSuccess, s1)                       (* write_length == 0: appendleft, break *)
      end
    end
  end.

Definition packet_write (c : cfg) (st : wstate) (s : list outcome) :=
  packet_write_fuel (S (q_measure (outq st))) c st s.

Definition want_write (st : wstate) : bool :=
  match outq st with [] => false | _ => true end.

(* _loop_rc_handle for rc = CONN_LOST: state change; _sock_close(); _do_on_disconnect *)
Definition loop_rc_handle (st : wstate) : wstate * list event :=
  let '(st1, ev) := sock_close st in (st1, ev ++ [CbDisconnect]).

Definition loop_write (c : cfg) (st : wstate) (s : list outcome)
  : wstate * list event * rcode * list outcome :=
  if negb (sock st) then (st, [], RcNoConn, s)
  else if negb (connq st) then (st, [], RcSuccess, s)      (* CONNECT not queued yet: it has to go out first *)
  else
    let '(st1, ev1, r, s1) := packet_write c st s in
    let '(st2, ev2, r2) :=
      match r with
      | RcAgain => (st1, [], RcSuccess)
      | RcConnLost => let '(st', ev') := loop_rc_handle st1 in (st', ev', RcConnLost)
      | RcRaised => (st1, [], RcRaised)
      | RcOutOfFuel => (st1, [], RcOutOfFuel)
      | _ => (st1, [], RcSuccess)
      end in
    (* finally: *)
    let '(st3, ev3) := if want_write st2 then call_reg_write st2
                       else call_unreg_write (sock st2) st2 in
    (st3, ev1 ++ ev2 ++ ev3, r2, s1).

Definition fresh_pkt (id : Z) (bs : list Z) (k : pkind) (cbr : bool) : opkt :=
  mkpkt bs 0 (zlen bs) k id cbr.

(* _packet_queue.  in_cb: _in_callback_mutex is held (the call comes from inside a user callback).
   if command == CONNECT: self._out_packet.appendleft(mpkt); self._connect_queued = True
   else: self._out_packet.append(mpkt)
   if self._thread is None and self._on_socket_register_write is None and self._connect_queued: (try-lock) loop_write()
   else self._call_socket_register_write() *)
Definition enqueue (c : cfg) (in_cb : bool) (st : wstate) (p : opkt) (s : list outcome)
  : wstate * list event * rcode * list outcome :=
  let st1 := if is_conn p then mkst (p :: outq st) (sock st) (regw st) true (tst st)
             else set_outq st (outq st ++ [p]) in
  if negb (c_ext c) && connq st1 && negb in_cb then loop_write c st1 s
  else let '(st2, ev) := call_reg_write st1 in (st2, ev, RcSuccess, s).

(* ---- runs: every op carries the outcomes of the send() calls made during it ---- *)
Inductive op :=
| OEnq (in_cb : bool) (bs : list Z) (k : pkind) (cbr : bool) (s : list outcome)
| OWrite (s : list outcome).

Record rstate := mkrs {
  r_st : wstate;
  r_trace : list event;          (* all events so far, oldest first *)
  r_hist : list opkt;            (* the packets of this connection (pos = 0) in QUEUE order: CONNECT goes to the
                                    front, everything else to the back; p_id = number of packets queued before *)
  r_rcs : list rcode
}.

Definition step (c : cfg) (r : rstate) (o : op) : rstate :=
  match o with
  | OEnq in_cb bs k cbr s =>
    let p := fresh_pkt (Z.of_nat (length (r_hist r))) bs k cbr in
    let '(st, ev, rc, _) := enqueue c in_cb (r_st r) p s in
    mkrs st (r_trace r ++ ev) (if is_conn p then p :: r_hist r else r_hist r ++ [p]) (r_rcs r ++ [rc])
  | OWrite s =>
    let '(st, ev, rc, _) := loop_write c (r_st r) s in
    mkrs st (r_trace r ++ ev) (r_hist r) (r_rcs r ++ [rc])
  end.

(* a new connection: reconnect() has emptied the queue, created the socket and reset _connect_queued *)
Definition init (t0 : T) : rstate := mkrs (mkst [] true false false t0) [] [] [].

(* at most one CONNECT is queued on a connection (reconnect() is the only caller of _send_connect and makes a
   new connection each time); it may come after other packets - they wait, nothing is written before it *)
Definition not_conn_op (o : op) : bool :=
  match o with OEnq _ _ KConn _ _ => false | _ => true end.
Fixpoint conn_ok (seen : bool) (ops : list op) : bool :=
  match ops with
  | [] => true
  | o :: rest => if not_conn_op o then conn_ok seen rest else negb seen && conn_ok true rest
  end.
Definition conn_once (ops : list op) : bool := conn_ok false ops.

Definition run (c : cfg) (t0 : T) (ops : list op) : rstate := fold_left (step c) ops (init t0).

End Generic.

Arguments mkst {T}.
Arguments outq {T}. Arguments sock {T}. Arguments regw {T}. Arguments connq {T}. Arguments tst {T}.
Arguments mkrs {T}.
Arguments r_st {T}. Arguments r_trace {T}. Arguments r_hist {T}. Arguments r_rcs {T}.
Arguments want_write {T}.

(* ---- observations used by the theorems ---- *)
Fixpoint wire_of (tr : list event) : list Z :=
  match tr with
  | [] => []
  | Wire b :: t => b ++ wire_of t
  | _ :: t => wire_of t
  end.

Fixpoint acc_of (tr : list event) : list Z :=
  match tr with
  | [] => []
  | Acc b :: t => b ++ acc_of t
  | _ :: t => acc_of t
  end.

(* the not yet accepted suffixes of the queued packets, in queue order *)
Definition unsent_q (q : list opkt) : list Z := concat (map offered q).
Definition unsent {T} (st : wstate T) : list Z := unsent_q (outq st).

Fixpoint setpub_ids (tr : list event) : list Z :=
  match tr with
  | [] => []
  | SetPublished i :: t => i :: setpub_ids t
  | _ :: t => setpub_ids t
  end.

Fixpoint cbpub_ids (tr : list event) : list Z :=
  match tr with
  | [] => []
  | CbPublish i :: t => i :: cbpub_ids t
  | _ :: t => cbpub_ids t
  end.

Definition raw_run (c : cfg) (ops : list op) : rstate unit := run unit raw_send c tt ops.

(* ---- correspondence entry (flat integer lists, see CONVENTIONS.md) ---- *)
Definition b2z (b : bool) : Z := if b then 1 else 0.
Definition dec_outcome (z : Z) : outcome :=
  if 0 <=? z then Accept z else if z =? -1 then Block else if z =? -2 then Fail else FailV.
Definition dec_kind (z : Z) : pkind := if z =? 0 then KPub0 else if z =? 1 then KDisc else if z =? 3 then KConn else KOther.
Definition take (n : Z) (l : list Z) : list Z * list Z := (ztake n l, zskip n l).

(* op encoding:  0 in_cb kind cbraise len b1..blen ns o1..ons   |   1 ns o1..ons
   outcome encoding: k >= 0 Accept k; -1 Block; -2 Fail (OSError); -3 FailV (ValueError) *)
Fixpoint dec_ops (fuel : nat) (l : list Z) : list op :=
  match fuel with
  | O => []
  | S f =>
    match l with
    | 0 :: incb :: k :: cbr :: len :: rest =>
      let '(bs, r1) := take len rest in
      match r1 with
      | ns :: r2 =>
        let '(sc, r3) := take ns r2 in
        OEnq (incb =? 1) bs (dec_kind k) (cbr =? 1) (map dec_outcome sc) :: dec_ops f r3
      | [] => []
      end
    | 1 :: ns :: rest =>
      let '(sc, r3) := take ns rest in
      OWrite (map dec_outcome sc) :: dec_ops f r3
    | _ => []
    end
  end.

Definition enc_bytes (b : list Z) : list Z := zlen b :: b.
Definition enc_event (e : event) : list Z :=
  match e with
  | Wire b => 1 :: enc_bytes b
  | Acc b => 2 :: enc_bytes b
  | CbPublish i => [3; i]
  | SetPublished i => [4; i]
  | RegW => [5]
  | UnregW => [6]
  | CbDisconnect => [7]
  | SockClose => [8]
  end.
Definition enc_rc (r : rcode) : Z :=
  match r with RcSuccess => 0 | RcAgain => 1 | RcConnLost => 2 | RcNoConn => 3 | RcRaised => 4 | RcOutOfFuel => 5 end.
Definition enc_pkt (p : opkt) : list Z := [p_id p; p_pos p; p_top p].

(* per op: its events, then  9 rc sock regw want_write connect_queued nq (id pos to_process)* <transport state> *)
Definition enc_state {T} (tenc : T -> list Z) (rc : rcode) (st : wstate T) : list Z :=
  [9; enc_rc rc; b2z (sock st); b2z (regw st); b2z (want_write st); b2z (connq st); Z.of_nat (length (outq st))]
  ++ concat (map enc_pkt (outq st)) ++ tenc (tst st).

Definition last_rc (l : list rcode) : rcode := last l RcSuccess.

Fixpoint run_enc {T} (tsend : T -> list Z -> list outcome -> sendres * T * list Z * list outcome)
    (tenc : T -> list Z) (c : cfg) (r : rstate T) (ops : list op) : list Z :=
  match ops with
  | [] => []
  | o :: ops' =>
    let r' := step T tsend c (mkrs (r_st r) [] (r_hist r) []) o in
    concat (map enc_event (r_trace r')) ++ enc_state tenc (last_rc (r_rcs r')) (r_st r')
    ++ run_enc tsend tenc c r' ops'
  end.

(* entry 1: [ext; onpub; suppress; ops...] on the raw socket *)
Definition entry_raw (args : list Z) : list Z :=
  match args with
  | ext :: onp :: sup :: rest =>
    run_enc raw_send (fun _ => []) (mkcfg (ext =? 1) (onp =? 1) (sup =? 1)) (init unit tt)
            (dec_ops (length rest) rest)
  | _ => []
  end.
