(* M3 - connection-state / socket-callback model of client.py (properties C10 and C16):
   connect/connect_async/reconnect, disconnect, publish(qos 0), subscribe, loop_read (one broker
   packet or transport condition), loop_write (per-send outcomes), loop_misc (keepalive input),
   _sock_close, _call_socket_*, _packet_queue, _packet_write, _loop_rc_handle, _handle_connack,
   _handle_disconnect, _check_keepalive, _do_on_disconnect - and API calls made from inside user
   callbacks.  Model only: no proofs in this file.

   The trace is accumulated in the state (newest event first) so that every function is a state
   transformer.  Per operation the application supplies a send schedule (one outcome per
   socket.send call) and, per callback site, a queue of scripts: the n-th invocation of that
   callback executes the n-th script (nested API calls).  User callbacks do not raise: an OSError
   from a nested reconnect() is caught by the callback itself (event [Raised]).
   Ghost events: [SockNew] (a socket was created), [ConnEnd] (_sock_close ran on a socket, with the
   caller as reason), [Call] (entry of an application API call). *)
From PahoV Require Import Base.Prelude.

Inductive cstate := CsNew | CsConnectAsync | CsConnecting | CsConnected | CsConnectionLost
                  | CsDisconnecting | CsDisconnected.
Inductive pkind := KConnect | KDisconnect | KPublish0 | KPingreq | KSubscribe | KOther.
Record qpkt := mkQ { qk : pkind; qstarted : bool }.     (* started: pos > 0 (one byte left, see OPart) *)

Inductive acall := APublish0 | ASubscribe | ADisconnect | AReconnect (ok : bool).
(* SiDiscOpen: on_disconnect invoked while the client (still or again) holds a socket - the call that
   announces a written DISCONNECT; SiDisconnect: on_disconnect invoked with no socket held *)
Inductive site := SiConnect | SiDisconnect | SiOpen | SiClose | SiRegW | SiUnregW | SiPublish | SiDiscOpen.
Inductive wher := WEnd | WCb (si : site).
Inductive reason := RReplaced | RError | RKeepalive | RServerDisc | RDiscWritten.
Inductive callkind := CConnect | CReconnect | CDisconnect | CPublish | CSubscribe
                    | CLoopRead | CLoopWrite | CLoopMisc.
(* one socket.send(): accept everything offered | all but the last byte (would-block when only one
   byte is left) | BlockingIOError | return 0 | OSError *)
Inductive outcome := OAll | OPart | OBlock | OZero | OFail.

Inductive event :=
| SockNew (id : Z)
| ConnEnd (id : Z) (r : reason)
| SockOpen (id : Z) | SockClose (id : Z) | RegW (id : Z) | UnregW (id : Z)
| CbConnect (rc : Z)
| CbDisconnect (rc : Z) (from_broker : bool)
| CbPublish
| Tx (id : Z) (k : pkind)                 (* last byte of a packet accepted by socket id *)
| Call (c : callkind)
| Ret (rc : Z)
| Raised
| Deadlock                                (* a non-reentrant lock would be taken twice: never emitted *)
| Fuel                                    (* never emitted: see ConnInv.no_fuel *)
| Obs (w : wher) (connected has_sock want_write regw : bool).

Record scripts := mkScr {
  q_connect : list (list acall); q_disconnect : list (list acall); q_open : list (list acall);
  q_close : list (list acall); q_regw : list (list acall); q_unregw : list (list acall);
  q_publish : list (list acall); q_discopen : list (list acall) }.
Definition no_scripts := mkScr [] [] [] [] [] [] [] [].

Inductive inp :=
| IConnack (rc : Z)              (* rc = 1 on MQTT 3.1.1 triggers the downgrade retry with a working socket *)
| IConnackDowngrade (ok : bool)  (* rc = 1; ok = false: _create_socket raises during the retry *)
| IServerDisconnect (rc : Z)     (* DISCONNECT from the broker (legal on MQTT 5 only) *)
| IUnknown                       (* unrecognised packet type *)
| IEof | IRecvError
| IPingreq                       (* a packet whose handler queues a reply (PINGREQ -> PINGRESP) *)
| IPingresp
| IOther                         (* any other well-formed packet without effect here (SUBACK) *)
| INoData.

Inductive misc := MFresh | MDue | MPingDue.

Inductive topcall :=
| TConnect (ok : bool) | TReconnect (ok : bool) | TDisconnect | TPublish0 | TSubscribe
| TLoopRead (i : inp) | TLoopWrite | TLoopMisc (m : misc)
| TLoopReadN (l : list inp).      (* loop_read() while messages are stored: up to len(l) packets in one call *)

Record op := mkOp { o_call : topcall; o_sched : list outcome; o_scr : scripts }.

Record cfg := mkCfg { c_ext : bool;      (* on_socket_register_write / unregister_write installed *)
                      c_sockcb : bool;   (* on_socket_open / on_socket_close installed *)
                      c_proto : Z }.     (* 3 = MQTT 3.1, 4 = 3.1.1, 5 = 5.0 *)

Record st := mkSt {
  cs : cstate; sock : option Z; regw : bool; outq : list qpkt; ping : bool; incb : bool;
  cq : bool;                      (* _connect_queued: false between socket creation and the queuing of CONNECT *)
  proto : Z;
  nsock : Z;                      (* ghost: sockets created so far *)
  sched : list outcome; scr : scripts;
  tr : list event }.              (* newest first *)

Definition init (c : cfg) : st :=
  mkSt CsConnectAsync None false [] false false false (c_proto c) 0 [] no_scripts [].   (* after connect_async(host) *)

Definition set_cs x s := mkSt x (sock s) (regw s) (outq s) (ping s) (incb s) (cq s) (proto s) (nsock s) (sched s) (scr s) (tr s).
Definition set_sock x s := mkSt (cs s) x (regw s) (outq s) (ping s) (incb s) (cq s) (proto s) (nsock s) (sched s) (scr s) (tr s).
Definition set_regw x s := mkSt (cs s) (sock s) x (outq s) (ping s) (incb s) (cq s) (proto s) (nsock s) (sched s) (scr s) (tr s).
Definition set_outq x s := mkSt (cs s) (sock s) (regw s) x (ping s) (incb s) (cq s) (proto s) (nsock s) (sched s) (scr s) (tr s).
Definition set_ping x s := mkSt (cs s) (sock s) (regw s) (outq s) x (incb s) (cq s) (proto s) (nsock s) (sched s) (scr s) (tr s).
Definition set_incb x s := mkSt (cs s) (sock s) (regw s) (outq s) (ping s) x (cq s) (proto s) (nsock s) (sched s) (scr s) (tr s).
Definition set_cq x s := mkSt (cs s) (sock s) (regw s) (outq s) (ping s) (incb s) x (proto s) (nsock s) (sched s) (scr s) (tr s).
Definition set_proto x s := mkSt (cs s) (sock s) (regw s) (outq s) (ping s) (incb s) (cq s) x (nsock s) (sched s) (scr s) (tr s).
Definition set_nsock x s := mkSt (cs s) (sock s) (regw s) (outq s) (ping s) (incb s) (cq s) (proto s) x (sched s) (scr s) (tr s).
Definition set_sched x s := mkSt (cs s) (sock s) (regw s) (outq s) (ping s) (incb s) (cq s) (proto s) (nsock s) x (scr s) (tr s).
Definition set_scr x s := mkSt (cs s) (sock s) (regw s) (outq s) (ping s) (incb s) (cq s) (proto s) (nsock s) (sched s) x (tr s).
Definition emit e s := mkSt (cs s) (sock s) (regw s) (outq s) (ping s) (incb s) (cq s) (proto s) (nsock s) (sched s) (scr s) (e :: tr s).

Definition is_connected (s : st) : bool := match cs s with CsConnected => true | _ => false end.
Definition has_sock (s : st) : bool := match sock s with Some _ => true | None => false end.
Definition want_write (s : st) : bool := match outq s with [] => false | _ => true end.
Definition disc_state (s : st) : bool :=
  match cs s with CsDisconnecting | CsDisconnected => true | _ => false end.

Definition obs (w : wher) (s : st) : st :=
  emit (Obs w (is_connected s) (has_sock s) (want_write s) (regw s)) s.

Definition pop_list {A} (l : list (list A)) : list A * list (list A) :=
  match l with [] => ([], []) | x :: l' => (x, l') end.

Definition pop_script (si : site) (s : st) : list acall * st :=
  let q := scr s in
  match si with
  | SiConnect => let (x, r) := pop_list (q_connect q) in
      (x, set_scr (mkScr r (q_disconnect q) (q_open q) (q_close q) (q_regw q) (q_unregw q) (q_publish q) (q_discopen q)) s)
  | SiDisconnect => let (x, r) := pop_list (q_disconnect q) in
      (x, set_scr (mkScr (q_connect q) r (q_open q) (q_close q) (q_regw q) (q_unregw q) (q_publish q) (q_discopen q)) s)
  | SiOpen => let (x, r) := pop_list (q_open q) in
      (x, set_scr (mkScr (q_connect q) (q_disconnect q) r (q_close q) (q_regw q) (q_unregw q) (q_publish q) (q_discopen q)) s)
  | SiClose => let (x, r) := pop_list (q_close q) in
      (x, set_scr (mkScr (q_connect q) (q_disconnect q) (q_open q) r (q_regw q) (q_unregw q) (q_publish q) (q_discopen q)) s)
  | SiRegW => let (x, r) := pop_list (q_regw q) in
      (x, set_scr (mkScr (q_connect q) (q_disconnect q) (q_open q) (q_close q) r (q_unregw q) (q_publish q) (q_discopen q)) s)
  | SiUnregW => let (x, r) := pop_list (q_unregw q) in
      (x, set_scr (mkScr (q_connect q) (q_disconnect q) (q_open q) (q_close q) (q_regw q) r (q_publish q) (q_discopen q)) s)
  | SiPublish => let (x, r) := pop_list (q_publish q) in
      (x, set_scr (mkScr (q_connect q) (q_disconnect q) (q_open q) (q_close q) (q_regw q) (q_unregw q) r (q_discopen q)) s)
  | SiDiscOpen => let (x, r) := pop_list (q_discopen q) in
      (x, set_scr (mkScr (q_connect q) (q_disconnect q) (q_open q) (q_close q) (q_regw q) (q_unregw q) (q_publish q) r) s)
  end.

Definition pop_outcome (s : st) : outcome * st :=
  match sched s with [] => (OAll, s) | o :: l => (o, set_sched l s) end.

(* error codes (MQTTErrorCode) *)
Definition E_AGAIN := -1.
Definition E_PROTOCOL := 2.
Definition E_NO_CONN := 4.
Definition E_CONN_REFUSED := 5.
Definition E_CONN_LOST := 7.
Definition E_KEEPALIVE := 16.

Section WithNested.
Variable c : cfg.
(* the executor of a nested script (API calls made by a user callback), one nesting level down *)
Variable nested : list acall -> st -> st.

(* one user-callback invocation.  held: the call site wraps the callback in _in_callback_mutex
   (a non-reentrant Lock): on_connect, on_disconnect, on_publish; the four socket callbacks run
   without it.  Event, observation at entry, then the script of this invocation. *)
Definition run_site (si : site) (held : bool) (ev : event) (s : st) : st :=
  if held && incb s then emit Deadlock s else
  let s1 := obs (WCb si) (emit ev s) in
  let (sc, s2) := pop_script si s1 in
  match sc with
  | [] => s2
  | _ => let old := incb s2 in set_incb old (nested sc (set_incb (held || old) s2))
  end.

(* _call_socket_register_write *)
Definition call_regw (s : st) : st :=
  match sock s with
  | None => s
  | Some id =>
      if regw s then s else
      let s1 := set_regw true s in
      if c_ext c then run_site SiRegW false (RegW id) s1 else s1
  end.

(* _call_socket_unregister_write(sock=explicit) *)
Definition call_unregw (explicit : option Z) (s : st) : st :=
  match (match explicit with Some i => Some i | None => sock s end) with
  | None => s
  | Some id =>
      if negb (regw s) then s else
      let s1 := set_regw false s in
      if c_ext c then run_site SiUnregW false (UnregW id) s1 else s1
  end.

(* _sock_close, r = who called it *)
Definition sock_close (r : reason) (s : st) : st :=
  match sock s with
  | None => s
  | Some id =>
      let s1 := emit (ConnEnd id r) (set_sock None s) in
      let s2 := call_unregw (Some id) s1 in
      if c_sockcb c then run_site SiClose false (SockClose id) s2 else s2
  end.

Definition do_on_disconnect (rc : Z) (fb : bool) (s : st) : st :=
  run_site (if has_sock s then SiDiscOpen else SiDisconnect) true (CbDisconnect rc fb) s.

(* every "connection ended" path: new state and result code first, then _sock_close, then on_disconnect *)
Definition lost (r : reason) (rc : Z) (fb : bool) (s : st) : st * Z :=
  if disc_state s then (do_on_disconnect (if fb then rc else 0) fb (sock_close r (set_cs CsDisconnected s)), 0)
  else (do_on_disconnect rc fb (sock_close r (set_cs CsConnectionLost s)), rc).

(* _loop_rc_handle(rc), rc > 0 *)
Definition loop_rc_handle (rc : Z) (s : st) : st * Z := lost RError rc false s.

Definition push_front (p : qpkt) (s : st) : st := set_outq (p :: outq s) s.

(* _packet_write: n bounds the iterations (two per queued packet suffice, see ConnInv) *)
Fixpoint pw_loop (n : nat) (s : st) : st * Z :=
  match n with
  | O => (emit Fuel s, 0)
  | S n' =>
      match outq s with
      | [] => (s, 0)
      | p :: q' =>
          let s0 := set_outq q' s in                     (* popleft *)
          match sock s0 with
          | None => (push_front p s0, E_CONN_LOST)       (* _sock_send raises ConnectionError *)
          | Some id =>
              let (o, s1) := pop_outcome s0 in
              match o with
              | OBlock => (push_front p (call_regw s1), E_AGAIN)
              | OFail => (push_front p s1, E_CONN_LOST)
              | OZero => (push_front p s1, 0)
              | OPart => if qstarted p then (push_front p (call_regw s1), E_AGAIN)
                         else pw_loop n' (push_front (mkQ (qk p) true) s1)
              | OAll =>
                  let s2 := emit (Tx id (qk p)) s1 in
                  match qk p with
                  | KPublish0 => pw_loop n' (run_site SiPublish true CbPublish s2)
                  | KDisconnect =>
                      let s3 := do_on_disconnect 0 false s2 in
                      (* close only if on_disconnect did not replace the socket by a reconnect() *)
                      match sock s3 with
                      | Some id' =>
                          if id' =? id then
                            let s4 := sock_close RDiscWritten s3 in
                            (match cs s4 with CsDisconnecting => set_cs CsDisconnected s4 | _ => s4 end, 0)
                          else (s3, 0)
                      | None => (s3, 0)
                      end
                  | _ => pw_loop n' s2
                  end
              end
          end
      end
  end.

Definition ncalls (l : list (list acall)) : nat := fold_right (fun x n => (length x + n)%nat) O l.
Definition total_calls (q : scripts) : nat :=
  (ncalls (q_connect q) + ncalls (q_disconnect q) + ncalls (q_open q) + ncalls (q_close q)
   + ncalls (q_regw q) + ncalls (q_unregw q) + ncalls (q_publish q) + ncalls (q_discopen q))%nat.
Definition pw_fuel (s : st) : nat := S (2 * (length (outq s) + total_calls (scr s))).

Definition packet_write (s : st) : st * Z := pw_loop (pw_fuel s) s.

Definition loop_write (s : st) : st * Z :=
  match sock s with
  | None => (s, E_NO_CONN)
  | Some _ =>
      if negb (cq s) then (s, 0) else       (* CONNECT of this socket not queued yet: nothing is written *)
      let (s1, rc) := packet_write s in
      let (s2, rc2) := if rc =? E_AGAIN then (s1, 0)
                       else if rc >? 0 then loop_rc_handle rc s1 else (s1, 0) in
      (* finally *)
      ((if want_write s2 then call_regw s2 else call_unregw None s2), rc2)
  end.

(* _packet_queue (no background thread) *)
Definition packet_queue (k : pkind) (s : st) : st * Z :=
  (* CONNECT goes ahead of whatever was queued since the socket was created *)
  let s1 := match k with
            | KConnect => set_cq true (set_outq (mkQ k false :: outq s) s)
            | _ => set_outq (outq s ++ [mkQ k false]) s
            end in
  if negb (c_ext c) && cq s1 && negb (incb s1) then loop_write s1
  else (call_regw s1, 0).

(* the body of reconnect(); ok = false: _create_socket raises OSError *)
Definition reconnect_body (ok : bool) (s : st) : st * option Z :=
  let s1 := set_cs CsConnecting (set_ping false s) in
  let s2 := sock_close RReplaced s1 in
  let s3 := set_outq [] s2 in
  if negb ok then (emit Raised (set_cq false s3), None)
  else
    let id := nsock s3 + 1 in
    let s4 := emit (SockNew id) (set_regw false (set_sock (Some id) (set_nsock id (set_cq false s3)))) in
    let s5 := if c_sockcb c then run_site SiOpen false (SockOpen id) s4 else s4 in
    let (s6, rc) := packet_queue KConnect s5 in (s6, Some rc).

Definition api_reconnect (ok : bool) (s : st) : st * option Z :=
  reconnect_body ok (emit (Call CReconnect) s).

Definition api_connect (ok : bool) (s : st) : st * option Z :=
  let s1 := sock_close RReplaced (emit (Call CConnect) s) in      (* connect_async *)
  reconnect_body ok (set_cs CsConnectAsync s1).

Definition api_disconnect (s : st) : st * Z :=
  let s0 := emit (Call CDisconnect) s in
  match sock s0 with
  | None => (set_cs CsDisconnected s0, E_NO_CONN)
  | Some _ => packet_queue KDisconnect (set_cs CsDisconnecting s0)
  end.

Definition api_send (ck : callkind) (k : pkind) (s : st) : st * Z :=
  let s0 := emit (Call ck) s in
  match sock s0 with
  | None => (s0, E_NO_CONN)
  | Some _ => packet_queue k s0
  end.

(* one API call made from inside a callback *)
Definition api_nested (a : acall) (s : st) : st :=
  match a with
  | APublish0 => fst (api_send CPublish KPublish0 s)
  | ASubscribe => fst (api_send CSubscribe KSubscribe s)
  | ADisconnect => fst (api_disconnect s)
  | AReconnect ok => fst (api_reconnect ok s)
  end.

Definition exec_script (sc : list acall) (s : st) : st :=
  fold_left (fun s a => api_nested a s) sc s.

(* result of a handler as loop_read sees it: Some rc | None = exception *)
Definition after_read (id0 : Z) (r : st * option Z) : st * option Z :=
  match r with
  | (s, Some rc) =>
      if rc >? 0 then
        (* id0: the socket loop_read started with.  If it is gone or replaced, a write made while handling
           the packet already failed, closed it and reported through on_disconnect *)
        match sock s with
        | Some id => if id =? id0 then let (s', rc') := loop_rc_handle rc s in (s', Some rc') else (s, Some rc)
        | None => (s, Some rc)
        end
      else (s, Some 0)
  | (s, None) => (s, None)
  end.

Definition connack_err (rc : Z) : Z := if (0 <? rc) && (rc <? 6) then E_CONN_REFUSED else E_PROTOCOL.

Definition handle_connack (rc : Z) (s : st) : st * option Z :=
  let s1 := if rc =? 0 then (match cs s with CsDisconnecting => s | _ => set_cs CsConnected s end) else s in
  let s2 := run_site SiConnect true (CbConnect rc) s1 in
  (s2, Some (if rc =? 0 then 0 else connack_err rc)).

(* the immediate retry of _handle_connack: an OSError of the new TCP connect is turned into CONN_LOST *)
Definition downgrade (ok : bool) (s : st) : st * option Z :=
  match reconnect_body ok (set_proto 3 s) with
  | (s1, Some rc) => (s1, Some rc)
  | (s1, None) => (s1, Some E_CONN_LOST)
  end.

Definition handle_server_disconnect (rc : Z) (s : st) : st * option Z :=
  let (s1, _) := lost RServerDisc rc true s in (s1, Some 0).

Definition loop_read (i : inp) (s : st) : st * option Z :=
  match sock s with
  | None => (s, Some E_NO_CONN)
  | Some id0 =>
      match i with
      | INoData | IOther => (s, Some 0)
      | IPingresp => (set_ping false s, Some 0)
      | IEof | IRecvError => after_read id0 (s, Some E_CONN_LOST)
      | IUnknown => after_read id0 (s, Some E_PROTOCOL)
      | IPingreq => let (s1, rc) := packet_queue KOther s in after_read id0 (s1, Some rc)
      | IConnack rc =>
          if (proto s =? 4) && (rc =? 1) then after_read id0 (downgrade true s)
          else after_read id0 (handle_connack rc s)
      | IConnackDowngrade ok =>
          if proto s =? 4 then after_read id0 (downgrade ok s)
          else after_read id0 (handle_connack 1 s)
      | IServerDisconnect rc =>
          if proto s =? 5 then handle_server_disconnect rc s
          else after_read id0 (s, Some E_PROTOCOL)
      end
  end.

(* what _packet_read() returns for one packet, before loop_read looks at it (loop_read = after_read of it:
   ConnCheck.loop_read_raw) *)
Definition raw_read (i : inp) (s : st) : st * option Z :=
  match i with
  | INoData | IOther => (s, Some 0)
  | IPingresp => (set_ping false s, Some 0)
  | IEof | IRecvError => (s, Some E_CONN_LOST)
  | IUnknown => (s, Some E_PROTOCOL)
  | IPingreq => let (s1, rc) := packet_queue KOther s in (s1, Some rc)
  | IConnack rc =>
      if (proto s =? 4) && (rc =? 1) then downgrade true s else handle_connack rc s
  | IConnackDowngrade ok =>
      if proto s =? 4 then downgrade ok s else handle_connack 1 s
  | IServerDisconnect rc =>
      if proto s =? 5 then handle_server_disconnect rc s else (s, Some E_PROTOCOL)
  end.

(* does loop_read go on to the next packet?  Only after a packet that was read and handled with result 0
   (INoData is MQTT_ERR_AGAIN: return success).  A positive result ends the call even when _loop_rc_handle turns it
   into 0 (the state is DISCONNECTING) *)
Definition read_continues (i : inp) (s : st) : bool :=
  match sock s, i with
  | None, _ => false
  | _, INoData => false
  | Some _, _ => match snd (raw_read i s) with Some rc => negb (rc >? 0) | None => false end
  end.

(* loop_read() with max_packets > 1 (the number of stored messages): packets are read until one fails, nothing
   more is readable, the socket is gone, or the budget is used up.  Each iteration takes its own snapshot of the
   socket (id0 in [loop_read]). *)
Fixpoint loop_read_n (l : list inp) (s : st) : st * option Z :=
  match l with
  | [] => (s, Some 0)
  | i :: r =>
      if read_continues i s then loop_read_n r (fst (loop_read i s)) else loop_read i s
  end.

Definition keepalive_close (s : st) : st :=
  fst (lost RKeepalive E_KEEPALIVE false s).

Definition check_keepalive (m : misc) (s : st) : st :=
  match m with
  | MDue =>
      match sock s with
      | None => s
      | Some _ =>
          if is_connected s && negb (ping s) then
            let (s1, rc) := packet_queue KPingreq s in
            if rc =? 0 then set_ping true s1 else s1
          else keepalive_close s
      end
  | _ => s
  end.

Definition loop_misc (m : misc) (s : st) : st * Z :=
  match sock s with
  | None => (s, E_NO_CONN)
  | Some _ =>
      let s1 := check_keepalive m s in
      match sock s1 with
      | None => (s1, E_CONN_LOST)
      | Some _ =>
          match m with
          | MPingDue => if ping s1 then (keepalive_close s1, E_CONN_LOST) else (s1, 0)
          | _ => (s1, 0)
          end
      end
  end.

Definition ret_of (r : st * option Z) : st :=
  match r with (s, Some rc) => emit (Ret rc) s | (s, None) => s end.

Definition run_top (t : topcall) (s : st) : st :=
  match t with
  | TConnect ok => ret_of (api_connect ok s)
  | TReconnect ok => ret_of (api_reconnect ok s)
  | TDisconnect => let (s1, rc) := api_disconnect s in emit (Ret rc) s1
  | TPublish0 => let (s1, rc) := api_send CPublish KPublish0 s in emit (Ret rc) s1
  | TSubscribe => let (s1, rc) := api_send CSubscribe KSubscribe s in emit (Ret rc) s1
  | TLoopRead i => ret_of (loop_read i (emit (Call CLoopRead) s))
  | TLoopWrite => let (s1, rc) := loop_write (emit (Call CLoopWrite) s) in emit (Ret rc) s1
  | TLoopMisc m => let (s1, rc) := loop_misc m (emit (Call CLoopMisc) s) in emit (Ret rc) s1
  | TLoopReadN l => ret_of (loop_read_n l (emit (Call CLoopRead) s))
  end.
End WithNested.

(* nesting depth d: a callback at depth 0 cannot run a non-empty script *)
Fixpoint nested_at (c : cfg) (d : nat) (sc : list acall) (s : st) : st :=
  match d with
  | O => emit Fuel s
  | S d' => exec_script c (nested_at c d') sc s
  end.

Definition nscripts (q : scripts) : nat :=
  (length (q_connect q) + length (q_disconnect q) + length (q_open q) + length (q_close q)
   + length (q_regw q) + length (q_unregw q) + length (q_publish q) + length (q_discopen q))%nat.

(* one top-level operation: load the schedule and the scripts, run, observe at the end *)
Definition step (c : cfg) (s : st) (o : op) : st * list event :=
  let s0 := set_incb false (set_sched (o_sched o) (set_scr (o_scr o)
              (mkSt (cs s) (sock s) (regw s) (outq s) (ping s) (incb s) (cq s) (proto s) (nsock s) (sched s) (scr s) []))) in
  let s1 := run_top c (nested_at c (nscripts (o_scr o))) (o_call o) s0 in
  let s2 := obs WEnd s1 in
  (set_sched [] (set_scr no_scripts s2), rev (tr s2)).

Fixpoint run_steps (c : cfg) (s : st) (ops : list op) : list (st * list event) :=
  match ops with
  | [] => []
  | o :: ops' => let (s', ev) := step c s o in (s', ev) :: run_steps c s' ops'
  end.

Definition optrace (c : cfg) (ops : list op) : list (list event) :=
  map snd (run_steps c (init c) ops).

(* ---- well-formed inputs ---- *)
Definition is_reconnect (a : acall) : bool := match a with AReconnect _ => true | _ => false end.
Definition all_scripts (q : scripts) : list (list acall) :=
  q_connect q ++ q_disconnect q ++ q_open q ++ q_close q ++ q_regw q ++ q_unregw q ++ q_publish q ++ q_discopen q.
Definition script_has_reconnect (q : scripts) : bool :=
  existsb (existsb is_reconnect) (all_scripts q).

(* no structural restriction on operations is needed: since on_socket_open/on_socket_close run without
   _in_callback_mutex, no call made from inside a callback can self-deadlock (ConnFuel.no_deadlock) *)
Definition op_wf (c : cfg) (o : op) : bool := true.
Definition ops_wf (c : cfg) (ops : list op) : bool := forallb (op_wf c) ops.
Definition cfg_ok (c : cfg) : bool := (c_proto c =? 3) || (c_proto c =? 4) || (c_proto c =? 5).
