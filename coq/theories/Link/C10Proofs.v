(* C10 over the Conn model, part 2: every operation preserves the invariant, under the exclusions
   D, E, F, G, R, C of ConnStatements.v; nested scripts of any length and depth. *)
From PahoV Require Import Base.Prelude Link.Conn Link.ConnCheck Link.ConnInv Link.ConnStatements Link.C10Inv.

Lemma nofail_tail o l : existsb is_ofail (o :: l) = false -> existsb is_ofail l = false.
Proof. cbn. intros H. apply orb_false_iff in H. apply H. Qed.

(* ---- popping scripts under scr_ok ---- *)
Lemma pop_list_forall {A} (f : list A -> bool) (q : list (list A)) : forallb f q = true -> f [] = true ->
  f (fst (pop_list q)) = true /\ forallb f (snd (pop_list q)) = true.
Proof. destruct q as [|x q]; cbn; [auto|]. intros H _. apply andb_true_iff in H. exact H. Qed.

Lemma scr_ok_pop si s : scr_ok (scr s) = true -> scr_ok (scr (snd (pop_script si s))) = true.
Proof.
  unfold scr_ok. intros H. repeat (apply andb_true_iff in H as [H ?]).
  destruct si; unfold pop_script;
    match goal with |- context [pop_list ?l] => destruct (pop_list l) eqn:E end;
    cbn [snd scr set_scr q_open q_discopen q_close q_unregw q_regw];
    repeat (apply andb_true_iff; split); try assumption.
  - pose proof (pop_list_forall is_nil _ H eq_refl) as [_ X]. rewrite E in X. exact X.
  - pose proof (pop_list_forall (forallb is_pubsub) _ H1 eq_refl) as [_ X]. rewrite E in X. exact X.
  - pose proof (pop_list_noreconn _ H3) as [_ X]. rewrite E in X. exact X.
  - pose proof (pop_list_forall (forallb is_pubsub) _ H2 eq_refl) as [_ X]. rewrite E in X. exact X.
  - pose proof (pop_list_noreconn _ H0) as [_ X]. rewrite E in X. exact X.
Qed.

Lemma scr_ok_regw q : scr_ok q = true -> queue_noreconn (q_regw q) = true.
Proof. unfold scr_ok. intros H. repeat (apply andb_true_iff in H as [H ?]). assumption. Qed.

Lemma scr_ok_pop_open s : scr_ok (scr s) = true -> fst (pop_script SiOpen s) = [].
Proof.
  unfold scr_ok. intros H. repeat (apply andb_true_iff in H as [H ?]). unfold pop_script.
  destruct (q_open (scr s)) as [|x q]; cbn; [reflexivity|]. cbn in H. apply andb_true_iff in H as [H _].
  destruct x; [reflexivity|discriminate].
Qed.
Lemma scr_ok_pop_teardown si s : (si = SiClose \/ si = SiUnregW) -> scr_ok (scr s) = true ->
  forallb is_pubsub (fst (pop_script si s)) = true.
Proof.
  unfold scr_ok. intros Hsi H. repeat (apply andb_true_iff in H as [H ?]). unfold pop_script.
  destruct Hsi as [-> | ->].
  - pose proof (pop_list_forall (forallb is_pubsub) _ H2 eq_refl) as [X _]. destruct (pop_list (q_close (scr s))). exact X.
  - pose proof (pop_list_forall (forallb is_pubsub) _ H1 eq_refl) as [X _]. destruct (pop_list (q_unregw (scr s))). exact X.
Qed.
Lemma scr_ok_pop_discopen s : scr_ok (scr s) = true -> script_noreconn (fst (pop_script SiDiscOpen s)) = true.
Proof.
  unfold scr_ok. intros H. repeat (apply andb_true_iff in H as [H ?]). unfold pop_script.
  pose proof (pop_list_noreconn _ H3) as [X _]. destruct (pop_list (q_discopen (scr s))). exact X.
Qed.

Lemma scr_ok_quiet s s' : quiet_rel s s' -> scr_ok (scr s) = true -> scr_ok (scr s') = true.
Proof.
  intros Q. destruct (qr_scr _ _ Q) as (_ & _ & A3 & A4 & A5 & _ & A7 & A8).
  unfold scr_ok. intros H. repeat (apply andb_true_iff in H as [H ?]).
  rewrite A3, A4, A5, A7, H, H3, H2, H1, (A8 H0). reflexivity.
Qed.

Definition Rel (s s' : st) : Prop := sock s' = None -> (sock s = None /\ outq s' = outq s) \/ outq s' = [].
Lemma Rel_refl s : Rel s s.
Proof. intros H. left. split; [exact H|reflexivity]. Qed.
Lemma Rel_trans s1 s2 s3 : Rel s1 s2 -> Rel s2 s3 -> Rel s1 s3.
Proof.
  intros A B H. destruct (B H) as [[B1 B2]|B1]; [|right; exact B1].
  destruct (A B1) as [[A1 A2]|A1]; [left; split; [exact A1|congruence]|right; congruence].
Qed.
Lemma Rel_quiet s s' : quiet_rel s s' -> Rel s s'.
Proof.
  intros Q H. left. rewrite (qr_sock _ _ Q) in H. split; [exact H|].
  destruct (qr_outq _ _ Q) as (a & A1 & _ & A3 & _). rewrite A1, (A3 H), app_nil_r. reflexivity.
Qed.
Lemma Rel_frame s1 s1' s2 s2' : sock s1' = sock s1 -> sock s2' = sock s2 -> outq s2' = outq s2 ->
  (sock s1 = None -> outq s1' = outq s1) -> Rel s1' s2 -> Rel s1 s2'.
Proof.
  intros A B C0 D R H. rewrite B in H. destruct (R H) as [[R1 R2]|R1].
  - left. rewrite A in R1. split; [exact R1|]. rewrite C0, R2. apply D. exact R1.
  - right. rewrite C0. exact R1.
Qed.

Section C10.
Variable c : cfg.
Variable k0 : k10.
Variable nf : bool.      (* this operation is a loop_read in direct-write mode: no failing send scheduled *)
Notation KS10 := (KS k10_ev k0).
Definition nofail (s : st) : Prop := nf = true -> existsb is_ofail (sched s) = false.
Definition Pre (w : bool) (s : st) : Prop := V w s (KS10 s) /\ scr_ok (scr s) = true /\ nofail s.

Lemma Pre_frame w s s' : tr s' = tr s -> sock s' = sock s -> cs s' = cs s -> outq s' = outq s ->
  scr s' = scr s -> sched s' = sched s -> Pre w s -> Pre w s'.
Proof.
  intros Ht Hs Hc Hq Hscr Hsch (HV & HS & HF). unfold Pre, nofail. rewrite (KS_frame _ _ _ _ Ht), Hscr, Hsch.
  split; [eapply V_frame; eassumption|]. split; assumption.
Qed.
Lemma Pre_emit w e s : inert10 e = true -> Pre w s -> Pre w (emit e s).
Proof.
  intros He (HV & HS & HF). split; [|split; assumption]. rewrite KS_emit.
  apply V_frame with (s := s); try reflexivity. apply V_inert; assumption.
Qed.
Lemma Pre_obs w x s : Pre w s -> Pre w (obs x s).
Proof.
  intros (HV & HS & HF). split; [|split; assumption]. unfold obs. rewrite KS_emit.
  apply V_frame with (s := s); try reflexivity. apply V_obs. exact HV.
Qed.
Lemma Pre_set_sched w l s : Pre w s -> (nf = true -> existsb is_ofail l = false) -> Pre w (set_sched l s).
Proof.
  intros (HV & HS & HF) Hl. split; [|split; [exact HS|exact Hl]].
  rewrite (KS_frame _ _ s (set_sched l s)) by reflexivity. apply V_frame with (s := s); try reflexivity. exact HV.
Qed.

Variable nested : list acall -> st -> st.
Hypothesis Hn : forall sc s, NW c s -> Pre true s ->
  Pre true (nested sc s) /\ incb (nested sc s) = incb s /\ Rel s (nested sc s).
Hypothesis Hq : forall sc s, NW c s -> script_noreconn sc = true ->
  queue_noreconn (q_regw (scr s)) = true -> quiet_rel s (nested sc s).
Hypothesis Ht : forall sc s, forallb is_pubsub sc = true -> sock s = None -> teardown_rel_ps s (nested sc s).

(* a callback invocation at a stable point, script run without writing *)
Lemma run_site_N si held ev s :
  (held = true -> incb s = false) -> (held = false -> c_ext c = true) -> Pre true (emit ev s) ->
  let s' := run_site nested si held ev s in
  Pre true s' /\ incb s' = incb s /\ Rel s s'.
Proof.
  intros Hh Hx HP. unfold run_site.
  assert (E : held && incb s = false) by (destruct held; [rewrite Hh; reflexivity|reflexivity]).
  rewrite E.
  pose proof (Pre_obs true (WCb si) _ HP) as HP1.
  pose proof (pop_script_frame si (obs (WCb si) (emit ev s))) as F.
  pose proof (scr_ok_pop si (obs (WCb si) (emit ev s)) (proj1 (proj2 HP1))) as HS.
  destruct (pop_script si (obs (WCb si) (emit ev s))) as [sc s2]. cbn [fst snd] in *.
  destruct F as (Fcs & Fsock & Fregw & Foutq & Fping & Fincb & Fproto & Fnsock & Fsched & Ftr).
  ssimpl.
  assert (HP2 : Pre true s2).
  { destruct HP1 as (HV & _ & HF). split; [|split; [exact HS|]].
    - rewrite (KS_frame _ _ _ _ Ftr). eapply V_frame; [exact Fsock|exact Fcs|exact Foutq|exact HV].
    - unfold nofail in *. rewrite Fsched. exact HF. }
  destruct sc as [|a sc].
  - split; [exact HP2|]. split; [exact Fincb|]. intros H. left. rewrite Fsock in H. split; [exact H|exact Foutq].
  - set (s3 := set_incb (held || incb s2) s2).
    assert (HP3 : Pre true s3) by (eapply Pre_frame; [| | | | | |exact HP2]; reflexivity).
    assert (Hnw : NW c s3).
    { destruct held; [right; reflexivity|left; apply Hx; reflexivity]. }
    destruct (Hn (a :: sc) s3 Hnw HP3) as (N1 & N2 & N3).
    split; [eapply Pre_frame; [| | | | | |exact N1]; reflexivity|]. split; [ssimpl; exact Fincb|].
    eapply Rel_frame with (s1' := s3) (s2 := nested (a :: sc) s3); try reflexivity; try exact N3.
    + unfold s3. ssimpl. exact Fsock.
    + intros _. unfold s3. ssimpl. exact Foutq.
Qed.

(* on_socket_open right after the socket was created: its script is empty (exclusion D) *)
Lemma run_site_open ev s : Pre false (emit ev s) ->
  let s' := run_site nested SiOpen false ev s in
  Pre false s' /\ incb s' = incb s /\ sock s' = sock s /\ cs s' = cs s /\ regw s' = regw s.
Proof.
  intros HP. unfold run_site. cbn [andb].
  pose proof (Pre_obs false (WCb SiOpen) _ HP) as HP1.
  pose proof (pop_script_frame SiOpen (obs (WCb SiOpen) (emit ev s))) as F.
  pose proof (scr_ok_pop SiOpen (obs (WCb SiOpen) (emit ev s)) (proj1 (proj2 HP1))) as HS.
  pose proof (scr_ok_pop_open (obs (WCb SiOpen) (emit ev s)) (proj1 (proj2 HP1))) as Hnil.
  destruct (pop_script SiOpen (obs (WCb SiOpen) (emit ev s))) as [sc s2]. cbn [fst snd] in *. subst sc.
  destruct F as (Fcs & Fsock & Fregw & Foutq & Fping & Fincb & Fproto & Fnsock & Fsched & Ftr).
  ssimpl. repeat split; try assumption.
  - destruct HP1 as (HV & _ & HF). rewrite (KS_frame _ _ _ _ Ftr). eapply V_frame; [exact Fsock|exact Fcs|exact Foutq|exact HV].
  - destruct HP1 as (_ & _ & HF). unfold nofail in *. rewrite Fsched. exact HF.
Qed.

(* a callback invocation while no socket is held (on_socket_close / on_socket_unregister_write in
   _sock_close): its script only records publish()/subscribe() calls refused with NO_CONN *)
Record tear (s s' : st) : Prop := mkTear {
  t_ks : KS10 s' = KS10 s; t_sock : sock s' = sock s; t_cs : cs s' = cs s; t_outq : outq s' = outq s;
  t_regw : regw s' = regw s; t_incb : incb s' = incb s; t_sched : sched s' = sched s;
  t_ping : ping s' = ping s; t_proto : proto s' = proto s; t_nsock : nsock s' = nsock s;
  t_scr : scr_ok (scr s) = true -> scr_ok (scr s') = true
}.
Lemma tear_trans s1 s2 s3 : tear s1 s2 -> tear s2 s3 -> tear s1 s3.
Proof. intros [] []. constructor; try congruence. auto. Qed.

Lemma run_site_tear si ev s : (si = SiClose \/ si = SiUnregW) -> inert10 ev = true -> sock s = None ->
  scr_ok (scr s) = true -> tear s (run_site nested si false ev s).
Proof.
  intros Hsi Hev Hs HS. unfold run_site. cbn [andb].
  set (s1 := obs (WCb si) (emit ev s)).
  assert (T1 : tear s s1).
  { constructor; try reflexivity; [|auto]. unfold s1, obs. rewrite KS_emit, k10_inert, KS_emit, k10_inert; [reflexivity|exact Hev|].
    cbn. destruct Hsi as [-> | ->]; reflexivity. }
  pose proof (pop_script_frame si s1) as F.
  pose proof (scr_ok_pop si s1 HS) as HS2.
  pose proof (scr_ok_pop_teardown si s1 Hsi HS) as Hps.
  destruct (pop_script si s1) as [sc s2]. cbn [fst snd] in *.
  destruct F as (Fcs & Fsock & Fregw & Foutq & Fping & Fincb & Fproto & Fnsock & Fsched & Ftr).
  assert (T2 : tear s1 s2).
  { constructor; try assumption; [|auto]. apply KS_frame. exact Ftr. }
  eapply tear_trans; [exact T1|]. eapply tear_trans; [exact T2|].
  destruct sc as [|a sc]; [constructor; auto|].
  set (s3 := set_incb (false || incb s2) s2).
  assert (Hs3 : sock s3 = None) by (unfold s3; ssimpl; rewrite Fsock; exact Hs).
  destruct (Ht (a :: sc) s3 Hps Hs3) as ([] & Hcs & evs & Htr & Hf).
  constructor; ssimpl; try congruence.
  - rewrite (KS_frame _ _ (nested (a :: sc) s3) (set_incb (incb s2) (nested (a :: sc) s3))) by reflexivity.
    rewrite (KS_ignored k10_ev inert10 k0 s3 (nested (a :: sc) s3) evs); [reflexivity| |exact Htr|].
    + intros; apply k10_inert; assumption.
    + eapply Forall_impl; [|exact Hf]. intros e. apply tev_ps_inert.
  - rewrite co_scr. auto.
Qed.

(* _sock_close on a held socket: besides ConnEnd nothing the checkers see *)
Lemma sock_close_char r id s : sock s = Some id -> scr_ok (scr s) = true ->
  let s' := sock_close c nested r s in
  KS10 s' = k10_ev (KS10 s) (ConnEnd id r) /\ sock s' = None /\ cs s' = cs s /\ outq s' = outq s /\
  incb s' = incb s /\ sched s' = sched s /\ ping s' = ping s /\ proto s' = proto s /\ nsock s' = nsock s /\
  regw s' = false /\ scr_ok (scr s') = true.
Proof.
  intros Hs HS. unfold sock_close. rewrite Hs.
  set (s1 := emit (ConnEnd id r) (set_sock None s)).
  assert (Hs1 : sock s1 = None) by reflexivity.
  (* unregister *)
  assert (T2 : tear s1 (call_unregw c nested (Some id) s1) \/
               (regw s1 = true /\ tear (set_regw false s1) (call_unregw c nested (Some id) s1))).
  { unfold call_unregw. destruct (regw s1) eqn:Er; cbn [negb]; [right; split; [reflexivity|]|left; constructor; auto].
    destruct (c_ext c); [|constructor; auto].
    apply run_site_tear; [right; reflexivity|reflexivity|reflexivity|exact HS]. }
  set (s2 := call_unregw c nested (Some id) s1) in *.
  assert (T2' : KS10 s2 = KS10 s1 /\ sock s2 = None /\ cs s2 = cs s1 /\ outq s2 = outq s1 /\ incb s2 = incb s1 /\
                sched s2 = sched s1 /\ ping s2 = ping s1 /\ proto s2 = proto s1 /\ nsock s2 = nsock s1 /\
                regw s2 = false /\ scr_ok (scr s2) = true).
  { destruct T2 as [[]|[Er []]]; ssimpl.
    - assert (regw s1 = false).
      { unfold s2, call_unregw in t_regw0. destruct (regw s1) eqn:Er; [|reflexivity].
        (* if the flag was set the left alternative was not chosen *)
        exfalso. clear - Er t_regw0 T2. unfold s2 in *. clear T2.
        unfold call_unregw in t_regw0. rewrite Er in t_regw0. cbn [negb] in t_regw0.
        destruct (c_ext c).
        - pose proof (run_site_tear SiUnregW (UnregW id) (set_regw false s1) (or_intror eq_refl) eq_refl eq_refl HS) as [].
          ssimpl. congruence.
        - ssimpl. congruence. }
      repeat split; try congruence. auto.
    - repeat split; try congruence; auto. }
  destruct T2' as (A1 & A2 & A3 & A4 & A5 & A6 & A7 & A8 & A9 & A10 & A11).
  assert (E1 : KS10 s1 = k10_ev (KS10 s) (ConnEnd id r)).
  { unfold s1. rewrite KS_emit. rewrite (KS_frame _ _ s (set_sock None s)) by reflexivity. reflexivity. }
  destruct (c_sockcb c).
  - destruct (run_site_tear SiClose (SockClose id) s2 (or_introl eq_refl) eq_refl A2 A11) as [].
    repeat split; try congruence. auto.
  - repeat split; try congruence.
Qed.

End C10.
