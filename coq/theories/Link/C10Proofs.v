(* C10 over the Conn model, part 2: every operation preserves the invariant, under the exclusions
   D, E, F, G, R, C of ConnStatements.v; nested scripts of any length and depth. *)
From PahoV Require Import Base.Prelude Link.Conn Link.ConnCheck Link.ConnInv Link.ConnStatements Link.C10Inv.

Ltac gsimpl :=
  cbn [cs sock regw outq ping incb proto nsock sched scr tr
       emit set_cs set_sock set_regw set_outq set_ping set_incb set_proto set_nsock set_sched set_scr
       push_front obs fst snd].

Lemma nofail_tail o l : existsb is_ofail (o :: l) = false -> existsb is_ofail l = false.
Proof. cbn. intros H. apply orb_false_iff in H. apply H. Qed.

(* ---- popping scripts under scr_ok ---- *)
Lemma pop_list_forall {A} (f : list A -> bool) (q : list (list A)) : forallb f q = true -> f [] = true ->
  f (fst (pop_list q)) = true /\ forallb f (snd (pop_list q)) = true.
Proof. destruct q as [|x q]; cbn; [auto|]. intros H _. apply andb_true_iff in H. exact H. Qed.

Lemma scr_ok_pop si s : scr_ok (scr s) = true -> scr_ok (scr (snd (pop_script si s))) = true.
Proof.
  unfold scr_ok. intros H. repeat (apply andb_true_iff in H as [H ?]).
  destruct si; unfold pop_script;
    match goal with |- context [pop_list ?l] => destruct (pop_list l) eqn:E end;
    cbn [snd scr set_scr q_open q_discopen q_close q_unregw q_regw];
    repeat (apply andb_true_iff; split); try assumption.
  - pose proof (pop_list_forall is_nil _ H eq_refl) as [_ X]. rewrite E in X. exact X.
  - pose proof (pop_list_forall (forallb is_pubsub) _ H2 eq_refl) as [_ X]. rewrite E in X. exact X.
  - pose proof (pop_list_noreconn _ H0) as [_ X]. rewrite E in X. exact X.
  - pose proof (pop_list_forall (forallb is_pubsub) _ H1 eq_refl) as [_ X]. rewrite E in X. exact X.
  - pose proof (pop_list_noreconn _ H3) as [_ X]. rewrite E in X. exact X.
Qed.

Lemma scr_ok_regw q : scr_ok q = true -> queue_noreconn (q_regw q) = true.
Proof. unfold scr_ok. intros H. repeat (apply andb_true_iff in H as [H ?]). assumption. Qed.

Lemma scr_ok_pop_open s : scr_ok (scr s) = true -> fst (pop_script SiOpen s) = [].
Proof.
  unfold scr_ok. intros H. repeat (apply andb_true_iff in H as [H ?]). unfold pop_script.
  destruct (q_open (scr s)) as [|x q]; cbn; [reflexivity|]. cbn in H. apply andb_true_iff in H as [H _].
  destruct x; [reflexivity|discriminate].
Qed.
Lemma scr_ok_pop_teardown si s : (si = SiClose \/ si = SiUnregW) -> scr_ok (scr s) = true ->
  forallb is_pubsub (fst (pop_script si s)) = true.
Proof.
  unfold scr_ok. intros Hsi H. repeat (apply andb_true_iff in H as [H ?]). unfold pop_script.
  destruct Hsi as [-> | ->].
  - pose proof (pop_list_forall (forallb is_pubsub) _ H2 eq_refl) as [X _]. destruct (pop_list (q_close (scr s))). exact X.
  - pose proof (pop_list_forall (forallb is_pubsub) _ H1 eq_refl) as [X _]. destruct (pop_list (q_unregw (scr s))). exact X.
Qed.
Lemma scr_ok_pop_discopen s : scr_ok (scr s) = true -> script_noreconn (fst (pop_script SiDiscOpen s)) = true.
Proof.
  unfold scr_ok. intros H. repeat (apply andb_true_iff in H as [H ?]). unfold pop_script.
  pose proof (pop_list_noreconn _ H3) as [X _]. destruct (pop_list (q_discopen (scr s))). exact X.
Qed.

Lemma scr_ok_quiet s s' : quiet_rel s s' -> scr_ok (scr s) = true -> scr_ok (scr s') = true.
Proof.
  intros Q. destruct (qr_scr _ _ Q) as (_ & _ & A3 & A4 & A5 & _ & A7 & A8).
  unfold scr_ok. intros H. repeat (apply andb_true_iff in H as [H ?]).
  rewrite A3, A4, A5, A7, H, H3, H2, H1, (A8 H0). reflexivity.
Qed.

Definition Rel (s s' : st) : Prop := sock s' = None -> (sock s = None /\ outq s' = outq s) \/ outq s' = [].
Lemma Rel_refl s : Rel s s.
Proof. intros H. left. split; [exact H|reflexivity]. Qed.
Lemma Rel_trans s1 s2 s3 : Rel s1 s2 -> Rel s2 s3 -> Rel s1 s3.
Proof.
  intros A B H. destruct (B H) as [[B1 B2]|B1]; [|right; exact B1].
  destruct (A B1) as [[A1 A2]|A1]; [left; split; [exact A1|congruence]|right; congruence].
Qed.
Lemma Rel_quiet s s' : quiet_rel s s' -> Rel s s'.
Proof.
  intros Q H. left. rewrite (qr_sock _ _ Q) in H. split; [exact H|].
  destruct (qr_outq _ _ Q) as (a & A1 & _ & A3 & _). rewrite A1, (A3 H), app_nil_r. reflexivity.
Qed.
Lemma Rel_frame s1 s1' s2 s2' : sock s1' = sock s1 -> sock s2' = sock s2 -> outq s2' = outq s2 ->
  (sock s1 = None -> outq s1' = outq s1) -> Rel s1' s2 -> Rel s1 s2'.
Proof.
  intros A B C0 D R H. rewrite B in H. destruct (R H) as [[R1 R2]|R1].
  - left. rewrite A in R1. split; [exact R1|]. rewrite C0, R2. apply D. exact R1.
  - right. rewrite C0. exact R1.
Qed.

Section C10.
Variable c : cfg.
Variable k0 : k10.
Variable nf : bool.      (* this operation is a loop_read in direct-write mode: no failing send scheduled *)
Notation KS10 := (KS k10_ev k0).
Definition nofail (s : st) : Prop := nf = true -> existsb is_ofail (sched s) = false.
Definition Pre (w : bool) (s : st) : Prop := V w s (KS10 s) /\ scr_ok (scr s) = true /\ nofail s.

Lemma Pre_frame w s s' : tr s' = tr s -> sock s' = sock s -> cs s' = cs s -> outq s' = outq s ->
  scr s' = scr s -> sched s' = sched s -> Pre w s -> Pre w s'.
Proof.
  intros Ht Hs Hc Hq Hscr Hsch (HV & HS & HF). unfold Pre, nofail. rewrite (KS_frame _ _ _ _ Ht), Hscr, Hsch.
  split; [eapply V_frame; eassumption|]. split; assumption.
Qed.
Lemma Pre_emit w e s : inert10 e = true -> Pre w s -> Pre w (emit e s).
Proof.
  intros He (HV & HS & HF). split; [|split; assumption]. rewrite KS_emit.
  apply V_frame with (s := s); try reflexivity. apply V_inert; assumption.
Qed.
Lemma Pre_obs w x s : Pre w s -> Pre w (obs x s).
Proof.
  intros (HV & HS & HF). split; [|split; assumption]. unfold obs. rewrite KS_emit.
  apply V_frame with (s := s); try reflexivity. apply V_obs. exact HV.
Qed.
Lemma Pre_set_sched w l s : Pre w s -> (nf = true -> existsb is_ofail l = false) -> Pre w (set_sched l s).
Proof.
  intros (HV & HS & HF) Hl. split; [|split; [exact HS|exact Hl]].
  rewrite (KS_frame _ _ s (set_sched l s)) by reflexivity. apply V_frame with (s := s); try reflexivity. exact HV.
Qed.

Variable nested : list acall -> st -> st.
Hypothesis Hn : forall sc s, NW c s -> Pre true s ->
  Pre true (nested sc s) /\ incb (nested sc s) = incb s /\ Rel s (nested sc s).
Hypothesis Hq : forall sc s, NW c s -> script_noreconn sc = true ->
  queue_noreconn (q_regw (scr s)) = true -> quiet_rel s (nested sc s).
Hypothesis Ht : forall sc s, forallb is_pubsub sc = true -> sock s = None -> teardown_rel_ps s (nested sc s).

(* a callback invocation at a stable point, script run without writing *)
Lemma run_site_N si held ev s :
  (held = true -> incb s = false) -> (held = false -> c_ext c = true) -> Pre true (emit ev s) ->
  let s' := run_site nested si held ev s in
  Pre true s' /\ incb s' = incb s /\ Rel s s'.
Proof.
  intros Hh Hx HP. unfold run_site.
  assert (E : held && incb s = false) by (destruct held; [rewrite Hh; reflexivity|reflexivity]).
  rewrite E.
  pose proof (Pre_obs true (WCb si) _ HP) as HP1.
  pose proof (pop_script_frame si (obs (WCb si) (emit ev s))) as F.
  pose proof (scr_ok_pop si (obs (WCb si) (emit ev s)) (proj1 (proj2 HP1))) as HS.
  destruct (pop_script si (obs (WCb si) (emit ev s))) as [sc s2]. cbn [fst snd] in *.
  destruct F as (Fcs & Fsock & Fregw & Foutq & Fping & Fincb & Fproto & Fnsock & Fsched & Ftr).
  gsimpl.
  assert (HP2 : Pre true s2).
  { destruct HP1 as (HV & _ & HF). split; [|split; [exact HS|]].
    - rewrite (KS_frame _ _ _ _ Ftr). eapply V_frame; [exact Fsock|exact Fcs|exact Foutq|exact HV].
    - unfold nofail in *. rewrite Fsched. exact HF. }
  destruct sc as [|a sc].
  - split; [exact HP2|]. split; [exact Fincb|]. intros H. left. rewrite Fsock in H. split; [exact H|exact Foutq].
  - set (s3 := set_incb (held || incb s2) s2).
    assert (HP3 : Pre true s3) by (eapply Pre_frame; [| | | | | |exact HP2]; reflexivity).
    assert (Hnw : NW c s3).
    { destruct held; [right; reflexivity|left; apply Hx; reflexivity]. }
    destruct (Hn (a :: sc) s3 Hnw HP3) as (N1 & N2 & N3).
    split; [eapply Pre_frame; [| | | | | |exact N1]; reflexivity|]. split; [ssimpl; exact Fincb|].
    eapply Rel_frame with (s1' := s3) (s2 := nested (a :: sc) s3); try reflexivity; try exact N3.
    + unfold s3. ssimpl. exact Fsock.
    + intros _. unfold s3. ssimpl. exact Foutq.
Qed.

(* on_socket_open right after the socket was created: its script is empty (exclusion D) *)
Lemma run_site_open ev s : Pre false (emit ev s) ->
  let s' := run_site nested SiOpen false ev s in
  Pre false s' /\ incb s' = incb s /\ sock s' = sock s /\ cs s' = cs s /\ regw s' = regw s.
Proof.
  intros HP. unfold run_site. cbn [andb].
  pose proof (Pre_obs false (WCb SiOpen) _ HP) as HP1.
  pose proof (pop_script_frame SiOpen (obs (WCb SiOpen) (emit ev s))) as F.
  pose proof (scr_ok_pop SiOpen (obs (WCb SiOpen) (emit ev s)) (proj1 (proj2 HP1))) as HS.
  pose proof (scr_ok_pop_open (obs (WCb SiOpen) (emit ev s)) (proj1 (proj2 HP1))) as Hnil.
  destruct (pop_script SiOpen (obs (WCb SiOpen) (emit ev s))) as [sc s2]. cbn [fst snd] in *. subst sc.
  destruct F as (Fcs & Fsock & Fregw & Foutq & Fping & Fincb & Fproto & Fnsock & Fsched & Ftr).
  gsimpl. split; [|repeat split; assumption].
  destruct HP1 as (HV & _ & HF). split; [|split; [exact HS|]].
  - rewrite (KS_frame _ _ _ _ Ftr). eapply V_frame; [exact Fsock|exact Fcs|exact Foutq|exact HV].
  - unfold nofail in *. rewrite Fsched. exact HF.
Qed.

(* a callback invocation while no socket is held (on_socket_close / on_socket_unregister_write in
   _sock_close): its script only records publish()/subscribe() calls refused with NO_CONN *)
Record tear (s s' : st) : Prop := mkTear {
  t_ks : KS10 s' = KS10 s; t_sock : sock s' = sock s; t_cs : cs s' = cs s; t_outq : outq s' = outq s;
  t_regw : regw s' = regw s; t_incb : incb s' = incb s; t_sched : sched s' = sched s;
  t_ping : ping s' = ping s; t_proto : proto s' = proto s; t_nsock : nsock s' = nsock s;
  t_scr : scr_ok (scr s) = true -> scr_ok (scr s') = true
}.
Lemma tear_trans s1 s2 s3 : tear s1 s2 -> tear s2 s3 -> tear s1 s3.
Proof. intros [] []. constructor; try congruence. auto. Qed.

Lemma run_site_tear si ev s : (si = SiClose \/ si = SiUnregW) -> inert10 ev = true -> sock s = None ->
  scr_ok (scr s) = true -> tear s (run_site nested si false ev s).
Proof.
  intros Hsi Hev Hs HS. unfold run_site. cbn [andb].
  set (s1 := obs (WCb si) (emit ev s)).
  assert (T1 : tear s s1).
  { constructor; try reflexivity; [|auto]. unfold s1, obs. rewrite KS_emit, k10_inert, KS_emit, k10_inert; [reflexivity|exact Hev|].
    cbn. destruct Hsi as [-> | ->]; reflexivity. }
  pose proof (pop_script_frame si s1) as F.
  pose proof (scr_ok_pop si s1 HS) as HS2.
  pose proof (scr_ok_pop_teardown si s1 Hsi HS) as Hps.
  destruct (pop_script si s1) as [sc s2]. cbn [fst snd] in *.
  destruct F as (Fcs & Fsock & Fregw & Foutq & Fping & Fincb & Fproto & Fnsock & Fsched & Ftr).
  assert (T2 : tear s1 s2).
  { constructor; try assumption; [|auto]. apply KS_frame. exact Ftr. }
  eapply tear_trans; [exact T1|]. eapply tear_trans; [exact T2|].
  destruct sc as [|a sc]; [constructor; auto|].
  set (s3 := set_incb (false || incb s2) s2).
  assert (Hs3 : sock s3 = None) by (unfold s3; ssimpl; rewrite Fsock; exact Hs).
  destruct (Ht (a :: sc) s3 Hps Hs3) as ([] & Hcs & evs & Htr & Hf).
  assert (EK : KS10 (nested (a :: sc) s3) = KS10 s2).
  { rewrite (KS_ignored k10_ev inert10 k0 s3 (nested (a :: sc) s3) evs); [reflexivity| |exact Htr|].
    - intros; apply k10_inert; assumption.
    - eapply Forall_impl; [|exact Hf]. intros e. apply tev_ps_inert. }
  unfold s3 in *. clear s3. ssimpl.
  constructor; ssimpl; try congruence.
  - rewrite (KS_frame _ _ (nested (a :: sc) (set_incb (incb s2) s2)) (set_incb (incb s2) (nested (a :: sc) (set_incb (incb s2) s2)))) by reflexivity.
    exact EK.
Qed.

(* _call_socket_unregister_write(sock) inside _sock_close *)
Lemma call_unregw_tear id s : sock s = None -> scr_ok (scr s) = true ->
  let s' := call_unregw c nested (Some id) s in
  KS10 s' = KS10 s /\ sock s' = None /\ cs s' = cs s /\ outq s' = outq s /\ incb s' = incb s /\
  sched s' = sched s /\ ping s' = ping s /\ proto s' = proto s /\ nsock s' = nsock s /\
  regw s' = false /\ scr_ok (scr s') = true.
Proof.
  intros Hs HS. unfold call_unregw. destruct (regw s) eqn:Er; cbn [negb].
  2:{ repeat split; try assumption; reflexivity. }
  destruct (c_ext c).
  - destruct (run_site_tear SiUnregW (UnregW id) (set_regw false s) (or_intror eq_refl) eq_refl Hs HS) as [].
    ssimpl. repeat split; try congruence; auto. all: try (rewrite t_ks0; reflexivity).
  - ssimpl. repeat split; try assumption; reflexivity.
Qed.

(* _sock_close on a held socket: besides ConnEnd nothing the checkers see *)
Lemma sock_close_char r id s : sock s = Some id -> scr_ok (scr s) = true ->
  let s' := sock_close c nested r s in
  KS10 s' = k10_ev (KS10 s) (ConnEnd id r) /\ sock s' = None /\ cs s' = cs s /\ outq s' = outq s /\
  incb s' = incb s /\ sched s' = sched s /\ ping s' = ping s /\ proto s' = proto s /\ nsock s' = nsock s /\
  regw s' = false /\ scr_ok (scr s') = true.
Proof.
  intros Hs HS. unfold sock_close. rewrite Hs.
  set (s1 := emit (ConnEnd id r) (set_sock None s)).
  assert (E1 : KS10 s1 = k10_ev (KS10 s) (ConnEnd id r)).
  { unfold s1. rewrite KS_emit. rewrite (KS_frame _ _ s (set_sock None s)) by reflexivity. reflexivity. }
  destruct (call_unregw_tear id s1 eq_refl HS) as (A1 & A2 & A3 & A4 & A5 & A6 & A7 & A8 & A9 & A10 & A11).
  set (s2 := call_unregw c nested (Some id) s1) in *.
  assert (B : cs s1 = cs s /\ outq s1 = outq s /\ incb s1 = incb s /\ sched s1 = sched s /\ ping s1 = ping s /\
              proto s1 = proto s /\ nsock s1 = nsock s) by (repeat split; reflexivity).
  destruct B as (B1 & B2 & B3 & B4 & B5 & B6 & B7).
  destruct (c_sockcb c).
  - destruct (run_site_tear SiClose (SockClose id) s2 (or_introl eq_refl) eq_refl A2 A11) as [].
    repeat split; try congruence; auto.
  - repeat split; try congruence.
Qed.


(* _call_socket_register_write *)
Lemma call_regw_N s : Pre true s ->
  let s' := call_regw c nested s in
  Pre true s' /\ incb s' = incb s /\ quiet_rel s s'.
Proof.
  intros HP.
  assert (Q : quiet_rel s (call_regw c nested s)).
  { destruct (Bool.bool_dec (c_ext c) true) as [Ex|Ex].
    - apply call_regw_quiet; [exact Hq|left; exact Ex|apply scr_ok_regw; apply HP].
    - apply not_true_is_false in Ex. unfold call_regw. destruct (sock s) eqn:Es; [|apply quiet_refl].
      destruct (regw s) eqn:Er; [apply quiet_refl|]. rewrite Ex.
      apply quiet_frame; try reflexivity; ssimpl; try reflexivity; congruence. }
  split; [|split; [exact (qr_incb _ _ Q)|exact Q]].
  unfold call_regw in *. destruct (sock s) as [id|] eqn:Es; [|exact HP].
  destruct (regw s) eqn:Er; [exact HP|].
  assert (HP1 : Pre true (set_regw true s)) by (eapply Pre_frame; [| | | | | |exact HP]; reflexivity).
  destruct (c_ext c) eqn:Ex; [|exact HP1].
  apply run_site_N; [discriminate|auto|]. apply Pre_emit; [reflexivity|exact HP1].
Qed.

(* _call_socket_unregister_write() at the end of loop_write *)
Lemma call_unregw_N s : Pre true s ->
  let s' := call_unregw c nested None s in Pre true s' /\ incb s' = incb s.
Proof.
  intros HP. unfold call_unregw. destruct (sock s) as [id|] eqn:Es; [|split; [exact HP|reflexivity]].
  destruct (regw s) eqn:Er; cbn [negb]; [|split; [exact HP|reflexivity]].
  assert (HP1 : Pre true (set_regw false s)) by (eapply Pre_frame; [| | | | | |exact HP]; reflexivity).
  destruct (c_ext c) eqn:Ex; [|split; [exact HP1|reflexivity]].
  destruct (run_site_N SiUnregW false (UnregW id) (set_regw false s)) as (A & B & _); [discriminate|auto| |].
  - apply Pre_emit; [reflexivity|exact HP1].
  - split; [exact A|exact B].
Qed.

(* a connection ends for a reason other than replacement: close, state, on_disconnect *)
Lemma close_lost r rc fb id s : Pre true s -> sock s = Some id -> incb s = false ->
  is_replaced r = false -> (fb = false -> rc <> 0) ->
  let s' := fst (lost_tail nested rc fb (sock_close c nested r s)) in
  Pre true s' /\ incb s' = false.
Proof.
  intros (HV & HS & HF) Hs Hi Hr Hrc.
  destruct (sock_close_char r id s Hs HS) as (A1 & A2 & A3 & A4 & A5 & A6 & A7 & A8 & A9 & A10 & A11).
  set (s1 := sock_close c nested r s) in *.
  unfold lost_tail.
  assert (Ed : disc_state s1 = disc_state s) by (unfold disc_state; rewrite A3; reflexivity).
  assert (G : forall x rc', (is_connected (set_cs x s1) = false) ->
              (fb = true \/ (rc' =? 0) = disc_state s) ->
              let s' := do_on_disconnect nested rc' fb (set_cs x s1) in Pre true s' /\ incb s' = false).
  { intros x rc' Hx Hcond. unfold do_on_disconnect, has_sock. ssimpl. rewrite A2.
    destruct (run_site_N SiDisconnect true (CbDisconnect rc' fb) (set_cs x s1)) as (B1 & B2 & _).
    - intros _. ssimpl. congruence.
    - discriminate.
    - split; [|split].
      + rewrite KS_emit. rewrite (KS_frame _ _ s1 (set_cs x s1)) by reflexivity. rewrite A1.
        eapply V_end_lost; [exact HV|exact Hs|exact Hr|exact Hcond|ssimpl; exact A2|exact Hx].
      + ssimpl. exact A11.
      + unfold nofail in *. ssimpl. rewrite A6. exact HF.
    - split; [exact B1|]. rewrite B2. ssimpl. congruence. }
  rewrite Ed. destruct (disc_state s) eqn:Eds; cbn [fst].
  - apply G; [reflexivity|]. destruct fb; [left; reflexivity|right; reflexivity].
  - apply G; [reflexivity|]. destruct fb; [left; reflexivity|right]. apply Z.eqb_neq. apply Hrc. reflexivity.
Qed.

Lemma loop_rc_handle_N rc id s : Pre true s -> sock s = Some id -> incb s = false -> rc > 0 ->
  let s' := fst (loop_rc_handle c nested rc s) in Pre true s' /\ incb s' = false.
Proof. intros. unfold loop_rc_handle. apply close_lost with (id := id); auto. intros; lia. Qed.

Lemma keepalive_close_N id s : Pre true s -> sock s = Some id -> incb s = false ->
  let s' := keepalive_close c nested s in Pre true s' /\ incb s' = false.
Proof. intros. unfold keepalive_close. apply close_lost with (id := id); auto. unfold E_KEEPALIVE. intros; lia. Qed.

Lemma call_regw_Q s : scr_ok (scr s) = true -> quiet_rel s (call_regw c nested s).
Proof.
  intros HS. destruct (Bool.bool_dec (c_ext c) true) as [Ex|Ex].
  - apply call_regw_quiet; [exact Hq|left; exact Ex|apply scr_ok_regw; exact HS].
  - apply not_true_is_false in Ex. unfold call_regw. destruct (sock s) eqn:Es; [|apply quiet_refl].
    destruct (regw s) eqn:Er; [apply quiet_refl|]. rewrite Ex.
    apply quiet_frame; try reflexivity; ssimpl; try reflexivity; congruence.
Qed.

Lemma pop_outcome_spec s : nofail s ->
  let o := fst (pop_outcome s) in let s1 := snd (pop_outcome s) in
  tr s1 = tr s /\ sock s1 = sock s /\ cs s1 = cs s /\ outq s1 = outq s /\ scr s1 = scr s /\ incb s1 = incb s /\
  nofail s1 /\ (nf = true -> o <> OFail).
Proof.
  intros HF. unfold pop_outcome. destruct (sched s) as [|o l] eqn:E; cbn [fst snd].
  - repeat split; try reflexivity; [exact HF|discriminate].
  - ssimpl. repeat split; try reflexivity.
    + unfold nofail in *. ssimpl. intros X. specialize (HF X). rewrite E in HF. eapply nofail_tail. exact HF.
    + intros X Y. subst o. specialize (HF X). rewrite E in HF. discriminate.
Qed.

Lemma Vc_obs id s k x hs ww rw : Vc id s k -> Vc id s (k10_ev k (Obs x (is_connected s) hs ww rw)).
Proof.
  intros HV. destruct HV as [cok1 cok2 cok3 csock ccur1 ccur2 ccs cowed ccredit].
  assert (E : is_connected s = false) by (unfold is_connected; rewrite ccs; reflexivity). rewrite E.
  k10s. destruct (teardown_site x); k10s; constructor; k10s; try assumption.
  rewrite cok1. reflexivity.
Qed.

(* a DISCONNECT packet has just been written completely *)
Lemma disc_written id p q' s s1 : Pre true s -> outq s = p :: q' -> qk p = KDisconnect -> sock s = Some id ->
  incb s = false -> tr s1 = tr s -> sock s1 = sock s -> cs s1 = cs s -> outq s1 = q' -> scr s1 = scr s ->
  incb s1 = incb s -> nofail s1 ->
  let s3 := do_on_disconnect nested 0 false (emit (Tx id KDisconnect) s1) in
  let s4 := sock_close c nested RDiscWritten s3 in
  let s5 := match cs s4 with CsDisconnecting => set_cs CsDisconnected s4 | _ => s4 end in
  Pre true s5 /\ incb s5 = false.
Proof.
  intros (HV & HS & HF) Hq0 Hk Hs Hi Ftr Fsock Fcs Foutq Fscr Fincb HF1.
  set (s2 := emit (Tx id KDisconnect) s1).
  assert (W0 : Vc id s2 (k10_ev (KS10 s2) (CbDisconnect 0 false))).
  { unfold s2. rewrite KS_emit, (KS_frame _ _ _ _ Ftr).
    pose proof (Vc_enter id p q' s (KS10 s) Hs Hq0 ltac:(rewrite Hk; reflexivity) HV) as W. rewrite Hk in W.
    destruct W as [cok1 cok2 cok3 csock ccur1 ccur2 ccs cowed ccredit]. ssimpl.
    constructor; ssimpl; try assumption; congruence. }
  unfold do_on_disconnect, has_sock. fold s2.
  assert (Es2 : sock s2 = Some id) by (unfold s2; ssimpl; congruence). rewrite Es2.
  unfold run_site. assert (Ei : incb s2 = false) by (unfold s2; ssimpl; congruence). rewrite Ei. cbn [andb].
  set (sa := obs (WCb SiDiscOpen) (emit (CbDisconnect 0 false) s2)).
  assert (Wa : Vc id sa (KS10 sa)).
  { unfold sa, obs. rewrite KS_emit, KS_emit.
    destruct W0 as [cok1 cok2 cok3 csock ccur1 ccur2 ccs cowed ccredit].
    assert (W0' : Vc id (emit (CbDisconnect 0 false) s2) (k10_ev (KS10 s2) (CbDisconnect 0 false))).
    { constructor; ssimpl; assumption. }
    pose proof (Vc_obs id _ _ (WCb SiDiscOpen) (has_sock (emit (CbDisconnect 0 false) s2))
                  (want_write (emit (CbDisconnect 0 false) s2)) (regw s2) W0') as W1.
    destruct W1 as [cok1' cok2' cok3' csock' ccur1' ccur2' ccs' cowed' ccredit']. constructor; ssimpl; assumption. }
  assert (HSa : scr_ok (scr sa) = true) by (unfold sa, s2; ssimpl; rewrite Fscr; exact HS).
  pose proof (pop_script_frame SiDiscOpen sa) as F.
  pose proof (scr_ok_pop SiDiscOpen sa HSa) as HSb.
  pose proof (scr_ok_pop_discopen sa HSa) as Hsc.
  destruct (pop_script SiDiscOpen sa) as [sc sb]. cbn [fst snd] in *.
  destruct F as (Gcs & Gsock & Gregw & Goutq & Gping & Gincb & Gproto & Gnsock & Gsched & Gtr).
  assert (Wb : Vc id sb (KS10 sb)).
  { rewrite (KS_frame _ _ _ _ Gtr). destruct Wa as [cok1 cok2 cok3 csock ccur1 ccur2 ccs cowed ccredit].
    constructor; try assumption; congruence. }
  (* the state after the callback returned *)
  assert (R : exists sw, (match sc with [] => sb | _ :: _ => set_incb (incb sb) (nested sc (set_incb (true || incb sb) sb)) end) = sw /\
              Vc id sw (KS10 sw) /\ scr_ok (scr sw) = true /\ incb sw = false /\ sched sw = sched s1).
  { assert (Hib : incb sb = false) by (rewrite Gincb; unfold sa; ssimpl; exact Ei).
    assert (Hsb : sched sb = sched s1) by (rewrite Gsched; reflexivity).
    destruct sc as [|a sc]; [exists sb; split; [reflexivity|]; split; [exact Wb|]; split; [exact HSb|]; split; [exact Hib|exact Hsb]|].
    eexists; split; [reflexivity|].
    set (sc0 := set_incb (true || incb sb) sb).
    assert (Wc : Vc id sc0 (KS10 sc0)).
    { rewrite (KS_frame _ _ sb sc0) by reflexivity. destruct Wb as [cok1 cok2 cok3 csock ccur1 ccur2 ccs cowed ccredit].
      constructor; ssimpl; assumption. }
    assert (Q : quiet_rel sc0 (nested (a :: sc) sc0)).
    { apply Hq; [right; reflexivity|exact Hsc|apply scr_ok_regw; exact HSb]. }
    pose proof (Vc_quiet id _ _ k0 Q Wc) as Wd.
    split; [|split; [|split]].
    - rewrite (KS_frame _ _ (nested (a :: sc) sc0) (set_incb (incb sb) (nested (a :: sc) sc0))) by reflexivity.
      destruct Wd as [cok1 cok2 cok3 csock ccur1 ccur2 ccs cowed ccredit]. constructor; ssimpl; assumption.
    - ssimpl. eapply scr_ok_quiet; [exact Q|exact HSb].
    - ssimpl. exact Hib.
    - ssimpl. rewrite (qr_sched _ _ Q). exact Hsb. }
  destruct R as (sw & Esw & Ww & HSw & Hiw & Hschw). rewrite Esw. clear Esw.
  destruct Ww as [cok1 cok2 cok3 csock ccur1 ccur2 ccs cowed ccredit].
  destruct (sock_close_char RDiscWritten id sw csock HSw) as (A1 & A2 & A3 & A4 & A5 & A6 & A7 & A8 & A9 & A10 & A11).
  set (s4 := sock_close c nested RDiscWritten sw) in *.
  rewrite A3, ccs.
  split; [|ssimpl; congruence].
  split; [|split].
  - rewrite (KS_frame _ _ s4 (set_cs CsDisconnected s4)) by reflexivity. rewrite A1.
    eapply Vc_end; [constructor; eassumption|ssimpl; exact A2|reflexivity].
  - ssimpl. exact A11.
  - unfold nofail in *. ssimpl. rewrite A6, Hschw. exact HF1.
Qed.

Lemma V_restart b p q' s k : outq s = p :: q' -> V true s k -> V true (set_outq (mkQ (qk p) b :: q') s) k.
Proof.
  intros Hq0 HV. destruct HV as [ok1 ok2 ok3 cur1 cur2 cur3 conn owed credit disc qdisc wire new].
  rewrite Hq0 in *. constructor; ssimpl; try assumption.
  intros; discriminate.
Qed.

Lemma pw_loop_N : forall n s, Pre true s -> incb s = false -> (sock s = None -> outq s = []) ->
  Pre true (fst (pw_loop c nested n s)) /\ incb (fst (pw_loop c nested n s)) = false /\
  (snd (pw_loop c nested n s) > 0 -> sock (fst (pw_loop c nested n s)) <> None) /\
  (nf = true -> snd (pw_loop c nested n s) <= 0).
Proof.
  induction n as [|n IH]; intros s HP Hi Hno; cbn [pw_loop].
  { cbn [fst snd]. split; [apply Pre_emit; [reflexivity|exact HP]|]. split; [exact Hi|]. split; intros; lia. }
  destruct (outq s) as [|p q'] eqn:Eq0.
  { cbn [fst snd]. split; [exact HP|]. split; [exact Hi|]. split; intros; lia. }
  destruct (sock s) as [id|] eqn:Es; [|specialize (Hno eq_refl); discriminate].
  ssimpl. rewrite Es.
  destruct HP as (HV & HS & HF).
  pose proof (pop_outcome_spec (set_outq q' s) HF) as Sp.
  destruct (pop_outcome (set_outq q' s)) as [o s1]. cbn [fst snd] in Sp.
  destruct Sp as (Ftr & Fsock & Fcs & Foutq & Fscr & Fincb & HF1 & Hof). ssimpl.
  (* the head packet put back *)
  assert (Hback : forall b, Pre true (push_front (mkQ (qk p) b) s1)).
  { intros b. split; [|split; [ssimpl; rewrite Fscr; exact HS|unfold nofail in *; ssimpl; exact HF1]].
    rewrite (KS_frame _ _ s (push_front (mkQ (qk p) b) s1)) by (ssimpl; exact Ftr).
    apply V_frame with (s := set_outq (mkQ (qk p) b :: q') s); ssimpl; try congruence.
    apply V_restart; assumption. }
  assert (Hback' : Pre true (push_front p s1)).
  { specialize (Hback (qstarted p)). destruct p; exact Hback. }
  assert (Hblocked : let s' := push_front p (call_regw c nested s1) in
                     Pre true s' /\ incb s' = false).
  { pose proof (call_regw_Q s1 ltac:(rewrite Fscr; exact HS)) as Q.
    split; [|ssimpl; rewrite (qr_incb _ _ Q); congruence].
    split; [|split].
    - rewrite (KS_frame _ _ (call_regw c nested s1) (push_front p (call_regw c nested s1))) by reflexivity.
      pose proof (V_quiet [p] s1 (call_regw c nested s1) k0 Q) as X. cbn [app] in X. apply X.
      destruct Hback' as (X1 & _). rewrite (KS_frame _ _ s1 (push_front p s1)) in X1 by reflexivity. exact X1.
    - ssimpl. eapply scr_ok_quiet; [exact Q|rewrite Fscr; exact HS].
    - unfold nofail in *. ssimpl. rewrite (qr_sched _ _ Q). exact HF1. }
  assert (Hs1 : sock s1 = Some id) by congruence.
  assert (Hi1 : incb s1 = false) by congruence.
  destruct o.
  - (* everything accepted *)
    destruct (is_disconnect (qk p)) eqn:Ed.
    + assert (Hk : qk p = KDisconnect) by (destruct (qk p); try discriminate; reflexivity). rewrite Hk.
      cbn [fst snd].
      pose proof (disc_written id p q' s s1 (conj HV (conj HS HF)) Eq0 Hk Es Hi Ftr Fsock Fcs Foutq Fscr Fincb HF1) as (X1 & X2).
      split; [exact X1|]. split; [exact X2|]. split; intros; lia.
    + assert (HP2 : Pre true (emit (Tx id (qk p)) s1)).
      { split; [|split; [ssimpl; rewrite Fscr; exact HS|unfold nofail in *; ssimpl; exact HF1]].
        rewrite KS_emit, (KS_frame _ _ _ _ Ftr).
        apply V_frame with (s := set_outq q' s); ssimpl; try congruence.
        apply V_tx; assumption. }
      assert (Hother : let r := pw_loop c nested n (emit (Tx id (qk p)) s1) in
                Pre true (fst r) /\ incb (fst r) = false /\ (snd r > 0 -> sock (fst r) <> None) /\ (nf = true -> snd r <= 0)).
      { apply IH; [exact HP2|ssimpl; exact Hi1|ssimpl; congruence]. }
      destruct (qk p) eqn:Ek; try exact Hother; [discriminate Ed|].
      (* QoS 0 PUBLISH: on_publish *)
      destruct (run_site_N SiPublish true CbPublish (emit (Tx id KPublish0) s1)) as (B1 & B2 & B3).
      * intros _. ssimpl. exact Hi1.
      * discriminate.
      * apply Pre_emit; [reflexivity|exact HP2].
      * apply IH; [exact B1|rewrite B2; ssimpl; exact Hi1|].
        intros X. destruct (B3 X) as [[Y _]|Y]; [ssimpl; congruence|exact Y].
  - (* all but the last byte *)
    destruct (qstarted p).
    + cbn [fst snd]. destruct Hblocked as (X1 & X2). split; [exact X1|]. split; [exact X2|]. unfold E_AGAIN. split; intros; lia.
    + apply IH; [apply Hback|ssimpl; exact Hi1|ssimpl; congruence].
  - cbn [fst snd]. destruct Hblocked as (X1 & X2). split; [exact X1|]. split; [exact X2|]. unfold E_AGAIN. split; intros; lia.
  - cbn [fst snd]. split; [exact Hback'|]. split; [ssimpl; exact Hi1|]. split; intros; lia.
  - cbn [fst snd]. split; [exact Hback'|]. split; [ssimpl; exact Hi1|]. split.
    + intros _. ssimpl. congruence.
    + intros X. exfalso. exact (Hof X eq_refl).
Qed.

Lemma loop_write_N s : Pre true s -> incb s = false ->
  let r := loop_write c nested s in
  Pre true (fst r) /\ incb (fst r) = false /\ (nf = true -> sock s <> None -> snd r = 0).
Proof.
  intros HP Hi. unfold loop_write. destruct (sock s) as [id|] eqn:Es.
  2:{ cbn [fst snd]. split; [exact HP|]. split; [exact Hi|]. intros _ X. congruence. }
  unfold packet_write.
  destruct (pw_loop_N (pw_fuel s) s HP Hi ltac:(intros X; congruence)) as (A1 & A2 & A3 & A4).
  destruct (pw_loop c nested (pw_fuel s) s) as [s1 rc]. cbn [fst snd] in *.
  assert (B : let r2 := (if rc =? E_AGAIN then (s1, 0) else if rc >? 0 then loop_rc_handle c nested rc s1 else (s1, 0)) in
              Pre true (fst r2) /\ incb (fst r2) = false /\ (nf = true -> snd r2 = 0)).
  { destruct (rc =? E_AGAIN); [cbn [fst snd]; auto|].
    destruct (rc >? 0) eqn:Eg; [|cbn [fst snd]; auto].
    assert (Hg : rc > 0) by lia. destruct (sock s1) as [id1|] eqn:Es1; [|exfalso; apply (A3 Hg); reflexivity].
    destruct (loop_rc_handle_N rc id1 s1 A1 Es1 A2 Hg) as (C1 & C2).
    split; [exact C1|]. split; [exact C2|]. intros X. specialize (A4 X). lia. }
  destruct (if rc =? E_AGAIN then (s1, 0) else if rc >? 0 then loop_rc_handle c nested rc s1 else (s1, 0)) as [s2 rc2].
  cbn [fst snd] in *. destruct B as (B1 & B2 & B3).
  destruct (want_write s2).
  - destruct (call_regw_N s2 B1) as (C1 & C2 & _). split; [exact C1|]. split; [congruence|]. intros X _. apply B3. exact X.
  - destruct (call_unregw_N s2 B1) as (C1 & C2). split; [exact C1|]. split; [congruence|]. intros X _. apply B3. exact X.
Qed.

(* _packet_queue; the caller shows that the invariant holds with the packet appended *)
Lemma packet_queue_N k s : Pre true (set_outq (outq s ++ [mkQ k false]) s) -> sock s <> None ->
  let r := packet_queue c nested k s in
  Pre true (fst r) /\ incb (fst r) = incb s /\ (NW c s -> sock (fst r) = sock s) /\
  (c_ext c = true \/ nf = true -> snd r = 0).
Proof.
  intros HP Hs. unfold packet_queue.
  set (s1 := set_outq (outq s ++ [mkQ k false]) s) in *.
  destruct (negb (c_ext c) && negb (incb s1)) eqn:E.
  - apply andb_true_iff in E as [E1 E2]. apply negb_true_iff in E1, E2.
    destruct (loop_write_N s1 HP E2) as (A1 & A2 & A3).
    split; [exact A1|]. split; [rewrite A2; symmetry; exact E2|]. split.
    + intros [X|X]; [congruence|]. unfold s1 in E2. ssimpl. congruence.
    + intros [X|X]; [congruence|]. apply A3; [exact X|exact Hs].
  - cbn [fst snd]. destruct (call_regw_N s1 HP) as (A1 & A2 & A3).
    split; [exact A1|]. split; [exact A2|]. split; [|reflexivity].
    intros _. rewrite (qr_sock _ _ A3). reflexivity.
Qed.

Lemma V_nosock_outq w s k q : sock s = None -> V w s k -> w = true -> V true (set_outq q s) k.
Proof.
  intros Hs HV ->. destruct HV as [ok1 ok2 ok3 cur1 cur2 cur3 conn owed credit disc qdisc wire new].
  constructor; ssimpl; try assumption; try congruence.
Qed.

(* the body of reconnect() *)
Lemma reconnect_body_N ok s : Pre true s ->
  let r := reconnect_body c nested ok s in
  Pre true (fst r) /\ incb (fst r) = incb s /\ (NW c s -> Rel s (fst r)) /\
  (c_ext c = true \/ nf = true -> snd r = Some 0 \/ snd r = None).
Proof.
  intros (HV & HS & HF). unfold reconnect_body.
  set (s1 := set_cs CsConnecting (set_ping false s)).
  (* after _sock_close: no socket, state CONNECTING *)
  assert (C1 : let s2 := sock_close c nested RReplaced s1 in
               V true s2 (KS10 s2) /\ sock s2 = None /\ cs s2 = CsConnecting /\ incb s2 = incb s /\
               sched s2 = sched s /\ scr_ok (scr s2) = true).
  { destruct (sock s) as [id|] eqn:Es.
    - destruct (sock_close_char RReplaced id s1 Es HS) as (A1 & A2 & A3 & A4 & A5 & A6 & A7 & A8 & A9 & A10 & A11).
      split; [|repeat split; assumption].
      rewrite A1. rewrite (KS_frame _ _ s s1) by reflexivity.
      eapply V_end_replaced; [exact HV|exact Es|exact A2|]. unfold is_connected. rewrite A3. reflexivity.
    - unfold sock_close. assert (E : sock s1 = None) by exact Es. rewrite E.
      split; [|repeat split; try assumption; reflexivity].
      rewrite (KS_frame _ _ s s1) by reflexivity.
      destruct HV as [ok1 ok2 ok3 cur1 cur2 cur3 conn owed credit disc qdisc wire new].
      apply V_nosock; try assumption; try reflexivity; try congruence. }
  set (s2 := sock_close c nested RReplaced s1) in *.
  destruct C1 as (V2 & S2 & CS2 & I2 & SC2 & HS2).
  set (s3 := set_outq [] s2).
  assert (V3 : V true s3 (KS10 s3)).
  { rewrite (KS_frame _ _ s2 s3) by reflexivity. apply (V_nosock_outq true s2 _ [] S2 V2 eq_refl). }
  destruct ok; cbn [negb].
  2:{ cbn [fst snd]. split; [|split; [ssimpl; exact I2|split; [|intros _; right; reflexivity]]].
      - apply Pre_emit; [reflexivity|]. split; [exact V3|]. split; [exact HS2|].
        unfold nofail in *. unfold s3. ssimpl. rewrite SC2. exact HF.
      - intros _ _. right. reflexivity. }
  set (id := nsock s3 + 1).
  set (s4 := emit (SockNew id) (set_regw false (set_sock (Some id) (set_nsock id s3)))).
  assert (P4 : Pre false s4).
  { split; [|split; [exact HS2|unfold nofail in *; unfold s4, s3; ssimpl; rewrite SC2; exact HF]].
    unfold s4. rewrite KS_emit. rewrite (KS_frame _ _ s3 (set_regw false (set_sock (Some id) (set_nsock id s3)))) by reflexivity.
    eapply V_sock_new; [exact V3|exact S2|reflexivity|ssimpl; exact CS2|reflexivity]. }
  assert (C5 : let s5 := (if c_sockcb c then run_site nested SiOpen false (SockOpen id) s4 else s4) in
               Pre false s5 /\ incb s5 = incb s /\ sock s5 = Some id).
  { destruct (c_sockcb c).
    - destruct (run_site_open (SockOpen id) s4) as (A1 & A2 & A3 & A4 & A5); [apply Pre_emit; [reflexivity|exact P4]|].
      split; [exact A1|]. split; [rewrite A2; unfold s4; ssimpl; exact I2|rewrite A3; reflexivity].
    - split; [exact P4|]. split; [unfold s4; ssimpl; exact I2|reflexivity]. }
  set (s5 := if c_sockcb c then run_site nested SiOpen false (SockOpen id) s4 else s4) in *.
  destruct C5 as (P5 & I5 & S5).
  assert (P5' : Pre true (set_outq (outq s5 ++ [mkQ KConnect false]) s5)).
  { destruct P5 as (X1 & X2 & X3). split; [|split; [exact X2|exact X3]].
    rewrite (KS_frame _ _ s5 (set_outq (outq s5 ++ [mkQ KConnect false]) s5)) by reflexivity.
    apply V_append_connect. exact X1. }
  destruct (packet_queue_N KConnect s5 P5' ltac:(congruence)) as (A1 & A2 & A3 & A4).
  destruct (packet_queue c nested KConnect s5) as [s6 rc]. cbn [fst snd] in *.
  split; [exact A1|]. split; [congruence|]. split.
  - intros Hnw X. exfalso.
    assert (Hnw5 : NW c s5) by (destruct Hnw as [Y|Y]; [left; exact Y|right; congruence]).
    rewrite (A3 Hnw5) in X. congruence.
  - intros X. left. rewrite (A4 X). reflexivity.
Qed.

Lemma api_reconnect_N ok s : Pre true s ->
  let r := api_reconnect c nested ok s in
  Pre true (fst r) /\ incb (fst r) = incb s /\ (NW c s -> Rel s (fst r)) /\
  (c_ext c = true \/ nf = true -> snd r = Some 0 \/ snd r = None).
Proof.
  intros HP. unfold api_reconnect.
  destruct (reconnect_body_N ok (emit (Call CReconnect) s)) as (A1 & A2 & A3 & A4); [apply Pre_emit; [reflexivity|exact HP]|].
  split; [exact A1|]. split; [exact A2|]. split; [|exact A4].
  intros X. eapply Rel_frame with (s1' := emit (Call CReconnect) s); try reflexivity. apply A3. exact X.
Qed.

Lemma api_send_N ck k s : Pre true s -> inert10 (Call ck) = true -> is_connect k = false -> is_disconnect k = false ->
  let r := api_send c nested ck k s in
  Pre true (fst r) /\ incb (fst r) = incb s /\ (NW c s -> Rel s (fst r)).
Proof.
  intros HP Hck Hk Hkd. unfold api_send. ssimpl.
  assert (HP1 : Pre true (emit (Call ck) s)) by (apply Pre_emit; assumption).
  destruct (sock s) as [id|] eqn:Es; cbn [fst].
  2:{ split; [exact HP1|]. split; [reflexivity|]. intros _ X. left. split; [exact Es|reflexivity]. }
  destruct (packet_queue_N k (emit (Call ck) s)) as (A1 & A2 & A3 & _).
  - destruct HP1 as (X1 & X2 & X3). split; [|split; [exact X2|exact X3]].
    rewrite (KS_frame _ _ (emit (Call ck) s) (set_outq (outq (emit (Call ck) s) ++ [mkQ k false]) (emit (Call ck) s))) by reflexivity.
    apply V_append; [exact X1|exact Hk|rewrite Hkd; discriminate].
  - ssimpl. congruence.
  - split; [exact A1|]. split; [exact A2|]. intros Hnw X. exfalso. rewrite (A3 Hnw) in X. ssimpl. congruence.
Qed.

Lemma api_disconnect_N s : Pre true s ->
  let r := api_disconnect c nested s in
  Pre true (fst r) /\ incb (fst r) = incb s /\ (NW c s -> Rel s (fst r)).
Proof.
  intros (HV & HS & HF). unfold api_disconnect. ssimpl.
  destruct (sock s) as [id|] eqn:Es; cbn [fst].
  - set (s1 := set_cs CsDisconnecting (emit (Call CDisconnect) s)).
    assert (V1 : V true s1 (KS10 s1)).
    { unfold s1. rewrite (KS_frame _ _ (emit (Call CDisconnect) s) (set_cs CsDisconnecting (emit (Call CDisconnect) s))) by reflexivity.
      rewrite KS_emit. apply V_frame with (s := set_cs CsDisconnecting s); try reflexivity.
      eapply V_call_disc_some; eassumption. }
    destruct (packet_queue_N KDisconnect s1) as (A1 & A2 & A3 & _).
    + split; [|split; [exact HS|exact HF]].
      rewrite (KS_frame _ _ s1 (set_outq (outq s1 ++ [mkQ KDisconnect false]) s1)) by reflexivity.
      apply V_append; [exact V1|reflexivity|intros _ _; reflexivity].
    + unfold s1. ssimpl. congruence.
    + split; [exact A1|]. split; [exact A2|]. intros Hnw X. exfalso. rewrite (A3 Hnw) in X. unfold s1 in X. ssimpl. congruence.
  - split; [|split; [reflexivity|intros _ X; left; split; [exact Es|reflexivity]]].
    split; [|split; [exact HS|exact HF]].
    rewrite (KS_frame _ _ (emit (Call CDisconnect) s) (set_cs CsDisconnected (emit (Call CDisconnect) s))) by reflexivity.
    rewrite KS_emit. apply V_frame with (s := set_cs CsDisconnected s); try reflexivity.
    apply V_call_disc_none; assumption.
Qed.

Lemma api_nested_N a s : NW c s -> Pre true s ->
  let s' := api_nested c nested a s in Pre true s' /\ incb s' = incb s /\ Rel s s'.
Proof.
  intros Hnw HP. destruct a; cbn [api_nested].
  - destruct (api_send_N CPublish KPublish0 s HP eq_refl eq_refl eq_refl) as (A1 & A2 & A3). auto.
  - destruct (api_send_N CSubscribe KSubscribe s HP eq_refl eq_refl eq_refl) as (A1 & A2 & A3). auto.
  - destruct (api_disconnect_N s HP) as (A1 & A2 & A3). auto.
  - destruct (api_reconnect_N ok s HP) as (A1 & A2 & A3 & _). auto.
Qed.

Lemma exec_script_N : forall sc s, NW c s -> Pre true s ->
  let s' := exec_script c nested sc s in Pre true s' /\ incb s' = incb s /\ Rel s s'.
Proof.
  unfold exec_script. induction sc as [|a sc IH]; intros s Hnw HP; cbn [fold_left].
  - split; [exact HP|]. split; [reflexivity|apply Rel_refl].
  - destruct (api_nested_N a s Hnw HP) as (A1 & A2 & A3).
    assert (Hnw' : NW c (api_nested c nested a s)) by (destruct Hnw as [X|X]; [left; exact X|right; congruence]).
    destruct (IH _ Hnw' A1) as (B1 & B2 & B3).
    split; [exact B1|]. split; [congruence|]. eapply Rel_trans; eassumption.
Qed.

(* a callback whose script does not call reconnect() leaves the socket in place *)
Lemma run_site_sock si ev s : incb s = false ->
  script_noreconn (fst (pop_script si (obs (WCb si) (emit ev s)))) = true -> scr_ok (scr s) = true ->
  sock (run_site nested si true ev s) = sock s.
Proof.
  intros Hi Hsc HS. unfold run_site. rewrite Hi. cbn [andb].
  pose proof (pop_script_frame si (obs (WCb si) (emit ev s))) as F.
  pose proof (scr_ok_pop si (obs (WCb si) (emit ev s)) HS) as HS2.
  destruct (pop_script si (obs (WCb si) (emit ev s))) as [sc s2]. cbn [fst snd] in *.
  destruct F as (Fcs & Fsock & Fregw & Foutq & Fping & Fincb & Fproto & Fnsock & Fsched & Ftr).
  destruct sc as [|a sc]; [exact Fsock|]. gsimpl.
  rewrite (qr_sock _ _ (Hq (a :: sc) (set_incb (true || incb s2) s2) (or_intror eq_refl) Hsc (scr_ok_regw _ HS2))).
  gsimpl. exact Fsock.
Qed.

Lemma pop_connect_noreconn s : queue_noreconn (q_connect (scr s)) = true ->
  script_noreconn (fst (pop_script SiConnect s)) = true.
Proof.
  intros H. unfold pop_script. pose proof (pop_list_noreconn _ H) as [X _].
  destruct (pop_list (q_connect (scr s))). exact X.
Qed.

Lemma handle_connack_N rc id s : Pre true s -> sock s = Some id -> incb s = false ->
  (rc = 0 -> disc_state s = false) -> (rc <> 0 -> queue_noreconn (q_connect (scr s)) = true) ->
  let s' := fst (handle_connack nested rc s) in
  Pre true s' /\ incb s' = false /\ (rc <> 0 -> sock s' = Some id).
Proof.
  intros (HV & HS & HF) Hs Hi Hd Hc. unfold handle_connack. cbn [fst].
  set (s1 := if rc =? 0 then set_cs CsConnected s else s).
  assert (F1 : sock s1 = sock s /\ incb s1 = incb s /\ scr s1 = scr s /\ sched s1 = sched s /\ tr s1 = tr s).
  { unfold s1. destruct (rc =? 0); repeat split. }
  destruct F1 as (F1 & F2 & F3 & F4 & F5).
  assert (HP1 : Pre true (emit (CbConnect rc) s1)).
  { split; [|split; [ssimpl; rewrite F3; exact HS|unfold nofail in *; ssimpl; rewrite F4; exact HF]].
    rewrite KS_emit, (KS_frame _ _ _ _ F5). apply V_frame with (s := s1); try reflexivity.
    apply V_cb_connect; [exact HV|congruence|exact Hd]. }
  destruct (run_site_N SiConnect true (CbConnect rc) s1) as (A1 & A2 & _); [intros _; congruence|discriminate|exact HP1|].
  split; [exact A1|]. split; [congruence|].
  intros Hr. rewrite run_site_sock; [congruence|congruence| |rewrite F3; exact HS].
  apply pop_connect_noreconn. unfold obs. ssimpl. rewrite F3. apply Hc. exact Hr.
Qed.

Lemma after_read_rc0 s : after_read c nested (s, Some 0) = (s, Some 0).
Proof. reflexivity. Qed.

Lemma after_read_N rc id s : Pre true s -> sock s = Some id -> incb s = false -> rc >= 0 ->
  let s' := fst (after_read c nested (s, Some rc)) in Pre true s' /\ incb s' = false.
Proof.
  intros HP Hs Hi Hrc. cbn [after_read]. destruct (rc >? 0) eqn:E; [|cbn [fst]; auto].
  destruct (loop_rc_handle_N rc id s HP Hs Hi ltac:(lia)) as (A1 & A2).
  destruct (loop_rc_handle c nested rc s). exact (conj A1 A2).
Qed.

Section Read.
Hypothesis Hrc0 : c_ext c = true \/ nf = true.

Lemma downgrade_N ok s : Pre true s -> incb s = false ->
  let s' := fst (after_read c nested (downgrade c nested ok s)) in Pre true s' /\ incb s' = false.
Proof.
  intros HP Hi. unfold downgrade.
  destruct (reconnect_body_N ok (set_proto 3 s)) as (A1 & A2 & _ & A4).
  { eapply Pre_frame; [| | | | | |exact HP]; reflexivity. }
  destruct (reconnect_body c nested ok (set_proto 3 s)) as [s1 r]. cbn [fst snd] in *.
  ssimpl. destruct (A4 Hrc0) as [-> | ->]; [rewrite after_read_rc0|cbn [after_read]]; cbn [fst]; (split; [exact A1|congruence]).
Qed.

Lemma connack_err_pos rc : connack_err rc > 0.
Proof. unfold connack_err, E_CONN_REFUSED, E_PROTOCOL. destruct ((0 <? rc) && (rc <? 6)); lia. Qed.

Lemma loop_read_N i s : Pre true s -> incb s = false ->
  (accepting (TLoopRead i) = true -> disc_state s = false) ->
  (refusing s (TLoopRead i) = true -> queue_noreconn (q_connect (scr s)) = true) ->
  let s' := fst (loop_read c nested i s) in Pre true s' /\ incb s' = false.
Proof.
  intros HP Hi He Hc. unfold loop_read. destruct (sock s) as [id|] eqn:Es; [|cbn [fst]; auto].
  assert (Hack : forall rc, (rc = 0 -> disc_state s = false) -> (rc <> 0 -> queue_noreconn (q_connect (scr s)) = true) ->
            let s' := fst (after_read c nested (handle_connack nested rc s)) in Pre true s' /\ incb s' = false).
  { intros rc H1 H2. destruct (handle_connack_N rc id s HP Es Hi H1 H2) as (A1 & A2 & A3).
    unfold handle_connack in *. cbn [fst] in *.
    destruct (rc =? 0) eqn:E0.
    - cbn [after_read fst]. auto.
    - assert (rc <> 0) by lia. apply after_read_N with (id := id); auto. pose proof (connack_err_pos rc). lia. }
  destruct i; cbn [fst]; auto.
  - (* CONNACK *)
    cbn [accepting refusing] in *.
    destruct ((proto s =? 4) && (rc =? 1)) eqn:Ed; [apply downgrade_N; assumption|].
    apply Hack.
    + intros ->. apply He. reflexivity.
    + intros X. apply Hc. rewrite ?Ed. cbn [negb]. rewrite andb_true_r. apply negb_true_iff. lia.
  - (* CONNACK refusing the protocol version *)
    cbn [refusing] in *. destruct (proto s =? 4) eqn:Ep; [apply downgrade_N; assumption|].
    apply Hack; [intros; lia|]. intros _. apply Hc. reflexivity.
  - (* DISCONNECT from the broker *)
    destruct (proto s =? 5).
    + unfold handle_server_disconnect.
      destruct (close_lost RServerDisc rc true id s HP Es Hi eq_refl ltac:(discriminate)) as (A1 & A2).
      destruct (lost_tail nested rc true (sock_close c nested RServerDisc s)). exact (conj A1 A2).
    + apply after_read_N with (id := id); auto. unfold E_PROTOCOL. lia.
  - apply after_read_N with (id := id); auto. unfold E_PROTOCOL. lia.
  - apply after_read_N with (id := id); auto. unfold E_CONN_LOST. lia.
  - apply after_read_N with (id := id); auto. unfold E_CONN_LOST. lia.
  - (* a packet that is answered *)
    destruct (packet_queue_N KOther s) as (A1 & A2 & _ & A4).
    + destruct HP as (X1 & X2 & X3). split; [|split; [exact X2|exact X3]].
      rewrite (KS_frame _ _ s (set_outq (outq s ++ [mkQ KOther false]) s)) by reflexivity.
      apply V_append; [exact X1|reflexivity|discriminate].
    + congruence.
    + destruct (packet_queue c nested KOther s) as [s1 rc]. cbn [fst snd] in *.
      rewrite (A4 Hrc0). rewrite after_read_rc0. cbn [fst]. split; [exact A1|congruence].
  - split; [|exact Hi]. eapply Pre_frame; [| | | | | |exact HP]; reflexivity.
Qed.
End Read.

Lemma check_keepalive_N m s : Pre true s -> incb s = false ->
  let s' := check_keepalive c nested m s in Pre true s' /\ incb s' = false.
Proof.
  intros HP Hi. unfold check_keepalive. destruct m; auto.
  destruct (sock s) as [id|] eqn:Es; auto.
  destruct (is_connected s && negb (ping s)); [|apply keepalive_close_N with (id := id); assumption].
  destruct (packet_queue_N KPingreq s) as (A1 & A2 & _ & _).
  - destruct HP as (X1 & X2 & X3). split; [|split; [exact X2|exact X3]].
    rewrite (KS_frame _ _ s (set_outq (outq s ++ [mkQ KPingreq false]) s)) by reflexivity.
    apply V_append; [exact X1|reflexivity|discriminate].
  - congruence.
  - destruct (packet_queue c nested KPingreq s) as [s1 rc]. cbn [fst] in *.
    destruct (rc =? 0); [|split; [exact A1|congruence]].
    split; [|ssimpl; congruence]. eapply Pre_frame; [| | | | | |exact A1]; reflexivity.
Qed.

Lemma loop_misc_N m s : Pre true s -> incb s = false ->
  let s' := fst (loop_misc c nested m s) in Pre true s' /\ incb s' = false.
Proof.
  intros HP Hi. unfold loop_misc. destruct (sock s); [|cbn [fst]; auto].
  destruct (check_keepalive_N m s HP Hi) as (A1 & A2).
  destruct (sock (check_keepalive c nested m s)) as [id|] eqn:Es; [|cbn [fst]; auto].
  destruct m; cbn [fst]; auto.
  destruct (ping (check_keepalive c nested MPingDue s)); cbn [fst]; auto.
  apply keepalive_close_N with (id := id); assumption.
Qed.

Lemma api_connect_N ok s : Pre true s ->
  let r := api_connect c nested ok s in Pre true (fst r) /\ incb (fst r) = incb s.
Proof.
  intros HP. unfold api_connect.
  set (s0 := emit (Call CConnect) s).
  assert (HP0 : Pre true s0) by (apply Pre_emit; [reflexivity|exact HP]).
  destruct HP0 as (HV & HS & HF).
  assert (C2 : let s2 := set_cs CsConnectAsync (sock_close c nested RReplaced s0) in
               Pre true s2 /\ incb s2 = incb s).
  { destruct (sock s0) as [id|] eqn:Es.
    - destruct (sock_close_char RReplaced id s0 Es HS) as (A1 & A2 & A3 & A4 & A5 & A6 & A7 & A8 & A9 & A10 & A11).
      split; [|ssimpl; rewrite A5; reflexivity].
      split; [|split; [ssimpl; exact A11|unfold nofail in *; ssimpl; rewrite A6; exact HF]].
      rewrite (KS_frame _ _ (sock_close c nested RReplaced s0) (set_cs CsConnectAsync (sock_close c nested RReplaced s0))) by reflexivity.
      rewrite A1. eapply V_end_replaced; [exact HV|exact Es|ssimpl; exact A2|reflexivity].
    - unfold sock_close. rewrite Es. split; [|reflexivity].
      split; [|split; [exact HS|exact HF]].
      rewrite (KS_frame _ _ s0 (set_cs CsConnectAsync s0)) by reflexivity.
      destruct HV as [ok1 ok2 ok3 cur1 cur2 cur3 conn owed credit disc qdisc wire new].
      apply V_nosock; try assumption; try reflexivity; try congruence. }
  destruct C2 as (P2 & I2).
  destruct (reconnect_body_N ok _ P2) as (A1 & A2 & _ & _).
  split; [exact A1|congruence].
Qed.

End C10.

(* ---- nesting depth ---- *)
Lemma nested_at_N c k0 nf : forall d sc s, NW c s -> Pre k0 nf true s ->
  Pre k0 nf true (nested_at c d sc s) /\ incb (nested_at c d sc s) = incb s /\ Rel s (nested_at c d sc s).
Proof.
  induction d as [|d IH]; intros sc s Hnw HP; cbn [nested_at].
  - split; [apply Pre_emit; [reflexivity|exact HP]|]. split; [reflexivity|].
    intros X. left. split; [exact X|reflexivity].
  - apply exec_script_N; try assumption.
    + intros sc' s' A B D. apply nested_at_quiet; assumption.
    + intros sc' s' A B. apply nested_at_teardown_ps; assumption.
Qed.

Section Top.
Variable c : cfg.
Variable k0 : k10.
Variable d : nat.
Notation nst := (nested_at c d).
Let Hn nf := nested_at_N c k0 nf d.
Let Hq := fun sc s (A : NW c s) B D => nested_at_quiet c d sc s A B D.
Let Ht := fun sc s A B => nested_at_teardown_ps c d sc s A B.

Lemma run_top_N o s : c10_hyp c s o = true ->
  let nf := negb (c_ext c) && is_read (o_call o) in
  Pre k0 nf true s -> incb s = false -> scr s = o_scr o ->
  let s' := run_top c nst (o_call o) s in Pre k0 nf true s' /\ incb s' = false.
Proof.
  intros Hh nf HP Hi Hscr. unfold c10_hyp in Hh. repeat (apply andb_true_iff in Hh as [Hh ?]).
  rename H into HE, H0 into HF, H1 into HC.
  destruct (o_call o) as [ok|ok| | | |i| |m] eqn:Eo; cbn [run_top].
  - destruct (api_connect_N c k0 nf nst (Hn nf) Hq Ht ok s HP) as (A1 & A2).
    destruct (api_connect c nst ok s) as [s1 [rc|]]; cbn [ret_of fst] in *; (split; [|ssimpl; congruence]);
      [apply Pre_emit; [reflexivity|exact A1]|exact A1].
  - destruct (api_reconnect_N c k0 nf nst (Hn nf) Hq Ht ok s HP) as (A1 & A2 & _).
    destruct (api_reconnect c nst ok s) as [s1 [rc|]]; cbn [ret_of fst] in *; (split; [|ssimpl; congruence]);
      [apply Pre_emit; [reflexivity|exact A1]|exact A1].
  - destruct (api_disconnect_N c k0 nf nst (Hn nf) Hq Ht s HP) as (A1 & A2 & _).
    destruct (api_disconnect c nst s) as [s1 rc]. cbn [fst] in *. split; [|ssimpl; congruence].
    apply Pre_emit; [reflexivity|exact A1].
  - destruct (api_send_N c k0 nf nst (Hn nf) Hq Ht CPublish KPublish0 s HP eq_refl eq_refl eq_refl) as (A1 & A2 & _).
    destruct (api_send c nst CPublish KPublish0 s) as [s1 rc]. cbn [fst] in *. split; [|ssimpl; congruence].
    apply Pre_emit; [reflexivity|exact A1].
  - destruct (api_send_N c k0 nf nst (Hn nf) Hq Ht CSubscribe KSubscribe s HP eq_refl eq_refl eq_refl) as (A1 & A2 & _).
    destruct (api_send c nst CSubscribe KSubscribe s) as [s1 rc]. cbn [fst] in *. split; [|ssimpl; congruence].
    apply Pre_emit; [reflexivity|exact A1].
  - (* loop_read *)
    assert (Hrc0 : c_ext c = true \/ nf = true).
    { unfold nf. destruct (c_ext c); [left; reflexivity|right; reflexivity]. }
    destruct (loop_read_N c k0 nf nst (Hn nf) Hq Ht Hrc0 i (emit (Call CLoopRead) s)) as (A1 & A2).
    + apply Pre_emit; [reflexivity|exact HP].
    + exact Hi.
    + intros X. unfold excl_E in HE. rewrite Eo, X in HE. cbn [andb] in HE. apply negb_true_iff in HE.
      unfold disc_state in *. ssimpl. exact HE.
    + intros X. unfold excl_C in HC. rewrite Eo in HC.
      assert (Y : refusing s (TLoopRead i) = true) by exact X. rewrite Y in HC. cbn [negb orb] in HC.
      (* the scripts of this operation are those loaded in the state *)
      ssimpl. rewrite Hscr. exact HC.
    + destruct (loop_read c nst i (emit (Call CLoopRead) s)) as [s1 [rc|]]; cbn [ret_of fst] in *; (split; [|ssimpl; congruence]);
        [apply Pre_emit; [reflexivity|exact A1]|exact A1].
  - destruct (loop_write_N c k0 nf nst (Hn nf) Hq Ht (emit (Call CLoopWrite) s)) as (A1 & A2 & _);
      [apply Pre_emit; [reflexivity|exact HP]|exact Hi|].
    destruct (loop_write c nst (emit (Call CLoopWrite) s)) as [s1 rc]. cbn [fst] in *. split; [|ssimpl; congruence].
    apply Pre_emit; [reflexivity|exact A1].
  - destruct (loop_misc_N c k0 nf nst (Hn nf) Hq Ht m (emit (Call CLoopMisc) s)) as (A1 & A2);
      [apply Pre_emit; [reflexivity|exact HP]|exact Hi|].
    destruct (loop_misc c nst m (emit (Call CLoopMisc) s)) as [s1 rc]. cbn [fst] in *. split; [|ssimpl; congruence].
    apply Pre_emit; [reflexivity|exact A1].
Qed.
End Top.

(* ---- one operation ---- *)
Definition Top10 (s : st) (k : k10) : Prop := V true s k /\ incb s = false.

Lemma Top10_ok s k : Top10 s k -> k10_okb k = true.
Proof.
  intros [HV _]. destruct HV as [ok1 ok2 ok3 cur1 cur2 cur3 conn owed credit disc qdisc wire new].
  unfold k10_okb. rewrite ok1, ok2, ok3. reflexivity.
Qed.

Lemma scr_ok_of o : excl_D o = true -> excl_G o = true -> excl_R o = true -> scr_ok (o_scr o) = true.
Proof.
  unfold excl_D, excl_G, excl_R, scr_ok. intros A B C0.
  apply andb_true_iff in C0 as [C0 C3]. apply andb_true_iff in C0 as [C1 C2].
  rewrite A, B, C1, C2, C3. reflexivity.
Qed.

Lemma Top10_step c s k o : Top10 s k -> c10_hyp c s o = true ->
  Top10 (fst (step c s o)) (k10_fin (fold_left k10_ev (snd (step c s o)) k)).
Proof.
  intros [HV Hi] Hh. unfold step.
  set (s0 := set_incb false (set_sched (o_sched o) (set_scr (o_scr o)
               (mkSt (cs s) (sock s) (regw s) (outq s) (ping s) (incb s) (proto s) (nsock s) (sched s) (scr s) [])))).
  set (nf := negb (c_ext c) && is_read (o_call o)).
  assert (Hh0 : c10_hyp c s0 o = true) by exact Hh.
  pose proof Hh as Hh'. unfold c10_hyp in Hh'. repeat (apply andb_true_iff in Hh' as [Hh' ?]).
  assert (HP0 : Pre k nf true s0).
  { split; [|split].
    - unfold KS, s0. cbn. apply V_frame with (s := s); try reflexivity. exact HV.
    - apply scr_ok_of; assumption.
    - unfold nofail, nf, s0. ssimpl. intros X. apply andb_true_iff in X as [X1 X2]. apply negb_true_iff in X1.
      unfold excl_F in H0. rewrite X1, X2 in H0. cbn in H0. apply negb_true_iff in H0. exact H0. }
  destruct (run_top_N c k (nscripts (o_scr o)) o s0 Hh0 HP0 eq_refl eq_refl) as (A1 & A2).
  set (s1 := run_top c (nested_at c (nscripts (o_scr o))) (o_call o) s0) in *.
  cbn [fst snd]. rewrite fold_left_rev_KS.
  destruct A1 as (V1 & _ & _).
  split; [|ssimpl; exact A2].
  unfold obs. rewrite KS_emit.
  pose proof (V_obs true WEnd s1 (KS k10_ev k s1) (want_write s1) (regw s1) V1) as V2.
  apply V_frame with (s := s1); try reflexivity.
  destruct V2 as [ok1 ok2 ok3 cur1 cur2 cur3 conn owed credit disc qdisc wire new].
  unfold k10_fin. constructor; cbn [b1 b2 b3 k2_fin k2_ok k2_cur k2_disc k2_owed k2_credit]; try assumption.
  rewrite ok2, owed, credit. reflexivity.
Qed.

Lemma Top10_init c : Top10 (init c) k10_init.
Proof.
  split; [|reflexivity]. apply V_nosock; try reflexivity. intros; discriminate.
Qed.

Lemma c10_all c ops : c10_ops_ok c ops = true ->
  k10_okb (run_checker k10_ev k10_fin k10_init (optrace c ops)) = true.
Proof.
  intros Hops. unfold optrace.
  apply run_checker_inv with (hyp := c10_hyp c) (Top := Top10).
  - apply Top10_ok.
  - intros s k o HT Hh. apply Top10_step; assumption.
  - apply Top10_init.
  - exact Hops.
Qed.

Theorem c10_connected_proved : C10_connected_partial.
Proof.
  intros c ops _ Hops. pose proof (c10_all c ops Hops) as H. rewrite k10_run in H.
  unfold k10_okb in H. cbn [b1 b2 b3] in H. apply andb_true_iff in H as [H _]. apply andb_true_iff in H as [H _].
  exact H.
Qed.

Theorem c10_one_disconnect_proved : C10_one_disconnect_partial.
Proof.
  intros c ops _ Hops. pose proof (c10_all c ops Hops) as H. rewrite k10_run in H.
  unfold k10_okb in H. cbn [b1 b2 b3] in H. apply andb_true_iff in H as [H _]. apply andb_true_iff in H as [_ H].
  exact H.
Qed.

Theorem c10_wire_proved : C10_wire_partial.
Proof.
  intros c ops _ Hops. pose proof (c10_all c ops Hops) as H. rewrite k10_run in H.
  unfold k10_okb in H. cbn [b1 b2 b3] in H. apply andb_true_iff in H as [_ H].
  exact H.
Qed.

Print Assumptions c10_connected_proved.
Print Assumptions c10_one_disconnect_proved.
Print Assumptions c10_wire_proved.
