(* C10 over the Conn model, part 2: every operation preserves the invariant, under the exclusions
   D, E, F, G, R, C of ConnStatements.v; nested scripts of any length and depth. *)
From PahoV Require Import Base.Prelude Link.Conn Link.ConnCheck Link.ConnInv Link.ConnStatements Link.C10Inv.

Ltac gsimpl :=
  cbn [cs sock regw outq ping incb proto nsock sched scr tr
       emit set_cs set_sock set_regw set_outq set_ping set_incb set_proto set_nsock set_sched set_scr
       push_front obs fst snd].

(* ---- popping scripts under scr_ok ---- *)
Lemma pop_list_forall {A} (f : list A -> bool) (q : list (list A)) : forallb f q = true -> f [] = true ->
  f (fst (pop_list q)) = true /\ forallb f (snd (pop_list q)) = true.
Proof. destruct q as [|x q]; cbn; [auto|]. intros H _. apply andb_true_iff in H. exact H. Qed.

Lemma scr_ok_pop si s : scr_ok (scr s) = true -> scr_ok (scr (snd (pop_script si s))) = true.
Proof.
  unfold scr_ok. intros H. repeat (apply andb_true_iff in H as [H ?]).
  destruct si; unfold pop_script;
    match goal with |- context [pop_list ?l] => destruct (pop_list l) eqn:E end;
    cbn [snd scr set_scr q_open q_discopen q_close q_unregw q_regw];
    repeat (apply andb_true_iff; split); try assumption.
  - pose proof (pop_list_noreconn _ H) as [_ X]. rewrite E in X. exact X.
  - pose proof (pop_list_forall (forallb is_pubsub) _ H2 eq_refl) as [_ X]. rewrite E in X. exact X.
  - pose proof (pop_list_noreconn _ H0) as [_ X]. rewrite E in X. exact X.
  - pose proof (pop_list_forall (forallb is_pubsub) _ H1 eq_refl) as [_ X]. rewrite E in X. exact X.
Qed.

Lemma scr_ok_regw q : scr_ok q = true -> queue_noreconn (q_regw q) = true.
Proof. unfold scr_ok. intros H. repeat (apply andb_true_iff in H as [H ?]). assumption. Qed.

Lemma scr_ok_pop_open s : scr_ok (scr s) = true -> script_noreconn (fst (pop_script SiOpen s)) = true.
Proof.
  unfold scr_ok. intros H. repeat (apply andb_true_iff in H as [H ?]). unfold pop_script.
  pose proof (pop_list_noreconn _ H) as [X _]. destruct (pop_list (q_open (scr s))). exact X.
Qed.
Lemma scr_ok_pop_teardown si s : (si = SiClose \/ si = SiUnregW) -> scr_ok (scr s) = true ->
  forallb is_pubsub (fst (pop_script si s)) = true.
Proof.
  unfold scr_ok. intros Hsi H. repeat (apply andb_true_iff in H as [H ?]). unfold pop_script.
  destruct Hsi as [-> | ->].
  - pose proof (pop_list_forall (forallb is_pubsub) _ H2 eq_refl) as [X _]. destruct (pop_list (q_close (scr s))). exact X.
  - pose proof (pop_list_forall (forallb is_pubsub) _ H1 eq_refl) as [X _]. destruct (pop_list (q_unregw (scr s))). exact X.
Qed.

Lemma scr_ok_quiet s s' : quiet_rel s s' -> scr_ok (scr s) = true -> scr_ok (scr s') = true.
Proof.
  intros Q. destruct (qr_scr _ _ Q) as (_ & _ & A3 & A4 & A5 & _ & _ & A8).
  unfold scr_ok. intros H. repeat (apply andb_true_iff in H as [H ?]).
  rewrite A3, A4, A5, H, H2, H1, (A8 H0). reflexivity.
Qed.

Definition Rel (s s' : st) : Prop := sock s' = None -> (sock s = None /\ outq s' = outq s) \/ outq s' = [].
Lemma Rel_refl s : Rel s s.
Proof. intros H. left. split; [exact H|reflexivity]. Qed.
Lemma Rel_trans s1 s2 s3 : Rel s1 s2 -> Rel s2 s3 -> Rel s1 s3.
Proof.
  intros A B H. destruct (B H) as [[B1 B2]|B1]; [|right; exact B1].
  destruct (A B1) as [[A1 A2]|A1]; [left; split; [exact A1|congruence]|right; congruence].
Qed.
Lemma Rel_quiet s s' : quiet_rel s s' -> Rel s s'.
Proof.
  intros Q H. left. rewrite (qr_sock _ _ Q) in H. split; [exact H|].
  destruct (qr_outq _ _ Q) as (a & A1 & _ & A3 & _). rewrite A1, (A3 H), app_nil_r. reflexivity.
Qed.
Lemma Rel_frame s1 s1' s2 s2' : sock s1' = sock s1 -> sock s2' = sock s2 -> outq s2' = outq s2 ->
  (sock s1 = None -> outq s1' = outq s1) -> Rel s1' s2 -> Rel s1 s2'.
Proof.
  intros A B C0 D R H. rewrite B in H. destruct (R H) as [[R1 R2]|R1].
  - left. rewrite A in R1. split; [exact R1|]. rewrite C0, R2. apply D. exact R1.
  - right. rewrite C0. exact R1.
Qed.

(* the socket after nested calls: the same one, or one created later *)
Definition SockRel (s s' : st) : Prop :=
  nsock s <= nsock s' /\ forall x, sock s' = Some x -> sock s = Some x \/ nsock s < x.
Lemma SockRel_refl s : SockRel s s.
Proof. split; [lia|]. intros x H. left. exact H. Qed.
Lemma SockRel_trans s1 s2 s3 : SockRel s1 s2 -> SockRel s2 s3 -> SockRel s1 s3.
Proof.
  intros [A1 A2] [B1 B2]. split; [lia|]. intros x H. destruct (B2 x H) as [B|B]; [|right; lia].
  destruct (A2 x B) as [A|A]; [left; exact A|right; exact A].
Qed.
Lemma SockRel_quiet s s' : quiet_rel s s' -> SockRel s s'.
Proof. intros Q. split; [rewrite (qr_nsock _ _ Q); lia|]. intros x H. left. rewrite <- (qr_sock _ _ Q). exact H. Qed.

(* a nested call that may call reconnect() does not write: external-loop mode or _in_callback_mutex held *)
Definition NWs (c : cfg) (s : st) : Prop := c_ext c = true \/ incb s = true.
Lemma NWs_NW c s : NWs c s -> NW c s.
Proof. intros [A|A]; [left; exact A|right; left; exact A]. Qed.

Section C10.
Variable c : cfg.
Variable k0 : k10.
Notation KS10 := (KS k10_ev k0).
Notation sok := scr_ok.
Definition Pre (w : bool) (s : st) : Prop := V w s (KS10 s) /\ sok (scr s) = true.

Lemma Pre_frame w s s' : tr s' = tr s -> sock s' = sock s -> cs s' = cs s -> outq s' = outq s ->
  scr s' = scr s -> nsock s' = nsock s -> Pre w s -> Pre w s'.
Proof.
  intros Ht Hs Hc Hq Hscr Hn (HV & HS). unfold Pre. rewrite (KS_frame _ _ _ _ Ht), Hscr.
  split; [eapply V_frame; eassumption|assumption].
Qed.
Lemma Pre_emit w e s : inert10 e = true -> Pre w s -> Pre w (emit e s).
Proof.
  intros He (HV & HS). split; [|assumption]. rewrite KS_emit.
  apply V_frame with (s := s); try reflexivity. apply V_inert; assumption.
Qed.
Lemma Pre_obs w x s : Pre w s -> Pre w (obs x s).
Proof.
  intros (HV & HS). split; [|assumption]. unfold obs. rewrite KS_emit.
  apply V_frame with (s := s); try reflexivity. apply V_obs. exact HV.
Qed.

Variable nested : list acall -> st -> st.
Hypothesis Hn : forall sc s, NWs c s -> Pre true s ->
  Pre true (nested sc s) /\ incb (nested sc s) = incb s /\ Rel s (nested sc s) /\ SockRel s (nested sc s).
Hypothesis Hq : forall sc s, NW c s -> script_noreconn sc = true ->
  queue_noreconn (q_regw (scr s)) = true -> quiet_rel s (nested sc s).
Hypothesis Ht : forall sc s, forallb is_pubsub sc = true -> sock s = None -> teardown_rel_ps s (nested sc s).

(* a callback invocation at a stable point, script run without writing *)
Lemma run_site_N si held ev s :
  (held = true -> incb s = false) -> (held = false -> c_ext c = true) -> Pre true (emit ev s) ->
  let s' := run_site nested si held ev s in
  Pre true s' /\ incb s' = incb s /\ Rel s s'.
Proof.
  intros Hh Hx HP. unfold run_site.
  assert (E : held && incb s = false) by (destruct held; [rewrite Hh; reflexivity|reflexivity]).
  rewrite E.
  pose proof (Pre_obs true (WCb si) _ HP) as HP1.
  pose proof (pop_script_frame si (obs (WCb si) (emit ev s))) as F.
  pose proof (scr_ok_pop si (obs (WCb si) (emit ev s)) (proj2 HP1)) as HS.
  destruct (pop_script si (obs (WCb si) (emit ev s))) as [sc s2]. cbn [fst snd] in *.
  destruct F as (Fcs & Fsock & Fregw & Foutq & Fping & Fincb & Fcq & Fproto & Fnsock & Fsched & Ftr).
  gsimpl.
  assert (HP2 : Pre true s2).
  { destruct HP1 as (HV & _). split; [|exact HS].
    rewrite (KS_frame _ _ _ _ Ftr). eapply V_frame; [exact Fsock|exact Fcs|exact Foutq|exact Fnsock|exact HV]. }
  destruct sc as [|a sc].
  - split; [exact HP2|]. split; [exact Fincb|]. intros H. left. rewrite Fsock in H. split; [exact H|exact Foutq].
  - set (s3 := set_incb (held || incb s2) s2).
    assert (HP3 : Pre true s3) by (eapply Pre_frame; [| | | | | |exact HP2]; reflexivity).
    assert (Hnw : NWs c s3).
    { destruct held; [right; reflexivity|left; apply Hx; reflexivity]. }
    destruct (Hn (a :: sc) s3 Hnw HP3) as (N1 & N2 & N3 & _).
    split; [eapply Pre_frame; [| | | | | |exact N1]; reflexivity|]. split; [ssimpl; exact Fincb|].
    eapply Rel_frame with (s1' := s3) (s2 := nested (a :: sc) s3); try reflexivity; try exact N3.
    + unfold s3. ssimpl. exact Fsock.
    + intros _. unfold s3. ssimpl. exact Foutq.
Qed.

(* on_socket_open right after the socket was created: CONNECT is not queued yet, so whatever its
   (reconnect()-free, exclusion D) script calls is only queued, behind the CONNECT to come *)
Lemma run_site_open ev s : Pre false (emit ev s) -> cq s = false ->
  let s' := run_site nested SiOpen false ev s in
  Pre false s' /\ incb s' = incb s /\ sock s' = sock s /\ nsock s' = nsock s.
Proof.
  intros HP Hcq. unfold run_site. cbn [andb].
  pose proof (Pre_obs false (WCb SiOpen) _ HP) as HP1.
  pose proof (pop_script_frame SiOpen (obs (WCb SiOpen) (emit ev s))) as F.
  pose proof (scr_ok_pop SiOpen (obs (WCb SiOpen) (emit ev s)) (proj2 HP1)) as HS.
  pose proof (scr_ok_pop_open (obs (WCb SiOpen) (emit ev s)) (proj2 HP1)) as Hnr.
  destruct (pop_script SiOpen (obs (WCb SiOpen) (emit ev s))) as [sc s2]. cbn [fst snd] in *.
  destruct F as (Fcs & Fsock & Fregw & Foutq & Fping & Fincb & Fcq & Fproto & Fnsock & Fsched & Ftr).
  gsimpl.
  assert (HP2 : Pre false s2).
  { destruct HP1 as (HV & _). split; [|exact HS].
    rewrite (KS_frame _ _ _ _ Ftr). eapply V_frame; [exact Fsock|exact Fcs|exact Foutq|exact Fnsock|exact HV]. }
  destruct sc as [|a sc]; [split; [exact HP2|]; split; [exact Fincb|]; split; assumption|].
  set (s3 := set_incb (false || incb s2) s2).
  assert (Q : quiet_rel s3 (nested (a :: sc) s3)).
  { apply Hq; [right; right; unfold s3; ssimpl; congruence|exact Hnr|apply scr_ok_regw; exact HS]. }
  destruct HP2 as (V2 & _).
  pose proof (V_quiet false [] s3 (nested (a :: sc) s3) k0 Q) as X. cbn [app] in X.
  assert (V3 : V false (nested (a :: sc) s3) (KS10 (nested (a :: sc) s3))).
  { eapply V_frame; [| | | |apply X]; try reflexivity.
    rewrite (KS_frame _ _ s2 s3) by reflexivity. eapply V_frame; [| | | |exact V2]; reflexivity. }
  split; [split|].
  - rewrite (KS_frame _ _ (nested (a :: sc) s3) (set_incb (incb s2) (nested (a :: sc) s3))) by reflexivity.
    eapply V_frame; [| | | |exact V3]; reflexivity.
  - ssimpl. eapply scr_ok_quiet; [exact Q|exact HS].
  - ssimpl. split; [exact Fincb|]. rewrite (qr_sock _ _ Q), (qr_nsock _ _ Q). unfold s3. ssimpl. split; assumption.
Qed.

(* a callback invocation while no socket is held (on_socket_close / on_socket_unregister_write in
   _sock_close): its script only records publish()/subscribe() calls refused with NO_CONN.  The
   observation at its entry is harmless: the state is not connected, or the connection is being replaced *)
Record tear (s s' : st) : Prop := mkTear {
  t_ks : KS10 s' = KS10 s; t_sock : sock s' = sock s; t_cs : cs s' = cs s; t_outq : outq s' = outq s;
  t_regw : regw s' = regw s; t_incb : incb s' = incb s; t_sched : sched s' = sched s;
  t_ping : ping s' = ping s; t_proto : proto s' = proto s; t_nsock : nsock s' = nsock s;
  t_scr : sok (scr s) = true -> sok (scr s') = true
}.
Lemma tear_trans s1 s2 s3 : tear s1 s2 -> tear s2 s3 -> tear s1 s3.
Proof. intros [] []. constructor; try congruence. auto. Qed.

Definition tear_ok (s : st) : Prop := is_connected s = false \/ k1_repl (b1 (KS10 s)) = true.

Lemma run_site_tear si ev s : (si = SiClose \/ si = SiUnregW) -> inert10 ev = true -> sock s = None ->
  sok (scr s) = true -> tear_ok s -> tear s (run_site nested si false ev s).
Proof.
  intros Hsi Hev Hs HS Hok. unfold run_site. cbn [andb].
  set (s1 := obs (WCb si) (emit ev s)).
  assert (T1 : tear s s1).
  { constructor; try reflexivity; [|auto]. unfold s1, obs. rewrite KS_emit, KS_emit, (k10_inert _ ev Hev).
    apply k10_obs_tear; [destruct Hsi as [-> | ->]; reflexivity|exact Hok]. }
  pose proof (pop_script_frame si s1) as F.
  pose proof (scr_ok_pop si s1 HS) as HS2.
  pose proof (scr_ok_pop_teardown si s1 Hsi HS) as Hps.
  destruct (pop_script si s1) as [sc s2]. cbn [fst snd] in *.
  destruct F as (Fcs & Fsock & Fregw & Foutq & Fping & Fincb & Fcq & Fproto & Fnsock & Fsched & Ftr).
  assert (T2 : tear s1 s2).
  { constructor; try assumption; [|auto]. apply KS_frame. exact Ftr. }
  eapply tear_trans; [exact T1|]. eapply tear_trans; [exact T2|].
  destruct sc as [|a sc]; [constructor; auto|].
  set (s3 := set_incb (false || incb s2) s2).
  assert (Hs3 : sock s3 = None) by (unfold s3; ssimpl; rewrite Fsock; exact Hs).
  destruct (Ht (a :: sc) s3 Hps Hs3) as ([] & Hcs & evs & Htr & Hf).
  assert (EK : KS10 (nested (a :: sc) s3) = KS10 s2).
  { rewrite (KS_ignored k10_ev inert10 k0 s3 (nested (a :: sc) s3) evs); [reflexivity| |exact Htr|].
    - intros; apply k10_inert; assumption.
    - eapply Forall_impl; [|exact Hf]. intros e. apply tev_ps_inert. }
  unfold s3 in *. clear s3. ssimpl.
  constructor; ssimpl; try congruence.
  - rewrite (KS_frame _ _ (nested (a :: sc) (set_incb (incb s2) s2)) (set_incb (incb s2) (nested (a :: sc) (set_incb (incb s2) s2)))) by reflexivity.
    exact EK.
Qed.

Lemma tear_ok_tear s s' : tear s s' -> tear_ok s -> tear_ok s'.
Proof. intros [] [A|A]; [left; unfold is_connected in *; rewrite t_cs0; exact A|right; rewrite t_ks0; exact A]. Qed.

(* _call_socket_unregister_write(sock) inside _sock_close *)
Lemma call_unregw_tear id s : sock s = None -> sok (scr s) = true -> tear_ok s ->
  let s' := call_unregw c nested (Some id) s in
  tear (set_regw false s) s' \/ (regw s = false /\ s' = s).
Proof.
  intros Hs HS Hok. unfold call_unregw. destruct (regw s) eqn:Er; cbn [negb]; [left|right; auto].
  remember (c_ext c) as bx eqn:Ex in |- *; destruct bx.
  - apply run_site_tear; [right; reflexivity|reflexivity|exact Hs|exact HS|].
    destruct Hok as [A|A]; [left; exact A|right; exact A].
  - constructor; auto.
Qed.

(* _sock_close on a held socket: besides ConnEnd nothing the checkers see *)
Lemma sock_close_char r id s : sock s = Some id -> sok (scr s) = true ->
  (is_replaced r = true \/ is_connected s = false) ->
  let s' := sock_close c nested r s in
  KS10 s' = k10_ev (KS10 s) (ConnEnd id r) /\ sock s' = None /\ cs s' = cs s /\ outq s' = outq s /\
  incb s' = incb s /\ sched s' = sched s /\ ping s' = ping s /\ proto s' = proto s /\ nsock s' = nsock s /\
  regw s' = false /\ sok (scr s') = true.
Proof.
  intros Hs HS Hr. unfold sock_close. rewrite Hs.
  set (s1 := emit (ConnEnd id r) (set_sock None s)).
  assert (E1 : KS10 s1 = k10_ev (KS10 s) (ConnEnd id r)).
  { unfold s1. rewrite KS_emit. rewrite (KS_frame _ _ s (set_sock None s)) by reflexivity. reflexivity. }
  assert (Hok1 : tear_ok s1).
  { destruct Hr as [A|A]; [right; rewrite E1, k10_connend_repl; exact A|left; exact A]. }
  assert (T2 : let s2 := call_unregw c nested (Some id) s1 in
               KS10 s2 = KS10 s1 /\ sock s2 = None /\ cs s2 = cs s /\ outq s2 = outq s /\ incb s2 = incb s /\
               sched s2 = sched s /\ ping s2 = ping s /\ proto s2 = proto s /\ nsock s2 = nsock s /\
               regw s2 = false /\ sok (scr s2) = true /\ tear_ok s2).
  { destruct (call_unregw_tear id s1 eq_refl HS Hok1) as [T|[Er ->]].
    - pose proof (tear_ok_tear _ _ T Hok1) as X. destruct T. ssimpl. repeat split; try congruence; auto.
    - repeat split; auto. }
  set (s2 := call_unregw c nested (Some id) s1) in *.
  destruct T2 as (A1 & A2 & A3 & A4 & A5 & A6 & A7 & A8 & A9 & A10 & A11 & A12).
  destruct (c_sockcb c).
  - destruct (run_site_tear SiClose (SockClose id) s2 (or_introl eq_refl) eq_refl A2 A11 A12) as [].
    repeat split; try congruence; auto.
  - repeat split; try congruence.
Qed.

(* _call_socket_register_write *)
Lemma call_regw_Q s : sok (scr s) = true -> quiet_rel s (call_regw c nested s).
Proof.
  intros HS. destruct (Bool.bool_dec (c_ext c) true) as [Ex|Ex].
  - apply call_regw_quiet; [exact Hq|left; exact Ex|apply scr_ok_regw; exact HS].
  - apply not_true_is_false in Ex. unfold call_regw. destruct (sock s) eqn:Es; [|apply quiet_refl].
    destruct (regw s) eqn:Er; [apply quiet_refl|]. rewrite Ex.
    apply quiet_frame; try reflexivity; ssimpl; try reflexivity; congruence.
Qed.

Lemma call_regw_N s : Pre true s ->
  let s' := call_regw c nested s in
  Pre true s' /\ incb s' = incb s /\ quiet_rel s s'.
Proof.
  intros HP. pose proof (call_regw_Q s (proj2 HP)) as Q.
  split; [|split; [exact (qr_incb _ _ Q)|exact Q]].
  unfold call_regw in *. destruct (sock s) as [id|] eqn:Es; [|exact HP].
  destruct (regw s) eqn:Er; [exact HP|].
  assert (HP1 : Pre true (set_regw true s)) by (eapply Pre_frame; [| | | | | |exact HP]; reflexivity).
  destruct (c_ext c) eqn:Ex; [|exact HP1].
  apply run_site_N; [discriminate|auto|]. apply Pre_emit; [reflexivity|exact HP1].
Qed.

(* _call_socket_unregister_write() at the end of loop_write *)
Lemma call_unregw_N s : Pre true s ->
  let s' := call_unregw c nested None s in Pre true s' /\ incb s' = incb s.
Proof.
  intros HP. unfold call_unregw. destruct (sock s) as [id|] eqn:Es; [|split; [exact HP|reflexivity]].
  destruct (regw s) eqn:Er; cbn [negb]; [|split; [exact HP|reflexivity]].
  assert (HP1 : Pre true (set_regw false s)) by (eapply Pre_frame; [| | | | | |exact HP]; reflexivity).
  destruct (c_ext c) eqn:Ex; [|split; [exact HP1|reflexivity]].
  destruct (run_site_N SiUnregW false (UnregW id) (set_regw false s)) as (A & B & _); [discriminate|auto| |].
  - apply Pre_emit; [reflexivity|exact HP1].
  - split; [exact A|exact B].
Qed.

(* a connection ends for a reason other than replacement: state, close, on_disconnect *)
Lemma lost_N r rc fb id s : Pre true s -> sock s = Some id -> incb s = false ->
  is_replaced r = false -> (fb = false -> rc <> 0) ->
  let s' := fst (lost c nested r rc fb s) in
  Pre true s' /\ incb s' = false.
Proof.
  intros (HV & HS) Hs Hi Hr Hrc. unfold lost.
  assert (G : forall x rc', is_connected (set_cs x s) = false -> (fb = true \/ (rc' =? 0) = disc_state s) ->
              let s' := do_on_disconnect nested rc' fb (sock_close c nested r (set_cs x s)) in Pre true s' /\ incb s' = false).
  { intros x rc' Hx Hcond.
    destruct (sock_close_char r id (set_cs x s) Hs HS (or_intror Hx)) as (A1 & A2 & A3 & A4 & A5 & A6 & A7 & A8 & A9 & A10 & A11).
    set (s1 := sock_close c nested r (set_cs x s)) in *.
    unfold do_on_disconnect, has_sock. rewrite A2.
    destruct (run_site_N SiDisconnect true (CbDisconnect rc' fb) s1) as (B1 & B2 & _).
    - intros _. rewrite A5. exact Hi.
    - discriminate.
    - split; [|ssimpl; exact A11].
      rewrite KS_emit, A1. rewrite (KS_frame _ _ s (set_cs x s)) by reflexivity.
      eapply V_end_lost; [exact HV|exact Hs|exact Hr|exact Hcond|ssimpl; exact A2|].
      unfold is_connected in *. ssimpl. rewrite A3. exact Hx.
    - split; [exact B1|]. rewrite B2, A5. exact Hi. }
  destruct (disc_state s) eqn:Eds; cbn [fst].
  - apply G; [reflexivity|]. destruct fb; [left; reflexivity|right; reflexivity].
  - apply G; [reflexivity|]. destruct fb; [left; reflexivity|right]. apply Z.eqb_neq. apply Hrc. reflexivity.
Qed.

Lemma loop_rc_handle_N rc id s : Pre true s -> sock s = Some id -> incb s = false -> rc > 0 ->
  let s' := fst (loop_rc_handle c nested rc s) in Pre true s' /\ incb s' = false.
Proof. intros. unfold loop_rc_handle. apply lost_N with (id := id); auto. intros; lia. Qed.

Lemma keepalive_close_N id s : Pre true s -> sock s = Some id -> incb s = false ->
  let s' := keepalive_close c nested s in Pre true s' /\ incb s' = false.
Proof. intros. unfold keepalive_close. apply lost_N with (id := id); auto. unfold E_KEEPALIVE. intros; lia. Qed.

(* ---- _packet_queue and reconnect(), for both layers ---- *)
Definition queued (k : pkind) (s : st) : st :=
  match k with
  | KConnect => set_cq true (set_outq (mkQ k false :: outq s) s)
  | _ => set_outq (outq s ++ [mkQ k false]) s
  end.

Lemma queued_nc k s : is_connect k = false -> queued k s = set_outq (outq s ++ [mkQ k false]) s.
Proof. destruct k; try discriminate; reflexivity. Qed.

(* what is needed of _packet_queue(CONNECT) on states satisfying G *)
Definition PQspec (G : st -> Prop) : Prop := forall s, G s -> Pre true (queued KConnect s) -> sock s <> None ->
  Pre true (fst (packet_queue c nested KConnect s)) /\ incb (fst (packet_queue c nested KConnect s)) = incb s /\
  (NWs c s -> quiet_rel (queued KConnect s) (fst (packet_queue c nested KConnect s))).

(* in a nested call nothing is written: register-write only *)
Lemma packet_queue_Q k s : NWs c s -> Pre true (queued k s) ->
  Pre true (fst (packet_queue c nested k s)) /\ incb (fst (packet_queue c nested k s)) = incb s /\
  quiet_rel (queued k s) (fst (packet_queue c nested k s)).
Proof.
  intros Hnw HP. unfold packet_queue. fold (queued k s).
  assert (E : negb (c_ext c) && cq (queued k s) && negb (incb (queued k s)) = false).
  { destruct Hnw as [A|A]; [rewrite A; reflexivity|].
    assert (X : incb (queued k s) = true) by (unfold queued; destruct k; ssimpl; exact A).
    rewrite X. apply andb_false_r. }
  rewrite E. cbn [fst]. destruct (call_regw_N _ HP) as (A1 & A2 & A3). split; [exact A1|]. split; [|exact A3].
  rewrite A2. unfold queued. destruct k; reflexivity.
Qed.
Lemma PQspec_NW : PQspec (NWs c).
Proof. intros s Hnw HP _. destruct (packet_queue_Q KConnect s Hnw HP) as (A & B & C0). auto. Qed.

(* the body of reconnect(), started at a stable point or inside the window after a written DISCONNECT *)
Lemma reconnect_body_G (G : st -> Prop) ok s :
  PQspec G -> (forall s1 s2, incb s2 = incb s1 -> G s1 -> G s2) -> G s ->
  sok (scr s) = true -> (V true s (KS10 s) \/ exists id, Vc id s (KS10 s)) ->
  let r := reconnect_body c nested ok s in
  Pre true (fst r) /\ incb (fst r) = incb s /\
  (NWs c s -> (sock (fst r) = None -> outq (fst r) = []) /\ nsock s <= nsock (fst r) /\
              forall x, sock (fst r) = Some x -> nsock s < x).
Proof.
  intros Hpq HG HGs HS HV. unfold reconnect_body.
  set (s1 := set_cs CsConnecting (set_ping false s)).
  assert (C1 : let s2 := sock_close c nested RReplaced s1 in
               V true s2 (KS10 s2) /\ sock s2 = None /\ cs s2 = CsConnecting /\ incb s2 = incb s /\
               nsock s2 = nsock s /\ sok (scr s2) = true).
  { destruct (sock s) as [id|] eqn:Es.
    - destruct (sock_close_char RReplaced id s1 Es HS (or_introl eq_refl)) as (A1 & A2 & A3 & A4 & A5 & A6 & A7 & A8 & A9 & A10 & A11).
      split; [|repeat split; assumption].
      rewrite A1. rewrite (KS_frame _ _ s s1) by reflexivity.
      destruct HV as [HV|[id' HV]].
      + eapply V_end_replaced; [exact HV|exact Es|exact A2|]. unfold is_connected. rewrite A3. reflexivity.
      + assert (id' = id) by (destruct HV; congruence). subst id'.
        eapply Vc_end_replaced; [exact HV|exact A2|]. unfold is_connected. rewrite A3. reflexivity.
    - unfold sock_close. assert (E : sock s1 = None) by exact Es. rewrite E.
      split; [|repeat split; try assumption; reflexivity].
      rewrite (KS_frame _ _ s s1) by reflexivity.
      destruct HV as [HV|[id' HV]]; [|destruct HV; congruence]. dV HV.
      apply V_nosock; try assumption; try reflexivity; try congruence. }
  set (s2 := sock_close c nested RReplaced s1) in *.
  destruct C1 as (V2 & S2 & CS2 & I2 & N2 & HS2).
  set (s3 := set_outq [] s2).
  assert (V3 : V true s3 (KS10 s3)).
  { rewrite (KS_frame _ _ s2 s3) by reflexivity. dV V2.
    apply V_nosock; try assumption; try reflexivity; try (unfold s3; ssimpl; congruence); try (intros X; discriminate X).
    unfold is_connected, s3. ssimpl. rewrite CS2. reflexivity. }
  destruct ok; cbn [negb].
  2:{ cbn [fst]. split; [|split; [ssimpl; exact I2|]].
      - apply Pre_emit; [reflexivity|]. split; [|exact HS2].
        rewrite (KS_frame _ _ s3 (set_cq false s3)) by reflexivity. eapply V_frame; [| | | |exact V3]; reflexivity.
      - intros _. split; [intros _; reflexivity|]. split; [unfold s3; ssimpl; lia|]. unfold s3. ssimpl. rewrite S2. intros x X; discriminate X. }
  set (id := nsock s3 + 1).
  set (s4 := emit (SockNew id) (set_regw false (set_sock (Some id) (set_nsock id (set_cq false s3))))).
  assert (P4 : Pre false s4).
  { split; [|exact HS2].
    unfold s4. rewrite KS_emit. rewrite (KS_frame _ _ s3 (set_regw false (set_sock (Some id) (set_nsock id (set_cq false s3))))) by reflexivity.
    eapply V_sock_new; [exact V3|exact S2|reflexivity|ssimpl; exact CS2|reflexivity|ssimpl; lia]. }
  assert (C5 : let s5 := (if c_sockcb c then run_site nested SiOpen false (SockOpen id) s4 else s4) in
               Pre false s5 /\ incb s5 = incb s /\ sock s5 = Some id /\ nsock s5 = id).
  { destruct (c_sockcb c).
    - destruct (run_site_open (SockOpen id) s4) as (A1 & A2 & A3 & A4); [apply Pre_emit; [reflexivity|exact P4]|reflexivity|].
      split; [exact A1|]. split; [rewrite A2; unfold s4; ssimpl; exact I2|]. split; [rewrite A3; reflexivity|rewrite A4; reflexivity].
    - split; [exact P4|]. split; [unfold s4; ssimpl; exact I2|split; reflexivity]. }
  set (s5 := if c_sockcb c then run_site nested SiOpen false (SockOpen id) s4 else s4) in *.
  destruct C5 as (P5 & I5 & S5 & N5).
  assert (P5' : Pre true (queued KConnect s5)).
  { destruct P5 as (X1 & X2). split; [|exact X2].
    rewrite (KS_frame _ _ s5 (queued KConnect s5)) by reflexivity.
    unfold queued. eapply V_frame; [| | | |apply V_append_connect; exact X1]; reflexivity. }
  assert (G5 : G s5) by (eapply HG; [|exact HGs]; congruence).
  destruct (Hpq s5 G5 P5' ltac:(congruence)) as (A1 & A2 & A3).
  destruct (packet_queue c nested KConnect s5) as [s6 rc]. cbn [fst snd] in *.
  split; [exact A1|]. split; [congruence|].
  intros Hnw. assert (Hnw5 : NWs c s5) by (destruct Hnw as [Y|Y]; [left; exact Y|right; congruence]).
  pose proof (A3 Hnw5) as Q.
  assert (E6 : sock s6 = Some id) by (rewrite (qr_sock _ _ Q); exact S5).
  assert (N6 : nsock s6 = id) by (rewrite (qr_nsock _ _ Q); exact N5).
  split; [intros X; congruence|]. split; [rewrite N6; unfold id, s3; ssimpl; lia|].
  intros x X. assert (x = id) by congruence. subst x. unfold id, s3. ssimpl. lia.
Qed.

Lemma api_send_NW ck k s : NWs c s -> Pre true s -> inert10 (Call ck) = true -> (ck = CPublish \/ ck = CSubscribe) ->
  is_connect k = false -> is_disconnect k = false ->
  let s' := fst (api_send c nested ck k s) in Pre true s' /\ quiet_rel s s'.
Proof.
  intros Hnw HP Hck Hck2 Hk Hkd.
  assert (Q : quiet_rel s (fst (api_send c nested ck k s))).
  { apply api_send_quiet; auto; [apply NWs_NW; exact Hnw|apply scr_ok_regw; apply HP]. }
  split; [|exact Q].
  unfold api_send. ssimpl.
  assert (HP1 : Pre true (emit (Call ck) s)) by (apply Pre_emit; assumption).
  destruct (sock s) as [id|] eqn:Es; cbn [fst]; [|exact HP1].
  apply packet_queue_Q; [destruct Hnw as [A|A]; [left|right]; exact A|].
  destruct HP1 as (X1 & X2). rewrite (queued_nc k _ Hk). split; [|exact X2].
  rewrite (KS_frame _ _ (emit (Call ck) s) (set_outq (outq (emit (Call ck) s) ++ [mkQ k false]) (emit (Call ck) s))) by reflexivity.
  apply V_append; [exact X1|exact Hk|rewrite Hkd; discriminate].
Qed.

Lemma api_disconnect_NW s : NWs c s -> Pre true s ->
  let s' := fst (api_disconnect c nested s) in Pre true s' /\ quiet_rel s s'.
Proof.
  intros Hnw (HV & HS).
  assert (Q : quiet_rel s (fst (api_disconnect c nested s))).
  { apply api_disconnect_quiet; auto; [apply NWs_NW; exact Hnw|apply scr_ok_regw; exact HS]. }
  split; [|exact Q].
  unfold api_disconnect. ssimpl. destruct (sock s) as [id|] eqn:Es; cbn [fst].
  - set (s1 := set_cs CsDisconnecting (emit (Call CDisconnect) s)).
    assert (V1 : V true s1 (KS10 s1)).
    { unfold s1. rewrite (KS_frame _ _ (emit (Call CDisconnect) s) (set_cs CsDisconnecting (emit (Call CDisconnect) s))) by reflexivity.
      rewrite KS_emit. apply V_frame with (s := set_cs CsDisconnecting s); try reflexivity.
      eapply V_call_disc_some; eassumption. }
    apply packet_queue_Q; [destruct Hnw as [A|A]; [left|right]; exact A|].
    split; [|exact HS]. rewrite (KS_frame _ _ s1 (queued KDisconnect s1)) by reflexivity.
    unfold queued. apply V_append; [exact V1|reflexivity|intros _ _; reflexivity].
  - split; [|exact HS].
    rewrite (KS_frame _ _ (emit (Call CDisconnect) s) (set_cs CsDisconnected (emit (Call CDisconnect) s))) by reflexivity.
    rewrite KS_emit. apply V_frame with (s := set_cs CsDisconnected s); try reflexivity.
    apply V_call_disc_none; assumption.
Qed.

Lemma api_reconnect_NW ok s : NWs c s -> sok (scr s) = true -> (V true s (KS10 s) \/ exists id, Vc id s (KS10 s)) ->
  let s' := fst (api_reconnect c nested ok s) in
  Pre true s' /\ incb s' = incb s /\ (sock s' = None -> outq s' = []) /\ nsock s <= nsock s' /\
  (forall x, sock s' = Some x -> nsock s < x).
Proof.
  intros Hnw HS HV. unfold api_reconnect.
  destruct (reconnect_body_G (NWs c) ok (emit (Call CReconnect) s) PQspec_NW) as (A1 & A2 & A3).
  - intros s1 s2 E [X|X]; [left; exact X|right; congruence].
  - destruct Hnw as [X|X]; [left|right]; exact X.
  - exact HS.
  - rewrite KS_emit, (k10_inert _ (Call CReconnect)) by reflexivity.
    destruct HV as [HV|[id HV]]; [left; eapply V_frame; [| | | |exact HV]; reflexivity|right; exists id].
    dVc HV. constructor; assumption.
  - destruct A3 as (B1 & B2 & B3); [destruct Hnw as [X|X]; [left|right]; exact X|].
    split; [exact A1|]. split; [exact A2|]. split; [exact B1|]. split; [exact B2|exact B3].
Qed.

Lemma api_nested_N a s : NWs c s -> Pre true s ->
  let s' := api_nested c nested a s in Pre true s' /\ incb s' = incb s /\ Rel s s' /\ SockRel s s'.
Proof.
  intros Hnw HP. destruct a; cbn [api_nested].
  - destruct (api_send_NW CPublish KPublish0 s Hnw HP eq_refl (or_introl eq_refl) eq_refl eq_refl) as (A1 & Q).
    split; [exact A1|]. split; [exact (qr_incb _ _ Q)|]. split; [apply Rel_quiet|apply SockRel_quiet]; exact Q.
  - destruct (api_send_NW CSubscribe KSubscribe s Hnw HP eq_refl (or_intror eq_refl) eq_refl eq_refl) as (A1 & Q).
    split; [exact A1|]. split; [exact (qr_incb _ _ Q)|]. split; [apply Rel_quiet|apply SockRel_quiet]; exact Q.
  - destruct (api_disconnect_NW s Hnw HP) as (A1 & Q).
    split; [exact A1|]. split; [exact (qr_incb _ _ Q)|]. split; [apply Rel_quiet|apply SockRel_quiet]; exact Q.
  - destruct (api_reconnect_NW ok s Hnw (proj2 HP) (or_introl (proj1 HP))) as (A1 & A2 & A3 & A4 & A5).
    split; [exact A1|]. split; [exact A2|]. split; [intros X; right; apply A3; exact X|].
    split; [exact A4|]. intros x X. right. apply A5. exact X.
Qed.

Lemma exec_script_N : forall sc s, NWs c s -> Pre true s ->
  let s' := exec_script c nested sc s in Pre true s' /\ incb s' = incb s /\ Rel s s' /\ SockRel s s'.
Proof.
  unfold exec_script. induction sc as [|a sc IH]; intros s Hnw HP; cbn [fold_left].
  - split; [exact HP|]. split; [reflexivity|]. split; [apply Rel_refl|apply SockRel_refl].
  - destruct (api_nested_N a s Hnw HP) as (A1 & A2 & A3 & A4).
    assert (Hnw' : NWs c (api_nested c nested a s)) by (destruct Hnw as [X|X]; [left; exact X|right; congruence]).
    destruct (IH _ Hnw' A1) as (B1 & B2 & B3 & B4).
    split; [exact B1|]. split; [congruence|]. split; [eapply Rel_trans; eassumption|eapply SockRel_trans; eassumption].
Qed.

(* a script run inside the window after a written DISCONNECT: the window stays, or a reconnect() ended it *)
Definition Cpost (id : Z) (s s' : st) : Prop :=
  incb s' = incb s /\ sok (scr s') = true /\
  (Vc id s' (KS10 s') \/ (Pre true s' /\ id <= nsock s' /\ forall x, sock s' = Some x -> id < x)).

Lemma exec_script_C : forall sc s id, NWs c s -> Vc id s (KS10 s) -> sok (scr s) = true ->
  Cpost id s (exec_script c nested sc s).
Proof.
  unfold exec_script. induction sc as [|a sc IH]; intros s id Hnw HV HS; cbn [fold_left].
  - split; [reflexivity|]. split; [exact HS|left; exact HV].
  - destruct (is_reconnect a) eqn:Ea.
    + destruct a as [| | |ok]; try discriminate Ea. cbn [api_nested].
      destruct (api_reconnect_NW ok s Hnw HS (or_intror (ex_intro _ id HV))) as (A1 & A2 & A3 & A4 & A5).
      set (s1 := fst (api_reconnect c nested ok s)) in *.
      assert (Hnw1 : NWs c s1) by (destruct Hnw as [X|X]; [left; exact X|right; congruence]).
      destruct (exec_script_N sc s1 Hnw1 A1) as (B1 & B2 & B3 & B4 & B5). unfold exec_script in *.
      assert (Hid : id <= nsock s) by (destruct HV; assumption).
      split; [congruence|]. split; [apply B1|]. right. split; [exact B1|]. split; [lia|].
      intros x X. destruct (B5 x X) as [Y|Y]; [specialize (A5 x Y); lia|lia].
    + pose proof (api_nested_quiet c nested Hq a s (NWs_NW _ _ Hnw) (scr_ok_regw _ HS) Ea) as Q.
      pose proof (Vc_quiet id _ _ k0 Q HV) as HV1.
      assert (Hnw1 : NWs c (api_nested c nested a s)) by (destruct Hnw as [X|X]; [left; exact X|right; rewrite (qr_incb _ _ Q); exact X]).
      destruct (IH _ id Hnw1 HV1 (scr_ok_quiet _ _ Q HS)) as (B1 & B2 & B3).
      split; [rewrite B1; exact (qr_incb _ _ Q)|]. split; [exact B2|exact B3].
Qed.

(* ---- the loop layer ---- *)
Hypothesis Hc : forall sc s id, NWs c s -> Vc id s (KS10 s) -> sok (scr s) = true -> Cpost id s (nested sc s).

(* a DISCONNECT packet has just been written completely *)
Lemma disc_written id p q' s s1 : Pre true s -> outq s = p :: q' -> qk p = KDisconnect -> sock s = Some id ->
  incb s = false -> tr s1 = tr s -> sock s1 = sock s -> cs s1 = cs s -> outq s1 = q' -> scr s1 = scr s ->
  incb s1 = incb s -> nsock s1 = nsock s ->
  let s3 := do_on_disconnect nested 0 false (emit (Tx id KDisconnect) s1) in
  let r := match sock s3 with
           | Some id' => if id' =? id then
                           let s4 := sock_close c nested RDiscWritten s3 in
                           (match cs s4 with CsDisconnecting => set_cs CsDisconnected s4 | _ => s4 end, 0)
                         else (s3, 0)
           | None => (s3, 0)
           end in
  Pre true (fst r) /\ incb (fst r) = false.
Proof.
  intros (HV & HS) Hq0 Hk Hs Hi Ftr Fsock Fcs Foutq Fscr Fincb Fnsock.
  set (s2 := emit (Tx id KDisconnect) s1).
  assert (W0 : Vc id s2 (k10_ev (KS10 s2) (CbDisconnect 0 false))).
  { unfold s2. rewrite KS_emit, (KS_frame _ _ _ _ Ftr).
    pose proof (Vc_enter id p q' s (KS10 s) Hs Hq0 ltac:(rewrite Hk; reflexivity) HV) as W. rewrite Hk in W.
    dVc W. ssimpl. constructor; ssimpl; try assumption; congruence. }
  unfold do_on_disconnect, has_sock. fold s2.
  assert (Es2 : sock s2 = Some id) by (unfold s2; ssimpl; congruence). rewrite Es2.
  unfold run_site. assert (Ei : incb s2 = false) by (unfold s2; ssimpl; congruence). rewrite Ei. cbn [andb].
  set (sa := obs (WCb SiDiscOpen) (emit (CbDisconnect 0 false) s2)).
  assert (Wa : Vc id sa (KS10 sa)).
  { unfold sa, obs. rewrite KS_emit, KS_emit. dVc W0.
    assert (W0' : Vc id (emit (CbDisconnect 0 false) s2) (k10_ev (KS10 s2) (CbDisconnect 0 false))).
    { constructor; ssimpl; assumption. }
    pose proof (Vc_obs id _ _ (WCb SiDiscOpen) (has_sock (emit (CbDisconnect 0 false) s2))
                  (want_write (emit (CbDisconnect 0 false) s2)) (regw s2) W0') as W1.
    destruct W1 as [d1 d2 d3 d4 d5 d6 d7 d8 d9 d10]. constructor; ssimpl; assumption. }
  assert (HSa : sok (scr sa) = true) by (unfold sa, s2; ssimpl; rewrite Fscr; exact HS).
  pose proof (pop_script_frame SiDiscOpen sa) as F.
  pose proof (scr_ok_pop SiDiscOpen sa HSa) as HSb.
  destruct (pop_script SiDiscOpen sa) as [sc sb]. cbn [fst snd] in *.
  destruct F as (Gcs & Gsock & Gregw & Goutq & Gping & Gincb & Gcq & Gproto & Gnsock & Gsched & Gtr).
  assert (Wb : Vc id sb (KS10 sb)).
  { rewrite (KS_frame _ _ _ _ Gtr). dVc Wa. constructor; try assumption; congruence. }
  assert (Hib : incb sb = false) by (rewrite Gincb; unfold sa; ssimpl; exact Ei).
  (* the state after the callback returned *)
  assert (R : exists sw, (match sc with [] => sb | _ :: _ => set_incb (incb sb) (nested sc (set_incb (true || incb sb) sb)) end) = sw /\
              incb sw = false /\ sok (scr sw) = true /\
              (Vc id sw (KS10 sw) \/ (Pre true sw /\ id <= nsock sw /\ forall x, sock sw = Some x -> id < x))).
  { destruct sc as [|a sc]; [exists sb; split; [reflexivity|]; split; [exact Hib|]; split; [exact HSb|left; exact Wb]|].
    eexists; split; [reflexivity|].
    set (sc0 := set_incb (true || incb sb) sb).
    assert (Wc : Vc id sc0 (KS10 sc0)).
    { rewrite (KS_frame _ _ sb sc0) by reflexivity. dVc Wb. constructor; ssimpl; assumption. }
    destruct (Hc (a :: sc) sc0 id (or_intror eq_refl) Wc HSb) as (C1 & C2 & C3).
    split; [ssimpl; exact Hib|]. split; [ssimpl; exact C2|].
    destruct C3 as [C3|(C3 & C4 & C5)].
    - left. rewrite (KS_frame _ _ (nested (a :: sc) sc0) (set_incb (incb sb) (nested (a :: sc) sc0))) by reflexivity.
      dVc C3. constructor; ssimpl; assumption.
    - right. split; [eapply Pre_frame; [| | | | | |exact C3]; reflexivity|]. ssimpl. split; assumption. }
  destruct R as (sw & Esw & Hiw & HSw & Ww). rewrite Esw. clear Esw.
  destruct Ww as [Ww|(Pw & Nw & Fw)].
  - dVc Ww. rewrite csock, Z.eqb_refl.
    assert (Hnc : is_connected sw = false) by (unfold is_connected; rewrite ccs; reflexivity).
    destruct (sock_close_char RDiscWritten id sw csock HSw (or_intror Hnc))
      as (A1 & A2 & A3 & A4 & A5 & A6 & A7 & A8 & A9 & A10 & A11).
    set (s4 := sock_close c nested RDiscWritten sw) in *.
    rewrite A3, ccs. cbn [fst].
    split; [|ssimpl; congruence].
    split; [|ssimpl; exact A11].
    rewrite (KS_frame _ _ s4 (set_cs CsDisconnected s4)) by reflexivity. rewrite A1.
    eapply Vc_end; [constructor; eassumption|ssimpl; exact A2|reflexivity].
  - (* on_disconnect called reconnect(): the new connection is left alone *)
    destruct (sock sw) as [id'|] eqn:Esw; [|cbn [fst]; split; assumption].
    assert (id' =? id = false) by (apply Z.eqb_neq; specialize (Fw id' eq_refl); lia).
    rewrite H. cbn [fst]. split; assumption.
Qed.

Lemma V_restart b p q' s k : outq s = p :: q' -> V true s k -> V true (set_outq (mkQ (qk p) b :: q') s) k.
Proof.
  intros Hq0 HV. dV HV. rewrite Hq0 in *. constructor; ssimpl; try assumption; try (intros X; discriminate X).
Qed.

Lemma pop_outcome_spec s :
  let s1 := snd (pop_outcome s) in
  tr s1 = tr s /\ sock s1 = sock s /\ cs s1 = cs s /\ outq s1 = outq s /\ scr s1 = scr s /\ incb s1 = incb s /\
  nsock s1 = nsock s.
Proof. unfold pop_outcome. destruct (sched s); cbn [snd]; repeat split. Qed.

Lemma pw_loop_N : forall n s, Pre true s -> incb s = false -> (sock s = None -> outq s = []) ->
  Pre true (fst (pw_loop c nested n s)) /\ incb (fst (pw_loop c nested n s)) = false /\
  (snd (pw_loop c nested n s) > 0 -> sock (fst (pw_loop c nested n s)) <> None).
Proof.
  induction n as [|n IH]; intros s HP Hi Hno; cbn [pw_loop].
  { cbn [fst snd]. split; [apply Pre_emit; [reflexivity|exact HP]|]. split; [exact Hi|]. intros; lia. }
  destruct (outq s) as [|p q'] eqn:Eq0.
  { cbn [fst snd]. split; [exact HP|]. split; [exact Hi|]. intros; lia. }
  destruct (sock s) as [id|] eqn:Es; [|specialize (Hno eq_refl); discriminate].
  ssimpl. rewrite Es.
  destruct HP as (HV & HS).
  pose proof (pop_outcome_spec (set_outq q' s)) as Sp.
  destruct (pop_outcome (set_outq q' s)) as [o s1]. cbn [fst snd] in Sp.
  destruct Sp as (Ftr & Fsock & Fcs & Foutq & Fscr & Fincb & Fnsock). ssimpl.
  assert (Hback : forall b, Pre true (push_front (mkQ (qk p) b) s1)).
  { intros b. split; [|ssimpl; rewrite Fscr; exact HS].
    rewrite (KS_frame _ _ s (push_front (mkQ (qk p) b) s1)) by (ssimpl; exact Ftr).
    apply V_frame with (s := set_outq (mkQ (qk p) b :: q') s); ssimpl; try congruence.
    apply V_restart; assumption. }
  assert (Hback' : Pre true (push_front p s1)).
  { specialize (Hback (qstarted p)). destruct p; exact Hback. }
  assert (Hblocked : let s' := push_front p (call_regw c nested s1) in Pre true s' /\ incb s' = false).
  { pose proof (call_regw_Q s1 ltac:(rewrite Fscr; exact HS)) as Q.
    split; [|ssimpl; rewrite (qr_incb _ _ Q); congruence].
    split.
    - rewrite (KS_frame _ _ (call_regw c nested s1) (push_front p (call_regw c nested s1))) by reflexivity.
      pose proof (V_quiet true [p] s1 (call_regw c nested s1) k0 Q) as X. cbn [app] in X. apply X.
      destruct Hback' as (X1 & _). rewrite (KS_frame _ _ s1 (push_front p s1)) in X1 by reflexivity. exact X1.
    - ssimpl. eapply scr_ok_quiet; [exact Q|rewrite Fscr; exact HS]. }
  assert (Hs1 : sock s1 = Some id) by congruence.
  assert (Hi1 : incb s1 = false) by congruence.
  destruct o.
  - destruct (is_disconnect (qk p)) eqn:Ed.
    + assert (Hk : qk p = KDisconnect) by (destruct (qk p); try discriminate; reflexivity). rewrite Hk.
      pose proof (disc_written id p q' s s1 (conj HV HS) Eq0 Hk Es Hi Ftr Fsock Fcs Foutq Fscr Fincb Fnsock) as (X1 & X2).
      cbn zeta in X1, X2.
      destruct (sock (do_on_disconnect nested 0 false (emit (Tx id KDisconnect) s1))) as [id'|];
        [destruct (id' =? id)|]; cbn [fst snd] in *; (split; [exact X1|]; split; [exact X2|]; intros; lia).
    + assert (HP2 : Pre true (emit (Tx id (qk p)) s1)).
      { split; [|ssimpl; rewrite Fscr; exact HS].
        rewrite KS_emit, (KS_frame _ _ _ _ Ftr).
        apply V_frame with (s := set_outq q' s); ssimpl; try congruence.
        apply V_tx; assumption. }
      assert (Hother : let r := pw_loop c nested n (emit (Tx id (qk p)) s1) in
                Pre true (fst r) /\ incb (fst r) = false /\ (snd r > 0 -> sock (fst r) <> None)).
      { apply IH; [exact HP2|ssimpl; exact Hi1|ssimpl; congruence]. }
      destruct (qk p) eqn:Ek; try exact Hother; [discriminate Ed|].
      destruct (run_site_N SiPublish true CbPublish (emit (Tx id KPublish0) s1)) as (B1 & B2 & B3).
      * intros _. ssimpl. exact Hi1.
      * discriminate.
      * apply Pre_emit; [reflexivity|exact HP2].
      * apply IH; [exact B1|rewrite B2; ssimpl; exact Hi1|].
        intros X. destruct (B3 X) as [[Y _]|Y]; [ssimpl; congruence|exact Y].
  - destruct (qstarted p).
    + cbn [fst snd]. destruct Hblocked as (X1 & X2). split; [exact X1|]. split; [exact X2|]. unfold E_AGAIN. intros; lia.
    + apply IH; [apply Hback|ssimpl; exact Hi1|ssimpl; congruence].
  - cbn [fst snd]. destruct Hblocked as (X1 & X2). split; [exact X1|]. split; [exact X2|]. unfold E_AGAIN. intros; lia.
  - cbn [fst snd]. split; [exact Hback'|]. split; [ssimpl; exact Hi1|]. intros; lia.
  - cbn [fst snd]. split; [exact Hback'|]. split; [ssimpl; exact Hi1|]. intros _. ssimpl. congruence.
Qed.

Lemma loop_write_N s : Pre true s -> incb s = false ->
  let r := loop_write c nested s in Pre true (fst r) /\ incb (fst r) = false.
Proof.
  intros HP Hi. unfold loop_write. destruct (sock s) as [id|] eqn:Es; [|cbn [fst]; auto].
  destruct (negb (cq s)); [cbn [fst]; auto|].
  unfold packet_write.
  destruct (pw_loop_N (pw_fuel s) s HP Hi ltac:(intros X; congruence)) as (A1 & A2 & A3).
  destruct (pw_loop c nested (pw_fuel s) s) as [s1 rc]. cbn [fst snd] in *.
  assert (B : let r2 := (if rc =? E_AGAIN then (s1, 0) else if rc >? 0 then loop_rc_handle c nested rc s1 else (s1, 0)) in
              Pre true (fst r2) /\ incb (fst r2) = false).
  { destruct (rc =? E_AGAIN); [cbn [fst]; auto|].
    destruct (rc >? 0) eqn:Eg; [|cbn [fst]; auto].
    assert (Hg : rc > 0) by lia. destruct (sock s1) as [id1|] eqn:Es1; [|exfalso; apply (A3 Hg); reflexivity].
    exact (loop_rc_handle_N rc id1 s1 A1 Es1 A2 Hg). }
  destruct (if rc =? E_AGAIN then (s1, 0) else if rc >? 0 then loop_rc_handle c nested rc s1 else (s1, 0)) as [s2 rc2].
  cbn [fst snd] in *. destruct B as (B1 & B2).
  destruct (want_write s2).
  - destruct (call_regw_N s2 B1) as (C1 & C2 & _). split; [exact C1|congruence].
  - destruct (call_unregw_N s2 B1) as (C1 & C2). split; [exact C1|congruence].
Qed.

Lemma packet_queue_N k s : Pre true (queued k s) ->
  let r := packet_queue c nested k s in
  Pre true (fst r) /\ incb (fst r) = incb s /\ (NWs c s -> quiet_rel (queued k s) (fst r)).
Proof.
  intros HP. unfold packet_queue. fold (queued k s).
  assert (Ei : incb (queued k s) = incb s) by (destruct k; reflexivity).
  destruct (negb (c_ext c) && cq (queued k s) && negb (incb (queued k s))) eqn:E.
  - apply andb_true_iff in E as [E E3]. apply andb_true_iff in E as [E1 E2]. apply negb_true_iff in E1, E3.
    destruct (loop_write_N (queued k s) HP E3) as (A1 & A2).
    split; [exact A1|]. split; [congruence|]. intros [X|X]; congruence.
  - cbn [fst]. destruct (call_regw_N _ HP) as (A1 & A2 & A3). split; [exact A1|]. split; [congruence|]. intros _. exact A3.
Qed.
Lemma PQspec_top : PQspec (fun _ => True).
Proof. intros s _ HP _. apply packet_queue_N. exact HP. Qed.

Lemma reconnect_body_N ok s : Pre true s ->
  let r := reconnect_body c nested ok s in Pre true (fst r) /\ incb (fst r) = incb s.
Proof.
  intros (HV & HS).
  destruct (reconnect_body_G (fun _ => True) ok s PQspec_top (fun _ _ _ _ => I) I HS (or_introl HV)) as (A1 & A2 & _).
  auto.
Qed.

Lemma api_send_N ck k s : Pre true s -> inert10 (Call ck) = true -> is_connect k = false -> is_disconnect k = false ->
  let r := api_send c nested ck k s in Pre true (fst r) /\ incb (fst r) = incb s.
Proof.
  intros HP Hck Hk Hkd. unfold api_send. ssimpl.
  assert (HP1 : Pre true (emit (Call ck) s)) by (apply Pre_emit; assumption).
  destruct (sock s) as [id|] eqn:Es; cbn [fst]; [|auto].
  destruct (packet_queue_N k (emit (Call ck) s)) as (A1 & A2 & _); [|auto].
  destruct HP1 as (X1 & X2). rewrite (queued_nc k _ Hk). split; [|exact X2].
  rewrite (KS_frame _ _ (emit (Call ck) s) (set_outq (outq (emit (Call ck) s) ++ [mkQ k false]) (emit (Call ck) s))) by reflexivity.
  apply V_append; [exact X1|exact Hk|rewrite Hkd; discriminate].
Qed.

Lemma api_disconnect_N s : Pre true s ->
  let r := api_disconnect c nested s in Pre true (fst r) /\ incb (fst r) = incb s.
Proof.
  intros (HV & HS). unfold api_disconnect. ssimpl.
  destruct (sock s) as [id|] eqn:Es; cbn [fst].
  - set (s1 := set_cs CsDisconnecting (emit (Call CDisconnect) s)).
    assert (V1 : V true s1 (KS10 s1)).
    { unfold s1. rewrite (KS_frame _ _ (emit (Call CDisconnect) s) (set_cs CsDisconnecting (emit (Call CDisconnect) s))) by reflexivity.
      rewrite KS_emit. apply V_frame with (s := set_cs CsDisconnecting s); try reflexivity.
      eapply V_call_disc_some; eassumption. }
    destruct (packet_queue_N KDisconnect s1) as (A1 & A2 & _); [|auto].
    split; [|exact HS]. rewrite (KS_frame _ _ s1 (queued KDisconnect s1)) by reflexivity.
    unfold queued. apply V_append; [exact V1|reflexivity|intros _ _; reflexivity].
  - split; [|reflexivity]. split; [|exact HS].
    rewrite (KS_frame _ _ (emit (Call CDisconnect) s) (set_cs CsDisconnected (emit (Call CDisconnect) s))) by reflexivity.
    rewrite KS_emit. apply V_frame with (s := set_cs CsDisconnected s); try reflexivity.
    apply V_call_disc_none; assumption.
Qed.

Lemma api_connect_N ok s : Pre true s ->
  let r := api_connect c nested ok s in Pre true (fst r) /\ incb (fst r) = incb s.
Proof.
  intros HP. unfold api_connect.
  set (s0 := emit (Call CConnect) s).
  assert (HP0 : Pre true s0) by (apply Pre_emit; [reflexivity|exact HP]).
  destruct HP0 as (HV & HS).
  assert (C2 : let s2 := set_cs CsConnectAsync (sock_close c nested RReplaced s0) in Pre true s2 /\ incb s2 = incb s).
  { destruct (sock s0) as [id|] eqn:Es.
    - destruct (sock_close_char RReplaced id s0 Es HS (or_introl eq_refl)) as (A1 & A2 & A3 & A4 & A5 & A6 & A7 & A8 & A9 & A10 & A11).
      split; [|ssimpl; rewrite A5; reflexivity].
      split; [|ssimpl; exact A11].
      rewrite (KS_frame _ _ (sock_close c nested RReplaced s0) (set_cs CsConnectAsync (sock_close c nested RReplaced s0))) by reflexivity.
      rewrite A1. eapply V_end_replaced; [exact HV|exact Es|ssimpl; exact A2|reflexivity].
    - unfold sock_close. rewrite Es. split; [|reflexivity].
      split; [|exact HS].
      rewrite (KS_frame _ _ s0 (set_cs CsConnectAsync s0)) by reflexivity. dV HV.
      apply V_nosock; try assumption; try reflexivity; try congruence. }
  destruct C2 as (P2 & I2).
  destruct (reconnect_body_N ok _ P2) as (A1 & A2).
  split; [exact A1|congruence].
Qed.

Lemma handle_connack_N rc id s : Pre true s -> sock s = Some id -> incb s = false ->
  let s' := fst (handle_connack nested rc s) in Pre true s' /\ incb s' = false.
Proof.
  intros (HV & HS) Hs Hi. unfold handle_connack. cbn [fst]. fold (connack_state rc s).
  assert (F : sock (connack_state rc s) = sock s /\ incb (connack_state rc s) = incb s /\
              scr (connack_state rc s) = scr s /\ tr (connack_state rc s) = tr s).
  { unfold connack_state. destruct (rc =? 0); [destruct (cs s)|]; repeat split. }
  destruct F as (F1 & F2 & F3 & F5).
  assert (HP1 : Pre true (emit (CbConnect rc) (connack_state rc s))).
  { split; [|ssimpl; rewrite F3; exact HS].
    rewrite KS_emit, (KS_frame _ _ _ _ F5). apply V_frame with (s := connack_state rc s); try reflexivity.
    apply V_cb_connect; [exact HV|congruence]. }
  destruct (run_site_N SiConnect true (CbConnect rc) (connack_state rc s)) as (A1 & A2 & _);
    [intros _; congruence|discriminate|exact HP1|].
  split; [exact A1|congruence].
Qed.

Lemma connack_err_pos rc : connack_err rc > 0.
Proof. unfold connack_err, E_CONN_REFUSED, E_PROTOCOL. destruct ((0 <? rc) && (rc <? 6)); lia. Qed.

(* result codes of the write paths are never below -1; all that matters here: a non-negative or any code is
   handled by after_read the same way when rc <= 0 *)
Lemma after_read_any id0 rc s : Pre true s -> incb s = false ->
  let s' := fst (after_read c nested id0 (s, Some rc)) in Pre true s' /\ incb s' = false.
Proof.
  intros HP Hi. cbn [after_read]. destruct (rc >? 0) eqn:E; [|cbn [fst]; auto].
  destruct (sock s) as [id|] eqn:Es; [|cbn [fst]; auto]. destruct (id =? id0); [|cbn [fst]; auto].
  destruct (loop_rc_handle_N rc id s HP Es Hi ltac:(lia)) as (A1 & A2).
  destruct (loop_rc_handle c nested rc s). exact (conj A1 A2).
Qed.

Lemma downgrade_N id0 ok s : Pre true s -> incb s = false ->
  let s' := fst (after_read c nested id0 (downgrade c nested ok s)) in Pre true s' /\ incb s' = false.
Proof.
  intros HP Hi. unfold downgrade.
  destruct (reconnect_body_N ok (set_proto 3 s)) as (A1 & A2).
  { eapply Pre_frame; [| | | | | |exact HP]; reflexivity. }
  destruct (reconnect_body c nested ok (set_proto 3 s)) as [s1 [rc|]]; cbn [fst] in *;
    (apply after_read_any; [exact A1|ssimpl; congruence]).
Qed.

Lemma loop_read_N i s : Pre true s -> incb s = false ->
  let s' := fst (loop_read c nested i s) in Pre true s' /\ incb s' = false.
Proof.
  intros HP Hi. unfold loop_read. destruct (sock s) as [id|] eqn:Es; [|cbn [fst]; auto].
  assert (Hack : forall rc, let s' := fst (after_read c nested id (handle_connack nested rc s)) in Pre true s' /\ incb s' = false).
  { intros rc. destruct (handle_connack_N rc id s HP Es Hi) as (A1 & A2).
    unfold handle_connack in *. cbn [fst] in *. apply after_read_any; assumption. }
  destruct i; cbn [fst]; auto.
  - destruct ((proto s =? 4) && (rc =? 1)); [apply downgrade_N; assumption|apply Hack].
  - destruct (proto s =? 4); [apply downgrade_N; assumption|apply Hack].
  - destruct (proto s =? 5).
    + unfold handle_server_disconnect.
      destruct (lost_N RServerDisc rc true id s HP Es Hi eq_refl ltac:(discriminate)) as (A1 & A2).
      destruct (lost c nested RServerDisc rc true s). exact (conj A1 A2).
    + apply after_read_any; assumption.
  - apply after_read_any; assumption.
  - apply after_read_any; assumption.
  - apply after_read_any; assumption.
  - destruct (packet_queue_N KOther s) as (A1 & A2 & _).
    + destruct HP as (X1 & X2). split; [|exact X2].
      rewrite (KS_frame _ _ s (queued KOther s)) by reflexivity.
      unfold queued. apply V_append; [exact X1|reflexivity|discriminate].
    + destruct (packet_queue c nested KOther s) as [s1 rc]. cbn [fst snd] in *.
      apply after_read_any; [exact A1|congruence].
  - split; [|exact Hi]. eapply Pre_frame; [| | | | | |exact HP]; reflexivity.
Qed.

Lemma loop_read_n_N : forall l s, Pre true s -> incb s = false ->
  let s' := fst (loop_read_n c nested l s) in Pre true s' /\ incb s' = false.
Proof.
  induction l as [|i r IH]; intros s HP Hi; cbn [loop_read_n]; [cbn [fst]; auto|].
  destruct (loop_read_N i s HP Hi) as (A1 & A2).
  destruct (read_continues c nested i s); [apply IH; assumption|auto].
Qed.

Lemma check_keepalive_N m s : Pre true s -> incb s = false ->
  let s' := check_keepalive c nested m s in Pre true s' /\ incb s' = false.
Proof.
  intros HP Hi. unfold check_keepalive. destruct m; auto.
  destruct (sock s) as [id|] eqn:Es; auto.
  destruct (is_connected s && negb (ping s)); [|apply keepalive_close_N with (id := id); assumption].
  destruct (packet_queue_N KPingreq s) as (A1 & A2 & _).
  - destruct HP as (X1 & X2). split; [|exact X2].
    rewrite (KS_frame _ _ s (queued KPingreq s)) by reflexivity.
    unfold queued. apply V_append; [exact X1|reflexivity|discriminate].
  - destruct (packet_queue c nested KPingreq s) as [s1 rc]. cbn [fst] in *.
    destruct (rc =? 0); [|split; [exact A1|congruence]].
    split; [|ssimpl; congruence]. eapply Pre_frame; [| | | | | |exact A1]; reflexivity.
Qed.

Lemma loop_misc_N m s : Pre true s -> incb s = false ->
  let s' := fst (loop_misc c nested m s) in Pre true s' /\ incb s' = false.
Proof.
  intros HP Hi. unfold loop_misc. destruct (sock s); [|cbn [fst]; auto].
  destruct (check_keepalive_N m s HP Hi) as (A1 & A2).
  destruct (sock (check_keepalive c nested m s)) as [id|] eqn:Es; [|cbn [fst]; auto].
  destruct m; cbn [fst]; auto.
  destruct (ping (check_keepalive c nested MPingDue s)); cbn [fst]; auto.
  apply keepalive_close_N with (id := id); assumption.
Qed.

End C10.

(* ---- nesting depth ---- *)
Lemma nested_at_N c k0 : forall d sc s, NWs c s -> Pre k0 true s ->
  Pre k0 true (nested_at c d sc s) /\ incb (nested_at c d sc s) = incb s /\ Rel s (nested_at c d sc s) /\
  SockRel s (nested_at c d sc s).
Proof.
  induction d as [|d IH]; intros sc s Hnw HP; cbn [nested_at].
  - split; [apply Pre_emit; [reflexivity|exact HP]|]. split; [reflexivity|].
    split; [intros X; left; split; [exact X|reflexivity]|]. split; [ssimpl; lia|]. intros x X. left. exact X.
  - apply exec_script_N; try assumption.
    + intros sc' s' A B D. apply nested_at_quiet; assumption.
    + intros sc' s' A B. apply nested_at_teardown_ps; assumption.
Qed.

Lemma nested_at_C c k0 d sc s id : NWs c s -> Vc id s (KS k10_ev k0 s) -> scr_ok (scr s) = true ->
  Cpost k0 id s (nested_at c d sc s).
Proof.
  destruct d as [|d]; intros Hnw HV HS; cbn [nested_at].
  - split; [reflexivity|]. split; [exact HS|left]. rewrite KS_emit, (k10_inert _ Fuel) by reflexivity.
    dVc HV. constructor; assumption.
  - apply exec_script_C; try assumption.
    + apply nested_at_N.
    + intros sc' s' A B D. apply nested_at_quiet; assumption.
    + intros sc' s' A B. apply nested_at_teardown_ps; assumption.
Qed.

Section Top.
Variable c : cfg.
Variable k0 : k10.
Variable d : nat.
Notation nst := (nested_at c d).
Let Hn := nested_at_N c k0 d.
Let Hq := fun sc s (A : NW c s) B D => nested_at_quiet c d sc s A B D.
Let Ht := fun sc s A B => nested_at_teardown_ps c d sc s A B.
Let Hc := fun sc s id A B D => nested_at_C c k0 d sc s id A B D.

Lemma run_top_N t s : Pre k0 true s -> incb s = false ->
  let s' := run_top c nst t s in Pre k0 true s' /\ incb s' = false.
Proof.
  intros HP Hi. destruct t as [ok|ok| | | |i| |m|l]; cbn [run_top].
  - destruct (api_connect_N c k0 nst Hn Hq Ht Hc ok s HP) as (A1 & A2).
    destruct (api_connect c nst ok s) as [s1 [rc|]]; cbn [ret_of fst] in *; (split; [|ssimpl; congruence]);
      [apply Pre_emit; [reflexivity|exact A1]|exact A1].
  - assert (HP1 : Pre k0 true (emit (Call CReconnect) s)) by (apply Pre_emit; [reflexivity|exact HP]).
    destruct (reconnect_body_N c k0 nst Hn Hq Ht Hc ok _ HP1) as (A1 & A2). unfold api_reconnect.
    destruct (reconnect_body c nst ok (emit (Call CReconnect) s)) as [s1 [rc|]]; cbn [ret_of fst] in *; (split; [|ssimpl; congruence]);
      [apply Pre_emit; [reflexivity|exact A1]|exact A1].
  - destruct (api_disconnect_N c k0 nst Hn Hq Ht Hc s HP) as (A1 & A2).
    destruct (api_disconnect c nst s) as [s1 rc]. cbn [fst] in *. split; [|ssimpl; congruence].
    apply Pre_emit; [reflexivity|exact A1].
  - destruct (api_send_N c k0 nst Hn Hq Ht Hc CPublish KPublish0 s HP eq_refl eq_refl eq_refl) as (A1 & A2).
    destruct (api_send c nst CPublish KPublish0 s) as [s1 rc]. cbn [fst] in *. split; [|ssimpl; congruence].
    apply Pre_emit; [reflexivity|exact A1].
  - destruct (api_send_N c k0 nst Hn Hq Ht Hc CSubscribe KSubscribe s HP eq_refl eq_refl eq_refl) as (A1 & A2).
    destruct (api_send c nst CSubscribe KSubscribe s) as [s1 rc]. cbn [fst] in *. split; [|ssimpl; congruence].
    apply Pre_emit; [reflexivity|exact A1].
  - destruct (loop_read_N c k0 nst Hn Hq Ht Hc i (emit (Call CLoopRead) s)) as (A1 & A2);
      [apply Pre_emit; [reflexivity|exact HP]|exact Hi|].
    destruct (loop_read c nst i (emit (Call CLoopRead) s)) as [s1 [rc|]]; cbn [ret_of fst] in *; (split; [|ssimpl; congruence]);
      [apply Pre_emit; [reflexivity|exact A1]|exact A1].
  - destruct (loop_write_N c k0 nst Hn Hq Ht Hc (emit (Call CLoopWrite) s)) as (A1 & A2);
      [apply Pre_emit; [reflexivity|exact HP]|exact Hi|].
    destruct (loop_write c nst (emit (Call CLoopWrite) s)) as [s1 rc]. cbn [fst] in *. split; [|ssimpl; congruence].
    apply Pre_emit; [reflexivity|exact A1].
  - destruct (loop_misc_N c k0 nst Hn Hq Ht Hc m (emit (Call CLoopMisc) s)) as (A1 & A2);
      [apply Pre_emit; [reflexivity|exact HP]|exact Hi|].
    destruct (loop_misc c nst m (emit (Call CLoopMisc) s)) as [s1 rc]. cbn [fst] in *. split; [|ssimpl; congruence].
    apply Pre_emit; [reflexivity|exact A1].
  - destruct (loop_read_n_N c k0 nst Hn Hq Ht Hc l (emit (Call CLoopRead) s)) as (A1 & A2);
      [apply Pre_emit; [reflexivity|exact HP]|exact Hi|].
    destruct (loop_read_n c nst l (emit (Call CLoopRead) s)) as [s1 [rc|]]; cbn [ret_of fst] in *; (split; [|ssimpl; congruence]);
      [apply Pre_emit; [reflexivity|exact A1]|exact A1].
Qed.
End Top.

(* ---- one operation ---- *)
Definition Top10 (s : st) (k : k10) : Prop := V true s k /\ incb s = false.

Lemma Top10_ok s k : Top10 s k -> k10_okb k = true.
Proof. intros [HV _]. dV HV. unfold k10_okb. rewrite ok1, ok2, ok3. reflexivity. Qed.

Lemma scr_ok_of c o : c10_hyp c o = true -> scr_ok (o_scr o) = true.
Proof.
  unfold c10_hyp, excl_D, excl_R, scr_ok. intros H. apply andb_true_iff in H as [A C0].
  apply andb_true_iff in C0 as [C0 C3]. apply andb_true_iff in C0 as [C1 C2].
  rewrite A, C1, C2, C3. reflexivity.
Qed.

Lemma Top10_step c s k o : Top10 s k -> c10_hyp c o = true ->
  Top10 (fst (step c s o)) (k10_fin (fold_left k10_ev (snd (step c s o)) k)).
Proof.
  intros [HV Hi] Hh. unfold step.
  set (s0 := set_incb false (set_sched (o_sched o) (set_scr (o_scr o)
               (mkSt (cs s) (sock s) (regw s) (outq s) (ping s) (incb s) (cq s) (proto s) (nsock s) (sched s) (scr s) [])))).
  assert (HP0 : Pre k true s0).
  { split.
    - unfold KS, s0. cbn. apply V_frame with (s := s); try reflexivity. exact HV.
    - apply (scr_ok_of c). exact Hh. }
  destruct (run_top_N c k (nscripts (o_scr o)) (o_call o) s0 HP0 eq_refl) as (A1 & A2).
  set (s1 := run_top c (nested_at c (nscripts (o_scr o))) (o_call o) s0) in *.
  cbn [fst snd]. rewrite fold_left_rev_KS.
  destruct A1 as (V1 & _).
  split; [|ssimpl; exact A2].
  unfold obs. rewrite KS_emit.
  pose proof (V_obs true WEnd s1 (KS k10_ev k s1) (want_write s1) (regw s1) V1) as V2.
  apply V_frame with (s := s1); try reflexivity.
  dV V2. unfold k10_fin. constructor; cbn [b1 b2 b3 k2_fin k2_ok k2_cur k2_disc k2_owed k2_credit]; try assumption.
  rewrite ok2, owed, credit. reflexivity.
Qed.

Lemma Top10_init c : Top10 (init c) k10_init.
Proof. split; [|reflexivity]. apply V_nosock; try reflexivity. intros X; discriminate X. Qed.

Lemma c10_all c ops : c10_ops_ok c ops = true ->
  k10_okb (run_checker k10_ev k10_fin k10_init (optrace c ops)) = true.
Proof.
  intros Hops. unfold optrace.
  apply run_checker_inv with (hyp := fun _ o => c10_hyp c o) (Top := Top10).
  - apply Top10_ok.
  - intros s k o HT Hh. apply Top10_step; assumption.
  - apply Top10_init.
  - apply hyp_from_static. exact Hops.
Qed.

Theorem c10_connected_proved : C10_connected_partial.
Proof.
  intros c ops _ Hops. pose proof (c10_all c ops Hops) as H. rewrite k10_run in H.
  unfold k10_okb in H. cbn [b1 b2 b3] in H. apply andb_true_iff in H as [H _]. apply andb_true_iff in H as [H _].
  exact H.
Qed.

Theorem c10_one_disconnect_proved : C10_one_disconnect_partial.
Proof.
  intros c ops _ Hops. pose proof (c10_all c ops Hops) as H. rewrite k10_run in H.
  unfold k10_okb in H. cbn [b1 b2 b3] in H. apply andb_true_iff in H as [H _]. apply andb_true_iff in H as [_ H].
  exact H.
Qed.

Theorem c10_wire_proved : C10_wire_partial.
Proof.
  intros c ops _ Hops. pose proof (c10_all c ops Hops) as H. rewrite k10_run in H.
  unfold k10_okb in H. cbn [b1 b2 b3] in H. apply andb_true_iff in H as [_ H].
  exact H.
Qed.

Print Assumptions c10_connected_proved.
Print Assumptions c10_one_disconnect_proved.
Print Assumptions c10_wire_proved.
