(* C08: proofs about Link/Keepalive.v.  Every theorem is a timed invariant over the run, closed by lia. *)
From PahoV Require Import Base.Prelude Link.Keepalive.

(* ------------------------------------------------------------------ generic machinery *)

(* a guard threads a hypothesis on the op list through the run (service gaps, no EOF) *)
Fixpoint guarded {A} (g : A -> op -> option A) (a : A) (ops : list op) : bool :=
  match ops with
  | [] => true
  | o :: r => match g a o with Some a' => guarded g a' r | None => false end
  end.

Definition sw_op (d acc : Z) (o : op) : option Z :=
  match o with
  | Tick dt => if acc + Z.max 0 dt <=? d then Some (acc + Z.max 0 dt) else None
  | Service => Some 0
  | _ => Some acc
  end.

Lemma sw_guarded d : forall ops acc, sw d acc ops = guarded (sw_op d) acc ops.
Proof.
  induction ops as [|o r IH]; intros acc; [reflexivity|].
  destruct o; cbn [sw guarded sw_op]; try apply IH.
  destruct (acc + Z.max 0 dt <=? d); cbn [andb]; [apply IH | reflexivity].
Qed.

Definition sw_noeof_op (d acc : Z) (o : op) : option Z :=
  match o with Rx InEof => None | _ => sw_op d acc o end.

Lemma sw_noeof_guarded d : forall ops acc,
  sw d acc ops && no_eof ops = guarded (sw_noeof_op d) acc ops.
Proof.
  induction ops as [|o r IH]; intros acc; [reflexivity|].
  destruct o as [dt| | |p|]; cbn [sw no_eof guarded sw_noeof_op sw_op]; try apply IH.
  - destruct (acc + Z.max 0 dt <=? d); cbn [andb]; [apply IH | reflexivity].
  - destruct p; try apply IH. apply andb_false_r.
Qed.

Definition free_op (a : unit) (o : op) : option unit := Some tt.
Lemma free_guarded : forall ops, guarded free_op tt ops = true.
Proof. induction ops; [reflexivity|]. cbn [guarded free_op]. assumption. Qed.

Lemma run_from_cons s tr op r :
  run_from s tr (op :: r) =
  run_from (fst (step s op)) (tr ++ stamp (now (fst (step s op))) (snd (step s op))) r.
Proof.
  unfold run_from. cbn [fold_left]. f_equal. unfold step_tr. destruct (step s op). reflexivity.
Qed.

Ltac destr_st s :=
  let nw := fresh "nw" in let k := fresh "k" in let li := fresh "li" in let lo := fresh "lo" in
  let pt := fresh "pt" in let cs := fresh "cs" in let sk := fresh "sk" in let q := fresh "q" in
  destruct s as [nw k li lo pt cs sk q];
  cbn [now kk last_in last_out ping_t cstate sock inq] in *.

Ltac proj := cbn [now kk last_in last_out ping_t cstate sock inq fst snd] in *.

Lemma read_phase_now s : now (fst (read_phase s)) = now s.
Proof. destr_st s. unfold read_phase. proj. destruct q as [|[] r]; reflexivity. Qed.

Lemma loop_misc_now s : now (fst (loop_misc s)) = now s.
Proof.
  destr_st s. unfold loop_misc, check_keepalive, close_with. proj.
  repeat (case_if; proj; try reflexivity).
Qed.

Section Phases.
  Context {A O : Type}.
  Variable g : A -> op -> option A.
  Variable ostep : O -> event -> O.
  Variable I : st -> O -> A -> Prop.
  Definition obs (t : Z) (evs : list evk) (o : O) : O := fold_left ostep (stamp t evs) o.

  Lemma obs_app t e1 e2 o : obs t (e1 ++ e2) o = obs t e2 (obs t e1 o).
  Proof. unfold obs, stamp. rewrite map_app, fold_left_app. reflexivity. Qed.

  Hypothesis H_tick : forall s o a dt a', I s o a -> g a (Tick dt) = Some a' ->
    I (fst (step s (Tick dt))) (obs (now s + Z.max 0 dt) [Ticked (Z.max 0 dt)] o) a'.
  Hypothesis H_app : forall s o a a', I s o a -> g a AppSend = Some a' ->
    I s (obs (now s) (if sock s then [TxOther] else []) o) a'.
  Hypothesis H_rx : forall s o a p a', I s o a -> g a (Rx p) = Some a' ->
    I (fst (step s (Rx p))) (obs (now s) (if sock s then [Arr p] else []) o) a'.
  Hypothesis H_reconn : forall s o a a', I s o a -> g a Reconnect = Some a' ->
    I (fst (step s Reconnect)) (obs (now s) ((if sock s then [Closed RC_RECONNECT] else []) ++ [TxConnect]) o) a'.
  Hypothesis H_dead : forall s o a a', I s o a -> g a Service = Some a' -> sock s = false ->
    I s (obs (now s) [LoopRc RC_CONN_LOST] o) a'.
  Hypothesis H_read : forall s o a, I s o a -> sock s = true ->
    I (fst (read_phase s)) (obs (now s) (snd (read_phase s)) o) a.
  Hypothesis H_misc : forall s o a a', I s o a -> g a Service = Some a' -> sock s = true ->
    I (fst (loop_misc s)) (obs (now s) (snd (loop_misc s)) o) a'.

  Lemma phase_step : forall s o a op a', I s o a -> g a op = Some a' ->
    I (fst (step s op)) (fold_left ostep (stamp (now (fst (step s op))) (snd (step s op))) o) a'.
  Proof.
    intros s o a op a' HI Hg. destruct op as [dt| | |p|].
    5:{ pose proof (H_reconn s o a a' HI Hg) as H. cbn [step fst snd now] in *. exact H. }
    - pose proof (H_tick s o a dt a' HI Hg) as H. cbn [step fst snd now] in *. exact H.
    - cbn [step]. unfold service.
      destruct (sock s) eqn:Es; cbn [negb].
      + pose proof (H_read s o a HI Es) as Hr. pose proof (read_phase_now s) as Hn.
        destruct (read_phase s) as [s1 e1]. cbn [fst snd] in *.
        destruct (sock s1) eqn:Es1; cbn [negb].
        * pose proof (H_misc s1 _ a a' Hr Hg Es1) as Hm. pose proof (loop_misc_now s1) as Hn2.
          destruct (loop_misc s1) as [s2 e2]. cbn [fst snd] in *.
          rewrite Hn2, Hn. fold (obs (now s) (e1 ++ e2) o). rewrite obs_app. rewrite Hn in Hm. exact Hm.
        * cbn [fst snd]. rewrite Hn. fold (obs (now s) (e1 ++ [LoopRc RC_CONN_LOST]) o). rewrite obs_app.
          pose proof (H_dead s1 _ a a' Hr Hg Es1) as Hd. rewrite Hn in Hd. exact Hd.
      + cbn [fst snd]. apply (H_dead s o a a' HI Hg Es).
    - pose proof (H_app s o a a' HI Hg) as H. cbn [step]. destruct (sock s); exact H.
    - pose proof (H_rx s o a p a' HI Hg) as H. cbn [step] in *.
      destruct (sock s); cbn [fst snd now] in *; exact H.
  Qed.

  Lemma run_from_inv : forall ops s tr o0 a,
    I s (fold_left ostep tr o0) a -> guarded g a ops = true ->
    exists a', I (fst (run_from s tr ops)) (fold_left ostep (snd (run_from s tr ops)) o0) a'.
  Proof.
    induction ops as [|op r IH]; intros s tr o0 a HI Hg.
    - exists a. exact HI.
    - cbn [guarded] in Hg. destruct (g a op) as [a'|] eqn:Ega; [|discriminate].
      rewrite run_from_cons.
      apply (IH _ _ o0 a'); [|exact Hg].
      rewrite fold_left_app. apply (phase_step s (fold_left ostep tr o0) a op a' HI Ega).
  Qed.
End Phases.

Ltac unfold_misc :=
  unfold loop_misc, check_keepalive, close_with, ka_due, ka_may_ping, ka_ping_expired, is_connected,
    RC_KEEPALIVE, RC_CONN_LOST, RC_NO_CONN, RC_SUCCESS in *.

Ltac branch :=
  repeat match goal with
  | |- context [if ?b then _ else _] => destruct b eqn:?
  | |- context [match ?x with CsConnecting => _ | _ => _ end] => destruct x eqn:?
  end.

(* ------------------------------------------------------------------ C08.1 pings *)

Definition I_pings (K d : Z) (s : st) (ltx : Z) (acc : Z) : Prop :=
  kk s = K /\ 0 <= acc <= d /\ last_out s <= now s /\ ltx <= now s /\
  (sock s = true -> last_out s <= ltx /\ now s - last_out s < K + acc).

Ltac fin_pings :=
  unfold I_pings, obs; cbn [stamp map fold_left ltx_step fst snd now kk last_in last_out ping_t cstate sock inq] in *;
  repeat split; try lia;
  try (let H := fresh in intros H; try discriminate; lia).

Lemma pings_strict : forall K d t0 ops, 0 < K -> 0 <= d ->
  serviced_within d ops = true ->
  let (s, tr) := run t0 K ops in
  sock s = true -> now s - last_tx t0 tr < K + d.
Proof.
  intros K d t0 ops HK Hd Hsw.
  unfold serviced_within in Hsw. rewrite sw_guarded in Hsw.
  destruct (run t0 K ops) as [s tr] eqn:Er. intros Hsk.
  pose proof (run_from_inv (sw_op d) ltx_step (I_pings K d)) as H.
  specialize (fun a b c r d0 e f => H a b c r d0 e f ops (init t0 K) [(t0, TxConnect)] t0 0).
  unfold run in Er. rewrite Er in H. cbn [fst snd] in H.
  destruct H as (a' & Hk & Ha & Hlo & Hlt & Hs); try exact Hsw.
  - (* tick *) intros s0 o a dt a' (Hk & Ha & Hlo & Hlt & Hs) Hg. cbn [sw_op] in Hg.
    destruct (a + Z.max 0 dt <=? d) eqn:E; [|discriminate]. inv Hg.
    destr_st s0. cbn [step]. destruct sk; try specialize (Hs eq_refl); fin_pings.
  - (* app *) intros s0 o a a' (Hk & Ha & Hlo & Hlt & Hs) Hg. inv Hg.
    destr_st s0. destruct sk; try specialize (Hs eq_refl); fin_pings.
  - (* rx *) intros s0 o a p a' (Hk & Ha & Hlo & Hlt & Hs) Hg. cbn [sw_op] in Hg. inv Hg.
    destr_st s0. cbn [step]. proj. destruct sk; try specialize (Hs eq_refl); fin_pings.
  - (* reconnect *) intros s0 o a a' (Hk & Ha & Hlo & Hlt & Hs) Hg. inv Hg.
    destr_st s0. cbn [step]. proj. destruct sk; try specialize (Hs eq_refl); cbn [app]; fin_pings.
  - (* dead *) intros s0 o a a' (Hk & Ha & Hlo & Hlt & Hs) Hg Hsk0. inv Hg.
    destr_st s0. subst sk. fin_pings.
  - (* read *) intros s0 o a (Hk & Ha & Hlo & Hlt & Hs) Hsk0.
    destr_st s0. subst sk. specialize (Hs eq_refl). unfold read_phase, read_one, close_with. proj.
    destruct q as [|[] r]; fin_pings.
  - (* misc *) intros s0 o a a' (Hk & Ha & Hlo & Hlt & Hs) Hg Hsk0. inv Hg.
    destr_st s0. subst sk. specialize (Hs eq_refl). unfold_misc. proj.
    branch; proj; cbn [app negb andb] in *; try discriminate; fin_pings.
  - (* init *) unfold I_pings, init. cbn. repeat split; try lia.
  - unfold last_tx. specialize (Hs Hsk). lia.
Qed.

Lemma pings : forall K d t0 ops, 0 < K -> 0 <= d ->
  serviced_within d ops = true ->
  let (s, tr) := run t0 K ops in
  sock s = true -> now s - last_tx t0 tr <= K + d.
Proof.
  intros K d t0 ops HK Hd Hsw. pose proof (pings_strict K d t0 ops HK Hd Hsw) as H.
  destruct (run t0 K ops) as [s tr]. intros Hs. specialize (H Hs). lia.
Qed.

(* ------------------------------------------------------------------ counting observers *)

Definition cnt_step (f : evk -> bool) (n : nat) (e : event) : nat := if f (snd e) then S n else n.

Lemma cnt_fold f : forall tr n, fold_left (cnt_step f) tr n = (n + count_k f tr)%nat.
Proof.
  induction tr as [|e r IH]; intros n; unfold count_k in *; cbn [fold_left filter length].
  - lia.
  - rewrite IH. unfold cnt_step. destruct (f (snd e)); cbn [length]; lia.
Qed.

Lemma count_k_fold f tr : count_k f tr = fold_left (cnt_step f) tr 0%nat.
Proof. rewrite cnt_fold. reflexivity. Qed.

Lemma count_k_mono f g tr : (forall k, f k = true -> g k = true) -> (count_k f tr <= count_k g tr)%nat.
Proof.
  intros H. unfold count_k. induction tr as [|e r IH]; cbn [filter length]; [lia|].
  destruct (f (snd e)) eqn:Ef.
  - rewrite (H _ Ef). cbn [length]. lia.
  - destruct (g (snd e)); cbn [length]; lia.
Qed.

(* ------------------------------------------------------------------ C08.4 keepalive 0 *)

Definition ka_event (k : evk) : bool := is_txping k || is_own_close k || is_cb_keepalive k.

Definition I_zero (s : st) (n : nat) (a : unit) : Prop := kk s = 0 /\ ping_t s = 0 /\ n = 0%nat.

(* comparisons between return-code literals *)
Ltac zconst :=
  unfold RC_KEEPALIVE, RC_CONN_LOST, RC_NO_CONN, RC_SUCCESS, RC_RECONNECT in *;
  change (-1 =? 16) with false in *; change (-1 =? 0) with false in *;
  change (7 =? 16) with false in *; change (16 =? 16) with true in *;
  change (7 =? 0) with false in *; change (4 =? 0) with false in *; change (0 =? 0) with true in *.

Ltac fin_zero :=
  unfold I_zero, obs; zconst;
  cbn [stamp map fold_left]; unfold cnt_step, ka_event;
  cbn [stamp map fold_left cnt_step ka_event is_txping is_own_close is_cb_keepalive orb
       fst snd now kk last_in last_out ping_t cstate sock inq] in *;
  zconst;
  cbn [stamp map fold_left cnt_step ka_event is_txping is_own_close is_cb_keepalive orb
       fst snd now kk last_in last_out ping_t cstate sock inq] in *;
  repeat split; try lia; try reflexivity.

Lemma zero_all : forall t0 ops, count_k ka_event (snd (run t0 0 ops)) = 0%nat.
Proof.
  intros t0 ops. rewrite count_k_fold.
  pose proof (run_from_inv free_op (cnt_step ka_event) I_zero) as H.
  specialize (fun a b c r d0 e f => H a b c r d0 e f ops (init t0 0) [(t0, TxConnect)] 0%nat tt).
  unfold run. destruct H as (a' & Hk & Hp & Hn); try apply free_guarded; try exact Hn.
  - intros s0 o a dt a' (Hk & Hp & Hn) _. destr_st s0. cbn [step]. fin_zero.
  - intros s0 o a a' (Hk & Hp & Hn) _. destr_st s0. destruct sk; fin_zero.
  - intros s0 o a p a' (Hk & Hp & Hn) _. destr_st s0. cbn [step]. proj. destruct sk; fin_zero.
  - intros s0 o a a' (Hk & Hp & Hn) _. destr_st s0. cbn [step]. proj. destruct sk; cbn [app]; fin_zero.
  - intros s0 o a a' (Hk & Hp & Hn) _ Hsk0. destr_st s0. fin_zero.
  - intros s0 o a (Hk & Hp & Hn) Hsk0. destr_st s0. unfold read_phase, read_one, close_with. proj.
    destruct q as [|[] r]; unfold RC_CONN_LOST, RC_KEEPALIVE; fin_zero.
  - intros s0 o a a' (Hk & Hp & Hn) _ Hsk0. destr_st s0. subst. unfold_misc. proj.
    cbn [Z.eqb Z.gtb Z.compare andb negb app]. fin_zero.
  - unfold I_zero, init. cbn. auto.
Qed.

Lemma zero : forall t0 ops,
  let tr := snd (run t0 0 ops) in
  count_k is_txping tr = 0%nat /\ count_k is_own_close tr = 0%nat /\ count_k is_cb_keepalive tr = 0%nat.
Proof.
  intros t0 ops tr. pose proof (zero_all t0 ops) as H. fold tr in H.
  pose proof (count_k_mono is_txping ka_event tr) as H1.
  pose proof (count_k_mono is_own_close ka_event tr) as H2.
  pose proof (count_k_mono is_cb_keepalive ka_event tr) as H3.
  unfold ka_event in *.
  repeat split.
  - assert (count_k is_txping tr <= count_k ka_event tr)%nat by (apply H1; intros k E; rewrite E; reflexivity). unfold ka_event in *. lia.
  - assert (count_k is_own_close tr <= count_k ka_event tr)%nat by (apply H2; intros k E; rewrite E; apply orb_true_iff; left; apply orb_true_r). unfold ka_event in *. lia.
  - assert (count_k is_cb_keepalive tr <= count_k ka_event tr)%nat by (apply H3; intros k E; rewrite E; apply orb_true_r). unfold ka_event in *. lia.
Qed.

(* ------------------------------------------------------------------ C08.3 core: every keepalive close is justified *)

Definition I_core (K : Z) (s : st) (m : jmon) (a : unit) : Prop :=
  kk s = K /\ 0 < now s /\ jm_ok m = true /\ last_out s <= last_in s /\ last_in s <= now s /\ 0 <= ping_t s /\
  (sock s = true ->
     cstate s <> CsLost /\
     (cstate s = CsConnecting -> ping_t s = 0 /\ jm_conn m = Some (last_out s)) /\
     (cstate s = CsConnected -> ping_t s <> 0 -> jm_ping m = Some (ping_t s) /\ last_out s = ping_t s)).

Ltac fin_core :=
  unfold I_core, obs; zconst;
  cbn [stamp map fold_left]; unfold jmon_step;
  cbn [stamp map fold_left jm_conn jm_ping jm_ok fst snd now kk last_in last_out ping_t cstate sock inq] in *;
  zconst;
  cbn [stamp map fold_left jm_conn jm_ping jm_ok aged andb orb fst snd now kk last_in last_out ping_t cstate sock inq] in *;
  repeat split; try lia; try congruence; try discriminate;
  try (intros; repeat split; try lia; try congruence; try discriminate);
  try (subst; cbn [andb]; apply orb_true_iff; right; lia);
  try (subst; cbn [andb]; apply orb_true_iff; left; lia).

Lemma core_justified : forall K t0 ops, 0 < K -> 0 < t0 ->
  closes_justified K (snd (run t0 K ops)) = true.
Proof.
  intros K t0 ops HK Ht0. unfold closes_justified.
  pose proof (run_from_inv free_op (jmon_step K) (I_core K)) as H.
  specialize (fun a b c r d0 e f => H a b c r d0 e f ops (init t0 K) [(t0, TxConnect)] (mkjmon None None true) tt).
  unfold run. destruct H as (a' & Hk & Hn & Hok & _); try apply free_guarded; try exact Hok.
  - intros s0 [jc jp jok] a dt a' (Hk & Hn & Hok & Hio & Hin & Hp & Hs) _.
    destr_st s0. cbn [step]. cbn [jm_ok jm_conn jm_ping] in *. fin_core; apply Hs; assumption.
  - intros s0 [jc jp jok] a a' (Hk & Hn & Hok & Hio & Hin & Hp & Hs) _.
    destr_st s0. cbn [jm_ok jm_conn jm_ping] in *. destruct sk; fin_core; apply Hs; assumption.
  - intros s0 [jc jp jok] a p a' (Hk & Hn & Hok & Hio & Hin & Hp & Hs) _.
    destr_st s0. cbn [step]. proj. cbn [jm_ok jm_conn jm_ping] in *. destruct sk; fin_core; apply Hs; assumption.
  - intros s0 [jc jp jok] a a' (Hk & Hn & Hok & Hio & Hin & Hp & Hs) _.
    destr_st s0. cbn [step]. proj. cbn [jm_ok jm_conn jm_ping] in *.
    destruct sk; cbn [app]; fin_core.
  - intros s0 [jc jp jok] a a' (Hk & Hn & Hok & Hio & Hin & Hp & Hs) _ Hsk0.
    destr_st s0. cbn [jm_ok jm_conn jm_ping] in *. subst sk. fin_core.
  - intros s0 [jc jp jok] a (Hk & Hn & Hok & Hio & Hin & Hp & Hs) Hsk0.
    destr_st s0. cbn [jm_ok jm_conn jm_ping] in *. subst sk. specialize (Hs eq_refl). destruct Hs as (Hl & Hc & Hg).
    unfold read_phase, read_one, close_with. proj.
    destruct cs; [destruct (Hc eq_refl) as (Hp0 & Hjc); subst | pose proof (Hg eq_refl) as Hg' | congruence];
      destruct q as [|[] r]; fin_core; try (apply Hg'; assumption).
  - intros s0 [jc jp jok] a a' (Hk & Hn & Hok & Hio & Hin & Hp & Hs) _ Hsk0.
    destr_st s0. cbn [jm_ok jm_conn jm_ping] in *. subst sk. specialize (Hs eq_refl). destruct Hs as (Hl & Hc & Hg).
    unfold_misc. proj.
    destruct cs; [destruct (Hc eq_refl) as (Hp0 & Hjc); subst | pose proof (Hg eq_refl) as Hg' | congruence];
      branch; proj; cbn [app negb andb] in *; try discriminate;
      try (destruct (Hg' ltac:(lia)) as (Hjp & Hlo); subst jp lo);
      fin_core; try (apply Hg'; assumption).
  - unfold I_core, init. cbn. repeat split; try lia; try congruence; try discriminate.
Qed.

(* ------------------------------------------------------------------ the three outcomes of loop_misc, K > 0 *)

Definition pinged (s : st) : st := mkst (now s) (kk s) (now s) (now s) (now s) (cstate s) (sock s) (inq s).
Definition closed (s : st) : st := mkst (now s) (kk s) (last_in s) (last_out s) (ping_t s) CsLost false [].

Lemma loop_misc_cases s : sock s = true -> 0 < kk s ->
  (loop_misc s = (s, [LoopRc RC_SUCCESS]) /\
     now s - last_out s < kk s /\ now s - last_in s < kk s /\ (0 < ping_t s -> now s - ping_t s < kk s))
  \/ (loop_misc s = (pinged s, [TxPing; LoopRc RC_SUCCESS]) /\
     cstate s = CsConnected /\ ping_t s = 0 /\ (kk s <= now s - last_out s \/ kk s <= now s - last_in s))
  \/ (loop_misc s = (closed s, [Closed RC_KEEPALIVE; CbDisconnect RC_KEEPALIVE; LoopRc RC_CONN_LOST]) /\
     (((kk s <= now s - last_out s \/ kk s <= now s - last_in s) /\ (cstate s <> CsConnected \/ ping_t s <> 0))
      \/ (0 < ping_t s /\ kk s <= now s - ping_t s))).
Proof.
  intros Hs HK. destr_st s. subst sk. unfold pinged, closed. unfold_misc. proj.
  destruct (k =? 0) eqn:Ek; [lia|].
  cbn [negb andb].
  destruct ((nw - lo >=? k) || (nw - li >=? k)) eqn:Edue.
  - destruct cs; cbn [andb].
    + right; right. proj. cbn [negb app]. split; [reflexivity|]. left. split; [lia|left; congruence].
    + destruct (pt =? 0) eqn:Ept; proj; cbn [negb].
      * right; left. assert (((nw >? 0) && (nw - nw >=? k)) = false) as -> by lia.
        cbn [app]. repeat split; try lia.
      * right; right. cbn [app]. split; [reflexivity|]. left. split; lia.
    + right; right. proj. cbn [negb app]. split; [reflexivity|]. left. split; [lia|left; congruence].
  - proj. cbn [negb].
    destruct ((pt >? 0) && (nw - pt >=? k)) eqn:Eexp.
    + right; right. cbn [app]. split; [reflexivity|]. right. lia.
    + left. cbn [app]. repeat split; try lia.
Qed.

Lemma read_phase_cases s :
  (inq s = [] /\ read_phase s = (s, []))
  \/ (exists r, inq s = InEof :: r /\ read_phase s = (closed s, [Rd InEof; Closed RC_CONN_LOST; CbDisconnect RC_CONN_LOST]))
  \/ (exists r, inq s = InPingresp :: r /\
        read_phase s = (mkst (now s) (kk s) (now s) (last_out s) 0 (cstate s) (sock s) r, [Rd InPingresp]))
  \/ (exists r, inq s = InConnack :: r /\
        read_phase s = (mkst (now s) (kk s) (now s) (last_out s) (ping_t s) CsConnected (sock s) r, [Rd InConnack]))
  \/ (exists r, inq s = InOther :: r /\
        read_phase s = (mkst (now s) (kk s) (now s) (last_out s) (ping_t s) (cstate s) (sock s) r, [Rd InOther])).
Proof.
  destr_st s. unfold read_phase, read_one, close_with, closed. proj.
  destruct q as [|[] r]; eauto 8.
Qed.

(* ------------------------------------------------------------------ basic state facts, shared by the invariants below *)

Definition Ibase (K : Z) (s : st) : Prop :=
  kk s = K /\ 0 < now s /\ last_out s <= last_in s /\ last_in s <= now s /\ 0 <= ping_t s /\
  (ping_t s <> 0 -> last_out s = ping_t s) /\
  (sock s = true -> cstate s <> CsLost /\ (ping_t s <> 0 -> cstate s = CsConnected)) /\
  (sock s = false -> cstate s = CsLost).

Lemma Ibase_init K t0 : 0 < t0 -> Ibase K (init t0 K).
Proof. intros H. unfold Ibase, init. proj. repeat split; try lia; try congruence; try discriminate. Qed.

Lemma Ibase_tick K s dt : Ibase K s -> Ibase K (fst (step s (Tick dt))).
Proof.
  intros (Hk & Hn & Hio & Hin & Hp & Hlo & Hs & Hf). destr_st s. cbn [step]. unfold Ibase. proj.
  repeat split; try lia; try (apply Hs; assumption); try (apply Hf; assumption); try (intros; apply Hlo; assumption).
Qed.

Lemma Ibase_rx K s p : Ibase K s -> Ibase K (fst (step s (Rx p))).
Proof.
  intros H. destr_st s. cbn [step]. proj. destruct sk; exact H.
Qed.

Lemma Ibase_reconn K s : Ibase K s -> Ibase K (fst (step s Reconnect)).
Proof.
  intros (Hk & Hn & Hio & Hin & Hp & Hlo & Hs & Hf). destr_st s. cbn [step]. unfold Ibase. proj.
  repeat split; try lia; try congruence; try discriminate.
Qed.

Lemma Ibase_read K s : Ibase K s -> sock s = true -> Ibase K (fst (read_phase s)).
Proof.
  intros (Hk & Hn & Hio & Hin & Hp & Hlo & Hs & Hf) Hsk. specialize (Hs Hsk). destruct Hs as (Hl & Hc).
  destruct (read_phase_cases s) as [(_ & E)|[(r & _ & E)|[(r & _ & E)|[(r & _ & E)|(r & _ & E)]]]];
    rewrite E; unfold Ibase, closed; proj; rewrite ?Hsk;
    repeat split; try lia; try congruence; try discriminate; try (intros; assumption);
    try (intros; apply Hc; assumption);
    try (intros Hne; specialize (Hlo Hne); lia).
Qed.

Lemma Ibase_misc K s : 0 < K -> Ibase K s -> sock s = true -> Ibase K (fst (loop_misc s)).
Proof.
  intros HK (Hk & Hn & Hio & Hin & Hp & Hlo & Hs & Hf) Hsk. specialize (Hs Hsk). destruct Hs as (Hl & Hc).
  destruct (loop_misc_cases s Hsk ltac:(lia)) as [(E & _)|[(E & Hcc & Hp0 & _)|(E & _)]];
    rewrite E; unfold Ibase, pinged, closed; proj; rewrite ?Hsk;
    repeat split; try lia; try congruence; try discriminate; try (intros; assumption); try exact Hc.
Qed.
