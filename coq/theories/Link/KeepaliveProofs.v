(* C08: proofs about Link/Keepalive.v.  Every theorem is a timed invariant over the run, closed by lia. *)
From PahoV Require Import Base.Prelude Link.Keepalive.

(* ------------------------------------------------------------------ generic machinery *)

(* a guard threads a hypothesis on the op list through the run (service gaps, no EOF) *)
Fixpoint guarded {A} (g : A -> op -> option A) (a : A) (ops : list op) : bool :=
  match ops with
  | [] => true
  | o :: r => match g a o with Some a' => guarded g a' r | None => false end
  end.

Definition sw_op (d acc : Z) (o : op) : option Z :=
  match o with
  | Tick dt => if acc + Z.max 0 dt <=? d then Some (acc + Z.max 0 dt) else None
  | Service => Some 0
  | _ => Some acc
  end.

Lemma sw_guarded d : forall ops acc, sw d acc ops = guarded (sw_op d) acc ops.
Proof.
  induction ops as [|o r IH]; intros acc; [reflexivity|].
  destruct o; cbn [sw guarded sw_op]; try apply IH.
  destruct (acc + Z.max 0 dt <=? d); cbn [andb]; [apply IH | reflexivity].
Qed.

Definition sw_noeof_op (d acc : Z) (o : op) : option Z :=
  match o with Rx InEof => None | _ => sw_op d acc o end.

Lemma sw_noeof_guarded d : forall ops acc,
  sw d acc ops && no_eof ops = guarded (sw_noeof_op d) acc ops.
Proof.
  induction ops as [|o r IH]; intros acc; [reflexivity|].
  destruct o as [dt| | |p]; cbn [sw no_eof guarded sw_noeof_op sw_op]; try apply IH.
  - destruct (acc + Z.max 0 dt <=? d); cbn [andb]; [apply IH | reflexivity].
  - destruct p; try apply IH. apply andb_false_r.
Qed.

Definition free_op (a : unit) (o : op) : option unit := Some tt.
Lemma free_guarded : forall ops, guarded free_op tt ops = true.
Proof. induction ops; [reflexivity|]. cbn [guarded free_op]. assumption. Qed.

Lemma run_from_cons s tr op r :
  run_from s tr (op :: r) =
  run_from (fst (step s op)) (tr ++ stamp (now (fst (step s op))) (snd (step s op))) r.
Proof.
  unfold run_from. cbn [fold_left]. f_equal. unfold step_tr. destruct (step s op). reflexivity.
Qed.

Section Invariant.
  Context {A O : Type}.
  Variable g : A -> op -> option A.
  Variable ostep : O -> event -> O.
  Variable I : st -> O -> A -> Prop.
  Hypothesis Hstep : forall s o a op a',
    I s o a -> g a op = Some a' ->
    I (fst (step s op)) (fold_left ostep (stamp (now (fst (step s op))) (snd (step s op))) o) a'.

  Lemma run_from_inv : forall ops s tr o0 a,
    I s (fold_left ostep tr o0) a -> guarded g a ops = true ->
    exists a', I (fst (run_from s tr ops)) (fold_left ostep (snd (run_from s tr ops)) o0) a'.
  Proof.
    induction ops as [|op r IH]; intros s tr o0 a HI Hg.
    - exists a. exact HI.
    - cbn [guarded] in Hg. destruct (g a op) as [a'|] eqn:Ega; [|discriminate].
      rewrite run_from_cons.
      apply (IH _ _ o0 a'); [|exact Hg].
      rewrite fold_left_app. apply (Hstep s (fold_left ostep tr o0) a op a' HI Ega).
  Qed.
End Invariant.

(* case analysis on everything a step can branch on, then arithmetic *)
Ltac branch :=
  repeat match goal with
  | |- context [if ?b then _ else _] => destruct b eqn:?
  | |- context [match ?x with InConnack => _ | _ => _ end] => destruct x eqn:?
  | |- context [match ?x with [] => _ | _ :: _ => _ end] => destruct x eqn:?
  | |- context [match ?x with CsConnecting => _ | _ => _ end] => destruct x eqn:?
  | |- context [let (_, _) := ?x in _] => destruct x eqn:?
  end.

Ltac unfold_step :=
  unfold step, service, loop_misc, check_keepalive, read_one, close_with, ka_due, ka_may_ping,
    ka_ping_expired, is_connected, RC_KEEPALIVE, RC_CONN_LOST, RC_NO_CONN, RC_SUCCESS in *.

(* ------------------------------------------------------------------ C08.1 pings *)

Definition I_pings (K d : Z) (s : st) (ltx : Z) (acc : Z) : Prop :=
  kk s = K /\ 0 <= acc <= d /\ last_out s <= now s /\ ltx <= now s /\
  (sock s = true -> last_out s <= ltx /\ now s - last_out s < K + acc).

Lemma I_pings_step K d : 0 < K -> forall s o a op a',
  I_pings K d s o a -> sw_op d a op = Some a' ->
  I_pings K d (fst (step s op)) (fold_left ltx_step (stamp (now (fst (step s op))) (snd (step s op))) o) a'.
Proof.
  intros HK s ltx a op a' (Hk & Ha & Hlo & Hlt & Hs) Hg.
  destruct s as [nw k li lo pt cs sk q]. cbn [kk now last_out sock] in *. subst k.
  destruct op as [dt| | |p]; cbn [sw_op] in Hg.
  - destruct (a + Z.max 0 dt <=? d) eqn:E; [|discriminate]. inv Hg.
    cbn [step fst snd now last_in last_out ping_t cstate sock inq kk stamp map fold_left ltx_step].
    unfold I_pings; cbn [kk now last_out sock]. repeat split; try lia.
    all: intros Hsk; specialize (Hs Hsk); lia.
  - inv Hg. unfold_step.
    cbn [now kk last_in last_out ping_t cstate sock inq].
    destruct sk; cbn [negb andb].
    2:{ cbn [fst snd now kk last_out sock stamp map fold_left ltx_step]. unfold I_pings; cbn [kk now last_out sock].
        repeat split; try lia; intros; discriminate. }
    specialize (Hs eq_refl).
    branch; cbn [fst snd now kk last_in last_out ping_t cstate sock inq stamp map fold_left ltx_step app negb andb] in *;
      try discriminate;
      unfold I_pings; cbn [kk now last_out sock]; (repeat split; try lia; try (intros; discriminate); try (intros _; lia)).
  - inv Hg. cbn [step sock]. destruct sk;
      cbn [fst snd now kk last_out sock stamp map fold_left ltx_step];
      unfold I_pings; cbn [kk now last_out sock]; repeat split; try lia; intros Hsk; try discriminate.
    specialize (Hs eq_refl). lia.
  - assert (a' = a) by (destruct p; cbn in Hg; congruence). subst a'.
    cbn [step sock]. destruct sk;
      cbn [fst snd now kk last_out sock stamp map fold_left ltx_step];
      unfold I_pings; cbn [kk now last_out sock]; repeat split; try lia; intros Hsk; try discriminate.
    specialize (Hs eq_refl). lia.
Qed.

Lemma pings_strict : forall K d t0 ops, 0 < K -> 0 <= d ->
  serviced_within d ops = true ->
  let (s, tr) := run t0 K ops in
  sock s = true -> now s - last_tx t0 tr < K + d.
Proof.
  intros K d t0 ops HK Hd Hsw.
  unfold serviced_within in Hsw. rewrite sw_guarded in Hsw.
  destruct (run t0 K ops) as [s tr] eqn:Er. intros Hsk.
  pose proof (run_from_inv (sw_op d) ltx_step (I_pings K d) (I_pings_step K d HK)
                ops (init t0 K) [(t0, TxConnect)] t0 0) as H.
  unfold run in Er. rewrite Er in H. cbn [fst snd] in H.
  destruct H as (a' & Hk & Ha & Hlo & Hlt & Hs); [|exact Hsw|].
  - unfold I_pings, init. cbn. repeat split; try lia.
  - unfold last_tx. specialize (Hs Hsk). lia.
Qed.

Lemma pings : forall K d t0 ops, 0 < K -> 0 <= d ->
  serviced_within d ops = true ->
  let (s, tr) := run t0 K ops in
  sock s = true -> now s - last_tx t0 tr <= K + d.
Proof.
  intros K d t0 ops HK Hd Hsw. pose proof (pings_strict K d t0 ops HK Hd Hsw) as H.
  destruct (run t0 K ops) as [s tr]. intros Hs. specialize (H Hs). lia.
Qed.
