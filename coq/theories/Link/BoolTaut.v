(* A small reflective truth-table checker for boolean tautologies: the goal  forall x1 .. xk : bool, F = true
   is decided by evaluating F on the 2^k assignments inside the VM. *)
From Coq Require Import Bool List.

Fixpoint nfun (k : nat) : Type := match k with O => bool | S k' => bool -> nfun k' end.
Fixpoint check (k : nat) : nfun k -> bool :=
  match k with
  | O => fun b => b
  | S k' => fun f => check k' (f true) && check k' (f false)
  end.
Fixpoint holds (k : nat) : nfun k -> Prop :=
  match k with
  | O => fun b => b = true
  | S k' => fun f => forall x : bool, holds k' (f x)
  end.
Lemma check_holds : forall k (f : nfun k), check k f = true -> holds k f.
Proof.
  induction k as [|k IH]; intros f H; cbn in *; [exact H|].
  apply andb_true_iff in H. destruct H as (H1 & H2). intros [|]; apply IH; assumption.
Qed.

Lemma tt_imp b g : negb b || g = true -> b = true -> g = true.
Proof. destruct b, g; cbn; congruence. Qed.
Lemma tt_impf b g : b || g = true -> b = false -> g = true.
Proof. destruct b, g; cbn; congruence. Qed.

(* call k on the first subterm of the boolean term t that is neither a connective nor a variable *)
Ltac find_atom t k :=
  lazymatch t with
  | true => fail
  | false => fail
  | andb ?a ?b => first [find_atom a k | find_atom b k]
  | orb ?a ?b => first [find_atom a k | find_atom b k]
  | xorb ?a ?b => first [find_atom a k | find_atom b k]
  | implb ?a ?b => first [find_atom a k | find_atom b k]
  | Bool.eqb ?a ?b => first [find_atom a k | find_atom b k]
  | negb ?a => find_atom a k
  | (if ?a then ?b else ?c) => first [find_atom a k | find_atom b k | find_atom c k]
  | _ => tryif is_var t then fail else k t
  end.

Ltac count_bools G :=
  lazymatch G with
  | forall x : bool, @?B x => let B' := eval cbv beta in (B true) in let n := count_bools B' in constr:(S n)
  | _ => constr:(O)
  end.

Ltac ttaut :=
  try discriminate;
  repeat match goal with
  | H : true = ?b |- _ => lazymatch b with true => clear H | false => discriminate H | _ => symmetry in H end
  | H : false = ?b |- _ => lazymatch b with false => clear H | true => discriminate H | _ => symmetry in H end
  end;
  repeat match goal with
  | H : ?b = true |- _ = true => revert H; apply tt_imp
  | H : ?b = false |- _ = true => revert H; apply tt_impf
  end;
  repeat match goal with H : _ |- _ => clear H end;
  repeat match goal with |- ?L = true => find_atom L ltac:(fun t => let x := fresh "atom" in generalize t; intro x) end;
  repeat match goal with x : bool |- _ => revert x end;
  match goal with |- ?G => let n := count_bools G in refine (check_holds n _ _) end;
  vm_compute; reflexivity.

