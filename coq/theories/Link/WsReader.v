(* M3 Link / WsReader: executable model of client.py `_WebsocketWrapper._buffered_read` (4906-4922) and
   `_recv_impl` (4924-5000) over the raw socket model of Link/Reader.v, and the specification of what a
   byte string means as a sequence of WebSocket frames.  Model only, no proofs (WsReaderProofs.v). *)
From PahoV Require Import Base.Prelude Link.Reader.

(* wrapper state.  `_readbuffer_head` is reset at the start of every _recv_impl: it is local to one call. *)
Record wsst : Type := mkWs {
  rbuf : list Z;                     (* self._readbuffer: bytes of the frame in progress, from its first byte *)
  phead : Z;                         (* self._payload_head: payload bytes of that frame already handed over *)
  wconnected : bool;                 (* self.connected *)
  wsent : list (Z * list Z)          (* frames written in reply: (opcode, payload) *)
}.

Definition ws_init : wsst := mkWs [] 0 true [].

Definition wst : Type := (wsst * sock)%type.

Definition zlen (l : list Z) : Z := Z.of_nat (length l).

(* l[a:b] for 0 <= a <= b *)
Definition slice (l : list Z) (a b : Z) : list Z := take (b - a) (drop a l).

Definition hd0 (l : list Z) : Z := match l with x :: _ => x | [] => 0 end.

(* struct.unpack("!H") / ("!Q"): big endian.  Elements of a Python bytearray are 0..255; `land 255` is the identity
   on them and keeps the function meaningful on arbitrary integers *)
Definition be_val (l : list Z) : Z := fold_left (fun acc b => acc * 256 + Z.land b 255) l 0.

Inductive bres : Type :=
| BOk (data : list Z) (rb : list Z) (head : Z) (s : sock)
| BBlock (rb : list Z) (s : sock)          (* BlockingIOError (from the socket, or fewer bytes than wanted) *)
| BAbort (rb : list Z) (s : sock).         (* ConnectionAbortedError / ConnectionResetError *)

(* _buffered_read(length) with self._readbuffer = rb, self._readbuffer_head = head *)
Definition buffered_read (len : Z) (rb : list Z) (head : Z) (s : sock) : bres :=
  let wanted := len - (zlen rb - head) in
  if 0 <? wanted then
    match sock_recv wanted s with
    | (RData [], s') => BAbort rb s'                       (* if not data: raise ConnectionAbortedError *)
    | (RData d, s') =>
        let rb' := rb ++ d in
        if zlen d <? wanted then BBlock rb' s'
        else BOk (slice rb' head (head + len)) rb' (head + len) s'
    | (RBlock, s') => BBlock rb s'
    | (REof, s') => BAbort rb s'
    | (RErr, s') => BAbort rb s'
    end
  else BOk (slice rb head (head + len)) rb (head + len) s.

(* payload[index] ^= mask_key[index % 4] for index in range(a, b); i = index of the first element of l *)
Fixpoint unmask_from (key : list Z) (i a b : Z) (l : list Z) : list Z :=
  match l with
  | [] => []
  | x :: l' =>
      (if (a <=? i) && (i <? b) then Z.lxor x (nth (Z.to_nat (i mod 4)) key 0) else x)
      :: unmask_from key (i + 1) a b l'
  end.

Definition is_data (opcode : Z) : bool := (opcode =? 2) || (opcode =? 0).

Definition bbind (w : wsst) (x : bres) (k : list Z -> list Z -> Z -> sock -> rres * wst) : rres * wst :=
  match x with
  | BOk d rb hd s => k d rb hd s
  | BBlock rb s => (RBlock, (mkWs rb (phead w) (wconnected w) (wsent w), s))
  | BAbort rb s => (REof, (mkWs rb (phead w) false (wsent w), s))      (* except ConnectionError: connected = False; return b'' *)
  end.

(* the tail of _recv_impl, once the header is known *)
Definition ws_finish (w : wsst) (length opcode : Z) (masked : bool) (key : list Z) (plen : Z)
           (rb : list Z) (hd : Z) (s : sock) : rres * wst :=
  let cs := phead w in
  let ce := phead w + length in
  let readindex := if plen <? ce then plen else ce in
  let fin (payload : list Z) (rb : list Z) (s : sock) : rres * wst :=
    let payload' := if masked then unmask_from key 0 cs readindex payload else payload in
    let result := if 0 <? readindex then slice payload' cs readindex else [] in
    let ph1 := if 0 <? readindex then readindex else phead w in
    let done := readindex =? plen in
    let sent' := if done then
                   (if opcode =? 8 then wsent w ++ [(8, payload')]
                    else if opcode =? 9 then wsent w ++ [(10, payload')] else wsent w)
                 else wsent w in
    let w' := mkWs (if done then [] else rb) (if done then 0 else ph1) (wconnected w) sent' in
    if is_data opcode && (0 <? plen) then (RData result, (w', s)) else (RBlock, (w', s)) in
  if 0 <? readindex then bbind w (buffered_read readindex rb hd s) (fun payload rb _ s => fin payload rb s)
  else fin [] rb s.

(* _recv_impl(length) *)
Definition ws_recv (length : Z) (t : wst) : rres * wst :=
  let '(w, s) := t in
  bbind w (buffered_read 1 (rbuf w) 0 s) (fun header1 rb hd s =>
  bbind w (buffered_read 1 rb hd s) (fun header2 rb hd s =>
    let opcode := Z.land (hd0 header1) 15 in
    let masked := Z.land (hd0 header2) 128 =? 128 in
    let lengthbits := Z.land (hd0 header2) 127 in
    let with_len (plen : Z) (rb : list Z) (hd : Z) (s : sock) : rres * wst :=
      if masked then
        bbind w (buffered_read 4 rb hd s) (fun key rb hd s => ws_finish w length opcode masked key plen rb hd s)
      else ws_finish w length opcode masked [] plen rb hd s in
    if lengthbits =? 126 then
      bbind w (buffered_read 2 rb hd s) (fun v rb hd s => with_len (be_val v) rb hd s)
    else if lengthbits =? 127 then
      bbind w (buffered_read 8 rb hd s) (fun v rb hd s => with_len (be_val v) rb hd s)
    else with_len lengthbits rb hd s)).

Definition ws_idle (t : wst) : bool := sock_idle (snd t).

Definition ws_read := packet_read ws_recv.
Definition ws_run := run ws_recv ws_idle.

Definition ws_fuel (t : wst) : nat :=
  (2 * (length (snd (snd t)) + 2 * (length (fst (snd t)) + length (rbuf (fst t)))) + 4)%nat.

(* ------------------------------------------------------------------------------------------------ *)
(* Specification (RFC 6455 section 5.2): a byte string as frames.  Every byte pair is a frame header for
   the wrapper (FIN, RSV and unknown opcodes are ignored), so the parse is total. *)
Record fhdr : Type := mkHdr {
  f_op : Z; f_masked : bool; f_key : list Z; f_plen : Z; f_hlen : Z
}.

Definition parse_hdr (F : list Z) : option fhdr :=
  if zlen F <? 2 then None
  else
    let b1 := hd0 (slice F 0 1) in
    let b2 := hd0 (slice F 1 2) in
    let masked := Z.land b2 128 =? 128 in
    let lb := Z.land b2 127 in
    let ext := if lb =? 126 then 2 else if lb =? 127 then 8 else 0 in
    let hl := 2 + ext + (if masked then 4 else 0) in
    if zlen F <? hl then None
    else Some (mkHdr (Z.land b1 15) masked
                     (if masked then slice F (2 + ext) (2 + ext + 4) else [])
                     (if ext =? 0 then lb else be_val (slice F 2 (2 + ext)))
                     hl).

Definition unmask_all (h : fhdr) (body : list Z) : list Z :=
  if f_masked h then unmask_from (f_key h) 0 0 (zlen body) body else body.

(* payload bytes of binary / continuation frames still to be handed over, given that `ph` payload bytes of the
   first frame were consumed already; a frame cut short by the end of F contributes the bytes it has *)
Fixpoint ws_pending (fuel : nat) (F : list Z) (ph : Z) : list Z :=
  match fuel with
  | O => []
  | S f =>
      match parse_hdr F with
      | None => []
      | Some h =>
          let body := take (f_plen h) (drop (f_hlen h) F) in
          let mine := if is_data (f_op h) && (0 <? f_plen h) then drop ph (unmask_all h body) else [] in
          if zlen body <? f_plen h then mine
          else mine ++ ws_pending f (drop (f_hlen h + f_plen h) F) 0
      end
  end.

Definition ws_payloads (raw : list Z) : list Z := ws_pending (S (length raw)) raw 0.

(* every frame of F is complete (the last byte of F is the last byte of a frame) *)
Fixpoint frames_complete (fuel : nat) (F : list Z) : bool :=
  match fuel with
  | O => false
  | S f =>
      match F with
      | [] => true
      | _ =>
          match parse_hdr F with
          | None => false
          | Some h =>
              if zlen F <? f_hlen h + f_plen h then false
              else frames_complete f (drop (f_hlen h + f_plen h) F)
          end
      end
  end.

Definition ws_complete (raw : list Z) : bool := frames_complete (S (length raw)) raw.

(* ------------------------------------------------------------------------------------------------ *)
(* correspondence entry: the MQTT reader running on the wrapper.
   args = n :: raw bytes(n) ++ schedule ;
   result = status :: #frames :: frames ++ rd ++ [#raw bytes unread; #pending; #buffered; payload_head; connected;
            #replies] ++ replies (opcode :: len :: payload) *)
Fixpoint enc_sent (l : list (Z * list Z)) : list Z :=
  match l with
  | [] => []
  | (op, pl) :: l' => op :: enc_list pl ++ enc_sent l'
  end.

Definition entry_ws (args : list Z) : list Z :=
  match args with
  | [] => []
  | n :: rest =>
      let raw := take n rest in
      let sch := map dec_ev (drop n rest) in
      let t : wst := (ws_init, (raw, sch)) in
      let '(fs, st, r, t') := ws_run (ws_fuel t) rd_init t in
      let '(pf, r') := match st with StProtocol => ([], r) | _ => flush_pending r end in
      let w := fst t' in
      status_code st :: Z.of_nat (length (fs ++ pf)) :: enc_frames (fs ++ pf) ++ enc_rd r' ++
      [Z.of_nat (length (fst (snd t'))); Z.of_nat (length pf); zlen (rbuf w); phead w;
       (if wconnected w then 1 else 0); Z.of_nat (length (wsent w))] ++ enc_sent (wsent w)
  end.

(* the plain specification: args = raw bytes ; result = complete? :: payload bytes *)
Definition entry_ws_payloads (args : list Z) : list Z :=
  (if ws_complete args then 1 else 0) :: ws_payloads args.
