(* Proofs about Link/WsReader.v: the WebSocket wrapper is a transport in the sense of ReaderProofs
   (recv_spec) whose stream is the concatenation of the unmasked payloads of the binary / continuation
   frames; hence the MQTT reader over WebSocket frames refines the same byte-at-a-time automaton. *)
From PahoV Require Import Base.Prelude Link.Reader Link.ReaderProofs Link.WsReader.

(* ------------------------------------------------------------------------------------------------ *)
(* lists *)
Lemma zlen_app a b : zlen (a ++ b) = zlen a + zlen b.
Proof. unfold zlen. rewrite app_length. lia. Qed.

Lemma zlen_nonneg l : 0 <= zlen l.
Proof. unfold zlen. lia. Qed.

Lemma zlen_nil : zlen [] = 0.
Proof. reflexivity. Qed.

Lemma zlen_cons x l : zlen (x :: l) = 1 + zlen l.
Proof. unfold zlen. cbn [length]. lia. Qed.

Lemma zlen_zero l : zlen l = 0 -> l = [].
Proof. destruct l; [reflexivity|]. rewrite zlen_cons. pose proof (zlen_nonneg l). lia. Qed.

Lemma zlen_take n l : 0 <= n -> zlen (take n l) = Z.min n (zlen l).
Proof. intro H. unfold zlen, take. rewrite firstn_length. lia. Qed.

Lemma zlen_drop n l : 0 <= n -> zlen (drop n l) = Z.max 0 (zlen l - n).
Proof. intro H. unfold zlen, drop. rewrite skipn_length. lia. Qed.

Lemma take_all n l : zlen l <= n -> take n l = l.
Proof. intro H. unfold take, zlen in *. apply firstn_all2. lia. Qed.

Lemma drop_all n l : zlen l <= n -> drop n l = [].
Proof. intro H. unfold drop, zlen in *. apply skipn_all2. lia. Qed.

Lemma take_0 l : take 0 l = [].
Proof. reflexivity. Qed.

Lemma drop_0 l : drop 0 l = l.
Proof. reflexivity. Qed.

Lemma take_neg n l : n <= 0 -> take n l = [].
Proof. intro H. unfold take. replace (Z.to_nat n) with O by lia. reflexivity. Qed.

Lemma take_app_l n a b : n <= zlen a -> take n (a ++ b) = take n a.
Proof.
  intro H. unfold take, zlen in *. rewrite firstn_app.
  replace (Z.to_nat n - length a)%nat with O by lia. cbn. apply app_nil_r.
Qed.

Lemma drop_app_l n a b : 0 <= n <= zlen a -> drop n (a ++ b) = drop n a ++ b.
Proof.
  intro H. unfold drop, zlen in *. rewrite skipn_app.
  replace (Z.to_nat n - length a)%nat with O by lia. reflexivity.
Qed.

Lemma drop_app_r n a b : zlen a <= n -> drop n (a ++ b) = drop (n - zlen a) b.
Proof.
  intro H. unfold drop, zlen in *. rewrite skipn_app.
  rewrite (skipn_all2 a) by lia. cbn [app]. f_equal. lia.
Qed.

Lemma skipn_skipn_nat {A} (b : nat) : forall (a : nat) (l : list A), skipn a (skipn b l) = skipn (b + a) l.
Proof.
  induction b as [|b IH]; intros a l; [reflexivity|].
  destruct l as [|x l]; [cbn; apply skipn_nil|]. cbn [skipn Nat.add]. apply IH.
Qed.

Lemma drop_drop a b l : 0 <= a -> 0 <= b -> drop a (drop b l) = drop (a + b) l.
Proof.
  intros Ha Hb. unfold drop. rewrite skipn_skipn_nat. f_equal. lia.
Qed.

Lemma take_take a b l : 0 <= a <= b -> take a (take b l) = take a l.
Proof.
  intros H. unfold take. rewrite firstn_firstn. f_equal. lia.
Qed.

Lemma take_drop_split n l : take n l ++ drop n l = l.
Proof. apply firstn_skipn. Qed.

(* l[a:] = l[a:b] ++ l[b:] *)
Lemma drop_slice l a b : 0 <= a <= b -> drop a l = slice l a b ++ drop b l.
Proof.
  intros H. unfold slice. rewrite <- (take_drop_split (b - a) (drop a l)) at 1. f_equal.
  rewrite drop_drop by lia. f_equal. lia.
Qed.

Lemma slice_app_l l1 l2 a b : 0 <= a -> b <= zlen l1 -> slice (l1 ++ l2) a b = slice l1 a b.
Proof.
  intros Ha Hb. unfold slice. destruct (Z_le_gt_dec a (zlen l1)) as [Hle|Hgt].
  - rewrite drop_app_l by lia. apply take_app_l. rewrite zlen_drop by lia. lia.
  - rewrite !take_neg by lia. reflexivity.
Qed.

Lemma zlen_slice l a b : 0 <= a <= b -> b <= zlen l -> zlen (slice l a b) = b - a.
Proof. intros H1 H2. unfold slice. rewrite zlen_take by lia. rewrite zlen_drop by lia. lia. Qed.

Lemma slice_full l a : 0 <= a -> slice l a (zlen l) = drop a l.
Proof.
  intro H. unfold slice. destruct (Z_le_gt_dec a (zlen l)).
  - apply take_all. rewrite zlen_drop by lia. lia.
  - rewrite take_neg by lia. symmetry. apply drop_all. lia.
Qed.

(* l[h:][p:q] = l[h+p:h+q] *)
Lemma slice_drop l h p q : 0 <= h -> 0 <= p -> slice (drop h l) p q = slice l (h + p) (h + q).
Proof.
  intros Hh Hp. unfold slice. rewrite drop_drop by lia. f_equal; [lia|f_equal; lia].
Qed.

Lemma drop_take a n l : 0 <= a -> drop a (take n l) = take (n - a) (drop a l).
Proof.
  intro H. unfold drop, take. rewrite skipn_firstn_comm. f_equal. lia.
Qed.

Lemma slice_take l n a b : 0 <= a -> b <= n -> slice (take n l) a b = slice l a b.
Proof.
  intros Ha Hb. unfold slice. rewrite drop_take by lia.
  destruct (Z_le_gt_dec (b - a) 0).
  - rewrite !take_neg by lia. reflexivity.
  - apply take_take. lia.
Qed.

(* ------------------------------------------------------------------------------------------------ *)
(* one recv() on the raw socket *)
Definition sched_live (sch : list ev) : bool := forallb ev_live sch.

Lemma sock_recv_cases n av sch : 1 <= n ->
  match sock_recv n (av, sch) with
  | (RData d, (av', sch')) =>
      av = d ++ av' /\ d <> [] /\ zlen d <= n /\ (length sch' <= length sch)%nat /\
      (zlen d < n -> (length sch' < length sch)%nat \/ av' = []) /\
      (sched_live sch = true -> sched_live sch' = true)
  | (RBlock, (av', sch')) =>
      av' = av /\ (length sch' <= length sch)%nat /\ ((length sch' < length sch)%nat \/ av' = []) /\
      (sched_live sch = true -> sched_live sch' = true)
  | (_, (av', sch')) => av' = av /\ sched_live sch = false
  end.
Proof.
  intro Hn. unfold sock_recv. destruct sch as [|e sch'].
  - destruct av as [|a av'].
    + repeat split; auto.
    + split; [symmetry; apply take_drop_split|]. split; [apply take_nonempty; [assumption|discriminate]|].
      split; [rewrite zlen_take by lia; lia|]. split; [lia|]. split; [|auto].
      intro H. right. rewrite zlen_take in H by lia. apply drop_all. lia.
  - destruct e as [k| | |]; cbn [sched_live forallb ev_live andb].
    + destruct av as [|a av'].
      * repeat split; auto. cbn [length]. lia.
      * set (m := Z.max 1 (Z.min n k)). assert (Hm : 1 <= m <= n) by lia.
        split; [symmetry; apply take_drop_split|]. split; [apply take_nonempty; [lia|discriminate]|].
        split; [rewrite zlen_take by lia; lia|]. split; [cbn [length]; lia|]. split; [|auto].
        intros _. left. cbn [length]. lia.
    + repeat split; auto; cbn [length]; lia.
    + split; reflexivity.
    + split; reflexivity.
Qed.

(* ------------------------------------------------------------------------------------------------ *)
(* _buffered_read *)
Lemma buffered_read_spec len rb head av sch :
  0 <= len -> 0 <= head <= zlen rb ->
  match buffered_read len rb head (av, sch) with
  | BOk data rb' head' (av', sch') =>
      rb' ++ av' = rb ++ av /\ head' = head + len /\ data = slice (rb ++ av) head (head + len) /\
      zlen rb' = Z.max (zlen rb) (head + len) /\
      (length sch' <= length sch)%nat /\ (sched_live sch = true -> sched_live sch' = true) /\
      (zlen av' <= zlen av)
  | BBlock rb' (av', sch') =>
      rb' ++ av' = rb ++ av /\ zlen rb <= zlen rb' < head + len /\
      (length sch' <= length sch)%nat /\ ((length sch' < length sch)%nat \/ av' = []) /\
      (sched_live sch = true -> sched_live sch' = true)
  | BAbort rb' (av', sch') =>
      rb' ++ av' = rb ++ av /\ zlen rb <= zlen rb' < head + len /\ sched_live sch = false
  end.
Proof.
  intros Hlen Hhead. unfold buffered_read.
  destruct (0 <? len - (zlen rb - head)) eqn:Ew.
  - apply Z.ltb_lt in Ew. pose proof (sock_recv_cases (len - (zlen rb - head)) av sch ltac:(lia)) as H.
    destruct (sock_recv (len - (zlen rb - head)) (av, sch)) as [[d| | |] [av' sch']].
    + destruct H as (Hav & Hd & Hn & Hs & Hshort & Hl).
      destruct d as [|x d]; [congruence|].
      destruct (zlen (x :: d) <? len - (zlen rb - head)) eqn:Es.
      * apply Z.ltb_lt in Es. split; [rewrite <- app_assoc, Hav; reflexivity|].
        rewrite zlen_app. pose proof (zlen_nonneg (x :: d)).
        split; [lia|]. split; [assumption|]. split; [apply Hshort; assumption|assumption].
      * apply Z.ltb_ge in Es.
        assert (Hrb' : zlen (rb ++ x :: d) = head + len) by (rewrite zlen_app; lia).
        split; [rewrite <- app_assoc, Hav; reflexivity|]. split; [reflexivity|].
        split.
        { rewrite Hav, app_assoc. symmetry. apply slice_app_l; lia. }
        split; [lia|]. split; [assumption|]. split; [assumption|].
        rewrite Hav, zlen_app. pose proof (zlen_nonneg (x :: d)). lia.
    + destruct H as (-> & Hs & Hor & Hl). repeat split; auto; lia.
    + destruct H as [-> H]. repeat split; auto; lia.
    + destruct H as [-> H]. repeat split; auto; lia.
  - apply Z.ltb_ge in Ew. split; [reflexivity|]. split; [reflexivity|].
    split; [symmetry; apply slice_app_l; lia|]. split; [lia|]. repeat split; auto. lia.
Qed.

(* ------------------------------------------------------------------------------------------------ *)
(* frame headers *)
Definition hl_of (G : list Z) : Z :=
  let b2 := hd0 (slice G 1 2) in
  2 + (if Z.land b2 127 =? 126 then 2 else if Z.land b2 127 =? 127 then 8 else 0)
    + (if Z.land b2 128 =? 128 then 4 else 0).

Lemma hl_of_bounds G : 2 <= hl_of G <= 14.
Proof.
  unfold hl_of. cbv zeta. set (b2 := hd0 (slice G 1 2)).
  destruct (Z.land b2 127 =? 126); destruct (Z.land b2 127 =? 127); destruct (Z.land b2 128 =? 128); lia.
Qed.

Lemma parse_hdr_hlen F h : parse_hdr F = Some h -> f_hlen h = hl_of F /\ hl_of F <= zlen F /\ 2 <= zlen F.
Proof.
  unfold parse_hdr, hl_of. cbv zeta. destruct (zlen F <? 2) eqn:E2; [discriminate|].
  match goal with |- context [zlen F <? ?x] => destruct (zlen F <? x) eqn:Eh end; [discriminate|].
  intro H; inv H. cbn [f_hlen]. repeat split; lia.
Qed.

Lemma parse_hdr_none F : parse_hdr F = None -> zlen F < 2 \/ zlen F < hl_of F.
Proof.
  unfold parse_hdr, hl_of. cbv zeta. destruct (zlen F <? 2) eqn:E2; [intros _; left; lia|].
  match goal with |- context [zlen F <? ?x] => destruct (zlen F <? x) eqn:Eh end; [intros _; right; lia|discriminate].
Qed.

Lemma parse_hdr_some F : 2 <= zlen F -> hl_of F <= zlen F -> exists h, parse_hdr F = Some h.
Proof.
  intros H2 Hh. destruct (parse_hdr F) eqn:E; [eauto|]. apply parse_hdr_none in E. lia.
Qed.

Lemma hl_of_app G tail : 2 <= zlen G -> hl_of (G ++ tail) = hl_of G.
Proof. intro H. unfold hl_of. rewrite slice_app_l by lia. reflexivity. Qed.

Lemma parse_hdr_app G tail : 2 <= zlen G -> hl_of G <= zlen G -> parse_hdr (G ++ tail) = parse_hdr G.
Proof.
  intros H2 Hh. pose proof (hl_of_app G tail H2) as Ha. unfold hl_of in *. unfold parse_hdr.
  pose proof (zlen_nonneg tail) as Ht.
  replace (zlen (G ++ tail) <? 2) with false by (symmetry; apply Z.ltb_ge; rewrite zlen_app; lia).
  replace (zlen G <? 2) with false by (symmetry; apply Z.ltb_ge; lia).
  rewrite !(slice_app_l G tail 0 1), !(slice_app_l G tail 1 2) by lia.
  cbv zeta in *.
  set (b2 := hd0 (slice G 1 2)) in *.
  set (ext := if Z.land b2 127 =? 126 then 2 else if Z.land b2 127 =? 127 then 8 else 0) in *.
  assert (He : 0 <= ext <= 8) by (subst ext; destruct (Z.land b2 127 =? 126); destruct (Z.land b2 127 =? 127); lia).
  match goal with |- context [zlen G <? ?x] => replace (zlen G <? x) with false by (symmetry; apply Z.ltb_ge; lia) end.
  match goal with |- context [zlen (G ++ tail) <? ?x] =>
    replace (zlen (G ++ tail) <? x) with false by (symmetry; apply Z.ltb_ge; rewrite zlen_app; lia) end.
  f_equal. f_equal.
  - destruct (Z.land b2 128 =? 128); [|reflexivity]. apply slice_app_l; lia.
  - destruct (ext =? 0); [reflexivity|]. f_equal. apply slice_app_l; [lia|].
    destruct (Z.land b2 128 =? 128); lia.
Qed.

Lemma parse_hdr_ext G tail h : parse_hdr G = Some h -> parse_hdr (G ++ tail) = Some h.
Proof.
  intro H. destruct (parse_hdr_hlen _ _ H) as (_ & Hh & H2). rewrite parse_hdr_app by assumption. exact H.
Qed.

Lemma parse_hdr_restrict G tail h :
  parse_hdr (G ++ tail) = Some h -> f_hlen h <= zlen G -> parse_hdr G = Some h.
Proof.
  intros H Hl. destruct (parse_hdr_hlen _ _ H) as (Hh & _ & _).
  pose proof (hl_of_bounds (G ++ tail)).
  assert (H2 : 2 <= zlen G) by lia.
  rewrite hl_of_app in Hh by assumption.
  rewrite parse_hdr_app in H by lia. exact H.
Qed.

Lemma parse_hdr_plen_nonneg F h : parse_hdr F = Some h -> True.
Proof. auto. Qed.

(* ------------------------------------------------------------------------------------------------ *)
(* unmasking *)
Lemma unmask_from_length key i a b l : length (unmask_from key i a b l) = length l.
Proof. revert i; induction l as [|x l IH]; intro i; cbn [unmask_from length]; [reflexivity|]. rewrite IH. reflexivity. Qed.

Lemma zlen_unmask_from key i a b l : zlen (unmask_from key i a b l) = zlen l.
Proof. unfold zlen. rewrite unmask_from_length. reflexivity. Qed.

Lemma unmask_from_app key a b l1 : forall i l2,
  unmask_from key i a b (l1 ++ l2) = unmask_from key i a b l1 ++ unmask_from key (i + zlen l1) a b l2.
Proof.
  induction l1 as [|x l1 IH]; intros i l2.
  - cbn [app unmask_from]. rewrite zlen_nil. f_equal. lia.
  - cbn [app unmask_from]. f_equal. rewrite IH. f_equal. f_equal. rewrite zlen_cons. lia.
Qed.

(* inside both windows every byte is xor-ed: the window does not matter *)
Lemma unmask_from_window key a b a' b' l : forall i,
  a <= i -> i + zlen l <= b -> a' <= i -> i + zlen l <= b' ->
  unmask_from key i a b l = unmask_from key i a' b' l.
Proof.
  induction l as [|x l IH]; intros i H1 H2 H3 H4; [reflexivity|].
  rewrite zlen_cons in *. pose proof (zlen_nonneg l). cbn [unmask_from].
  replace ((a <=? i) && (i <? b)) with true by (symmetry; apply andb_true_iff; split; lia).
  replace ((a' <=? i) && (i <? b')) with true by (symmetry; apply andb_true_iff; split; lia).
  f_equal. apply IH; lia.
Qed.

Lemma slice_mid A B C : slice (A ++ B ++ C) (zlen A) (zlen A + zlen B) = B.
Proof.
  unfold slice. rewrite drop_app_r by lia. replace (zlen A - zlen A) with 0 by lia. rewrite drop_0.
  replace (zlen A + zlen B - zlen A) with (zlen B) by lia.
  rewrite take_app_l by lia. apply take_all. lia.
Qed.

Lemma slice_mid2 A B : slice (A ++ B) (zlen A) (zlen A + zlen B) = B.
Proof. rewrite <- (app_nil_r B) at 1. apply slice_mid. Qed.

Lemma slice_app3 A B C p q : zlen A = p -> zlen A + zlen B = q -> slice (A ++ B ++ C) p q = B.
Proof. intros <- <-. apply slice_mid. Qed.

Lemma slice_app2 A B p q : zlen A = p -> zlen A + zlen B = q -> slice (A ++ B) p q = B.
Proof. intros <- <-. apply slice_mid2. Qed.

(* what the code hands over equals the specification's unmasked payload on the same range *)
Lemma unmask_chunk key X ph ri :
  0 <= ph <= ri -> ri <= zlen X ->
  slice (unmask_from key 0 ph ri (take ri X)) ph ri = slice (unmask_from key 0 0 (zlen X) X) ph ri.
Proof.
  intros H1 H2.
  set (P1 := take ph X). set (P2 := slice X ph ri). set (P3 := drop ri X).
  assert (L1 : zlen P1 = ph) by (subst P1; rewrite zlen_take by lia; lia).
  assert (L2 : zlen P2 = ri - ph) by (subst P2; apply zlen_slice; lia).
  assert (EX : X = P1 ++ P2 ++ P3).
  { subst P1 P2 P3. rewrite <- (drop_slice X ph ri) by lia. symmetry. apply take_drop_split. }
  assert (ET : take ri X = P1 ++ P2).
  { rewrite EX at 1. rewrite app_assoc. rewrite take_app_l by (rewrite zlen_app; lia).
    apply take_all. rewrite zlen_app. lia. }
  rewrite ET. clearbody P1 P2 P3. subst X.
  rewrite !unmask_from_app. rewrite L1.
  rewrite (slice_app2 _ _ ph ri) by (rewrite ?zlen_unmask_from; lia).
  rewrite (slice_app3 _ _ _ ph ri) by (rewrite ?zlen_unmask_from; lia).
  apply unmask_from_window; rewrite ?zlen_app; pose proof (zlen_nonneg P3); lia.
Qed.

Lemma be_val_nonneg l : 0 <= be_val l.
Proof.
  unfold be_val. assert (H : forall l acc, 0 <= acc -> 0 <= fold_left (fun acc b => acc * 256 + Z.land b 255) l acc).
  { clear. induction l as [|x l IH]; intros acc Ha; cbn [fold_left]; [assumption|].
    apply IH. assert (0 <= Z.land x 255) by (apply Z.land_nonneg; right; lia). lia. }
  apply H. lia.
Qed.

Lemma parse_hdr_fields F : 2 <= zlen F -> hl_of F <= zlen F ->
  let b1 := hd0 (slice F 0 1) in
  let b2 := hd0 (slice F 1 2) in
  let masked := Z.land b2 128 =? 128 in
  let lb := Z.land b2 127 in
  let ext := if lb =? 126 then 2 else if lb =? 127 then 8 else 0 in
  parse_hdr F = Some (mkHdr (Z.land b1 15) masked
                            (if masked then slice F (2 + ext) (2 + ext + 4) else [])
                            (if ext =? 0 then lb else be_val (slice F 2 (2 + ext)))
                            (hl_of F)).
Proof.
  intros H2 Hh. unfold hl_of in *. cbv zeta in *. unfold parse_hdr. cbv zeta.
  replace (zlen F <? 2) with false by (symmetry; apply Z.ltb_ge; lia).
  match goal with |- context [zlen F <? ?x] => replace (zlen F <? x) with false by (symmetry; apply Z.ltb_ge; lia) end.
  reflexivity.
Qed.

Lemma parse_hdr_plen F h : parse_hdr F = Some h -> 0 <= f_plen h.
Proof.
  intro H. destruct (parse_hdr_hlen _ _ H) as (_ & Hh & H2).
  rewrite (parse_hdr_fields F H2 Hh) in H. cbv zeta in H. inv H. cbn [f_plen].
  match goal with |- context [if ?c then _ else _] => destruct c end.
  - apply Z.land_nonneg. right. lia.
  - apply be_val_nonneg.
Qed.

Lemma min_as_if plen ce : (if plen <? ce then plen else ce) = Z.min ce plen.
Proof. destruct (plen <? ce) eqn:E; lia. Qed.

(* ------------------------------------------------------------------------------------------------ *)
(* one _recv_impl(length) call *)
Section Call.
  Variables (length_ : Z) (w : wsst) (av : list Z) (sch : list ev).
  Hypothesis Hlen : 1 <= length_.
  Hypothesis Hph : 0 <= phead w.
  Let F := rbuf w ++ av.
  Hypothesis Hpl : forall h, parse_hdr F = Some h -> phead w <= f_plen h.

  Definition ri_of (h : fhdr) : Z := Z.min (phead w + length_) (f_plen h).

  Definition blocked (res : rres * wst) : Prop :=
    exists rb' av' sch',
      res = (RBlock, (mkWs rb' (phead w) (wconnected w) (wsent w), (av', sch'))) /\
      rb' ++ av' = F /\ zlen (rbuf w) <= zlen rb' /\
      (forall h, parse_hdr F = Some h -> zlen rb' < f_hlen h + ri_of h) /\
      (length sch' <= length sch)%nat /\ ((length sch' < length sch)%nat \/ av' = []) /\
      (sched_live sch = true -> sched_live sch' = true).

  Definition aborted (res : rres * wst) : Prop :=
    exists rb' av' sch',
      res = (REof, (mkWs rb' (phead w) false (wsent w), (av', sch'))) /\
      rb' ++ av' = F /\ zlen (rbuf w) <= zlen rb' /\
      (forall h, parse_hdr F = Some h -> zlen rb' < f_hlen h + ri_of h) /\
      sched_live sch = false.

  Definition chunk (res : rres * wst) : Prop :=
    exists h rb' av' sch' sent',
      parse_hdr F = Some h /\ rb' ++ av' = F /\
      zlen rb' = Z.max (zlen (rbuf w)) (f_hlen h + ri_of h) /\
      (length sch' <= length sch)%nat /\ (sched_live sch = true -> sched_live sch' = true) /\
      res = ((if is_data (f_op h) && (0 <? f_plen h)
              then RData (slice (unmask_all h (take (f_plen h) (drop (f_hlen h) F))) (phead w) (ri_of h))
              else RBlock),
             (mkWs (if ri_of h =? f_plen h then [] else rb') (if ri_of h =? f_plen h then 0 else ri_of h)
                   (wconnected w) sent', (av', sch'))).

  Definition outcome3 (res : rres * wst) : Prop := blocked res \/ aborted res \/ chunk res.

  (* the tail of the call, header known *)
  Lemma finish_outcome h rb av1 sch1 :
    parse_hdr F = Some h -> rb ++ av1 = F -> zlen rb = Z.max (zlen (rbuf w)) (f_hlen h) ->
    (length sch1 <= length sch)%nat -> (sched_live sch = true -> sched_live sch1 = true) ->
    outcome3 (ws_finish w length_ (f_op h) (f_masked h) (f_key h) (f_plen h) rb (f_hlen h) (av1, sch1)).
  Proof.
    intros Hh E Lrb Ssch Vl.
    pose proof (parse_hdr_plen _ _ Hh) as Hp0. pose proof (Hpl _ Hh) as Hpp.
    destruct (parse_hdr_hlen _ _ Hh) as (Hhl & HhF & H2F). pose proof (hl_of_bounds F) as Hb.
    unfold ws_finish. rewrite min_as_if. fold (ri_of h).
    assert (Hri : phead w <= ri_of h <= f_plen h) by (unfold ri_of; lia).
    assert (Hri0 : 0 <= ri_of h) by lia.
    destruct (0 <? ri_of h) eqn:Er.
    - apply Z.ltb_lt in Er.
      pose proof (buffered_read_spec (ri_of h) rb (f_hlen h) av1 sch1 ltac:(lia) ltac:(lia)) as H.
      destruct (buffered_read (ri_of h) rb (f_hlen h) (av1, sch1)) as [pl rb2 hd2 [av2 sch2]|rb2 [av2 sch2]|rb2 [av2 sch2]];
        cbn [bbind].
      + destruct H as (E2 & -> & -> & L2 & S2 & V2 & A2). rewrite E in *.
        right; right. exists h, rb2, av2, sch2.
        eexists. split; [exact Hh|]. split; [exact E2|]. split; [lia|]. split; [lia|]. split; [auto|].
        destruct (is_data (f_op h) && (0 <? f_plen h)); [|reflexivity]. f_equal.
        * (* the bytes handed over *)
          assert (HF : f_hlen h + ri_of h <= zlen F) by (rewrite <- E2, zlen_app; pose proof (zlen_nonneg av2); lia).
          set (body := take (f_plen h) (drop (f_hlen h) F)).
          assert (Hbody : ri_of h <= zlen body).
          { subst body. rewrite zlen_take by lia. rewrite zlen_drop by lia. lia. }
          assert (Hpay : slice F (f_hlen h) (f_hlen h + ri_of h) = take (ri_of h) body).
          { subst body. rewrite take_take by lia. unfold slice. f_equal. lia. }
          rewrite Hpay. unfold unmask_all. apply (f_equal RData).
          destruct (f_masked h).
          -- apply unmask_chunk; lia.
          -- apply slice_take; lia.
      + destruct H as (E2 & L2 & S2 & O2 & V2). left. exists rb2, av2, sch2.
        split; [reflexivity|]. split; [rewrite E2; exact E|]. split; [lia|].
        split.
        { intros h' Hh'. rewrite Hh in Hh'. inv Hh'. lia. }
        split; [lia|]. split; [destruct O2; [left; lia|right; assumption]|auto].
      + destruct H as (E2 & L2 & Hl2). right; left. exists rb2, av2, sch2.
        split; [reflexivity|]. split; [rewrite E2; exact E|]. split; [lia|].
        split.
        { intros h' Hh'. rewrite Hh in Hh'. inv Hh'. lia. }
        destruct (sched_live sch); [|reflexivity]. rewrite (Vl eq_refl) in Hl2. discriminate.
    - apply Z.ltb_ge in Er. assert (Hz : ri_of h = 0) by lia.
      (* nothing to read: the frame has no payload *)
      assert (Hp : f_plen h = 0) by (unfold ri_of in Hz; lia).
      right; right. exists h, rb, av1, sch1. eexists.
      split; [exact Hh|]. split; [exact E|]. split; [lia|]. split; [lia|]. split; [auto|].
      rewrite Hz, Hp. cbn [Z.eqb Z.ltb Z.compare andb]. rewrite andb_false_r. reflexivity.
  Qed.

  Definition with_len_f (opcode : Z) (masked : bool) (plen : Z) (rb : list Z) (hd : Z) (s : sock) : rres * wst :=
    if masked then
      bbind w (buffered_read 4 rb hd s) (fun key rb hd s => ws_finish w length_ opcode masked key plen rb hd s)
    else ws_finish w length_ opcode masked [] plen rb hd s.

  Lemma ws_recv_unfold s :
    ws_recv length_ (w, s) =
    bbind w (buffered_read 1 (rbuf w) 0 s) (fun header1 rb hd s =>
    bbind w (buffered_read 1 rb hd s) (fun header2 rb hd s =>
      let opcode := Z.land (hd0 header1) 15 in
      let masked := Z.land (hd0 header2) 128 =? 128 in
      let lengthbits := Z.land (hd0 header2) 127 in
      if lengthbits =? 126 then
        bbind w (buffered_read 2 rb hd s) (fun v rb hd s => with_len_f opcode masked (be_val v) rb hd s)
      else if lengthbits =? 127 then
        bbind w (buffered_read 8 rb hd s) (fun v rb hd s => with_len_f opcode masked (be_val v) rb hd s)
      else with_len_f opcode masked lengthbits rb hd s)).
  Proof. reflexivity. Qed.

  (* a read that blocks inside the header *)
  Lemma blocked_in_header rb' av' sch' bound :
    rb' ++ av' = F -> zlen (rbuf w) <= zlen rb' < bound ->
    (2 <= zlen F -> bound <= hl_of F) -> bound <= 2 \/ 2 <= zlen F ->
    (length sch' <= length sch)%nat -> ((length sch' < length sch)%nat \/ av' = []) ->
    (sched_live sch = true -> sched_live sch' = true) ->
    blocked (RBlock, (mkWs rb' (phead w) (wconnected w) (wsent w), (av', sch'))).
  Proof.
    intros E L Hb Hor S O V. exists rb', av', sch'. split; [reflexivity|]. split; [exact E|]. split; [lia|].
    split; [|auto].
    intros h Hh. destruct (parse_hdr_hlen _ _ Hh) as (Hhl & HhF & H2F).
    pose proof (parse_hdr_plen _ _ Hh). pose proof (Hpl _ Hh). pose proof (hl_of_bounds F).
    unfold ri_of. specialize (Hb H2F). lia.
  Qed.

  Lemma aborted_in_header rb' av' sch' schx bound :
    rb' ++ av' = F -> zlen (rbuf w) <= zlen rb' < bound ->
    (2 <= zlen F -> bound <= hl_of F) -> bound <= 2 \/ 2 <= zlen F ->
    (sched_live sch = true -> sched_live schx = true) -> sched_live schx = false ->
    aborted (REof, (mkWs rb' (phead w) false (wsent w), (av', sch'))).
  Proof.
    intros E L Hb Hor V Hl. exists rb', av', sch'. split; [reflexivity|]. split; [exact E|]. split; [lia|].
    split.
    - intros h Hh. destruct (parse_hdr_hlen _ _ Hh) as (Hhl & HhF & H2F).
      pose proof (parse_hdr_plen _ _ Hh). pose proof (Hpl _ Hh). pose proof (hl_of_bounds F).
      unfold ri_of. specialize (Hb H2F). lia.
    - destruct (sched_live sch); [|reflexivity]. rewrite (V eq_refl) in Hl. discriminate.
  Qed.

  (* header complete: hand over to the tail *)
  Lemma with_len_outcome rb av1 sch1 :
    rb ++ av1 = F -> 2 <= zlen F ->
    let b1 := hd0 (slice F 0 1) in
    let b2 := hd0 (slice F 1 2) in
    let masked := Z.land b2 128 =? 128 in
    let lb := Z.land b2 127 in
    let ext := if lb =? 126 then 2 else if lb =? 127 then 8 else 0 in
    zlen rb = Z.max (zlen (rbuf w)) (2 + ext) ->
    (length sch1 <= length sch)%nat -> (sched_live sch = true -> sched_live sch1 = true) ->
    outcome3 (with_len_f (Z.land b1 15) masked (if ext =? 0 then lb else be_val (slice F 2 (2 + ext))) rb (2 + ext) (av1, sch1)).
  Proof.
    intros E H2 b1 b2 masked lb ext L S V.
    assert (He : 0 <= ext <= 8) by (subst ext; destruct (lb =? 126); destruct (lb =? 127); lia).
    assert (Hhl : hl_of F = 2 + ext + (if masked then 4 else 0)) by reflexivity.
    pose proof (zlen_nonneg (rbuf w)) as Hrb0.
    unfold with_len_f. destruct masked eqn:Em.
    - pose proof (buffered_read_spec 4 rb (2 + ext) av1 sch1 ltac:(lia) ltac:(lia)) as H.
      destruct (buffered_read 4 rb (2 + ext) (av1, sch1)) as [key rb2 hd2 [av2 sch2]|rb2 [av2 sch2]|rb2 [av2 sch2]];
        cbn [bbind].
      + destruct H as (E2 & -> & -> & L2 & S2 & V2 & A2). rewrite E in *.
        assert (HF : hl_of F <= zlen F) by (rewrite Hhl, <- E2, zlen_app; pose proof (zlen_nonneg av2); lia).
        pose proof (parse_hdr_fields F H2 HF) as Hh. cbv zeta in Hh. fold b1 b2 in Hh. fold lb in Hh. fold ext in Hh.
        fold masked in Hh. rewrite Em in Hh.
        match type of Hh with _ = Some ?h0 => set (h := h0) in * end.
        change (slice F (2 + ext) (2 + ext + 4)) with (f_key h).
        replace (2 + ext + 4) with (f_hlen h) by (subst h; cbn [f_hlen]; lia).
        change (Z.land b1 15) with (f_op h). change true with (f_masked h) at 1.
        change (if ext =? 0 then lb else be_val (slice F 2 (2 + ext))) with (f_plen h).
        apply finish_outcome; auto.
        * subst h; cbn [f_hlen]. lia.
        * lia.
      + destruct H as (E2 & L2 & S2 & O2 & V2). left.
        apply (blocked_in_header rb2 av2 sch2 (2 + ext + 4)).
        * rewrite E2; exact E.
        * lia.
        * intros _. lia.
        * right; assumption.
        * lia.
        * destruct O2; [left; lia|right; assumption].
        * auto.
      + destruct H as (E2 & L2 & Hl2). right; left.
        apply (aborted_in_header rb2 av2 sch2 sch1 (2 + ext + 4)).
        * rewrite E2; exact E.
        * lia.
        * intros _. lia.
        * right; assumption.
        * exact V.
        * exact Hl2.
    - assert (HF : hl_of F <= zlen F) by (rewrite Hhl, <- E, zlen_app; pose proof (zlen_nonneg av1); lia).
      pose proof (parse_hdr_fields F H2 HF) as Hh. cbv zeta in Hh. fold b1 b2 in Hh. fold lb in Hh. fold ext in Hh.
      fold masked in Hh. rewrite Em in Hh.
      match type of Hh with _ = Some ?h0 => set (h := h0) in * end.
      replace (2 + ext) with (f_hlen h) at 2 by (subst h; cbn [f_hlen]; lia).
      change (Z.land b1 15) with (f_op h). change false with (f_masked h) at 1.
      change (@nil Z) with (f_key h) at 1.
      change (if ext =? 0 then lb else be_val (slice F 2 (2 + ext))) with (f_plen h).
      apply finish_outcome; auto.
      subst h; cbn [f_hlen]. lia.
  Qed.

  Lemma ws_recv_outcome : outcome3 (ws_recv length_ (w, (av, sch))).
  Proof.
    rewrite ws_recv_unfold. pose proof (zlen_nonneg (rbuf w)) as Hrb0.
    (* first header byte *)
    pose proof (buffered_read_spec 1 (rbuf w) 0 av sch ltac:(lia) ltac:(lia)) as H1.
    destruct (buffered_read 1 (rbuf w) 0 (av, sch)) as [d1 rb1 hd1 [av1 sch1]|rb1 [av1 sch1]|rb1 [av1 sch1]]; cbn [bbind].
    2:{ destruct H1 as (E1 & L1 & S1 & O1 & V1). left. apply (blocked_in_header rb1 av1 sch1 (0 + 1)).
        - exact E1.
        - lia.
        - intros _. pose proof (hl_of_bounds F). lia.
        - left; lia.
        - lia.
        - exact O1.
        - auto. }
    2:{ destruct H1 as (E1 & L1 & Hl1). right; left. apply (aborted_in_header rb1 av1 sch1 sch (0 + 1)).
        - exact E1.
        - lia.
        - intros _. pose proof (hl_of_bounds F). lia.
        - left; lia.
        - auto.
        - exact Hl1. }
    destruct H1 as (E1 & -> & -> & L1 & S1 & V1 & A1). fold F in E1. fold F.
    (* second header byte *)
    pose proof (buffered_read_spec 1 rb1 (0 + 1) av1 sch1 ltac:(lia) ltac:(lia)) as H2.
    destruct (buffered_read 1 rb1 (0 + 1) (av1, sch1)) as [d2 rb2 hd2 [av2 sch2]|rb2 [av2 sch2]|rb2 [av2 sch2]]; cbn [bbind].
    2:{ destruct H2 as (E2 & L2 & S2 & O2 & V2). left. apply (blocked_in_header rb2 av2 sch2 (0 + 1 + 1)).
        - rewrite E2; exact E1.
        - lia.
        - intros _. pose proof (hl_of_bounds F). lia.
        - left; lia.
        - lia.
        - destruct O2; [left; lia|right; assumption].
        - auto. }
    2:{ destruct H2 as (E2 & L2 & Hl2). right; left. apply (aborted_in_header rb2 av2 sch2 sch1 (0 + 1 + 1)).
        - rewrite E2; exact E1.
        - lia.
        - intros _. pose proof (hl_of_bounds F). lia.
        - left; lia.
        - exact V1.
        - exact Hl2. }
    destruct H2 as (E2 & -> & -> & L2 & S2 & V2 & A2). rewrite E1 in *.
    assert (H2F : 2 <= zlen F) by (rewrite <- E2, zlen_app; pose proof (zlen_nonneg av2); lia).
    change (0 + 1) with 1. change (1 + 1) with 2. cbv zeta.
    set (b1 := hd0 (slice F 0 1)). set (b2 := hd0 (slice F 1 2)).
    set (lb := Z.land b2 127).
    destruct (lb =? 126) eqn:E126.
    - (* 16-bit extended length *)
      pose proof (buffered_read_spec 2 rb2 2 av2 sch2 ltac:(lia) ltac:(lia)) as H3.
      destruct (buffered_read 2 rb2 2 (av2, sch2)) as [v rb3 hd3 [av3 sch3]|rb3 [av3 sch3]|rb3 [av3 sch3]]; cbn [bbind].
      + destruct H3 as (E3 & -> & -> & L3 & S3 & V3 & A3). rewrite E2 in *.
        pose proof (with_len_outcome rb3 av3 sch3 E3 H2F) as X. cbv zeta in X.
        fold b1 b2 in X. fold lb in X. rewrite E126 in X. cbn [Z.eqb] in X. apply X; [lia|lia|auto].
      + destruct H3 as (E3 & L3 & S3 & O3 & V3). left. apply (blocked_in_header rb3 av3 sch3 (2 + 2)).
        * rewrite E3; exact E2.
        * lia.
        * intros _. unfold hl_of. cbv zeta. fold b2. fold lb. rewrite E126.
          destruct (Z.land b2 128 =? 128); lia.
        * right; assumption.
        * lia.
        * destruct O3; [left; lia|right; assumption].
        * auto.
      + destruct H3 as (E3 & L3 & Hl3). right; left. apply (aborted_in_header rb3 av3 sch3 sch2 (2 + 2)).
        * rewrite E3; exact E2.
        * lia.
        * intros _. unfold hl_of. cbv zeta. fold b2. fold lb. rewrite E126.
          destruct (Z.land b2 128 =? 128); lia.
        * right; assumption.
        * auto.
        * exact Hl3.
    - destruct (lb =? 127) eqn:E127.
      + (* 64-bit extended length *)
        pose proof (buffered_read_spec 8 rb2 2 av2 sch2 ltac:(lia) ltac:(lia)) as H3.
        destruct (buffered_read 8 rb2 2 (av2, sch2)) as [v rb3 hd3 [av3 sch3]|rb3 [av3 sch3]|rb3 [av3 sch3]]; cbn [bbind].
        * destruct H3 as (E3 & -> & -> & L3 & S3 & V3 & A3). rewrite E2 in *.
          pose proof (with_len_outcome rb3 av3 sch3 E3 H2F) as X. cbv zeta in X.
          fold b1 b2 in X. fold lb in X. rewrite E126, E127 in X. cbn [Z.eqb] in X. apply X; [lia|lia|auto].
        * destruct H3 as (E3 & L3 & S3 & O3 & V3). left. apply (blocked_in_header rb3 av3 sch3 (2 + 8)).
          -- rewrite E3; exact E2.
          -- lia.
          -- intros _. unfold hl_of. cbv zeta. fold b2. fold lb. rewrite E126, E127.
             destruct (Z.land b2 128 =? 128); lia.
          -- right; assumption.
          -- lia.
          -- destruct O3; [left; lia|right; assumption].
          -- auto.
        * destruct H3 as (E3 & L3 & Hl3). right; left. apply (aborted_in_header rb3 av3 sch3 sch2 (2 + 8)).
          -- rewrite E3; exact E2.
          -- lia.
          -- intros _. unfold hl_of. cbv zeta. fold b2. fold lb. rewrite E126, E127.
             destruct (Z.land b2 128 =? 128); lia.
          -- right; assumption.
          -- auto.
          -- exact Hl3.
      + (* 7-bit length *)
        pose proof (with_len_outcome rb2 av2 sch2 E2 H2F) as X. cbv zeta in X.
        fold b1 b2 in X. fold lb in X. rewrite E126, E127 in X. cbn [Z.eqb] in X.
        replace (2 + 0) with 2 in X by lia. apply X; [lia|lia|auto].
  Qed.
End Call.

(* ------------------------------------------------------------------------------------------------ *)
(* the specification function ws_pending *)
Lemma length_drop_frame F h :
  parse_hdr F = Some h -> (length (drop (f_hlen h + f_plen h) F) + 2 <= length F)%nat.
Proof.
  intro H. destruct (parse_hdr_hlen _ _ H) as (Hhl & HhF & H2F). pose proof (parse_hdr_plen _ _ H).
  pose proof (hl_of_bounds F). unfold drop. rewrite skipn_length. unfold zlen in *. lia.
Qed.

Lemma ws_pending_fuel f1 : forall f2 F ph,
  (length F < f1)%nat -> (length F < f2)%nat -> ws_pending f1 F ph = ws_pending f2 F ph.
Proof.
  induction f1 as [|f1 IH]; intros f2 F ph H1 H2; [lia|].
  destruct f2 as [|f2]; [lia|]. cbn [ws_pending].
  destruct (parse_hdr F) as [h|] eqn:E; [|reflexivity].
  destruct (zlen (take (f_plen h) (drop (f_hlen h) F)) <? f_plen h); [reflexivity|].
  f_equal. pose proof (length_drop_frame F h E). apply IH; lia.
Qed.

Lemma ws_pending_S f F ph :
  ws_pending (S f) F ph =
  match parse_hdr F with
  | None => []
  | Some h =>
      let body := take (f_plen h) (drop (f_hlen h) F) in
      let mine := if is_data (f_op h) && (0 <? f_plen h) then drop ph (unmask_all h body) else [] in
      if zlen body <? f_plen h then mine
      else mine ++ ws_pending f (drop (f_hlen h + f_plen h) F) 0
  end.
Proof. reflexivity. Qed.

Lemma ws_pending_unfold F ph h :
  parse_hdr F = Some h ->
  ws_pending (S (length F)) F ph =
  let body := take (f_plen h) (drop (f_hlen h) F) in
  let mine := if is_data (f_op h) && (0 <? f_plen h) then drop ph (unmask_all h body) else [] in
  if zlen body <? f_plen h then mine
  else mine ++ ws_pending (S (length (drop (f_hlen h + f_plen h) F))) (drop (f_hlen h + f_plen h) F) 0.
Proof.
  intro H. rewrite (ws_pending_S (length F) F ph), H. cbv zeta.
  destruct (zlen (take (f_plen h) (drop (f_hlen h) F)) <? f_plen h); [reflexivity|].
  f_equal. pose proof (length_drop_frame F h H). apply ws_pending_fuel; lia.
Qed.

Lemma zlen_unmask_all h body : zlen (unmask_all h body) = zlen body.
Proof. unfold unmask_all. destruct (f_masked h); [apply zlen_unmask_from|reflexivity]. Qed.

(* ------------------------------------------------------------------------------------------------ *)
(* the wrapper as a transport *)
Definition ws_F (t : wst) : list Z := rbuf (fst t) ++ fst (snd t).
Definition ws_stream (t : wst) : list Z := ws_pending (S (length (ws_F t))) (ws_F t) (phead (fst t)).
Definition ws_size (t : wst) : nat :=
  Z.to_nat (Z.of_nat (length (snd (snd t))) + 2 * zlen (ws_F t) - phead (fst t)).
Definition ws_live (t : wst) : bool := sched_live (snd (snd t)).

Definition ws_inv (t : wst) : Prop :=
  let w := fst t in
  0 <= phead w /\
  (0 < phead w -> exists h, parse_hdr (rbuf w) = Some h /\ f_hlen h + phead w <= zlen (rbuf w) /\ phead w < f_plen h) /\
  (forall h, parse_hdr (ws_F t) = Some h -> zlen (rbuf w) < f_hlen h + f_plen h).

Lemma ws_inv_init raw sch : ws_inv (ws_init, (raw, sch)).
Proof.
  unfold ws_inv, ws_F. cbn [fst snd ws_init rbuf phead app]. split; [lia|]. split; [lia|].
  intros h H. destruct (parse_hdr_hlen _ _ H) as (Hhl & _ & _). pose proof (hl_of_bounds raw).
  pose proof (parse_hdr_plen _ _ H). rewrite zlen_nil. lia.
Qed.

Lemma ws_inv_plen w av sch h :
  ws_inv (w, (av, sch)) -> parse_hdr (rbuf w ++ av) = Some h -> phead w <= f_plen h.
Proof.
  intros (I1 & I2 & I3) H. cbn [fst snd] in *.
  destruct (Z_le_gt_dec (phead w) 0) as [Hz|Hz].
  - pose proof (parse_hdr_plen _ _ H). lia.
  - destruct (I2 ltac:(lia)) as (h' & Hh' & _ & Hlt).
    rewrite (parse_hdr_ext _ av _ Hh') in H. inv H. lia.
Qed.

Lemma ws_inv_ph_le w av sch : ws_inv (w, (av, sch)) -> phead w <= zlen (rbuf w).
Proof.
  intros (I1 & I2 & I3). cbn [fst snd] in *.
  destruct (Z_le_gt_dec (phead w) 0) as [Hz|Hz]; [pose proof (zlen_nonneg (rbuf w)); lia|].
  destruct (I2 ltac:(lia)) as (h' & Hh' & Hle & _).
  destruct (parse_hdr_hlen _ _ Hh') as (Hhl & _ & _). pose proof (hl_of_bounds (rbuf w)). lia.
Qed.

Lemma app_prefix (a b c d : list Z) : a ++ b = c ++ d -> zlen c <= zlen a -> exists x, a = c ++ x.
Proof.
  intros H L. exists (drop (zlen c) a).
  assert (E : take (zlen c) (a ++ b) = take (zlen c) (c ++ d)) by (rewrite H; reflexivity).
  rewrite take_app_l in E by lia. rewrite (take_app_l _ c d) in E by lia. rewrite (take_all _ c) in E by lia.
  transitivity (take (zlen c) a ++ drop (zlen c) a); [symmetry; apply take_drop_split|].
  rewrite E. reflexivity.
Qed.

Lemma app_drop (a b F : list Z) : a ++ b = F -> b = drop (zlen a) F.
Proof. intros <-. rewrite drop_app_r by lia. replace (zlen a - zlen a) with 0 by lia. reflexivity. Qed.

Lemma sock_idle_nil_true sch : sock_idle ([], sch) = true.
Proof. reflexivity. Qed.

(* the state after a completed chunk *)
Section ChunkFacts.
  Variables (n : Z) (w : wsst) (av : list Z) (sch : list ev).
  Hypothesis Hn : 1 <= n.
  Hypothesis Hi : ws_inv (w, (av, sch)).
  Let F := rbuf w ++ av.
  Variables (h : fhdr) (rb' av' : list Z) (sch' : list ev).
  Hypothesis Hh : parse_hdr F = Some h.
  Hypothesis E : rb' ++ av' = F.
  Let ri := ri_of n w h.
  Hypothesis L : zlen rb' = Z.max (zlen (rbuf w)) (f_hlen h + ri).

  Lemma chunk_bounds :
    0 <= phead w <= ri /\ ri <= f_plen h /\ ri <= phead w + n /\ 2 <= f_hlen h /\
    zlen (rbuf w) < f_hlen h + f_plen h /\ f_hlen h + ri <= zlen rb' /\ zlen rb' <= zlen F /\
    phead w <= zlen (rbuf w) /\ (f_plen h <= phead w -> f_plen h = 0 /\ phead w = 0) /\
    (0 < f_plen h -> phead w < ri).
  Proof.
    pose proof (ws_inv_plen _ _ _ _ Hi Hh) as Hpl. pose proof (ws_inv_ph_le _ _ _ Hi) as Hle.
    destruct Hi as (I1 & I2 & I3). cbn [fst snd] in *. specialize (I3 h Hh).
    destruct (parse_hdr_hlen _ _ Hh) as (Hhl & _ & _). pose proof (hl_of_bounds F).
    pose proof (parse_hdr_plen _ _ Hh).
    assert (zlen rb' <= zlen F) by (rewrite <- E, zlen_app; pose proof (zlen_nonneg av'); lia).
    assert (Hlt : 0 < phead w -> phead w < f_plen h).
    { intro Hp. destruct (I2 Hp) as (h' & Hh' & _ & Hlt). pose proof (parse_hdr_ext _ av _ Hh') as X.
      fold F in X. rewrite Hh in X. inv X. lia. }
    unfold ri, ri_of in *. repeat split; try lia.
  Qed.

  Let body := take (f_plen h) (drop (f_hlen h) F).
  Let U := unmask_all h body.

  Lemma chunk_body : ri <= zlen body /\ zlen U = zlen body /\ zlen body <= f_plen h /\
                     (ri = f_plen h -> zlen body = f_plen h).
  Proof.
    destruct chunk_bounds as (B1 & B2 & B3 & B4 & B5 & B6 & B7 & B8 & B9 & B10).
    assert (Hb : zlen body = Z.min (f_plen h) (zlen F - f_hlen h)).
    { unfold body. rewrite zlen_take by lia. rewrite zlen_drop by lia. lia. }
    unfold U. rewrite zlen_unmask_all. repeat split; lia.
  Qed.

  Definition t_done (sent' : list (Z * list Z)) : wst := (mkWs [] 0 (wconnected w) sent', (av', sch')).
  Definition t_more (sent' : list (Z * list Z)) : wst := (mkWs rb' ri (wconnected w) sent', (av', sch')).

  Lemma done_av : ri = f_plen h -> av' = drop (f_hlen h + f_plen h) F.
  Proof.
    intro Hd. destruct chunk_bounds as (B1 & B2 & B3 & B4 & B5 & B6 & B7 & B8 & B9 & B10).
    rewrite (app_drop _ _ _ E). f_equal. lia.
  Qed.

  Lemma stream_before :
    ws_stream (w, (av, sch)) =
    let mine := if is_data (f_op h) && (0 <? f_plen h) then drop (phead w) U else [] in
    if zlen body <? f_plen h then mine
    else mine ++ ws_pending (S (length (drop (f_hlen h + f_plen h) F))) (drop (f_hlen h + f_plen h) F) 0.
  Proof. unfold ws_stream, ws_F. cbn [fst snd]. fold F. rewrite (ws_pending_unfold F _ h Hh). reflexivity. Qed.

  Lemma stream_done sent' : ri = f_plen h ->
    ws_stream (t_done sent') = ws_pending (S (length (drop (f_hlen h + f_plen h) F))) (drop (f_hlen h + f_plen h) F) 0.
  Proof. intro Hd. unfold ws_stream, ws_F, t_done. cbn [fst snd rbuf phead app]. rewrite (done_av Hd). reflexivity. Qed.

  Lemma stream_more sent' :
    ws_stream (t_more sent') =
    let mine := if is_data (f_op h) && (0 <? f_plen h) then drop ri U else [] in
    if zlen body <? f_plen h then mine
    else mine ++ ws_pending (S (length (drop (f_hlen h + f_plen h) F))) (drop (f_hlen h + f_plen h) F) 0.
  Proof.
    unfold ws_stream, ws_F, t_more. cbn [fst snd rbuf phead]. rewrite E.
    rewrite (ws_pending_unfold F _ h Hh). reflexivity.
  Qed.

  Lemma size_done sent' : ri = f_plen h -> (length sch' <= length sch)%nat ->
    (ws_size (t_done sent') < ws_size (w, (av, sch)))%nat.
  Proof.
    intros Hd S. destruct chunk_bounds as (B1 & B2 & B3 & B4 & B5 & B6 & B7 & B8 & B9 & B10).
    unfold ws_size, ws_F, t_done. cbn [fst snd rbuf phead app]. fold F.
    assert (zlen F = zlen rb' + zlen av') by (rewrite <- E, zlen_app; reflexivity).
    pose proof (zlen_nonneg av'). lia.
  Qed.

  Lemma size_more sent' : phead w < ri -> (length sch' <= length sch)%nat ->
    (ws_size (t_more sent') < ws_size (w, (av, sch)))%nat.
  Proof.
    intros Hd S. destruct chunk_bounds as (B1 & B2 & B3 & B4 & B5 & B6 & B7 & B8 & B9 & B10).
    unfold ws_size, ws_F, t_more. cbn [fst snd rbuf phead]. rewrite E. fold F. lia.
  Qed.

  Lemma inv_done sent' : ws_inv (t_done sent').
  Proof.
    unfold ws_inv, ws_F, t_done. cbn [fst snd rbuf phead app]. split; [lia|]. split; [lia|].
    intros h' H'. destruct (parse_hdr_hlen _ _ H') as (Hhl & _ & _). pose proof (hl_of_bounds av').
    pose proof (parse_hdr_plen _ _ H'). rewrite zlen_nil. lia.
  Qed.

  Lemma inv_more sent' : ri < f_plen h -> ws_inv (t_more sent').
  Proof.
    intro Hlt. destruct chunk_bounds as (B1 & B2 & B3 & B4 & B5 & B6 & B7 & B8 & B9 & B10).
    unfold ws_inv, ws_F, t_more. cbn [fst snd rbuf phead]. rewrite E.
    split; [lia|]. split.
    - intros _. exists h. split; [|split; lia].
      apply (parse_hdr_restrict rb' av'); [rewrite E; exact Hh|lia].
    - intros h' H'. fold F in H'. rewrite Hh in H'. inv H'. lia.
  Qed.
End ChunkFacts.

Lemma ws_recv_inv : recv_inv ws_recv ws_inv.
Proof.
  intros n [w [av sch]] Hn Hi.
  assert (X : forall res, outcome3 n w av sch res -> ws_inv (snd res));
    [|apply X, (ws_recv_outcome n w av sch Hn (proj1 Hi) (fun h => ws_inv_plen w av sch h Hi))].
  intros res [B|[A|C]].
  - (* blocked *)
    destruct B as (rb' & av' & sch' & -> & E & L & Bd & _). cbn [snd].
    destruct Hi as (I1 & I2 & I3). cbn [fst snd] in *. unfold ws_inv, ws_F. cbn [fst snd rbuf phead].
    split; [exact I1|]. split.
    + intro Hp. destruct (I2 Hp) as (h & Hh & Hle & Hlt). exists h.
      destruct (app_prefix _ _ _ _ E L) as (x & ->). split; [apply parse_hdr_ext; exact Hh|]. split; [lia|exact Hlt].
    + rewrite E. intros h Hh. specialize (Bd h Hh). unfold ri_of in Bd. lia.
  - destruct A as (rb' & av' & sch' & -> & E & L & Bd & _). cbn [snd].
    destruct Hi as (I1 & I2 & I3). cbn [fst snd] in *. unfold ws_inv, ws_F. cbn [fst snd rbuf phead].
    split; [exact I1|]. split.
    + intro Hp. destruct (I2 Hp) as (h & Hh & Hle & Hlt). exists h.
      destruct (app_prefix _ _ _ _ E L) as (x & ->). split; [apply parse_hdr_ext; exact Hh|]. split; [lia|exact Hlt].
    + rewrite E. intros h Hh. specialize (Bd h Hh). unfold ri_of in Bd. lia.
  - destruct C as (h & rb' & av' & sch' & sent' & Hh & E & L & S & V & ->). cbn [snd].
    destruct (ri_of n w h =? f_plen h) eqn:Ed.
    + apply (inv_done n w h av' sch' sent').
    + apply Z.eqb_neq in Ed.
      destruct (chunk_bounds n w av sch Hn Hi h rb' av' Hh E L) as (B1 & B2 & _).
      apply (inv_more n w av sch Hn Hi h rb' av' sch' Hh E L sent'). lia.
Qed.

Lemma ws_recv_spec : recv_spec ws_recv ws_idle ws_stream ws_size ws_live ws_inv.
Proof.
  intros n [w [av sch]] Hn Hi.
  pose proof (ws_inv_ph_le _ _ _ Hi) as Hple. pose proof (proj1 Hi) as Hp0. cbn [fst] in Hp0.
  assert (X : forall res, outcome3 n w av sch res ->
     match res with
     | (RData d, t') =>
         ws_stream (w, (av, sch)) = d ++ ws_stream t' /\ (ws_size t' < ws_size (w, (av, sch)))%nat /\
         (ws_live (w, (av, sch)) = true -> d <> [] /\ ws_live t' = true) /\ Z.of_nat (length d) <= n
     | (RBlock, t') =>
         ws_stream t' = ws_stream (w, (av, sch)) /\
         ((ws_size t' < ws_size (w, (av, sch)))%nat \/ ws_idle t' = true) /\
         (ws_live (w, (av, sch)) = true -> ws_live t' = true)
     | (_, t') => ws_stream t' = ws_stream (w, (av, sch)) /\ ws_live (w, (av, sch)) = false
     end);
    [|apply X, (ws_recv_outcome n w av sch Hn (proj1 Hi) (fun h => ws_inv_plen w av sch h Hi))].
  intros res [B|[A|C]].
  - destruct B as (rb' & av' & sch' & -> & E & L & Bd & S & O & V).
    split; [unfold ws_stream, ws_F; cbn [fst snd rbuf phead]; rewrite E; reflexivity|]. split; [|exact V].
    destruct O as [O|O].
    + left. unfold ws_size, ws_F. cbn [fst snd rbuf phead]. rewrite E.
      pose proof (zlen_nonneg av). rewrite zlen_app. lia.
    + right. subst av'. reflexivity.
  - destruct A as (rb' & av' & sch' & -> & E & L & Bd & Hl).
    split; [unfold ws_stream, ws_F; cbn [fst snd rbuf phead]; rewrite E; reflexivity|exact Hl].
  - destruct C as (h & rb' & av' & sch' & sent' & Hh & E & L & S & V & ->).
    destruct (chunk_bounds n w av sch Hn Hi h rb' av' Hh E L) as (B1 & B2 & B3 & B4 & B5 & B6 & B7 & B8 & B9 & B10).
    destruct (chunk_body n w av sch Hn Hi h rb' av' Hh E L) as (C1 & C2 & C3 & C4).
    pose proof (stream_before w av sch h Hh) as Sb. cbv zeta in Sb.
    set (body := take (f_plen h) (drop (f_hlen h) (rbuf w ++ av))) in *.
    set (U := unmask_all h body) in *.
    set (ri := ri_of n w h) in *.
    destruct (is_data (f_op h) && (0 <? f_plen h)) eqn:Edata.
    + (* payload bytes are handed over *)
      assert (Hpos : 0 < f_plen h) by (apply andb_true_iff in Edata as [_ X]; lia).
      specialize (B10 Hpos).
      assert (Hsplit : drop (phead w) U = slice U (phead w) ri ++ drop ri U) by (apply drop_slice; lia).
      destruct (ri =? f_plen h) eqn:Ed.
      * apply Z.eqb_eq in Ed. specialize (C4 Ed).
        change (mkWs [] 0 (wconnected w) sent', (av', sch')) with (t_done w av' sch' sent').
        rewrite (stream_done n w av sch Hn Hi h rb' av' sch' Hh E L sent' Ed).
        replace (zlen body <? f_plen h) with false in Sb by (symmetry; apply Z.ltb_ge; lia).
        split.
        { rewrite Sb, Hsplit. rewrite (drop_all ri U) by lia. rewrite app_nil_r. reflexivity. }
        split; [apply (size_done n w av sch Hn Hi h rb' av' sch' Hh E L sent' Ed S)|].
        split.
        { intro Lv. split; [|apply V; exact Lv]. intro X. apply (f_equal zlen) in X.
          rewrite zlen_slice, zlen_nil in X by lia. lia. }
        change (zlen (slice U (phead w) ri) <= n). rewrite zlen_slice by lia. lia.
      * apply Z.eqb_neq in Ed.
        change (mkWs rb' ri (wconnected w) sent', (av', sch')) with (t_more n w h rb' av' sch' sent').
        pose proof (stream_more n w av h rb' av' sch' Hh E sent') as Sm. cbv zeta in Sm.
        fold body in Sm. fold U in Sm. fold ri in Sm. rewrite Edata in Sm.
        split.
        { rewrite Sb, Sm, Hsplit. destruct (zlen body <? f_plen h); [reflexivity|]. rewrite app_assoc. reflexivity. }
        split; [apply (size_more n w av sch Hn Hi h rb' av' sch' Hh E L sent' B10 S)|].
        split.
        { intro Lv. split; [|apply V; exact Lv]. intro X. apply (f_equal zlen) in X.
          rewrite zlen_slice, zlen_nil in X by lia. lia. }
        change (zlen (slice U (phead w) ri) <= n). rewrite zlen_slice by lia. lia.
    + (* a control / text / empty frame: skipped *)
      destruct (ri =? f_plen h) eqn:Ed.
      * apply Z.eqb_eq in Ed. specialize (C4 Ed).
        change (mkWs [] 0 (wconnected w) sent', (av', sch')) with (t_done w av' sch' sent').
        rewrite (stream_done n w av sch Hn Hi h rb' av' sch' Hh E L sent' Ed).
        replace (zlen body <? f_plen h) with false in Sb by (symmetry; apply Z.ltb_ge; lia).
        split; [rewrite Sb; reflexivity|]. split; [|exact V].
        left. apply (size_done n w av sch Hn Hi h rb' av' sch' Hh E L sent' Ed S).
      * apply Z.eqb_neq in Ed.
        change (mkWs rb' ri (wconnected w) sent', (av', sch')) with (t_more n w h rb' av' sch' sent').
        pose proof (stream_more n w av h rb' av' sch' Hh E sent') as Sm. cbv zeta in Sm.
        fold body in Sm. fold U in Sm. fold ri in Sm. rewrite Edata in Sm.
        split; [rewrite Sb, Sm; reflexivity|]. split; [|exact V].
        left. apply (size_more n w av sch Hn Hi h rb' av' sch' Hh E L sent'); [|exact S].
        assert (0 < f_plen h) by lia. apply B10; assumption.
Qed.

(* ------------------------------------------------------------------------------------------------ *)
(* the MQTT reader on top of the wrapper *)
Definition outcome_ws (x : list frame * status * rd * wst) : list frame * bool * rd * list Z :=
  let '(fs, st, r', t') := x in
  if is_proto st then (fs, true, r', ws_stream t')
  else (fs ++ fst (flush r'), false, snd (flush r'), ws_stream t').

Lemma ws_fuel_enough r t : ws_inv t -> (weight ws_size r t < ws_fuel t)%nat.
Proof.
  intros (I1 & _). destruct t as [w [av sch]]. unfold weight, ws_fuel, ws_size, ws_F. cbn [fst snd] in *.
  rewrite zlen_app. unfold zlen. destruct (complete r); lia.
Qed.

(* EVERY raw byte string, EVERY schedule on the underlying socket (chunks, would-block, EOF, reset): what the
   MQTT reader produces over the wrapper is the byte-at-a-time automaton run on a prefix of the concatenated
   unmasked payloads of the binary / continuation frames; the rest of those payload bytes is still pending *)
Theorem ws_read_refines_feed : forall raw sch,
  let t0 : wst := (ws_init, (raw, sch)) in
  let '(fs, st, r', t') := ws_run (ws_fuel t0) rd_init t0 in
  st <> StFuel /\ ws_inv t' /\
  exists c, ws_payloads raw = c ++ ws_stream t' /\
    (if is_proto st
     then feed rd_init c = (fs, true, r', [])
     else feed rd_init c = (fs ++ fst (flush r'), false, snd (flush r'), [])) /\
    (st = StIdle -> ws_idle t' = true) /\
    (st = StConnLost -> sched_live sch = false).
Proof.
  intros raw sch t0.
  pose proof (ws_inv_init raw sch) as Hi0. fold t0 in Hi0.
  pose proof (run_spec ws_recv ws_idle ws_stream ws_size ws_live ws_inv ws_recv_spec ws_recv_inv
                (ws_fuel t0) rd_init t0 Hi0 rd_ok_init) as H.
  pose proof (run_inv ws_recv ws_idle ws_inv ws_recv_inv (ws_fuel t0) rd_init t0 Hi0) as Hi'.
  unfold ws_run. destruct (run ws_recv ws_idle (ws_fuel t0) rd_init t0) as [[[fs st] r'] t']. cbn [snd] in Hi'.
  destruct H as (c & Hs & Hrel & Hidle & Hcl & Hfu).
  assert (Hnf : st <> StFuel).
  { intro E. specialize (Hfu E). pose proof (ws_fuel_enough rd_init t0 Hi0). lia. }
  split; [exact Hnf|]. split; [exact Hi'|].
  exists c. split; [exact Hs|]. split; [|split; [exact Hidle|exact Hcl]].
  change (snd (flush rd_init)) with rd_init in Hrel. change (fst (flush rd_init)) with (@nil frame) in Hrel.
  destruct st; cbn [is_proto run_rel] in *;
    try (destruct Hrel as (F & HF & HFl); change (fst (flush rd_init)) with (@nil frame) in HFl;
         cbn [app] in HFl; subst F; exact HF).
  exfalso; apply Hnf; reflexivity.
Qed.

(* ---- complete frames: nothing stays pending when the socket is drained ---- *)
Lemma frames_complete_fuel f1 : forall f2 F,
  (length F < f1)%nat -> (length F < f2)%nat -> frames_complete f1 F = frames_complete f2 F.
Proof.
  induction f1 as [|f1 IH]; intros f2 F H1 H2; [lia|].
  destruct f2 as [|f2]; [lia|]. cbn [frames_complete].
  destruct F as [|x F']; [reflexivity|]. set (F := x :: F') in *.
  destruct (parse_hdr F) as [h|] eqn:E; [|reflexivity].
  destruct (zlen F <? f_hlen h + f_plen h); [reflexivity|].
  pose proof (length_drop_frame F h E). apply IH; lia.
Qed.

Lemma frames_complete_step F h :
  F <> [] -> parse_hdr F = Some h -> frames_complete (S (length F)) F = true ->
  f_hlen h + f_plen h <= zlen F /\
  frames_complete (S (length (drop (f_hlen h + f_plen h) F))) (drop (f_hlen h + f_plen h) F) = true.
Proof.
  intros Hne Hh H. cbn [frames_complete] in H. destruct F as [|x F']; [congruence|]. set (F := x :: F') in *.
  rewrite Hh in H. destruct (zlen F <? f_hlen h + f_plen h) eqn:E; [discriminate|].
  split; [lia|]. pose proof (length_drop_frame F h Hh).
  rewrite <- H. apply frames_complete_fuel; lia.
Qed.

Definition ws_inv_c (t : wst) : Prop :=
  ws_inv t /\ frames_complete (S (length (ws_F t))) (ws_F t) = true.

Lemma ws_recv_inv_c : recv_inv ws_recv ws_inv_c.
Proof.
  intros n [w [av sch]] Hn [Hi Hc]. split; [apply ws_recv_inv; assumption|].
  assert (X : forall res, outcome3 n w av sch res ->
              frames_complete (S (length (ws_F (snd res)))) (ws_F (snd res)) = true);
    [|apply X, (ws_recv_outcome n w av sch Hn (proj1 Hi) (fun h => ws_inv_plen w av sch h Hi))].
  unfold ws_F in Hc. cbn [fst snd] in Hc.
  intros res [B|[A|C]].
  - destruct B as (rb' & av' & sch' & -> & E & _). unfold ws_F. cbn [fst snd rbuf]. rewrite E. exact Hc.
  - destruct A as (rb' & av' & sch' & -> & E & _). unfold ws_F. cbn [fst snd rbuf]. rewrite E. exact Hc.
  - destruct C as (h & rb' & av' & sch' & sent' & Hh & E & L & S & V & ->).
    unfold ws_F. cbn [fst snd rbuf].
    destruct (ri_of n w h =? f_plen h) eqn:Ed.
    + apply Z.eqb_eq in Ed. cbn [app]. rewrite (done_av n w av sch Hn Hi h rb' av' Hh E L Ed).
      apply frames_complete_step; [|exact Hh|exact Hc].
      intro X. rewrite X in Hh. discriminate.
    + rewrite E. exact Hc.
Qed.

Lemma ws_recv_spec_c : recv_spec ws_recv ws_idle ws_stream ws_size ws_live ws_inv_c.
Proof. intros n t Hn [Hi _]. apply ws_recv_spec; assumption. Qed.

Lemma frames_complete_nonempty F :
  F <> [] -> frames_complete (S (length F)) F = true ->
  exists h, parse_hdr F = Some h /\ f_hlen h + f_plen h <= zlen F.
Proof.
  intros Hne H. cbn [frames_complete] in H. destruct F as [|x F']; [congruence|]. set (F := x :: F') in *.
  destruct (parse_hdr F) as [h|]; [|discriminate]. exists h. split; [reflexivity|].
  destruct (zlen F <? f_hlen h + f_plen h) eqn:E; [discriminate|]. lia.
Qed.

Lemma idle_complete_nothing_pending t :
  ws_inv_c t -> ws_idle t = true -> ws_stream t = [].
Proof.
  intros [(I1 & I2 & I3) Hc] Hidle. destruct t as [w [av sch]]. unfold ws_idle in Hidle. cbn [fst snd] in *.
  apply sock_idle_nil in Hidle. cbn [fst] in Hidle. subst av.
  unfold ws_stream, ws_F in *. cbn [fst snd] in *. rewrite app_nil_r in *.
  destruct (rbuf w) as [|x rb] eqn:Erb; [reflexivity|]. rewrite <- Erb in *.
  assert (Hne : rbuf w <> []) by (rewrite Erb; discriminate).
  destruct (frames_complete_nonempty _ Hne Hc) as (h & Hh & Hle).
  specialize (I3 h Hh). lia.
Qed.

(* THE WebSocket theorem: a raw stream made of complete frames (any opcodes, masked or not, 7/16/64-bit lengths,
   empty frames, boundaries anywhere), any chunk / would-block schedule on the underlying socket: the MQTT
   reader's outcome is the byte-at-a-time automaton's on the concatenated unmasked data payloads *)
Theorem ws_refines : forall raw sch,
  ws_complete raw = true -> sched_live sch = true ->
  let t0 : wst := (ws_init, (raw, sch)) in
  outcome_ws (ws_run (ws_fuel t0) rd_init t0) = feed rd_init (ws_payloads raw).
Proof.
  intros raw sch Hc Hl t0.
  assert (Hi0 : ws_inv_c t0) by (split; [apply ws_inv_init|exact Hc]).
  pose proof (run_spec ws_recv ws_idle ws_stream ws_size ws_live ws_inv_c ws_recv_spec_c ws_recv_inv_c
                (ws_fuel t0) rd_init t0 Hi0 rd_ok_init) as H.
  pose proof (run_inv ws_recv ws_idle ws_inv_c ws_recv_inv_c (ws_fuel t0) rd_init t0 Hi0) as Hi'.
  unfold ws_run. destruct (run ws_recv ws_idle (ws_fuel t0) rd_init t0) as [[[fs st] r'] t']. cbn [snd] in Hi'.
  destruct H as (c & Hs & Hrel & Hidle & Hcl & Hfu).
  change (ws_stream t0) with (ws_payloads raw) in Hs.
  unfold outcome_ws. destruct st; cbn [is_proto run_rel] in *.
  - destruct Hrel as (F & HF & HFl). change (fst (flush rd_init)) with (@nil frame) in HFl. cbn [app] in HFl. subst F.
    change (snd (flush rd_init)) with rd_init in HF.
    rewrite (idle_complete_nothing_pending t' Hi' (Hidle eq_refl)) in *. rewrite app_nil_r in Hs. rewrite Hs.
    symmetry. exact HF.
  - specialize (Hcl eq_refl). unfold ws_live, t0 in Hcl. cbn [snd] in Hcl. congruence.
  - destruct Hrel as (F & HF & HFl). change (fst (flush rd_init)) with (@nil frame) in HFl. cbn [app] in HFl. subst F.
    change (snd (flush rd_init)) with rd_init in HF. rewrite Hs. symmetry. apply feed_err_app. exact HF.
  - exfalso. specialize (Hfu eq_refl). pose proof (ws_fuel_enough rd_init t0 (proj1 Hi0)). lia.
Qed.

(* the same MQTT bytes over a raw socket and over any WebSocket framing, under any two schedules *)
Corollary ws_same_as_raw : forall raw sch sch',
  ws_complete raw = true -> sched_live sch = true -> sock_live (ws_payloads raw, sch') = true ->
  let t0 : wst := (ws_init, (raw, sch)) in
  outcome_ws (ws_run (ws_fuel t0) rd_init t0) =
  outcome (sock_run (sock_fuel (ws_payloads raw, sch')) rd_init (ws_payloads raw, sch')).
Proof.
  intros raw sch sch' Hc Hl Hl' t0. pose proof (ws_refines raw sch Hc Hl) as X. cbv zeta in X. subst t0.
  rewrite X. symmetry. apply read_total. assumption.
Qed.

(* two framings of the same payload bytes, two schedules: the same outcome *)
Corollary ws_frame_independent : forall raw1 raw2 sch1 sch2,
  ws_complete raw1 = true -> ws_complete raw2 = true -> sched_live sch1 = true -> sched_live sch2 = true ->
  ws_payloads raw1 = ws_payloads raw2 ->
  outcome_ws (ws_run (ws_fuel (ws_init, (raw1, sch1))) rd_init (ws_init, (raw1, sch1))) =
  outcome_ws (ws_run (ws_fuel (ws_init, (raw2, sch2))) rd_init (ws_init, (raw2, sch2))).
Proof.
  intros raw1 raw2 sch1 sch2 Hc1 Hc2 Hl1 Hl2 He.
  pose proof (ws_refines raw1 sch1 Hc1 Hl1) as X1. pose proof (ws_refines raw2 sch2 Hc2 Hl2) as X2.
  cbv zeta in X1, X2. rewrite X1, X2, He. reflexivity.
Qed.
