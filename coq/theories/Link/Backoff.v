(* M3 / C09: loop_forever() with automatic reconnection and exponential back-off.
   Small-step machine over the program points of client.py loop_forever (2260-2336), one step of
   the inner loop being one _loop() (1637-1707), with _reconnect_wait (4536-4556), reconnect
   (1546-1604: state := CONNECTING *before* _create_socket), _loop_rc_handle (3042-3059),
   _handle_connack (delay reset on every accepting CONNACK, CONNECTED unless already DISCONNECTING,
   protocol downgrade with its nested reconnect()),
   disconnect (1873-1892), the DISCONNECT branch of _packet_write (3229-3243).
   Driven by a script of per-attempt outcomes.  Keepalive matters only for the losses LSilent / LWriteErr
   (C08 is separate), client id non-empty, no QoS>0 traffic (the correspondence also runs the
   implementation WITH stored QoS 1 messages: they must not change a delay).  Model only, no proofs.

   Things of the source kept on purpose:
   * reconnect() sets _state = CONNECTING before the socket is created; after a refused FIRST attempt
     with retry_first_connection the first loop of loop_forever puts the state back to CONNECT_ASYNC
     (unless on_connect_fail changed it) and so retries itself after ONE _reconnect_wait()
     [before fix 6a826ba it was left and the main loop waited a second time];
   * the nested reconnect() of the protocol downgrade runs inside _loop(); its OSError is caught in
     _handle_connack and becomes MQTT_ERR_CONN_LOST without any callback [before fix d2253bf it left
     loop_forever];
   * _loop_rc_handle turns every error into rc 0 when the state is DISCONNECTING/DISCONNECTED;
   * `_thread_terminate` turns the loop result into MQTT_ERR_NOMEM (1) once the out queue is empty;
   * _reconnect_wait updates the delay even when it does not sleep at all. *)
From PahoV Require Import Base.Prelude.

Inductive refusal := RfIdentifier | RfUnavailable | RfBadAuth | RfNotAuthorised.   (* CONNACK rc 2..5 *)
Definition refusal_code (r : refusal) : Z :=
  match r with RfIdentifier => 2 | RfUnavailable => 3 | RfBadAuth => 4 | RfNotAuthorised => 5 end.

(* how an accepted connection is lost *)
Inductive loss :=
| LEof           (* the broker closes lost_after later: recv returns b"" -> _loop_rc_handle(CONN_LOST) *)
| LRecvErr       (* recv raises (connection reset) lost_after later: same path *)
| LSilent        (* the broker goes silent: PINGREQ at +K, keepalive expiry at +2K in _check_keepalive (no _loop_rc_handle):
                    on_disconnect(KEEPALIVE), loop_misc returns CONN_LOST *)
| LWriteErr      (* the first write after CONNECT fails: the PINGREQ at +K -> loop_write -> _loop_rc_handle(CONN_LOST) *)
| LServerDisc.   (* the broker sends DISCONNECT lost_after later: MQTT 5 _handle_disconnect (no _loop_rc_handle,
                    on_disconnect, loop result 0); protocol error on an MQTT 3.1.1 client *)

Inductive outcome :=
| Refused                          (* _create_socket raises OSError *)
| ClosedBeforeConnack              (* TCP accepted, EOF before any CONNACK *)
| ConnackRefused (r : refusal)
| Accepted (lost_after : Z) (how : loss)
                                   (* CONNACK rc 0 (the back-off is reset there); then the connection is lost:
                                      how/when see [loss] and [lost_time] *)
| Downgrade.                       (* CONNACK rc 1 (unacceptable protocol version) *)

Inductive place :=
| PConnectFail | PConnect | PDisconnect
| PMessage (after : Z)             (* on_message of a PUBLISH the broker sends `after` the CONNACK *)
| PWait (chunk : Z).               (* during the chunk-th one-second sleep of _reconnect_wait *)
Inductive akind := ADisconnect | AStop.        (* disconnect()  |  _thread_terminate := True *)
Record action := mkact { a_attempt : Z; a_place : place; a_kind : akind }.

Record config := mkcfg {
  c_min : Z; c_max : Z; c_retry_first : bool; c_rof : bool; c_act : option action;
  c_keepalive : Z;          (* > 0 when the script uses LSilent / LWriteErr *)
  c_v5 : bool }.            (* MQTT 5 client (server DISCONNECT understood; harness: no CONNACK refusals then) *)

(* time from the CONNACK to the loss *)
Definition lost_time (cfg : config) (lost_after : Z) (how : loss) : Z :=
  match how with
  | LSilent => 2 * Z.max 1 (c_keepalive cfg)
  | LWriteErr => Z.max 1 (c_keepalive cfg)
  | _ => lost_after
  end.

Inductive bcs := BAsync | BConnecting | BConnected | BLost | BDisconnecting | BDisconnected.
Inductive sockst :=
| NoSock
| Pending (o : outcome)                       (* CONNECT written, the broker's reaction is readable *)
| Up (lost_at : Z) (how : loss) (msg_at : option Z).   (* connected; lost at lost_at, a PUBLISH at msg_at *)

Inductive ret := RRet (rc : Z) | RRaise | REnd.     (* returned rc | OSError escaped | script exhausted *)
Inductive pc := PcFirst | PcInner | PcAfterInner (rc : Z) | PcAfterWait (rc : Z) | PcDone (r : ret).

Inductive bev :=
| EvAttempt (t : Z) (immediate : bool)        (* _create_socket called *)
| EvFail (t : Z)                              (* attempt failed / connection lost, noticed at t *)
| EvFirstFail (t : Z)                         (* the same inside the first-connection loop of loop_forever
                                                 (retried by that loop, whatever reconnect_on_failure says) *)
| EvAccepted (t : Z)
| EvDowngrade (t : Z)
| EvWait (t delay slept : Z)                  (* one _reconnect_wait call *)
| EvCb (t : Z) (p : place) (rc : Z)
| EvAct (t : Z) (k : akind).

Record bst := mkb {
  b_now : Z; b_delay : option Z; b_cs : bcs; b_sock : sockst; b_p311 : bool; b_term : bool;
  b_outq : bool; b_script : list outcome; b_n : Z; b_acted : bool }.

Definition set_now v s := mkb v (b_delay s) (b_cs s) (b_sock s) (b_p311 s) (b_term s) (b_outq s) (b_script s) (b_n s) (b_acted s).
Definition set_delay v s := mkb (b_now s) v (b_cs s) (b_sock s) (b_p311 s) (b_term s) (b_outq s) (b_script s) (b_n s) (b_acted s).
Definition set_cs v s := mkb (b_now s) (b_delay s) v (b_sock s) (b_p311 s) (b_term s) (b_outq s) (b_script s) (b_n s) (b_acted s).
Definition set_sock v s := mkb (b_now s) (b_delay s) (b_cs s) v (b_p311 s) (b_term s) (b_outq s) (b_script s) (b_n s) (b_acted s).
Definition set_p311 v s := mkb (b_now s) (b_delay s) (b_cs s) (b_sock s) v (b_term s) (b_outq s) (b_script s) (b_n s) (b_acted s).
Definition set_term v s := mkb (b_now s) (b_delay s) (b_cs s) (b_sock s) (b_p311 s) v (b_outq s) (b_script s) (b_n s) (b_acted s).
Definition set_outq v s := mkb (b_now s) (b_delay s) (b_cs s) (b_sock s) (b_p311 s) (b_term s) v (b_script s) (b_n s) (b_acted s).
Definition set_script v s := mkb (b_now s) (b_delay s) (b_cs s) (b_sock s) (b_p311 s) (b_term s) (b_outq s) v (b_n s) (b_acted s).
Definition set_n v s := mkb (b_now s) (b_delay s) (b_cs s) (b_sock s) (b_p311 s) (b_term s) (b_outq s) (b_script s) v (b_acted s).
Definition set_acted v s := mkb (b_now s) (b_delay s) (b_cs s) (b_sock s) (b_p311 s) (b_term s) (b_outq s) (b_script s) (b_n s) v.

(* connect_async() at time t0 on an MQTT 3.1.1 client *)
Definition binit (t0 : Z) (script : list outcome) : bst :=
  mkb t0 None BAsync NoSock true false false script 0 false.

Definition disc_like (c : bcs) : bool :=
  match c with BDisconnecting | BDisconnected => true | _ => false end.
Definition is_async (c : bcs) : bool := match c with BAsync => true | _ => false end.
Definition should_exit (s : bst) : bool := disc_like (b_cs s) || b_term s.

Definition place_eqb (a b : place) : bool :=
  match a, b with
  | PConnectFail, PConnectFail | PConnect, PConnect | PDisconnect, PDisconnect => true
  | PMessage _, PMessage _ => true
  | PWait x, PWait y => x =? y
  | _, _ => false
  end.

(* the application's single action, if it is due at this place of the current attempt *)
Definition wants (cfg : config) (s : bst) (pl : place) : option akind :=
  if b_acted s then None
  else match c_act cfg with
       | Some a => if (a_attempt a =? b_n s - 1) && place_eqb (a_place a) pl then Some (a_kind a) else None
       | None => None
       end.

(* disconnect(): no socket -> DISCONNECTED; else DISCONNECTING and a DISCONNECT is queued (inside a
   callback it is not written before the next _loop()) *)
Definition apply_act (k : akind) (s : bst) : bst :=
  set_acted true
    match k with
    | ADisconnect =>
        match b_sock s with
        | NoSock => set_cs BDisconnected s
        | _ => set_outq true (set_cs BDisconnecting s)
        end
    | AStop => set_term true s
    end.

Definition callback (cfg : config) (pl : place) (rc : Z) (s : bst) : bst * list bev :=
  match wants cfg s pl with
  | Some k => (apply_act k s, [EvCb (b_now s) pl rc; EvAct (b_now s) k])
  | None => (s, [EvCb (b_now s) pl rc])
  end.

(* ---- _reconnect_wait *)
Definition next_delay (cfg : config) (d : option Z) : Z :=
  match d with None => c_min cfg | Some x => Z.min (x * 2) (c_max cfg) end.

Definition wants_wait (cfg : config) (s : bst) (d : Z) : option (Z * akind) :=
  if b_acted s then None
  else match c_act cfg with
       | Some a =>
           match a_place a with
           | PWait j => if (a_attempt a =? b_n s - 1) && (1 <=? j) && (j <=? d) then Some (j, a_kind a) else None
           | _ => None
           end
       | None => None
       end.

Definition reconnect_wait (cfg : config) (s : bst) : bst * list bev :=
  let d := next_delay cfg (b_delay s) in
  let s1 := set_delay (Some d) s in
  let t := b_now s in
  if should_exit s1 then (s1, [EvWait t d 0])
  else match wants_wait cfg s1 d with
       | Some (j, k) => (apply_act k (set_now (t + j) s1), [EvWait t d j; EvAct (t + j) k])
       | None => (set_now (t + Z.max 0 d) s1, [EvWait t d (Z.max 0 d)])
       end.

(* ---- reconnect() up to and including _create_socket / _send_connect *)
Inductive rcres := RcOk (s : bst) (e : list bev) | RcFail (s : bst) (e : list bev) | RcEnd (s : bst) (e : list bev).
Definition do_reconnect (imm : bool) (s : bst) : rcres :=
  let s1 := set_n (b_n s + 1) (set_outq false (set_sock NoSock (set_cs BConnecting s))) in
  let e := [EvAttempt (b_now s) imm] in
  match b_script s with
  | [] => RcEnd s1 e
  | Refused :: r => RcFail (set_script r s1) e
  | o :: r => RcOk (set_sock (Pending o) (set_script r s1)) e
  end.

(* ---- one _loop() *)
Inductive lres := LRet (rc : Z) (s : bst) (e : list bev) | LRaise (s : bst) (e : list bev) | LEnd (s : bst) (e : list bev).

(* _loop_rc_handle(rc), rc <> 0 *)
Definition rc_handle (cfg : config) (rc : Z) (s : bst) : Z * bst * list bev :=
  let s1 := set_sock NoSock s in
  let rc' := if disc_like (b_cs s1) then 0 else rc in
  let s2 := if disc_like (b_cs s1) then set_cs BDisconnected s1 else set_cs BLost s1 in
  let (s3, e) := callback cfg PDisconnect rc' s2 in
  (rc', s3, e).

Definition failed (cfg : config) (rc : Z) (s : bst) : lres :=
  let '(rc', s1, e) := rc_handle cfg rc s in LRet rc' s1 (EvFail (b_now s) :: e).

(* DISCONNECT leaves the queue: on_disconnect(0), then the socket is closed *)
Definition write_disconnect (cfg : config) (s : bst) : bst * list bev :=
  let (s1, e) := callback cfg PDisconnect 0 (set_outq false s) in
  let s2 := set_sock NoSock s1 in
  ((match b_cs s2 with BDisconnecting => set_cs BDisconnected s2 | _ => s2 end), e).

Definition msg_time (cfg : config) (s : bst) (lost_after : Z) : option Z :=
  match c_act cfg with
  | Some a =>
      match a_place a with
      | PMessage m => if (a_attempt a =? b_n s - 1) && (0 <=? m) && (m <? lost_after) then Some (b_now s + m) else None
      | _ => None
      end
  | None => None
  end.

Definition refused_connack (cfg : config) (code : Z) (s : bst) : lres :=
  let (s1, e1) := callback cfg PConnect code s in
  match failed cfg 5 s1 with
  | LRet rc s2 e2 => LRet rc s2 (e1 ++ e2)
  | other => other
  end.

Definition read_pending (cfg : config) (o : outcome) (s : bst) : lres :=
  match o with
  | Refused | ClosedBeforeConnack => failed cfg 7 s
  | ConnackRefused r => refused_connack cfg (refusal_code r) s
  | Accepted t0 how =>
      let t := lost_time cfg t0 how in
      (* _handle_connack: CONNECTED unless disconnect() came first; the delay is reset in any case *)
      let s1 := set_delay None (match b_cs s with BDisconnecting => s | _ => set_cs BConnected s end) in
      let (s2, e) := callback cfg PConnect 0 s1 in
      LRet 0 (set_sock (Up (b_now s + t) how (msg_time cfg s t)) s2) (EvAccepted (b_now s) :: e)
  | Downgrade =>
      if b_p311 s then
        if c_rof cfg then
          match do_reconnect true (set_p311 false s) with
          | RcOk s1 e => LRet 0 s1 (EvDowngrade (b_now s) :: e)
          | RcFail s1 e =>
              (* the OSError is caught in _handle_connack: MQTT_ERR_CONN_LOST; loop_read sees that the
                 socket was replaced and returns it without _loop_rc_handle (no callback, state CONNECTING) *)
              LRet 7 s1 (EvDowngrade (b_now s) :: e ++ [EvFail (b_now s)])
          | RcEnd s1 e => LEnd s1 (EvDowngrade (b_now s) :: e)
          end
        else failed cfg 2 s
      else refused_connack cfg 1 s
  end.

(* the loss of an established connection: all are "socket closed, state LOST (DISCONNECTED after disconnect()),
   on_disconnect"; they differ in the reported code and in the result of that _loop() *)
Definition lose (cfg : config) (how : loss) (s : bst) : lres :=
  match how with
  | LEof | LRecvErr => failed cfg 7 s
  | LWriteErr => failed cfg 7 (set_outq true s)        (* the unwritten PINGREQ stays in _out_packet *)
  | LSilent => match failed cfg 16 s with LRet _ s1 e => LRet 7 s1 e | other => other end
  | LServerDisc =>
      if c_v5 cfg then match failed cfg 0 s with LRet _ s1 e => LRet 0 s1 e | other => other end
      else failed cfg 2 s
  end.

Definition loop_up (cfg : config) (lost_at : Z) (how : loss) (msg : option Z) (s0 : bst) : lres :=
  let w := b_outq s0 in
  let due := (lost_at <=? b_now s0) || match msg with Some m => m <=? b_now s0 | None => false end in
  (* nothing readable or writable: select() sleeps (possibly over several time-outs) until the next event *)
  let te := match msg with Some m => Z.min m lost_at | None => lost_at end in
  let s := if due || w then s0 else set_now (Z.max (b_now s0) te) s0 in
  match msg with
  | Some m =>
      if m <=? b_now s then
        let (s1, e1) := callback cfg (PMessage 0) 0 (set_sock (Up lost_at how None) s) in
        if w then let (s2, e2) := write_disconnect cfg s1 in LRet 0 s2 (e1 ++ e2) else LRet 0 s1 e1
      else if lost_at <=? b_now s then lose cfg how s
      else let (s2, e2) := write_disconnect cfg s in LRet 0 s2 e2
  | None =>
      if lost_at <=? b_now s then lose cfg how s
      else let (s2, e2) := write_disconnect cfg s in LRet 0 s2 e2
  end.

Definition loop_once (cfg : config) (s : bst) : lres :=
  match b_sock s with
  | NoSock =>        (* select() raises TypeError *)
      LRet 7 (if disc_like (b_cs s) then s else set_cs BLost s) []
  | Pending o => read_pending cfg o s
  | Up lost_at how msg => loop_up cfg lost_at how msg s
  end.

Definition step (cfg : config) (p : pc) (s : bst) : list bev * pc * bst :=
  match p with
  | PcFirst =>
      if b_term s then ([], PcInner, s)
      else if is_async (b_cs s) then
        match do_reconnect false s with
        | RcOk s1 e => (e, PcFirst, s1)
        | RcEnd s1 e => (e, PcDone REnd, s1)
        | RcFail s1 e0 =>
            let e := e0 ++ [EvFirstFail (b_now s)] in
            let (s2, e2) := callback cfg PConnectFail 0 s1 in
            if c_retry_first cfg
            then
              (* stay in the first-connection loop: reconnect() left the state at CONNECTING; it is put
                 back to CONNECT_ASYNC unless on_connect_fail changed it (disconnect()) *)
              let s2' := match b_cs s2 with BConnecting => set_cs BAsync s2 | _ => s2 end in
              let (s3, e3) := reconnect_wait cfg s2' in (e ++ e2 ++ e3, PcFirst, s3)
            else (e ++ e2, PcDone RRaise, s2)
        end
      else ([], PcInner, s)
  | PcInner =>
      match loop_once cfg s with
      | LRet rc s1 e =>
          let rc' := if b_term s1 && negb (b_outq s1) then 1 else rc in
          (e, if rc' =? 0 then PcInner else PcAfterInner rc', s1)
      | LRaise s1 e => (e, PcDone RRaise, s1)
      | LEnd s1 e => (e, PcDone REnd, s1)
      end
  | PcAfterInner rc =>
      if should_exit s || negb (c_rof cfg) then ([], PcDone (RRet rc), s)
      else let (s1, e) := reconnect_wait cfg s in (e, PcAfterWait rc, s1)
  | PcAfterWait rc =>
      if should_exit s then ([], PcDone (RRet rc), s)
      else match do_reconnect false s with
           | RcOk s1 e => (e, PcInner, s1)
           | RcEnd s1 e => (e, PcDone REnd, s1)
           | RcFail s1 e => let (s2, e2) := callback cfg PConnectFail 0 s1 in
                            (e ++ EvFail (b_now s) :: e2, PcInner, s2)
           end
  | PcDone _ => ([], p, s)
  end.

Definition is_done (p : pc) : bool := match p with PcDone _ => true | _ => false end.

Fixpoint run (fuel : nat) (cfg : config) (p : pc) (s : bst) : list bev * (pc * bst) :=
  match fuel with
  | O => ([], (p, s))
  | S f =>
      if is_done p then ([], (p, s))
      else let '(e, p1, s1) := step cfg p s in
           let (e2, fin) := run f cfg p1 s1 in (e ++ e2, fin)
  end.

(* enough fuel for any script: every step decreases  8 * |script| + (a local rank below 8), see
   BackoffProofs.run_script_done *)
Definition fuel_for (script : list outcome) : nat := 8 * length script + 9.

Definition run_script (cfg : config) (t0 : Z) (script : list outcome) : list bev * (pc * bst) :=
  run (fuel_for script) cfg PcFirst (binit t0 script).

(* ---- statements' vocabulary *)

Definition delay_at (mn mx : Z) (i : nat) : Z := Z.min (mn * 2 ^ Z.of_nat i) mx.

(* C09.1 literal: the gap between a failure/loss noticed at tf and the next (non-immediate)
   attempt is delay_at i, i = number of such retries since the last accepted CONNACK (or start);
   the immediate downgrade attempt happens at the time of the refusing CONNACK and is not counted *)
Record gst := mkg { g_i : nat; g_pend : option Z; g_dg : option Z }.
Definition gaps_step (mn mx : Z) (g : gst) (e : bev) : option gst :=
  match e with
  | EvFail t | EvFirstFail t => Some (mkg (g_i g) (Some t) None)
  | EvAccepted _ => Some (mkg 0%nat (g_pend g) None)
  | EvDowngrade t => Some (mkg (g_i g) (g_pend g) (Some t))
  | EvAttempt t true =>
      match g_dg g with
      | Some t' => if t =? t' then Some (mkg (g_i g) (g_pend g) None) else None
      | None => None
      end
  | EvAttempt t false =>
      match g_pend g with
      | None => Some g
      | Some tf => if t - tf =? delay_at mn mx (g_i g) then Some (mkg (S (g_i g)) None None) else None
      end
  | _ => Some g
  end.
Fixpoint chk {C} (f : C -> bev -> option C) (c : C) (l : list bev) : option C :=
  match l with
  | [] => Some c
  | e :: r => match f c e with Some c' => chk f c' r | None => None end
  end.
Definition gaps_ok (mn mx : Z) (tr : list bev) : bool :=
  match chk (gaps_step mn mx) (mkg 0%nat None None) tr with Some _ => true | None => false end.

(* C09.1 as the code does it: every _reconnect_wait picks delay_at j, j = number of waits since the
   last accepted CONNACK (or start); a retry happens exactly when the waits since the failure have
   been slept in full, and there is at least one of them (so never sooner than min_delay) *)
Record wst := mkw { w_j : nat; w_pend : option (Z * Z * nat) }.     (* (tf, total delay, waits) *)
Definition waits_step (mn mx : Z) (w : wst) (e : bev) : option wst :=
  match e with
  | EvFail t | EvFirstFail t => Some (mkw (w_j w) (Some (t, 0, 0%nat)))
  | EvAccepted _ => Some (mkw 0%nat (w_pend w))
  | EvWait t d slept =>
      if (d =? delay_at mn mx (w_j w)) && (mn <=? d) then
        Some (mkw (S (w_j w))
                  match w_pend w with
                  | Some (tf, tot, n) => if slept =? d then Some (tf, tot + d, S n) else None
                  | None => None
                  end)
      else None
  | EvAttempt t false =>
      match w_pend w with
      | None => Some w
      | Some (tf, tot, n) => if (t =? tf + tot) && (1 <=? Z.of_nat n) then Some (mkw (w_j w) None) else None
      end
  | _ => Some w
  end.
Definition waits_ok (mn mx : Z) (tr : list bev) : bool :=
  match chk (waits_step mn mx) (mkw 0%nat None) tr with Some _ => true | None => false end.

(* C09.3: once the application acted, or after the first failure / loss with reconnect_on_failure off
   (failures of the first-connection loop are governed by retry_first_connection instead), no
   connection attempt follows *)
Definition final_step (rof : bool) (stopped : bool) (e : bev) : option bool :=
  match e with
  | EvAct _ _ => Some true
  | EvFail _ => Some (stopped || negb rof)
  | EvAttempt _ _ => if stopped then None else Some stopped
  | _ => Some stopped
  end.
Definition final_ok (rof : bool) (tr : list bev) : bool :=
  match chk (final_step rof) false tr with Some _ => true | None => false end.

Definition has_act (tr : list bev) : bool :=
  existsb (fun e => match e with EvAct _ _ => true | _ => false end) tr.
Definition first_is_refused (script : list outcome) : bool :=
  match script with Refused :: _ => true | _ => false end.
(* the first CONNACK rc 1 of the script is directly followed by a refused TCP connect *)
Fixpoint downgrade_then_refused (script : list outcome) : bool :=
  match script with
  | Downgrade :: Refused :: _ => true
  | Downgrade :: _ => false
  | _ :: r => downgrade_then_refused r
  | [] => false
  end.

(* ---- correspondence entry:
   [t0; min; max; retry_first; rof; keepalive; v5; act_attempt (-1 none); act_place; act_arg; act_kind; outcome ...]
   places 0 connect_fail 1 connect 2 disconnect 3 message(arg) 4 wait(arg); kinds 0 disconnect 1 stop
   outcomes: 0 refused | 1 closed | 2 rc (2..5) | 3 lost_after (EOF) | 4 downgrade | 5 lost_after (recv error)
             | 6 silent (keepalive expiry) | 7 write error at the first PINGREQ | 8 lost_after (server DISCONNECT)
   result: events (code t a b) ... then  -1 ret rc  (ret: 0 returned rc, 1 OSError, 2 script end) *)
Definition refusal_of_Z (z : Z) : refusal :=
  if z =? 2 then RfIdentifier else if z =? 3 then RfUnavailable else if z =? 4 then RfBadAuth else RfNotAuthorised.
Fixpoint decode_script (fuel : nat) (l : list Z) : list outcome :=
  match fuel with
  | O => []
  | S f =>
      match l with
      | 0 :: r => Refused :: decode_script f r
      | 1 :: r => ClosedBeforeConnack :: decode_script f r
      | 2 :: c :: r => ConnackRefused (refusal_of_Z c) :: decode_script f r
      | 3 :: t :: r => Accepted t LEof :: decode_script f r
      | 5 :: t :: r => Accepted t LRecvErr :: decode_script f r
      | 6 :: r => Accepted 0 LSilent :: decode_script f r
      | 7 :: r => Accepted 0 LWriteErr :: decode_script f r
      | 8 :: t :: r => Accepted t LServerDisc :: decode_script f r
      | 4 :: r => Downgrade :: decode_script f r
      | _ => []
      end
  end.
Definition place_of_Z (p a : Z) : place :=
  if p =? 0 then PConnectFail else if p =? 1 then PConnect else if p =? 2 then PDisconnect
  else if p =? 3 then PMessage a else PWait a.
Definition Z_of_place (p : place) : Z :=
  match p with PConnectFail => 0 | PConnect => 1 | PDisconnect => 2 | PMessage _ => 3 | PWait _ => 4 end.
Definition encode_bev (e : bev) : list Z :=
  match e with
  | EvAttempt t imm => [0; t; if imm then 1 else 0; 0]
  | EvFail t => [1; t; 0; 0]
  | EvFirstFail t => [7; t; 0; 0]
  | EvAccepted t => [2; t; 0; 0]
  | EvDowngrade t => [3; t; 0; 0]
  | EvWait t d sl => [4; t; d; sl]
  | EvCb t p rc => [5; t; Z_of_place p; rc]
  | EvAct t k => [6; t; match k with ADisconnect => 0 | AStop => 1 end; 0]
  end.
Definition entry_backoff (args : list Z) : list Z :=
  match args with
  | t0 :: mn :: mx :: rf :: rof :: ka :: v5 :: aa :: ap :: ag :: ak :: r =>
      let script := decode_script (length r) r in
      let act := if aa <? 0 then None
                 else Some (mkact aa (place_of_Z ap ag) (if ak =? 0 then ADisconnect else AStop)) in
      let cfg := mkcfg mn mx (negb (rf =? 0)) (negb (rof =? 0)) act ka (negb (v5 =? 0)) in
      let '(tr, (p, s)) := run_script cfg t0 script in
      flat_map encode_bev tr ++
      match p with
      | PcDone (RRet rc) => [-1; 0; rc]
      | PcDone RRaise => [-1; 1; 0]
      | PcDone REnd => [-1; 2; 0]
      | _ => [-1; 3; 0]       (* out of fuel: excluded by run_script_done *)
      end
  | _ => []
  end.
