(* C16 over the Conn model: with on_socket_open/on_socket_close installed, and reconnect() not called
   from inside on_socket_close / on_socket_unregister_write, the socket callbacks are well nested and,
   in external-loop mode, no write wake-up is lost.  All operation lists, nested scripts of any
   length and depth (API calls from inside every callback, including reconnect()). *)
From PahoV Require Import Base.Prelude Link.Conn Link.ConnCheck Link.ConnInv Link.ConnStatements.

(* ---- the three checkers run side by side ---- *)
Record k16 := mkK16 { a4 : k4; a5 : k5; a6 : k6 }.
(* the third checker is followed in external-loop mode only (its theorem is stated for that mode) *)
Definition k6p_ev (ext : bool) (k : k6) (e : event) : k6 := if ext then k6_ev true k e else k.
Definition k16_ev (ext : bool) (k : k16) (e : event) : k16 :=
  mkK16 (k4_ev (a4 k) e) (k5_ev (a5 k) e) (k6p_ev ext (a6 k) e).
Definition k16_init := mkK16 k4_init k5_init k6_init.
Definition k16_okb (k : k16) : bool := k4_ok (a4 k) && k5_ok (a5 k) && k6_ok (a6 k).

Lemma k16_fold ext evs : forall k,
  fold_left (k16_ev ext) evs k =
  mkK16 (fold_left k4_ev evs (a4 k)) (fold_left k5_ev evs (a5 k)) (fold_left (k6p_ev ext) evs (a6 k)).
Proof.
  induction evs as [|e evs IH]; intros k; cbn [fold_left]; [destruct k; reflexivity|].
  rewrite IH. reflexivity.
Qed.

Lemma k16_run ext tr : forall k,
  run_checker (k16_ev ext) (fun k => k) k tr =
  mkK16 (run_checker k4_ev (fun k => k) (a4 k) tr) (run_checker k5_ev (fun k => k) (a5 k) tr)
        (run_checker (k6p_ev ext) (fun k => k) (a6 k) tr).
Proof.
  unfold run_checker. induction tr as [|evs tr IH]; intros k; cbn [fold_left]; [destruct k; reflexivity|].
  rewrite IH, k16_fold. reflexivity.
Qed.

(* events the three checkers ignore *)
Definition inert16 (e : event) : bool :=
  match e with
  | SockOpen _ | SockClose _ | RegW _ | UnregW _ | Obs WEnd _ _ _ _ => false
  | _ => true
  end.
Lemma k16_inert ext k e : inert16 e = true -> k16_ev ext k e = k.
Proof.
  destruct k as [[] [] []]. unfold k16_ev, k6p_ev.
  destruct e as [| | | | | | | | | | | | | | |w ? ? ? ?]; try discriminate; destruct ext; try reflexivity.
  all: destruct w; [discriminate|reflexivity].
Qed.
Lemma tev_inert e : tev e = true -> inert16 e = true.
Proof. destruct e; try discriminate; reflexivity. Qed.

(* ---- the invariant ---- *)
(* o = the socket the application has been told is open *)
Record J (c : cfg) (o : option Z) (s : st) (k : k16) : Prop := mkJ {
  j_ok4 : k4_ok (a4 k) = true;
  j_ok5 : k5_ok (a5 k) = true;
  j_ok6 : k6_ok (a6 k) = true;
  j_open4 : k4_open (a4 k) = o;
  j_open5 : k5_open (a5 k) = o;
  j_reg5 : k5_reg (a5 k) = (if c_ext c && regw s then o else None);
  j_regw : regw s = true -> o <> None;
  j_reg6 : k6_reg (a6 k) = c_ext c && regw s
}.
Definition WW (c : cfg) (s : st) : Prop :=
  c_ext c = true -> sock s <> None -> outq s <> [] -> regw s = true.
Definition T_ok (q : scripts) : bool := queue_noreconn (q_close q) && queue_noreconn (q_unregw q).

Section C16.
Variable c : cfg.
Hypothesis Hsockcb : c_sockcb c = true.
Variable k0 : k16.
Notation KS16 := (KS (k16_ev (c_ext c)) k0).

(* P0: everything but the write-wanted clause; P: the invariant at stable points *)
Definition P0 (s : st) : Prop := J c (sock s) s (KS16 s) /\ T_ok (scr s) = true.
Definition P (s : st) : Prop := P0 s /\ WW c s.

Lemma J_frame o s s' k : regw s' = regw s -> J c o s k -> J c o s' k.
Proof. intros Hr []. constructor; rewrite ?Hr; assumption. Qed.


Ltac k16s := unfold k16_ev, k6p_ev; cbn [a4 a5 a6 k4_ev k5_ev k6_ev k4_ok k5_ok k6_ok k4_open k5_open k5_reg k6_reg].

Lemma J_regw_ev id s k : c_ext c = true -> J c (Some id) s k -> regw s = false ->
  J c (Some id) (set_regw true s) (k16_ev (c_ext c) k (RegW id)).
Proof.
  intros Ex [] Er. rewrite Ex, Er in *. cbn [andb] in *. k16s.
  constructor; k16s; ssimpl; rewrite ?Ex; cbn [andb]; try assumption; try congruence; try reflexivity.
  rewrite j_ok8, j_reg7, j_open7. cbn. rewrite Z.eqb_refl. reflexivity.
Qed.
Lemma J_unregw_ev id s k : c_ext c = true -> J c (Some id) s k -> regw s = true ->
  J c (Some id) (set_regw false s) (k16_ev (c_ext c) k (UnregW id)).
Proof.
  intros Ex [] Er. rewrite Ex, Er in *. cbn [andb] in *. k16s.
  constructor; k16s; ssimpl; rewrite ?Ex; cbn [andb]; try assumption; try congruence; try reflexivity.
  rewrite j_ok8, j_reg7, j_open7. cbn. rewrite Z.eqb_refl. reflexivity.
Qed.
Lemma J_close_ev id s k : J c (Some id) s k -> regw s = false ->
  J c None s (k16_ev (c_ext c) k (SockClose id)).
Proof.
  intros [] Er. rewrite Er in *. rewrite andb_false_r in *. k16s.
  constructor; k16s; ssimpl; rewrite ?Er, ?andb_false_r; try assumption; try congruence; try reflexivity.
  - rewrite j_ok7, j_open6. cbn. rewrite Z.eqb_refl. reflexivity.
  - rewrite j_ok8, j_reg7. reflexivity.
  - destruct (c_ext c); assumption.
  - destruct (c_ext c); assumption.
Qed.
Lemma J_open_ev id s k : J c None s k -> regw s = false ->
  J c (Some id) s (k16_ev (c_ext c) k (SockOpen id)).
Proof.
  intros [] Er. rewrite Er in *. rewrite andb_false_r in *. k16s.
  constructor; k16s; ssimpl; rewrite ?Er, ?andb_false_r; try assumption; try congruence; try reflexivity.
  - rewrite j_ok7, j_open6. reflexivity.
  - rewrite j_ok8, j_reg7. reflexivity.
  - destruct (c_ext c); assumption.
  - destruct (c_ext c); assumption.
Qed.
Lemma J_set_regw_direct o b s k : c_ext c = false -> (b = true -> o <> None) -> J c o s k -> J c o (set_regw b s) k.
Proof.
  intros Ex Hb []. rewrite Ex in *. cbn [andb] in *. constructor; ssimpl; rewrite ?Ex; cbn [andb]; try assumption.
Qed.
Lemma J_inert o s k e : inert16 e = true -> J c o s k -> J c o s (k16_ev (c_ext c) k e).
Proof. intros He H. rewrite k16_inert by exact He. exact H. Qed.

Lemma P0_frame s s' : tr s' = tr s -> sock s' = sock s -> regw s' = regw s -> scr s' = scr s -> P0 s -> P0 s'.
Proof.
  unfold P0. intros Ht Hs Hr Hc [[? ? ? ? ? ? ? ?] HT]. rewrite (KS_frame _ _ _ _ Ht), Hc, Hs.
  split; [|exact HT]. constructor; rewrite ?Hr; assumption.
Qed.
Lemma P_frame s s' : tr s' = tr s -> sock s' = sock s -> regw s' = regw s -> scr s' = scr s -> outq s' = outq s ->
  P s -> P s'.
Proof.
  intros Ht Hs Hr Hc Hq [H0 Hw]. split; [eapply P0_frame; eassumption|].
  unfold WW in *. rewrite Hs, Hr, Hq. exact Hw.
Qed.
Lemma P0_emit e s : inert16 e = true -> P0 s -> P0 (emit e s).
Proof.
  unfold P0. intros He [HJ HT]. rewrite KS_emit, k16_inert by exact He. ssimpl. split; [|exact HT].
  destruct HJ. constructor; assumption.
Qed.
Lemma P_emit e s : inert16 e = true -> P s -> P (emit e s).
Proof. intros He [H0 Hw]. split; [apply P0_emit; assumption|exact Hw]. Qed.
Lemma P_obs_cb si s : P s -> P (obs (WCb si) s).
Proof. intros H. unfold obs. apply P_emit; [reflexivity|exact H]. Qed.

Lemma T_ok_pop si s : T_ok (scr s) = true -> T_ok (scr (snd (pop_script si s))) = true.
Proof.
  unfold T_ok. intros H. apply andb_true_iff in H as [H1 H2].
  destruct si; unfold pop_script;
    match goal with |- context [pop_list ?l] => destruct (pop_list l) eqn:E end;
    cbn [snd scr set_scr q_close q_unregw]; try (rewrite H1, H2; reflexivity).
  - pose proof (pop_list_noreconn _ H1) as [_ X]. rewrite E in X. cbn [snd] in X. rewrite X, H2. reflexivity.
  - pose proof (pop_list_noreconn _ H2) as [_ X]. rewrite E in X. cbn [snd] in X. rewrite X, H1. reflexivity.
Qed.
Lemma T_ok_pop_close s : T_ok (scr s) = true -> script_noreconn (fst (pop_script SiClose s)) = true.
Proof.
  unfold T_ok. intros H. apply andb_true_iff in H as [H1 H2]. unfold pop_script.
  pose proof (pop_list_noreconn _ H1) as [X _]. destruct (pop_list (q_close (scr s))). exact X.
Qed.
Lemma T_ok_pop_unregw s : T_ok (scr s) = true -> script_noreconn (fst (pop_script SiUnregW s)) = true.
Proof.
  unfold T_ok. intros H. apply andb_true_iff in H as [H1 H2]. unfold pop_script.
  pose proof (pop_list_noreconn _ H2) as [X _]. destruct (pop_list (q_unregw (scr s))). exact X.
Qed.

Variable nested : list acall -> st -> st.
Hypothesis Hn : forall sc s, P s -> P (nested sc s).
Hypothesis Hnt : forall sc s, script_noreconn sc = true -> sock s = None -> teardown_rel s (nested sc s).

(* a callback invocation at a stable point; the caller has accounted for the event *)
Lemma run_site_P si held ev s : (held = true -> P s) -> P (emit ev s) -> P (run_site nested si held ev s).
Proof.
  intros Hd HP. unfold run_site.
  destruct (held && incb s) eqn:E.
  - apply andb_true_iff in E as [E1 _]. apply P_emit; [reflexivity|apply Hd; exact E1].
  - pose proof (P_obs_cb si _ HP) as HP1.
    pose proof (pop_script_frame si (obs (WCb si) (emit ev s))) as F.
    pose proof (T_ok_pop si (obs (WCb si) (emit ev s)) (proj2 (proj1 HP1))) as HT.
    destruct (pop_script si (obs (WCb si) (emit ev s))) as [sc s2]. cbn [fst snd] in *.
    destruct F as (Fcs & Fsock & Fregw & Foutq & Fping & Fincb & Fcq & Fproto & Fnsock & Fsched & Ftr).
    assert (HP2 : P s2).
    { destruct HP1 as [[HJ _] Hw]. split; [split; [|exact HT]|].
      - rewrite (KS_frame _ _ _ _ Ftr), Fsock. destruct HJ. constructor; rewrite ?Fregw; assumption.
      - unfold WW in *. rewrite Fsock, Fregw, Foutq. exact Hw. }
    destruct sc as [|a sc]; [exact HP2|].
    eapply P_frame; [| | | | |apply Hn; eapply P_frame; [| | | | |exact HP2]]; reflexivity.
Qed.

(* a callback invocation while no socket is held, script without reconnect(): only ignored events *)
Definition win (id : Z) (s : st) : Prop :=
  sock s = None /\ J c (Some id) s (KS16 s) /\ T_ok (scr s) = true.

Lemma win_frame id s s' : tr s' = tr s -> sock s' = sock s -> regw s' = regw s -> scr s' = scr s -> win id s -> win id s'.
Proof.
  unfold win. intros Ht Hs Hr Hc (A & [? ? ? ? ? ? ? ?] & HT). rewrite (KS_frame _ _ _ _ Ht), Hc, Hs.
  split; [exact A|]. split; [|exact HT]. constructor; rewrite ?Hr; assumption.
Qed.
Lemma win_teardown id s s' : teardown_rel s s' -> win id s -> win id s'.
Proof.
  intros ([] & _ & evs & Ht & Hf) (A & HJ & HT). unfold win.
  assert (EK : KS16 s' = KS16 s).
  { eapply KS_ignored with (ign := inert16); [intros; apply k16_inert; assumption|exact Ht|].
    eapply Forall_impl; [|exact Hf]. intros e. apply tev_inert. }
  rewrite EK, co_scr, co_sock. split; [exact A|]. split; [|exact HT].
  destruct HJ. constructor; rewrite ?co_regw; assumption.
Qed.

Lemma run_site_win si ev id s :
  (si = SiClose \/ si = SiUnregW) -> win id (emit ev s) -> win id (run_site nested si false ev s).
Proof.
  intros Hsi HW. unfold run_site. cbn [andb].
  assert (HW1 : win id (obs (WCb si) (emit ev s))).
  { destruct HW as (A & HJ & HT). unfold win, obs. rewrite KS_emit, k16_inert by reflexivity. ssimpl.
    split; [exact A|]. split; [|exact HT]. eapply J_frame; [|exact HJ]. reflexivity. }
  pose proof (pop_script_frame si (obs (WCb si) (emit ev s))) as F.
  assert (HT : T_ok (scr (obs (WCb si) (emit ev s))) = true) by (destruct HW1 as (_ & _ & X); exact X).
  pose proof (T_ok_pop si _ HT) as HT2.
  assert (Hsc : script_noreconn (fst (pop_script si (obs (WCb si) (emit ev s)))) = true).
  { destruct Hsi as [-> | ->]; [apply T_ok_pop_close|apply T_ok_pop_unregw]; exact HT. }
  destruct (pop_script si (obs (WCb si) (emit ev s))) as [sc s2]. cbn [fst snd] in *.
  destruct F as (Fcs & Fsock & Fregw & Foutq & Fping & Fincb & Fcq & Fproto & Fnsock & Fsched & Ftr).
  assert (HW2 : win id s2).
  { destruct HW1 as (A & HJ & _). unfold win. rewrite (KS_frame _ _ _ _ Ftr), Fsock.
    split; [exact A|]. split; [|exact HT2]. destruct HJ. constructor; rewrite ?Fregw; assumption. }
  destruct sc as [|a sc]; [exact HW2|].
  set (s3 := set_incb (false || incb s2) s2).
  assert (HW3 : win id s3) by (eapply win_frame; [| | | |exact HW2]; reflexivity).
  pose proof (Hnt (a :: sc) s3 Hsc (proj1 HW3)) as R.
  eapply win_frame; [| | | |eapply win_teardown; [exact R|exact HW3]]; reflexivity.
Qed.

(* _call_socket_register_write establishes the write-wanted clause *)
Lemma call_regw_P s : P0 s -> P (call_regw c nested s).
Proof.
  intros H0. unfold call_regw. destruct (sock s) as [id|] eqn:Es.
  2:{ split; [exact H0|]. unfold WW. rewrite Es. intros _ X. congruence. }
  destruct (regw s) eqn:Er.
  { split; [exact H0|]. unfold WW. intros; exact Er. }
  destruct H0 as [HJ HT]. rewrite Es in HJ.
  remember (c_ext c) as bx eqn:Ex in |- *; symmetry in Ex; destruct bx.
  - apply run_site_P; [discriminate|].
    split; [split; [|exact HT]|unfold WW; ssimpl; reflexivity].
    rewrite KS_emit, (KS_frame _ _ s (set_regw true s)) by reflexivity. ssimpl. rewrite Es.
    eapply J_frame; [|apply J_regw_ev; [exact Ex|exact HJ|exact Er]]. reflexivity.
  - split; [split; [|exact HT]|unfold WW; ssimpl; reflexivity].
    rewrite (KS_frame _ _ s (set_regw true s)) by reflexivity. ssimpl. rewrite Es.
    apply J_set_regw_direct; [exact Ex|discriminate|exact HJ].
Qed.

(* _call_socket_unregister_write() from loop_write's finally: nothing left to write *)
Lemma call_unregw_P s : P s -> outq s = [] -> P (call_unregw c nested None s).
Proof.
  intros HP Hq. unfold call_unregw. destruct (sock s) as [id|] eqn:Es; [|exact HP].
  destruct (regw s) eqn:Er; cbn [negb]; [|exact HP].
  destruct HP as [[HJ HT] Hw]. rewrite Es in HJ.
  remember (c_ext c) as bx eqn:Ex in |- *; symmetry in Ex; destruct bx.
  - apply run_site_P; [discriminate|].
    split; [split; [|exact HT]|unfold WW; ssimpl; rewrite Hq; congruence].
    rewrite KS_emit, (KS_frame _ _ s (set_regw false s)) by reflexivity. ssimpl. rewrite Es.
    eapply J_frame; [|apply J_unregw_ev; [exact Ex|exact HJ|exact Er]]. reflexivity.
  - split; [split; [|exact HT]|unfold WW; rewrite Ex; discriminate].
    rewrite (KS_frame _ _ s (set_regw false s)) by reflexivity. ssimpl. rewrite Es.
    apply J_set_regw_direct; [exact Ex|discriminate|exact HJ].
Qed.

(* _sock_close *)
Lemma sock_close_P' r s : P s -> P (sock_close c nested r s) /\ sock (sock_close c nested r s) = None.
Proof.
  intros HP. unfold sock_close. destruct (sock s) as [id|] eqn:Es; [|split; [exact HP|exact Es]].
  destruct HP as [[HJ HT] _].
  set (s1 := emit (ConnEnd id r) (set_sock None s)).
  assert (W1 : win id s1).
  { unfold win, s1. rewrite KS_emit, k16_inert by reflexivity. ssimpl. split; [reflexivity|]. split; [|exact HT].
    rewrite (KS_frame _ _ s (set_sock None s)) by reflexivity.
    rewrite Es in HJ. eapply J_frame; [|exact HJ]. reflexivity. }
  (* unregister *)
  assert (W2 : win id (call_unregw c nested (Some id) s1) /\ regw (call_unregw c nested (Some id) s1) = false).
  { unfold call_unregw. destruct (regw s1) eqn:Er; cbn [negb]; [|split; [exact W1|exact Er]].
    assert (A : win id (set_regw false s1) \/ c_ext c = true).
    { remember (c_ext c) as bx eqn:Ex in |- *; symmetry in Ex; destruct bx; [right; reflexivity|left].
      destruct W1 as (A & HJ1 & HT1). unfold win. ssimpl. split; [exact A|]. split; [|exact HT1].
      rewrite (KS_frame _ _ s1 (set_regw false s1)) by reflexivity.
      apply J_set_regw_direct; [exact Ex|discriminate|exact HJ1]. }
    remember (c_ext c) as bx eqn:Ex in |- *; symmetry in Ex; destruct bx.
    - assert (W : win id (emit (UnregW id) (set_regw false s1))).
      { destruct W1 as (A0 & HJ1 & HT1). unfold win. rewrite KS_emit. ssimpl. split; [exact A0|]. split; [|exact HT1].
        rewrite (KS_frame _ _ s1 (set_regw false s1)) by reflexivity.
        eapply J_frame; [|apply J_unregw_ev; [exact Ex|exact HJ1|exact Er]]. reflexivity. }
      pose proof (run_site_win SiUnregW (UnregW id) id (set_regw false s1) (or_intror eq_refl) W) as W'.
      split; [exact W'|].
      destruct W' as (_ & HJ' & _). destruct HJ'. rewrite Ex in *. cbn [andb] in *.
      destruct (regw (run_site nested SiUnregW false (UnregW id) (set_regw false s1))) eqn:Er'; [|reflexivity].
      (* the window run is a teardown run: the flag did not move *)
      exfalso. clear - Er' W Hnt HT Er.
      unfold run_site in Er'. cbn [andb] in Er'.
      pose proof (pop_script_frame SiUnregW (obs (WCb SiUnregW) (emit (UnregW id) (set_regw false s1)))) as F.
      assert (HT' : T_ok (scr (obs (WCb SiUnregW) (emit (UnregW id) (set_regw false s1)))) = true)
        by (destruct W as (_ & _ & X); exact X).
      pose proof (T_ok_pop_unregw _ HT') as Hsc.
      destruct (pop_script SiUnregW (obs (WCb SiUnregW) (emit (UnregW id) (set_regw false s1)))) as [sc s2].
      cbn [fst snd] in *. destruct F as (_ & Fsock & Fregw & _).
      ssimpl. destruct sc as [|a sc]; [congruence|].
      ssimpl.
      assert (Hs3 : sock (set_incb (false || incb s2) s2) = None) by (ssimpl; rewrite Fsock; destruct W as (X & _); exact X).
      destruct (Hnt (a :: sc) _ Hsc Hs3) as ([] & _). ssimpl. congruence.
    - destruct A as [A|A]; [|congruence]. split; [exact A|reflexivity]. }
  destruct W2 as [W2 Er2].
  rewrite Hsockcb.
  set (s2 := call_unregw c nested (Some id) s1) in *.
  (* on_socket_close: after its event the application knows of no open socket *)
  (* run the close site: first as a window over the pre-event invariant, then convert *)
  unfold run_site. cbn [andb].
  set (s3 := obs (WCb SiClose) (emit (SockClose id) s2)).
  assert (HP3 : P s3).
  { destruct W2 as (A & HJ2 & HT2). unfold s3, obs. split; [split; [|exact HT2]|unfold WW; ssimpl; rewrite A; congruence].
    rewrite KS_emit, k16_inert by reflexivity. rewrite KS_emit. ssimpl. rewrite A.
    eapply J_frame; [|apply J_close_ev; [exact HJ2|exact Er2]]. reflexivity. }
  pose proof (pop_script_frame SiClose s3) as F.
  pose proof (T_ok_pop SiClose s3 (proj2 (proj1 HP3))) as HT3.
  pose proof (T_ok_pop_close s3 (proj2 (proj1 HP3))) as Hsc.
  destruct (pop_script SiClose s3) as [sc s4]. cbn [fst snd] in *.
  destruct F as (Fcs & Fsock & Fregw & Foutq & Fping & Fincb & Fcq & Fproto & Fnsock & Fsched & Ftr).
  assert (Hs3 : sock s3 = None) by (unfold s3; ssimpl; destruct W2 as (X & _); exact X).
  assert (HP4 : P s4).
  { destruct HP3 as [[HJ3 _] Hw]. split; [split; [|exact HT3]|].
    - rewrite (KS_frame _ _ _ _ Ftr), Fsock. destruct HJ3. constructor; rewrite ?Fregw; assumption.
    - unfold WW in *. rewrite Fsock, Fregw, Foutq. exact Hw. }
  destruct sc as [|a sc]; [split; [exact HP4|congruence]|].
  set (s5 := set_incb (false || incb s4) s4).
  assert (HP5 : P s5) by (eapply P_frame; [| | | | |exact HP4]; reflexivity).
  assert (Hs5 : sock s5 = None) by (unfold s5; ssimpl; congruence).
  destruct (Hnt (a :: sc) s5 Hsc Hs5) as ([] & _ & evs & Ht & Hf).
  assert (EK : KS16 (nested (a :: sc) s5) = KS16 s5).
  { eapply KS_ignored with (ign := inert16); [intros; apply k16_inert; assumption|exact Ht|].
    eapply Forall_impl; [|exact Hf]. intros e. apply tev_inert. }
  destruct HP5 as [[HJ5 HT5] Hw5].
  split; [|ssimpl; congruence].
  split; [split|].
  - rewrite (KS_frame _ _ (nested (a :: sc) s5) (set_incb (incb s4) (nested (a :: sc) s5))) by reflexivity.
    ssimpl. rewrite EK, co_sock. eapply J_frame; [|exact HJ5]. ssimpl. exact co_regw.
  - ssimpl. rewrite co_scr. exact HT5.
  - unfold WW in *. ssimpl. rewrite co_sock, co_regw, co_outq. exact Hw5.
Qed.
Lemma sock_close_P r s : P s -> P (sock_close c nested r s).
Proof. intros H. apply sock_close_P'. exact H. Qed.


(* ---- frames ---- *)
Lemma P_set_cs x s : P s -> P (set_cs x s).
Proof. apply P_frame; reflexivity. Qed.
Lemma P_set_ping x s : P s -> P (set_ping x s).
Proof. apply P_frame; reflexivity. Qed.
Lemma P_set_proto x s : P s -> P (set_proto x s).
Proof. apply P_frame; reflexivity. Qed.
Lemma P_set_sched x s : P s -> P (set_sched x s).
Proof. apply P_frame; reflexivity. Qed.
Lemma P_set_cq x s : P s -> P (set_cq x s).
Proof. apply P_frame; reflexivity. Qed.
Lemma P0_set_outq x s : P0 s -> P0 (set_outq x s).
Proof. apply P0_frame; reflexivity. Qed.

Lemma do_on_disconnect_P rc fb s : P s -> P (do_on_disconnect nested rc fb s).
Proof.
  intros HP. unfold do_on_disconnect. apply run_site_P; [intros _; exact HP|].
  apply P_emit; [reflexivity|exact HP].
Qed.

Lemma lost_P r rc fb s : P s -> P (fst (lost c nested r rc fb s)).
Proof.
  intros HP. unfold lost. destruct (disc_state s); cbn [fst];
    apply do_on_disconnect_P; apply sock_close_P; apply P_set_cs; exact HP.
Qed.

Lemma loop_rc_handle_P rc s : P s -> P (fst (loop_rc_handle c nested rc s)).
Proof. intros HP. unfold loop_rc_handle. apply lost_P. exact HP. Qed.

(* putting a packet back at the head *)
Lemma push_front_P p s : P0 s -> (c_ext c = true -> sock s <> None -> regw s = true) -> P (push_front p s).
Proof.
  intros H0 Hr. split; [apply P0_set_outq; exact H0|]. unfold WW. ssimpl. intros A B _. apply Hr; assumption.
Qed.

Lemma pw_loop_P : forall n s, P s -> P (fst (pw_loop c nested n s)).
Proof.
  induction n as [|n IH]; intros s HP; cbn [pw_loop].
  - cbn [fst]. apply P_emit; [reflexivity|exact HP].
  - destruct (outq s) as [|p q'] eqn:Eq; [exact HP|].
    (* the registration flag while the head packet is out of the queue *)
    assert (Hreg : c_ext c = true -> sock s <> None -> regw s = true).
    { intros A B. destruct HP as [_ Hw]. apply Hw; [exact A|exact B|rewrite Eq; discriminate]. }
    assert (HP0 : P (set_outq q' s)).
    { destruct HP as [H0 Hw]. split; [apply P0_set_outq; exact H0|]. unfold WW. ssimpl. intros A B _. apply Hreg; assumption. }
    destruct (sock (set_outq q' s)) as [id|] eqn:Es.
    2:{ cbn [fst]. apply push_front_P; [apply HP0|]. ssimpl. exact Hreg. }
    ssimpl.
    unfold pop_outcome. ssimpl.
    set (s1 := match sched s with [] => set_outq q' s | _ :: l => set_sched l (set_outq q' s) end).
    assert (E1 : (match sched s with [] => (OAll, set_outq q' s) | o :: l => (o, set_sched l (set_outq q' s)) end)
                 = (match sched s with [] => OAll | o :: _ => o end, s1)).
    { unfold s1. destruct (sched s); reflexivity. }
    rewrite E1. clear E1.
    assert (HP1 : P s1). { unfold s1. destruct (sched s); [exact HP0|apply P_set_sched; exact HP0]. }
    assert (Hs1 : sock s1 = sock s /\ regw s1 = regw s). { unfold s1. destruct (sched s); split; reflexivity. }
    destruct Hs1 as [Hs1 Hr1].
    assert (Hreg1 : c_ext c = true -> sock s1 <> None -> regw s1 = true). { rewrite Hs1, Hr1. exact Hreg. }
    assert (Hblocked : P (push_front p (call_regw c nested s1))).
    { destruct (Bool.bool_dec (c_ext c) true) as [Ex|Ex].
      - (* external loop: already registered, nothing happens *)
        assert (Er : regw s1 = true) by (apply Hreg1; [exact Ex|rewrite Hs1, Es; discriminate]).
        unfold call_regw. rewrite Hs1, Es, Er. apply push_front_P; [apply HP1|exact Hreg1].
      - apply not_true_is_false in Ex. apply push_front_P; [apply call_regw_P; apply HP1|].
        intros A. congruence. }
    destruct (match sched s with [] => OAll | o :: _ => o end).
    + (* everything accepted *)
      assert (HP2 : P (emit (Tx id (qk p)) s1)) by (apply P_emit; [reflexivity|exact HP1]).
      destruct (qk p).
      * apply IH. exact HP2.
      * cbn [fst].
        assert (HP3 : P (do_on_disconnect nested 0 false (emit (Tx id KDisconnect) s1))) by (apply do_on_disconnect_P; exact HP2).
        pose proof (sock_close_P RDiscWritten _ HP3) as HP4.
        destruct (sock (do_on_disconnect nested 0 false (emit (Tx id KDisconnect) s1))) as [id'|]; [|exact HP3].
        destruct (id' =? id); [|exact HP3].
        destruct (cs (sock_close c nested RDiscWritten (do_on_disconnect nested 0 false (emit (Tx id KDisconnect) s1))));
          try exact HP4. apply P_set_cs. exact HP4.
      * apply IH. apply run_site_P; [intros _; exact HP2|]. apply P_emit; [reflexivity|exact HP2].
      * apply IH. exact HP2.
      * apply IH. exact HP2.
      * apply IH. exact HP2.
    + (* all but the last byte *)
      destruct (qstarted p); [exact Hblocked|].
      apply IH. apply push_front_P; [apply HP1|exact Hreg1].
    + exact Hblocked.
    + cbn [fst]. apply push_front_P; [apply HP1|exact Hreg1].
    + cbn [fst]. apply push_front_P; [apply HP1|exact Hreg1].
Qed.

Lemma loop_write_P s : P s -> P (fst (loop_write c nested s)).
Proof.
  intros HP. unfold loop_write. destruct (sock s); [|exact HP]. destruct (negb (cq s)); [exact HP|].
  unfold packet_write. pose proof (pw_loop_P (pw_fuel s) s HP) as H1.
  destruct (pw_loop c nested (pw_fuel s) s) as [s1 rc]. cbn [fst] in H1.
  assert (H2 : P (fst (if rc =? E_AGAIN then (s1, 0) else if rc >? 0 then loop_rc_handle c nested rc s1 else (s1, 0)))).
  { destruct (rc =? E_AGAIN); [exact H1|]. destruct (rc >? 0); [apply loop_rc_handle_P; exact H1|exact H1]. }
  destruct (if rc =? E_AGAIN then (s1, 0) else if rc >? 0 then loop_rc_handle c nested rc s1 else (s1, 0)) as [s2 rc2].
  cbn [fst] in *. unfold want_write. destruct (outq s2) eqn:Eq.
  - apply call_unregw_P; assumption.
  - apply call_regw_P. apply H2.
Qed.

Lemma packet_queue_P k s : P s -> P (fst (packet_queue c nested k s)).
Proof.
  intros [H0 Hw]. unfold packet_queue.
  set (s1 := match k with KConnect => set_cq true (set_outq (mkQ k false :: outq s) s) | _ => set_outq (outq s ++ [mkQ k false]) s end).
  assert (H1 : P0 s1).
  { unfold s1. destruct k; try (apply P0_set_outq; exact H0).
    apply (P0_frame (set_outq (mkQ KConnect false :: outq s) s)); try reflexivity. apply P0_set_outq. exact H0. }
  destruct (negb (c_ext c) && cq s1 && negb (incb s1)) eqn:E.
  - apply loop_write_P. split; [exact H1|]. unfold WW. intros A. apply andb_true_iff in E as [E _]. apply andb_true_iff in E as [E _].
    rewrite A in E. discriminate.
  - cbn [fst]. apply call_regw_P. exact H1.
Qed.

Lemma P_nosock_regw s : P s -> sock s = None -> regw s = false.
Proof.
  intros [[HJ _] _] Hs. destruct HJ. rewrite Hs in *. destruct (regw s); [|reflexivity].
  exfalso. apply j_regw0; reflexivity.
Qed.

Lemma reconnect_body_P ok s : P s -> P (fst (reconnect_body c nested ok s)).
Proof.
  intros HP. unfold reconnect_body.
  destruct (sock_close_P' RReplaced (set_cs CsConnecting (set_ping false s))) as [H2 Hs2].
  { apply P_set_cs. apply P_set_ping. exact HP. }
  set (s2 := sock_close c nested RReplaced (set_cs CsConnecting (set_ping false s))) in *.
  pose proof (P_nosock_regw _ H2 Hs2) as Hr2.
  assert (H3 : P (set_outq [] s2)).
  { destruct H2 as [H0 _]. split; [apply P0_set_outq; exact H0|]. unfold WW. ssimpl. congruence. }
  destruct ok; cbn [negb].
  2:{ cbn [fst]. apply P_emit; [reflexivity|]. apply P_set_cq. exact H3. }
  rewrite Hsockcb.
  set (id := nsock (set_outq [] s2) + 1).
  set (s4 := emit (SockNew id) (set_regw false (set_sock (Some id) (set_nsock id (set_cq false (set_outq [] s2)))))).
  assert (H5 : P (run_site nested SiOpen false (SockOpen id) s4)).
  { apply run_site_P; [discriminate|].
    destruct H3 as [[HJ HT] _]. split; [split; [|exact HT]|unfold WW, s4; ssimpl; congruence].
    rewrite KS_emit. unfold s4. rewrite KS_emit, (k16_inert _ _ (SockNew id)) by reflexivity.
    rewrite (KS_frame _ _ (set_outq [] s2) (set_regw false (set_sock (Some id) (set_nsock id (set_cq false (set_outq [] s2)))))) by reflexivity.
    ssimpl. rewrite Hs2 in HJ.
    apply J_frame with (s := s2); [ssimpl; symmetry; exact Hr2|].
    apply J_open_ev; [|exact Hr2]. apply J_frame with (s := set_outq [] s2); [reflexivity|exact HJ]. }
  pose proof (packet_queue_P KConnect _ H5) as H6.
  destruct (packet_queue c nested KConnect (run_site nested SiOpen false (SockOpen id) s4)) as [s6 rc].
  exact H6.
Qed.

Lemma api_reconnect_P ok s : P s -> P (fst (api_reconnect c nested ok s)).
Proof. intros HP. unfold api_reconnect. apply reconnect_body_P. apply P_emit; [reflexivity|exact HP]. Qed.

Lemma api_connect_P ok s : P s -> P (fst (api_connect c nested ok s)).
Proof.
  intros HP. unfold api_connect. apply reconnect_body_P. apply P_set_cs. apply sock_close_P.
  apply P_emit; [reflexivity|exact HP].
Qed.

Lemma api_disconnect_P s : P s -> P (fst (api_disconnect c nested s)).
Proof.
  intros HP. unfold api_disconnect. ssimpl. destruct (sock s).
  - apply packet_queue_P. apply P_set_cs. apply P_emit; [reflexivity|exact HP].
  - cbn [fst]. apply P_set_cs. apply P_emit; [reflexivity|exact HP].
Qed.

Lemma api_send_P ck k s : P s -> P (fst (api_send c nested ck k s)).
Proof.
  intros HP. unfold api_send. ssimpl. destruct (sock s).
  - apply packet_queue_P. apply P_emit; [reflexivity|exact HP].
  - cbn [fst]. apply P_emit; [reflexivity|exact HP].
Qed.

Lemma api_nested_P a s : P s -> P (api_nested c nested a s).
Proof.
  intros HP. destruct a; cbn [api_nested].
  - apply api_send_P; exact HP.
  - apply api_send_P; exact HP.
  - apply api_disconnect_P; exact HP.
  - apply api_reconnect_P; exact HP.
Qed.

Lemma exec_script_P : forall sc s, P s -> P (exec_script c nested sc s).
Proof.
  unfold exec_script. induction sc as [|a sc IH]; intros s HP; cbn [fold_left]; [exact HP|].
  apply IH. apply api_nested_P. exact HP.
Qed.

Lemma after_read_P id0 r : P (fst r) -> P (fst (after_read c nested id0 r)).
Proof.
  destruct r as [s [rc|]]; cbn [fst after_read]; intros HP; [|exact HP].
  destruct (rc >? 0); [|exact HP]. destruct (sock s) as [x|]; [|exact HP]. destruct (x =? id0); [|exact HP].
  pose proof (loop_rc_handle_P rc s HP) as H. destruct (loop_rc_handle c nested rc s). exact H.
Qed.

Lemma handle_connack_P rc s : P s -> P (fst (handle_connack nested rc s)).
Proof.
  intros HP. unfold handle_connack. cbn [fst].
  assert (H1 : P (if rc =? 0 then match cs s with CsDisconnecting => s | _ => set_cs CsConnected s end else s)).
  { destruct (rc =? 0); [|exact HP]. destruct (cs s); try exact HP; apply P_set_cs; exact HP. }
  apply run_site_P; [intros _; exact H1|apply P_emit; [reflexivity|exact H1]].
Qed.

Lemma downgrade_P ok s : P s -> P (fst (downgrade c nested ok s)).
Proof.
  intros HP. unfold downgrade. pose proof (reconnect_body_P ok _ (P_set_proto 3 s HP)) as H.
  destruct (reconnect_body c nested ok (set_proto 3 s)) as [s1 [rc|]]; exact H.
Qed.

Lemma handle_server_disconnect_P rc s : P s -> P (fst (handle_server_disconnect c nested rc s)).
Proof.
  intros HP. unfold handle_server_disconnect.
  pose proof (lost_P RServerDisc rc true s HP) as H.
  destruct (lost c nested RServerDisc rc true s). exact H.
Qed.

Lemma loop_read_P i s : P s -> P (fst (loop_read c nested i s)).
Proof.
  intros HP. unfold loop_read. destruct (sock s); [|exact HP].
  destruct i; try exact HP.
  - destruct ((proto s =? 4) && (rc =? 1)); apply after_read_P; [apply downgrade_P|apply handle_connack_P]; exact HP.
  - destruct (proto s =? 4); apply after_read_P; [apply downgrade_P|apply handle_connack_P]; exact HP.
  - destruct (proto s =? 5); [apply handle_server_disconnect_P; exact HP|apply after_read_P; exact HP].
  - apply after_read_P; exact HP.
  - apply after_read_P; exact HP.
  - apply after_read_P; exact HP.
  - pose proof (packet_queue_P KOther s HP) as H. destruct (packet_queue c nested KOther s) as [s1 rc].
    apply after_read_P. exact H.
  - cbn [fst]. apply P_set_ping. exact HP.
Qed.

Lemma keepalive_close_P s : P s -> P (keepalive_close c nested s).
Proof. intros HP. unfold keepalive_close. apply lost_P. exact HP. Qed.

Lemma check_keepalive_P m s : P s -> P (check_keepalive c nested m s).
Proof.
  intros HP. unfold check_keepalive. destruct m; try exact HP.
  destruct (sock s); [|exact HP].
  destruct (is_connected s && negb (ping s)); [|apply keepalive_close_P; exact HP].
  pose proof (packet_queue_P KPingreq s HP) as H. destruct (packet_queue c nested KPingreq s) as [s1 rc].
  cbn [fst] in H. destruct (rc =? 0); [apply P_set_ping|]; exact H.
Qed.

Lemma loop_misc_P m s : P s -> P (fst (loop_misc c nested m s)).
Proof.
  intros HP. unfold loop_misc. destruct (sock s); [|exact HP].
  pose proof (check_keepalive_P m s HP) as H1.
  destruct (sock (check_keepalive c nested m s)); [|exact H1].
  destruct m; try exact H1.
  destruct (ping (check_keepalive c nested MPingDue s)); [|exact H1].
  cbn [fst]. apply keepalive_close_P. exact H1.
Qed.

Lemma loop_read_n_P : forall l s, P s -> P (fst (loop_read_n c nested l s)).
Proof.
  induction l as [|i r IH]; intros s HP; cbn [loop_read_n]; [exact HP|].
  pose proof (loop_read_P i s HP) as H1.
  destruct (read_continues c nested i s); [apply IH; exact H1|exact H1].
Qed.

Lemma ret_of_P r : P (fst r) -> P (ret_of r).
Proof. destruct r as [s [rc|]]; cbn [fst ret_of]; intros HP; [apply P_emit; [reflexivity|]|]; exact HP. Qed.

Lemma run_top_P t s : P s -> P (run_top c nested t s).
Proof.
  intros HP. destruct t; cbn [run_top].
  - apply ret_of_P. apply api_connect_P. exact HP.
  - apply ret_of_P. apply api_reconnect_P. exact HP.
  - pose proof (api_disconnect_P s HP) as H. destruct (api_disconnect c nested s). apply P_emit; [reflexivity|exact H].
  - pose proof (api_send_P CPublish KPublish0 s HP) as H. destruct (api_send c nested CPublish KPublish0 s).
    apply P_emit; [reflexivity|exact H].
  - pose proof (api_send_P CSubscribe KSubscribe s HP) as H. destruct (api_send c nested CSubscribe KSubscribe s).
    apply P_emit; [reflexivity|exact H].
  - apply ret_of_P. apply loop_read_P. apply P_emit; [reflexivity|exact HP].
  - pose proof (loop_write_P _ (P_emit (Call CLoopWrite) s eq_refl HP)) as H.
    destruct (loop_write c nested (emit (Call CLoopWrite) s)). apply P_emit; [reflexivity|exact H].
  - pose proof (loop_misc_P m _ (P_emit (Call CLoopMisc) s eq_refl HP)) as H.
    destruct (loop_misc c nested m (emit (Call CLoopMisc) s)). apply P_emit; [reflexivity|exact H].
  - apply ret_of_P. apply loop_read_n_P. apply P_emit; [reflexivity|exact HP].
Qed.

End C16.

(* ---- nesting depth ---- *)
Lemma nested_at_P c (Hs : c_sockcb c = true) k0 : forall d sc s, P c k0 s -> P c k0 (nested_at c d sc s).
Proof.
  induction d as [|d IH]; intros sc s HP; cbn [nested_at].
  - apply P_emit; [reflexivity|exact HP].
  - apply exec_script_P; [exact Hs|exact IH| |exact HP].
    intros sc' s' A B. apply nested_at_teardown; assumption.
Qed.

(* ---- one operation ---- *)
Definition Top (c : cfg) (s : st) (k : k16) : Prop := J c (sock s) s k /\ WW c s.

Lemma Top_ok c s k : Top c s k -> k16_okb k = true.
Proof. intros [[] _]. unfold k16_okb. rewrite j_ok7, j_ok8, j_ok9. reflexivity. Qed.

Lemma Top_step c (Hs : c_sockcb c = true) s k o : Top c s k -> excl_T o = true ->
  Top c (fst (step c s o)) (fold_left (k16_ev (c_ext c)) (snd (step c s o)) k).
Proof.
  intros [HJ Hw] HT. unfold step.
  set (s0 := set_incb false (set_sched (o_sched o) (set_scr (o_scr o)
               (mkSt (cs s) (sock s) (regw s) (outq s) (ping s) (incb s) (cq s) (proto s) (nsock s) (sched s) (scr s) [])))).
  assert (HP0 : P c k s0).
  { split; [split|].
    - unfold KS, s0. cbn. apply J_frame with (s := s); [reflexivity|exact HJ].
    - exact HT.
    - exact Hw. }
  pose proof (run_top_P c Hs k (nested_at c (nscripts (o_scr o))) (nested_at_P c Hs k _)
                (fun sc s A B => nested_at_teardown c _ sc s A B) (o_call o) s0 HP0) as HP1.
  set (s1 := run_top c (nested_at c (nscripts (o_scr o))) (o_call o) s0) in *.
  cbn [fst snd]. rewrite fold_left_rev_KS.
  destruct HP1 as [[HJ1 _] Hw1].
  split.
  - unfold obs. rewrite KS_emit. ssimpl.
    apply J_frame with (s := s1); [reflexivity|].
    revert HJ1. generalize (KS (k16_ev (c_ext c)) k s1). intros K HJ1.
    destruct HJ1. unfold k16_ev, k6p_ev.
    constructor; cbn [a4 a5 a6 k4_ev k5_ev]; try assumption.
    + destruct (c_ext c) eqn:Ex; [|assumption]. cbn [k6_ev k6_ok].
      rewrite j_ok9. cbn [andb]. unfold has_sock, want_write.
      destruct (sock s1) eqn:Es; [|reflexivity]. destruct (outq s1) eqn:Eq; [reflexivity|].
      assert (Er : regw s1 = true). { apply Hw1; [exact Ex|rewrite Es; discriminate|rewrite Eq; discriminate]. }
      rewrite j_reg8, Er. reflexivity.
    + destruct (c_ext c); [|assumption]. cbn [k6_ev k6_reg]. assumption.
  - unfold WW in *. ssimpl. exact Hw1.
Qed.

Lemma Top_init c : Top c (init c) k16_init.
Proof.
  split; [|unfold WW; cbn; congruence].
  constructor; cbn; rewrite ?andb_false_r; try reflexivity; try discriminate.
Qed.

Lemma c16_all c ops : c_sockcb c = true -> c16_ops_ok ops = true ->
  k16_okb (run_checker (k16_ev (c_ext c)) (fun k => k) k16_init (optrace c ops)) = true.
Proof.
  intros Hs Hops. unfold optrace.
  apply run_checker_inv with (hyp := fun _ o => excl_T o) (Top := Top c).
  - apply Top_ok.
  - intros s k o HT Hh. apply Top_step; assumption.
  - apply Top_init.
  - apply hyp_from_static. exact Hops.
Qed.

Theorem c16_open_close_proved : C16_open_close_partial.
Proof.
  intros c ops Hs Hops. pose proof (c16_all c ops Hs Hops) as H. rewrite k16_run in H.
  unfold k16_okb in H. cbn [a4 a5 a6] in H. apply andb_true_iff in H as [H _]. apply andb_true_iff in H as [H _].
  exact H.
Qed.

Theorem c16_reg_nested_proved : C16_reg_nested_partial.
Proof.
  intros c ops Hs Hops. pose proof (c16_all c ops Hs Hops) as H. rewrite k16_run in H.
  unfold k16_okb in H. cbn [a4 a5 a6] in H. apply andb_true_iff in H as [H _]. apply andb_true_iff in H as [_ H].
  exact H.
Qed.

Theorem c16_no_lost_wakeup_proved : C16_no_lost_wakeup_partial.
Proof.
  intros c ops Hs Hx Hops. pose proof (c16_all c ops Hs Hops) as H. rewrite k16_run in H.
  unfold k16_okb in H. cbn [a4 a5 a6] in H. apply andb_true_iff in H as [_ H].
  unfold c16_no_lost_wakeup_ok. rewrite Hx in *. exact H.
Qed.
