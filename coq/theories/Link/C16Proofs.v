(* C16 over the Conn model: with on_socket_open/on_socket_close installed (and reconnect() not called
   from inside callbacks - that self-deadlocks, C18) the socket callbacks are well nested and, in
   external-loop mode, no write wake-up is lost.  All operation lists, nested scripts of any length. *)
From PahoV Require Import Base.Prelude Link.Conn Link.ConnCheck Link.ConnInv Link.ConnStatements.

(* ---- the three checkers run side by side ---- *)
Record k16 := mkK16 { a4 : k4; a5 : k5; a6 : k6 }.
Definition k16_ev (ext : bool) (k : k16) (e : event) : k16 :=
  mkK16 (k4_ev (a4 k) e) (k5_ev (a5 k) e) (k6_ev ext (a6 k) e).
Definition k16_init := mkK16 k4_init k5_init k6_init.
Definition k16_okb (k : k16) : bool := k4_ok (a4 k) && k5_ok (a5 k) && k6_ok (a6 k).

Lemma k16_fold ext evs : forall k,
  fold_left (k16_ev ext) evs k =
  mkK16 (fold_left k4_ev evs (a4 k)) (fold_left k5_ev evs (a5 k)) (fold_left (k6_ev ext) evs (a6 k)).
Proof.
  induction evs as [|e evs IH]; intros k; cbn [fold_left]; [destruct k; reflexivity|].
  rewrite IH. reflexivity.
Qed.

Lemma k16_run ext tr : forall k,
  run_checker (k16_ev ext) (fun k => k) k tr =
  mkK16 (run_checker k4_ev (fun k => k) (a4 k) tr) (run_checker k5_ev (fun k => k) (a5 k) tr)
        (run_checker (k6_ev ext) (fun k => k) (a6 k) tr).
Proof.
  unfold run_checker. induction tr as [|evs tr IH]; intros k; cbn [fold_left]; [destruct k; reflexivity|].
  rewrite IH, k16_fold. reflexivity.
Qed.

(* ---- the invariant ---- *)
(* o: the socket the application has been told is open (on_socket_open delivered, on_socket_close not yet) *)
Record J (c : cfg) (o : option Z) (s : st) (k : k16) : Prop := mkJ {
  j_ok4 : k4_ok (a4 k) = true;
  j_ok5 : k5_ok (a5 k) = true;
  j_ok6 : k6_ok (a6 k) = true;
  j_open4 : k4_open (a4 k) = o;
  j_open5 : k5_open (a5 k) = o;
  j_sock : forall id, sock s = Some id -> o = Some id;
  j_reg5 : k5_reg (a5 k) = (if c_ext c && regw s then o else None);
  j_regw : regw s = true -> o <> None;
  j_reg6 : k6_reg (a6 k) = c_ext c && regw s;
  j_ww : c_ext c = true -> sock s <> None -> outq s <> [] -> regw s = true
}.

Section C16.
Variable c : cfg.
Hypothesis Hsockcb : c_sockcb c = true.
Variable k0 : k16.
Notation KS16 := (KS (k16_ev (c_ext c)) k0).
Definition JJ (o : option Z) (s : st) : Prop := J c o s (KS16 s).

Lemma JJ_frame o s s' : tr s' = tr s -> sock s' = sock s -> regw s' = regw s -> outq s' = outq s ->
  JJ o s -> JJ o s'.
Proof.
  unfold JJ. intros Ht Hs Hr Hq [? ? ? ? ? ? ? ? ? ?].
  rewrite (KS_frame _ _ _ _ Ht). constructor; rewrite ?Hs, ?Hr, ?Hq; assumption.
Qed.

(* events the three checkers ignore *)
Definition inert16 (e : event) : bool :=
  match e with
  | SockOpen _ | SockClose _ | RegW _ | UnregW _ | Obs WEnd _ _ _ _ => false
  | _ => true
  end.
Lemma JJ_emit_inert o e s : inert16 e = true -> JJ o s -> JJ o (emit e s).
Proof.
  unfold JJ. intros He [? ? ? ? ? ? ? ? ? ?]. rewrite KS_emit.
  destruct e as [| | | | | | | | | | | | | | |w ? ? ? ?]; try discriminate He; try (constructor; ssimpl; assumption).
  destruct w; [discriminate He|]. constructor; ssimpl; assumption.
Qed.

Lemma JJ_obs_cb o si s : JJ o s -> JJ o (obs (WCb si) s).
Proof. intros H. unfold obs. apply JJ_emit_inert; [reflexivity|exact H]. Qed.

Variable nested : list acall -> st -> st.
(* what a nested script (no reconnect inside) does, as far as this invariant is concerned *)
Definition quiet (o : option Z) (s s' : st) : Prop :=
  JJ o s' /\ sock s' = sock s /\ scr_noreconn (scr s') = true /\ incb s' = incb s /\
  (sock s = None -> regw s' = regw s).
Hypothesis Hn : forall sc s o, script_noreconn sc = true -> scr_noreconn (scr s) = true -> JJ o s ->
  quiet o s (nested sc s).

Lemma quiet_refl o s : scr_noreconn (scr s) = true -> JJ o s -> quiet o s s.
Proof. intros; repeat split; auto. Qed.

Lemma quiet_trans o s1 s2 s3 : quiet o s1 s2 -> quiet o s2 s3 -> quiet o s1 s3.
Proof.
  intros (A1 & A2 & A3 & A4 & A5) (B1 & B2 & B3 & B4 & B5). repeat split; try assumption; try congruence.
  intros Hs. rewrite B5, A5; congruence.
Qed.

(* one callback invocation; the event [ev] has been accounted for by the caller *)
Lemma run_site_quiet si held ev s o :
  (held = true -> incb s = false) -> scr_noreconn (scr s) = true -> JJ o (emit ev s) ->
  let s' := run_site c nested si held ev s in
  JJ o s' /\ sock s' = sock s /\ scr_noreconn (scr s') = true /\ incb s' = incb s /\
  (sock s = None -> regw s' = regw s).
Proof.
  intros Hh Hscr HJ. unfold run_site.
  assert (E : held && incb s = false). { destruct held; [rewrite Hh; reflexivity|reflexivity]. }
  rewrite E.
  pose proof (JJ_obs_cb o si _ HJ) as HJ1.
  pose proof (pop_script_frame si (obs (WCb si) (emit ev s))) as F.
  pose proof (pop_script_noreconn si (obs (WCb si) (emit ev s)) Hscr) as [N1 N2].
  destruct (pop_script si (obs (WCb si) (emit ev s))) as [sc s2]. cbn [fst snd] in *.
  destruct F as (Fcs & Fsock & Fregw & Foutq & Fping & Fincb & Fproto & Fnsock & Fsched & Ftr).
  ssimpl.
  assert (HJ2 : JJ o s2). { eapply JJ_frame; [exact Ftr|exact Fsock|exact Fregw|exact Foutq|exact HJ1]. }
  destruct sc as [|a sc].
  - repeat split; try assumption; try congruence. intros; congruence.
  - set (s3 := set_incb (held || incb s2) s2).
    assert (HJ3 : JJ o s3). { eapply JJ_frame; [| | | |exact HJ2]; reflexivity. }
    destruct (Hn (a :: sc) s3 o N1 N2 HJ3) as (Q1 & Q2 & Q3 & Q4 & Q5).
    repeat split.
    + eapply JJ_frame; [| | | |exact Q1]; reflexivity.
    + ssimpl. rewrite Q2. unfold s3. ssimpl. exact Fsock.
    + ssimpl. exact Q3.
    + ssimpl. exact Fincb.
    + ssimpl. intros Hs. rewrite Q5; unfold s3; ssimpl; congruence.
Qed.

(* _call_socket_register_write *)
Lemma call_regw_quiet s o : scr_noreconn (scr s) = true ->
  J c o (set_regw true s) (KS16 s) \/ JJ o s ->
  (forall id, sock s = Some id -> o = Some id) ->
  (* invariant up to the write-wanted clause, which the registration establishes *)
  True -> True.
Proof. trivial. Qed.

End C16.
