(* Statements of C10 and C16 over the Conn model, fixed here before the proofs.
   [optrace c ops] is the op-structured trace of the model run, the checkers are in ConnCheck.v.
   For each clause: the full-strength statement, and - where the faithful model refutes it - the
   partial statement with its explicit exclusions (each exclusion is the signature of a finding,
   see corpus/C10/REPORT.md). *)
From PahoV Require Import Base.Prelude Link.Conn Link.ConnCheck Link.ConnInv.

(* ---------------------------------------------------------------- hypotheses on operations *)
Definition is_nil {A} (l : list A) : bool := match l with [] => true | _ => false end.


(* D (F-C10k): on_socket_open does not call reconnect() (the outer reconnect() then queues a second CONNECT
   on the socket opened by the inner one); everything else it calls is queued behind CONNECT since 9f497e7 *)
Definition excl_D (c : cfg) (o : op) : bool := queue_noreconn (q_open (o_scr o)).
(* R (F-C10i, open): on_socket_close / on_socket_unregister_write call neither disconnect() nor reconnect();
   on_socket_register_write does not call reconnect() *)
Definition excl_R (o : op) : bool :=
  forallb (forallb is_pubsub) (q_close (o_scr o)) && forallb (forallb is_pubsub) (q_unregw (o_scr o))
  && queue_noreconn (q_regw (o_scr o)).
Definition c10_hyp (c : cfg) (o : op) : bool := excl_D c o && excl_R o.
Definition c10_ops_ok (c : cfg) (ops : list op) : bool := forallb (c10_hyp c) ops.

(* the same with a selection of the exclusions, to state that each of them is needed *)
Definition c10_hyp_sel (d r : bool) (c : cfg) (o : op) : bool := (negb d || excl_D c o) && (negb r || excl_R o).
Definition c10_ops_sel (d r : bool) (c : cfg) (ops : list op) : bool := forallb (c10_hyp_sel d r c) ops.

(* ---------------------------------------------------------------- C10 *)
Definition C10_connected_full : Prop := forall c ops,
  cfg_ok c = true -> c10_connected_ok (optrace c ops) = true.
Definition C10_connected_partial : Prop := forall c ops,
  cfg_ok c = true -> c10_ops_ok c ops = true -> c10_connected_x_ok (optrace c ops) = true.

Definition C10_one_disconnect_full : Prop := forall c ops,
  cfg_ok c = true -> c10_one_disconnect_ok (optrace c ops) = true.
Definition C10_one_disconnect_partial : Prop := forall c ops,
  cfg_ok c = true -> c10_ops_ok c ops = true -> c10_one_disconnect_ok (optrace c ops) = true.

Definition C10_wire_full : Prop := forall c ops,
  cfg_ok c = true -> c10_wire_ok (optrace c ops) = true.
Definition C10_wire_partial : Prop := forall c ops,
  cfg_ok c = true -> c10_ops_ok c ops = true -> c10_wire_ok (optrace c ops) = true.

(* ---------------------------------------------------------------- C16: socket callbacks installed *)
(* T (F-C16a): on_socket_close / on_socket_unregister_write do not call reconnect() (a socket opened
   from inside the teardown of the previous one is announced before that one's on_socket_close, or leaks) *)
Definition excl_T (o : op) : bool :=
  queue_noreconn (q_close (o_scr o)) && queue_noreconn (q_unregw (o_scr o)).
Definition c16_ops_ok (ops : list op) : bool := forallb excl_T ops.

Definition C16_open_close_full : Prop := forall c ops,
  c_sockcb c = true -> c16_open_close_ok (optrace c ops) = true.
Definition C16_open_close_partial : Prop := forall c ops,
  c_sockcb c = true -> c16_ops_ok ops = true -> c16_open_close_ok (optrace c ops) = true.
Definition C16_reg_nested_full : Prop := forall c ops,
  c_sockcb c = true -> c16_reg_nested_ok (optrace c ops) = true.
Definition C16_reg_nested_partial : Prop := forall c ops,
  c_sockcb c = true -> c16_ops_ok ops = true -> c16_reg_nested_ok (optrace c ops) = true.
(* the external-loop reading (register-write callbacks installed); in direct-write mode the clause is
   exercised by the correspondence run only *)
Definition C16_no_lost_wakeup_full : Prop := forall c ops,
  c_sockcb c = true -> c_ext c = true -> c16_no_lost_wakeup_ok c (optrace c ops) = true.
Definition C16_no_lost_wakeup_partial : Prop := forall c ops,
  c_sockcb c = true -> c_ext c = true -> c16_ops_ok ops = true -> c16_no_lost_wakeup_ok c (optrace c ops) = true.

(* ---------------------------------------------------------------- model sanity *)
(* the two fuels of the model (nesting depth, _packet_write iterations) are never exhausted *)
Definition Conn_no_fuel_stmt : Prop := forall c ops, no_fuel_ok (optrace c ops) = true.
(* no call made from inside a callback can self-deadlock on _in_callback_mutex *)
Definition Conn_no_deadlock_stmt : Prop := forall c ops, no_deadlock_ok (optrace c ops) = true.
