(* C08.2: an unanswered PINGREQ is detected within K + d (proofs about Link/Keepalive.v) *)
From PahoV Require Import Base.Prelude Link.Keepalive Link.KeepaliveProofs.

Definition det_guard (ne : bool) (d : Z) : Z -> op -> option Z := if ne then sw_noeof_op d else sw_op d.

Lemma det_guard_tick ne d a dt a' : det_guard ne d a (Tick dt) = Some a' ->
  a + Z.max 0 dt <= d /\ a' = a + Z.max 0 dt.
Proof.
  unfold det_guard. destruct ne; cbn [sw_noeof_op sw_op]; destruct (a + Z.max 0 dt <=? d) eqn:E; intros H; inv H; lia.
Qed.
Lemma det_guard_service ne d a a' : det_guard ne d a Service = Some a' -> a' = 0.
Proof. unfold det_guard. destruct ne; cbn; congruence. Qed.
Lemma det_guard_app ne d a a' : det_guard ne d a AppSend = Some a' -> a' = a.
Proof. unfold det_guard. destruct ne; cbn; congruence. Qed.
Lemma det_guard_reconn ne d a a' : det_guard ne d a Reconnect = Some a' -> a' = a.
Proof. unfold det_guard. destruct ne; cbn; congruence. Qed.
Lemma det_guard_rx ne d a p a' : det_guard ne d a (Rx p) = Some a' -> a' = a /\ (ne = true -> p <> InEof).
Proof. unfold det_guard. destruct ne, p; cbn; intros H; inv H; split; congruence. Qed.

(* the ping monitor over the event groups a step can emit *)
Lemma pobs_tick m t x : obs pmon_step t [Ticked x] m = m. Proof. reflexivity. Qed.
Lemma pobs_nil m t : obs pmon_step t [] m = m. Proof. reflexivity. Qed.
Lemma pobs_txother m t : obs pmon_step t [TxOther] m = m. Proof. reflexivity. Qed.
Lemma pobs_arr m t p : obs pmon_step t [Arr p] m = m. Proof. reflexivity. Qed.
Lemma pobs_reconn m t (b : bool) :
  obs pmon_step t ((if b then [Closed RC_RECONNECT] else []) ++ [TxConnect]) m = pmon0.
Proof. destruct b; reflexivity. Qed.
Lemma pobs_dead m t : obs pmon_step t [LoopRc RC_CONN_LOST] m =
  mkpmon (pm_out m) (pm_cb_ka m) (pm_cb_other m) (pm_closed m) true. Proof. reflexivity. Qed.
Lemma pobs_eof m t : obs pmon_step t [Rd InEof; Closed RC_CONN_LOST; CbDisconnect RC_CONN_LOST] m =
  mkpmon (pm_out m) (pm_cb_ka m) (S (pm_cb_other m)) (pm_closed m) (pm_rc m). Proof. reflexivity. Qed.
Lemma pobs_pingresp m t : obs pmon_step t [Rd InPingresp] m =
  mkpmon None (pm_cb_ka m) (pm_cb_other m) (pm_closed m) (pm_rc m). Proof. reflexivity. Qed.
Lemma pobs_connack m t : obs pmon_step t [Rd InConnack] m = m. Proof. reflexivity. Qed.
Lemma pobs_other m t : obs pmon_step t [Rd InOther] m = m. Proof. reflexivity. Qed.
Lemma pobs_idle m t : obs pmon_step t [LoopRc RC_SUCCESS] m = m. Proof. reflexivity. Qed.
Lemma pobs_ping m t : obs pmon_step t [TxPing; LoopRc RC_SUCCESS] m = mkpmon (Some t) 0 0 None false.
Proof. reflexivity. Qed.
Lemma pobs_close m t : obs pmon_step t [Closed RC_KEEPALIVE; CbDisconnect RC_KEEPALIVE; LoopRc RC_CONN_LOST] m =
  mkpmon (pm_out m) (S (pm_cb_ka m)) (pm_cb_other m) (Some t) true. Proof. reflexivity. Qed.

Definition closed_ok (K d : Z) (m : pmon) : Prop :=
  forall t, pm_out m = Some t ->
    pm_cb_ka m = 1%nat /\ pm_rc m = true /\
    match pm_closed m with Some tc => t + K <= tc /\ tc < t + K + d | None => False end.

Definition Idet (ne : bool) (K d : Z) (s : st) (m : pmon) (acc : Z) : Prop :=
  0 <= acc <= d /\
  (ne = true -> ~ In InEof (inq s) /\ pm_cb_other m = 0%nat) /\
  (sock s = true ->
     (ping_t s = 0 -> pm_out m = None) /\
     (ping_t s <> 0 -> pm_out m = Some (ping_t s) /\ pm_cb_ka m = 0%nat /\ pm_closed m = None /\
                       now s - ping_t s < K + acc)) /\
  (sock s = false -> ne = true -> closed_ok K d m).

Definition I_det (ne : bool) (K d : Z) (s : st) (m : pmon) (acc : Z) : Prop :=
  Ibase K s /\ Idet ne K d s m acc.

Ltac pmproj := cbn [pm_out pm_cb_ka pm_cb_other pm_closed pm_rc] in *.

Lemma det_inv ne K d t0 ops : 0 < K -> 0 <= d -> 0 < t0 ->
  guarded (det_guard ne d) 0 ops = true ->
  exists a, I_det ne K d (fst (run t0 K ops)) (ping_monitor (snd (run t0 K ops))) a.
Proof.
  intros HK Hd Ht0 Hg.
  pose proof (run_from_inv (det_guard ne d) pmon_step (I_det ne K d)) as H.
  specialize (fun a b c r d0 e f => H a b c r d0 e f ops (init t0 K) [(t0, TxConnect)] pmon0 0).
  unfold run, ping_monitor. apply H; try exact Hg; clear H Hg.
  - (* tick *)
    intros s m a dt a' (Hb & Ha & Hne & Hs & Hf) Hg.
    apply det_guard_tick in Hg. destruct Hg as (Hle & ->).
    split; [apply Ibase_tick; exact Hb|]. rewrite pobs_tick.
    destr_st s. cbn [step]. unfold Idet. proj.
    split; [lia|]. split; [exact Hne|]. split; [|exact Hf].
    intros Hsk. specialize (Hs Hsk). destruct Hs as (Hz & Hnz). split; [exact Hz|].
    intros Hp. specialize (Hnz Hp). destruct Hnz as (H1 & H2 & H3 & H4). repeat split; try assumption. lia.
  - (* app *)
    intros s m a a' (Hb & Hi) Hg. apply det_guard_app in Hg. subst a'.
    split; [exact Hb|]. destruct (sock s); [rewrite pobs_txother | rewrite pobs_nil]; exact Hi.
  - (* rx *)
    intros s m a p a' (Hb & Ha & Hne & Hs & Hf) Hg. apply det_guard_rx in Hg. destruct Hg as (-> & Hpe).
    split; [apply Ibase_rx; exact Hb|].
    destr_st s. cbn [step]. proj. destruct sk; proj.
    + rewrite pobs_arr. unfold Idet. proj. split; [lia|]. split; [|split; [exact Hs | exact Hf]].
      intros Hn. specialize (Hne Hn). specialize (Hpe Hn). split; [|tauto].
      intros Hin'. apply in_app_or in Hin'. cbn [In] in Hin'. intuition congruence.
    + rewrite pobs_nil. unfold Idet. proj. tauto.
  - (* reconnect *)
    intros s m a a' (Hb & Ha & Hne & Hs & Hf) Hg. apply det_guard_reconn in Hg. subst a'.
    split; [apply Ibase_reconn; exact Hb|]. rewrite pobs_reconn.
    destruct Hb as (_ & Hn & _). destr_st s. cbn [step]. unfold Idet, pmon0. proj. pmproj.
    split; [lia|]. split; [intros _; split; [intros []|reflexivity]|]. split; [|discriminate].
    intros _. split; [reflexivity|congruence].
  - (* dead *)
    intros s m a a' (Hb & Ha & Hne & Hs & Hf) Hg Hsk. apply det_guard_service in Hg. subst a'.
    split; [exact Hb|]. rewrite pobs_dead. unfold Idet. pmproj.
    split; [lia|]. split; [exact Hne|]. split; [rewrite Hsk; discriminate|].
    intros _ Hn. specialize (Hf Hsk Hn). unfold closed_ok in *. pmproj.
    intros t Ht. specialize (Hf t Ht). tauto.
  - (* read *)
    intros s m a (Hb & Ha & Hne & Hs & Hf) Hsk.
    split; [apply Ibase_read; assumption|].
    specialize (Hs Hsk). destruct Hs as (Hz & Hnz).
    destruct (read_phase_cases s) as [(Eq & E)|[(r & Eq & E)|[(r & Eq & E)|[(r & Eq & E)|(r & Eq & E)]]]];
      rewrite E; unfold Idet, closed; proj; rewrite ?Hsk.
    + rewrite pobs_nil. split; [lia|]. split; [exact Hne|]. split; [intros _; split; assumption|discriminate].
    + (* EOF *) rewrite pobs_eof. pmproj. split; [lia|]. split.
      * intros Hn. exfalso. apply (proj1 (Hne Hn)). rewrite Eq. left. reflexivity.
      * split; [discriminate|]. intros _ Hn. exfalso. apply (proj1 (Hne Hn)). rewrite Eq. left. reflexivity.
    + (* PINGRESP *) rewrite pobs_pingresp. pmproj. split; [lia|]. split.
      * intros Hn. specialize (Hne Hn). rewrite Eq in Hne. cbn [In] in Hne. tauto.
      * split; [|discriminate]. intros _. split; [reflexivity | congruence].
    + (* CONNACK *) rewrite pobs_connack. split; [lia|]. split.
      * intros Hn. specialize (Hne Hn). rewrite Eq in Hne. cbn [In] in Hne. tauto.
      * split; [|discriminate]. intros _. split; assumption.
    + (* other *) rewrite pobs_other. split; [lia|]. split.
      * intros Hn. specialize (Hne Hn). rewrite Eq in Hne. cbn [In] in Hne. tauto.
      * split; [|discriminate]. intros _. split; assumption.
  - (* misc *)
    intros s m a a' (Hb & Ha & Hne & Hs & Hf) Hg Hsk. apply det_guard_service in Hg. subst a'.
    split; [apply Ibase_misc; assumption|].
    specialize (Hs Hsk). destruct Hs as (Hz & Hnz).
    destruct Hb as (Hk & Hn & Hio & Hin & Hp & Hlo & Hbs & _). specialize (Hbs Hsk). destruct Hbs as (Hl & Hc).
    destruct (loop_misc_cases s Hsk ltac:(lia)) as [(E & H1 & H2 & H3)|[(E & Hcc & Hp0 & Hdue)|(E & Hwhy)]];
      rewrite E; unfold Idet, pinged, closed; proj; rewrite ?Hsk.
    + (* idle *) rewrite pobs_idle. split; [lia|]. split; [exact Hne|]. split; [|discriminate].
      intros _. split; [exact Hz|]. intros Hpn. specialize (Hnz Hpn). destruct Hnz as (Q1 & Q2 & Q3 & Q4).
      repeat split; try assumption. specialize (H3 ltac:(lia)). lia.
    + (* ping *) rewrite pobs_ping. pmproj. split; [lia|]. split.
      * intros Hn'. specialize (Hne Hn'). split; [tauto|reflexivity].
      * split; [|discriminate]. intros _. split; [lia|]. intros _. repeat split; try reflexivity. lia.
    + (* keepalive close *) rewrite pobs_close. pmproj. split; [lia|]. split.
      * intros Hn'. specialize (Hne Hn'). cbn [In]. tauto.
      * split; [discriminate|]. intros _ Hn'. unfold closed_ok. pmproj. intros t Ht.
        destruct (Z.eq_dec (ping_t s) 0) as [Hp0|Hpn].
        -- rewrite (Hz Hp0) in Ht. discriminate.
        -- specialize (Hnz Hpn). destruct Hnz as (Q1 & Q2 & Q3 & Q4). rewrite Q1 in Ht. inv Ht.
           specialize (Hlo Hpn). rewrite Q2. repeat split; try reflexivity; lia.
  - (* init *)
    split; [apply Ibase_init; assumption|]. unfold Idet, init, closed_ok, pmon0. proj. pmproj.
    repeat split; try lia; try tauto; try discriminate.
Qed.

Lemma detects : forall K d t0 ops, 0 < K -> 0 <= d -> 0 < t0 ->
  serviced_within d ops = true -> no_eof ops = true ->
  let s := fst (run t0 K ops) in let m := ping_monitor (snd (run t0 K ops)) in
  forall t, pm_out m = Some t -> t + K + d <= now s ->
    sock s = false /\ is_connected s = false /\
    pm_cb_ka m = 1%nat /\ pm_cb_other m = 0%nat /\ pm_rc m = true /\
    exists tc, pm_closed m = Some tc /\ t + K <= tc <= t + K + d.
Proof.
  intros K d t0 ops HK Hd Ht0 Hsw Hne s m t Hout Hlate.
  assert (Hg : guarded (det_guard true d) 0 ops = true).
  { unfold det_guard. rewrite <- sw_noeof_guarded. unfold serviced_within in Hsw. rewrite Hsw, Hne. reflexivity. }
  destruct (det_inv true K d t0 ops HK Hd Ht0 Hg) as (a & Hb & Ha & Hn & Hs & Hf). fold s m in Hb, Ha, Hn, Hs, Hf. clearbody s m.
  destruct Hb as (Hk & Hnow & Hio & Hin & Hp & Hlo & Hbs & Hbf).
  destruct (sock s) eqn:Esk.
  - exfalso. specialize (Hs eq_refl). destruct Hs as (Hz & Hnz).
    destruct (Z.eq_dec (ping_t s) 0) as [Hp0|Hpn].
    + rewrite (Hz Hp0) in Hout. discriminate.
    + destruct (Hnz Hpn) as (Q1 & _ & _ & Q4). rewrite Q1 in Hout. inv Hout. lia.
  - specialize (Hf eq_refl eq_refl t Hout). destruct Hf as (F1 & F2 & F3).
    specialize (Hbf eq_refl). specialize (Hn eq_refl).
    split; [reflexivity|]. split; [unfold is_connected; rewrite Hbf; reflexivity|].
    split; [exact F1|]. split; [tauto|]. split; [exact F2|].
    destruct (pm_closed m) as [tc|]; [|contradiction]. exists tc. split; [reflexivity|lia].
Qed.

(* the same without any assumption on the peer (it may close the connection itself) *)
Lemma detects_closed : forall K d t0 ops, 0 < K -> 0 <= d -> 0 < t0 ->
  serviced_within d ops = true ->
  let s := fst (run t0 K ops) in let m := ping_monitor (snd (run t0 K ops)) in
  forall t, pm_out m = Some t -> t + K + d <= now s ->
    sock s = false /\ is_connected s = false.
Proof.
  intros K d t0 ops HK Hd Ht0 Hsw s m t Hout Hlate.
  assert (Hg : guarded (det_guard false d) 0 ops = true).
  { unfold det_guard. rewrite <- sw_guarded. exact Hsw. }
  destruct (det_inv false K d t0 ops HK Hd Ht0 Hg) as (a & Hb & Ha & Hn & Hs & Hf). fold s m in Hb, Ha, Hn, Hs, Hf. clearbody s m.
  destruct Hb as (Hk & Hnow & Hio & Hin & Hp & Hlo & Hbs & Hbf).
  destruct (sock s) eqn:Esk.
  - exfalso. specialize (Hs eq_refl). destruct Hs as (Hz & Hnz).
    destruct (Z.eq_dec (ping_t s) 0) as [Hp0|Hpn].
    + rewrite (Hz Hp0) in Hout. discriminate.
    + destruct (Hnz Hpn) as (Q1 & _ & _ & Q4). rewrite Q1 in Hout. inv Hout. lia.
  - split; [reflexivity|]. unfold is_connected. rewrite (Hbf eq_refl). reflexivity.
Qed.
