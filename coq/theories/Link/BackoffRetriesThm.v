(* C09.2: the classification of the ways loop_forever ends (from the invariant of Link/BackoffRetries.v) *)
From PahoV Require Import Base.Prelude Link.Backoff Link.BackoffProofs Link.BackoffU Link.BackoffRetries.

Theorem retries : forall cfg t0 script,
  let r := run_script cfg t0 script in
  match fst (snd r) with
  | PcDone REnd => True
  | PcDone (RRet _) => has_act (fst r) = true \/ c_rof cfg = false
  | PcDone RRaise => c_retry_first cfg = false /\ first_is_refused script = true
  | _ => False
  end.
Proof.
  intros cfg t0 script r.
  pose proof (run_script_done cfg t0 script) as Hdone. fold r in Hdone.
  destruct (run_inv cfg ss (fun p s c => invR cfg script p s c = true)) with
    (fuel := fuel_for script) (p := PcFirst) (s := binit t0 script) (c := false) as (c' & E & HI).
  - intros p s c HI Hd. pose proof (R_step cfg script p s c HI Hd) as H.
    destruct (chk ss c (st_evs (step cfg p s))) as [c1|]; [|discriminate].
    exists c1. split; [reflexivity|exact H].
  - unfold invR, binit, should_exit, ret_ok. bproj. cbn [is_pending is_nosock is_async disc_like is_inner is_first].
    destruct (c_retry_first cfg), (first_is_refused script); reflexivity.
  - fold (run_script cfg t0 script) in E, HI. fold r in E, HI.
    rewrite has_act_chk in E. cbn [orb] in E. inv E.
    unfold invR in HI. repeat (apply andb_true_iff in HI; destruct HI as (HI & ?)).
    destruct (fst (snd r)) as [| | | |[rc| |]]; try discriminate; cbn [ret_ok] in *.
    + (* returned *)
      match goal with H : b_acted _ || negb (c_rof cfg) = true |- _ => apply orb_true_iff in H; destruct H as [Hr|Hr] end.
      * left. rewrite Hr in HI. destruct (has_act (fst r)); [reflexivity|discriminate].
      * right. destruct (c_rof cfg); [discriminate|reflexivity].
    + (* OSError *)
      match goal with H : negb (c_retry_first cfg) && first_is_refused script = true |- _ =>
        apply andb_true_iff in H; destruct H as (H1' & H2') end.
      split; [destruct (c_retry_first cfg); [discriminate|reflexivity]|exact H2'].
    + exact Logic.I.
Qed.
