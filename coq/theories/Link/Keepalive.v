(* M3 / C08: keepalive.  Executable timed model of client.py
     loop_misc (2143-2176), _check_keepalive (3271-3309), _send_pingreq (3338-3343),
     _handle_pingresp (3847-3854), the _last_msg_in/_last_msg_out updates of _packet_read /
     reconnect / _check_keepalive, loop_read's one-packet quota and the order of _loop
     (loop_read, then loop_misc).  Model only, no proofs.

   Time is Z (every comparison in the source is `now - t >= K`, unit free).  Facts of the
   source that the model keeps on purpose:
   * _check_keepalive pings when  now - last_msg_out >= K  OR  now - last_msg_in >= K
     (inbound silence also triggers a ping);
   * after a PINGREQ both time stamps are set to `now`; _ping_t is cleared only by PINGRESP;
   * _last_msg_out is NOT refreshed by ordinary writes: _packet_write reaches its
     `_last_msg_out = time_func()` line only after a zero-length write (WebSocket frame partly
     flushed).  On the TCP transport modelled here application traffic leaves both stamps alone;
   * with a ping outstanding, or before CONNACK, the else-branch of _check_keepalive closes as soon
     as K has elapsed since the last stamp; loop_misc then returns MQTT_ERR_CONN_LOST;
     the `_ping_t > 0 and now - _ping_t >= K` test of loop_misc is kept although the
     else-branch always fires first (proved in KeepaliveProofs: ka_misc_branch_dead);
   * loop_read() handles ONE packet per call when no QoS>0 message is in flight
     (max_packets = len(_out_messages) + len(_in_messages), at least 1); one Service is one
     `_loop()`: select, loop_read if readable, loop_misc. *)
From PahoV Require Import Base.Prelude.

Inductive cst := CsConnecting | CsConnected | CsLost.
Inductive inpkt := InConnack | InPingresp | InOther | InEof.

Inductive op :=
| Tick (dt : Z)          (* the clock advances by dt (negative values count as 0) *)
| Service                (* one _loop(): read one queued packet if any, then loop_misc *)
| AppSend                (* publish()/subscribe(): a packet is written at once *)
| Rx (p : inpkt)         (* broker traffic reaches the client's socket buffer *)
| Reconnect.             (* the application calls reconnect(): old socket closed without callback, new socket,
                            CONNECT written, both stamps := now, _ping_t := 0, state CONNECTING *)

Definition RxPingresp := Rx InPingresp.
Definition RxOther := Rx InOther.
Definition RxConnack := Rx InConnack.

Inductive evk :=
| Ticked (dt : Z)
| Arr (p : inpkt)        (* arrival in the socket buffer *)
| Rd (p : inpkt)         (* packet handled by loop_read *)
| TxConnect | TxPing | TxOther
| Closed (rc : Z)        (* _sock_close(); rc = reason: 16 keepalive, 7 peer closed *)
| CbDisconnect (rc : Z)  (* on_disconnect(rc) *)
| LoopRc (rc : Z).       (* value returned by this _loop() *)

Definition event : Type := Z * evk.          (* (virtual time, what happened) *)

Definition RC_SUCCESS := 0.
Definition RC_NO_CONN := 4.
Definition RC_CONN_LOST := 7.
Definition RC_KEEPALIVE := 16.
Definition RC_RECONNECT := -1.        (* socket closed by reconnect(): no on_disconnect, no rc *)

Record st := mkst {
  now : Z; kk : Z;
  last_in : Z; last_out : Z;
  ping_t : Z;                 (* 0 = no PINGREQ outstanding, as in the source *)
  cstate : cst; sock : bool;
  inq : list inpkt }.         (* received, not yet read *)

Definition is_connected (s : st) : bool :=
  match cstate s with CsConnected => true | _ => false end.

(* the three tests of the source (tied to it by Gen/GenTiming.v, see KeepaliveBridge.v) *)
Definition ka_due (s : st) : bool :=
  sock s && ((now s - last_out s >=? kk s) || (now s - last_in s >=? kk s)).
Definition ka_may_ping (s : st) : bool := is_connected s && (ping_t s =? 0).
Definition ka_ping_expired (s : st) : bool := (ping_t s >? 0) && (now s - ping_t s >=? kk s).

(* connect()/reconnect() at time t0: CONNECT written, both stamps = t0, _ping_t = 0 *)
Definition init (t0 k : Z) : st := mkst t0 k t0 t0 0 CsConnecting true [].

Definition close_with (rc : Z) (s : st) : st * list evk :=
  (mkst (now s) (kk s) (last_in s) (last_out s) (ping_t s) CsLost false [],
   [Closed rc; CbDisconnect rc]).

Definition check_keepalive (s : st) : st * list evk :=
  if kk s =? 0 then (s, [])
  else if ka_due s then
    if ka_may_ping s
    then (mkst (now s) (kk s) (now s) (now s) (now s) (cstate s) (sock s) (inq s), [TxPing])
    else close_with RC_KEEPALIVE s
  else (s, []).

Definition loop_misc (s : st) : st * list evk :=
  if negb (sock s) then (s, [LoopRc RC_NO_CONN])
  else
    let (s1, e1) := check_keepalive s in
    if negb (sock s1) then (s1, e1 ++ [LoopRc RC_CONN_LOST])
    else if ka_ping_expired s1
    then let (s2, e2) := close_with RC_KEEPALIVE s1 in (s2, e1 ++ e2 ++ [LoopRc RC_CONN_LOST])
    else (s1, e1 ++ [LoopRc RC_SUCCESS]).

(* _packet_read of one whole packet: handler, then _last_msg_in = now *)
Definition read_one (p : inpkt) (rest : list inpkt) (s : st) : st * list evk :=
  match p with
  | InEof =>
      let (s1, e1) := close_with RC_CONN_LOST s in (s1, Rd InEof :: e1)
  | InPingresp =>
      (mkst (now s) (kk s) (now s) (last_out s) 0 (cstate s) (sock s) rest, [Rd InPingresp])
  | InConnack =>
      (mkst (now s) (kk s) (now s) (last_out s) (ping_t s) CsConnected (sock s) rest, [Rd InConnack])
  | InOther =>
      (mkst (now s) (kk s) (now s) (last_out s) (ping_t s) (cstate s) (sock s) rest, [Rd InOther])
  end.

(* loop_read(): at most one packet *)
Definition read_phase (s : st) : st * list evk :=
  match inq s with
  | [] => (s, [])
  | p :: rest => read_one p rest s
  end.

Definition service (s : st) : st * list evk :=
  if negb (sock s) then (s, [LoopRc RC_CONN_LOST])      (* select() on None: TypeError branch *)
  else
    let (s1, e1) := read_phase s in
    if negb (sock s1) then (s1, e1 ++ [LoopRc RC_CONN_LOST])
    else let (s2, e2) := loop_misc s1 in (s2, e1 ++ e2).

Definition step (s : st) (o : op) : st * list evk :=
  match o with
  | Tick dt =>
      (mkst (now s + Z.max 0 dt) (kk s) (last_in s) (last_out s) (ping_t s) (cstate s) (sock s) (inq s),
       [Ticked (Z.max 0 dt)])
  | Service => service s
  | AppSend => if sock s then (s, [TxOther]) else (s, [])
  | Rx p =>
      if sock s
      then (mkst (now s) (kk s) (last_in s) (last_out s) (ping_t s) (cstate s) (sock s) (inq s ++ [p]), [Arr p])
      else (s, [])
  | Reconnect =>
      (mkst (now s) (kk s) (now s) (now s) 0 CsConnecting true [],
       (if sock s then [Closed RC_RECONNECT] else []) ++ [TxConnect])
  end.

Definition stamp (t : Z) (l : list evk) : list event := map (fun k => (t, k)) l.

(* events carry the time at which the step ENDS (for Tick: the new time) *)
Definition step_tr (st_tr : st * list event) (o : op) : st * list event :=
  let (s, tr) := st_tr in
  let (s', evs) := step s o in
  (s', tr ++ stamp (now s') evs).

Definition run_from (s : st) (tr : list event) (ops : list op) : st * list event :=
  fold_left step_tr ops (s, tr).

Definition run (t0 k : Z) (ops : list op) : st * list event :=
  run_from (init t0 k) [(t0, TxConnect)] ops.

(* ---- hypothesis: the loop is serviced at least every d: at every point the ticks accumulated
   since the last Service (or since connect) do not exceed d *)
Fixpoint sw (d acc : Z) (ops : list op) : bool :=
  match ops with
  | [] => true
  | Tick dt :: r => (acc + Z.max 0 dt <=? d) && sw d (acc + Z.max 0 dt) r
  | Service :: r => sw d 0 r
  | _ :: r => sw d acc r
  end.
Definition serviced_within (d : Z) (ops : list op) : bool := sw d 0 ops.

Fixpoint no_eof (ops : list op) : bool :=
  match ops with
  | [] => true
  | Rx InEof :: _ => false
  | _ :: r => no_eof r
  end.

(* ---- trace observers (all are folds, so they compose over  tr ++ evs) *)

(* time of the latest transmission *)
Definition ltx_step (acc : Z) (e : event) : Z :=
  match snd e with TxConnect | TxPing | TxOther => fst e | _ => acc end.
Definition last_tx (t0 : Z) (tr : list event) : Z := fold_left ltx_step tr t0.

Definition is_txping (k : evk) := match k with TxPing => true | _ => false end.
Definition is_own_close (k : evk) := match k with Closed rc => rc =? RC_KEEPALIVE | _ => false end.
Definition is_cb_keepalive (k : evk) := match k with CbDisconnect rc => rc =? RC_KEEPALIVE | _ => false end.
Definition count_k (f : evk -> bool) (tr : list event) : nat :=
  length (filter (fun e => f (snd e)) tr).

(* what happened since the latest PINGREQ *)
Record pmon := mkpmon {
  pm_out : option Z;      (* time of the latest PINGREQ if no PINGRESP was read since *)
  pm_cb_ka : nat;         (* on_disconnect(KEEPALIVE) calls since *)
  pm_cb_other : nat;      (* other on_disconnect calls since *)
  pm_closed : option Z;   (* time of a keepalive close since *)
  pm_rc : bool }.         (* a non-zero loop result since *)
Definition pmon0 := mkpmon None 0 0 None false.
Definition pmon_step (m : pmon) (e : event) : pmon :=
  match snd e with
  | TxConnect => pmon0
  | TxPing => mkpmon (Some (fst e)) 0 0 None false
  | Rd InPingresp => mkpmon None (pm_cb_ka m) (pm_cb_other m) (pm_closed m) (pm_rc m)
  | CbDisconnect rc =>
      if rc =? RC_KEEPALIVE
      then mkpmon (pm_out m) (S (pm_cb_ka m)) (pm_cb_other m) (pm_closed m) (pm_rc m)
      else mkpmon (pm_out m) (pm_cb_ka m) (S (pm_cb_other m)) (pm_closed m) (pm_rc m)
  | Closed rc =>
      if rc =? RC_KEEPALIVE
      then mkpmon (pm_out m) (pm_cb_ka m) (pm_cb_other m) (Some (fst e)) (pm_rc m)
      else m
  | LoopRc rc =>
      if rc =? 0 then m
      else mkpmon (pm_out m) (pm_cb_ka m) (pm_cb_other m) (pm_closed m) true
  | _ => m
  end.
Definition ping_monitor (tr : list event) : pmon := fold_left pmon_step tr pmon0.

(* literal reading of C08.2 ("not answered within K"): the first PINGREQ, sent at t, whose PINGRESP
   had not ARRIVED when an event later than t + K happened *)
Record amon := mkamon { am_cur : option Z; am_bad : option Z }.
Definition amon_step (k : Z) (m : amon) (e : event) : amon :=
  let late := match am_cur m with Some t => fst e >? t + k | None => false end in
  let bad := match am_bad m with Some b => Some b | None => if late then am_cur m else None end in
  match snd e with
  | TxConnect => mkamon None bad
  | TxPing => mkamon (Some (fst e)) bad
  | Arr InPingresp => mkamon None bad
  | _ => mkamon (am_cur m) bad
  end.
Definition unanswered_within (k : Z) (tr : list event) : option Z :=
  am_bad (fold_left (amon_step k) tr (mkamon None None)).

(* every keepalive close is justified: the CONNECT, or the latest PINGREQ, sent at t is still
   unanswered (no CONNACK resp. PINGRESP read since) and the close happens at t + K or later *)
Record jmon := mkjmon { jm_conn : option Z; jm_ping : option Z; jm_ok : bool }.
Definition aged (k now : Z) (w : option Z) : bool :=
  match w with Some t => now - t >=? k | None => false end.
Definition jmon_step (k : Z) (m : jmon) (e : event) : jmon :=
  match snd e with
  | TxConnect => mkjmon (Some (fst e)) None (jm_ok m)
  | TxPing => mkjmon (jm_conn m) (Some (fst e)) (jm_ok m)
  | Rd InConnack => mkjmon None (jm_ping m) (jm_ok m)
  | Rd InPingresp => mkjmon (jm_conn m) None (jm_ok m)
  | Closed rc =>
      if rc =? RC_KEEPALIVE
      then mkjmon (jm_conn m) (jm_ping m)
                  (jm_ok m && (aged k (fst e) (jm_conn m) || aged k (fst e) (jm_ping m)))
      else m
  | _ => m
  end.
Definition closes_justified (k : Z) (tr : list event) : bool :=
  jm_ok (fold_left (jmon_step k) tr (mkjmon None None true)).

(* the broker answers in time: after the CONNECT / a PINGREQ sent at t, the CONNACK resp. PINGRESP
   ARRIVES while no event later than t + K - d has happened (a deadline before the sending time,
   d > K, cannot be met) *)
Record tmon := mktmon { tm_conn : option Z; tm_ping : option Z; tm_ok : bool }.
Definition overdue (k d now : Z) (w : option Z) : bool :=
  match w with Some t => now >? t + k - d | None => false end.
Definition tmon_step (k d : Z) (m : tmon) (e : event) : tmon :=
  let ok := tm_ok m && negb (overdue k d (fst e) (tm_conn m)) && negb (overdue k d (fst e) (tm_ping m)) in
  match snd e with
  | TxConnect => mktmon (Some (fst e)) None (ok && (d <=? k))
  | TxPing => mktmon (tm_conn m) (Some (fst e)) (ok && (d <=? k))
  | Arr InConnack => mktmon None (tm_ping m) ok
  | Arr InPingresp => mktmon (tm_conn m) None ok
  | _ => mktmon (tm_conn m) (tm_ping m) ok
  end.
Definition timely (k d : Z) (tr : list event) : bool :=
  tm_ok (fold_left (tmon_step k d) tr (mktmon None None true)).

(* no inbound backlog across a clock advance: whenever time moves, at most one received packet is
   waiting to be read (loop_forever satisfies this with 0: select() returns at once while data is
   readable; a polling loop satisfies it when the broker does not outpace it) *)
Record qmon := mkqmon { qm_len : Z; qm_ok : bool }.
Definition qmon_step (m : qmon) (e : event) : qmon :=
  match snd e with
  | TxConnect => mkqmon 0 (qm_ok m)
  | Arr _ => mkqmon (qm_len m + 1) (qm_ok m)
  | Rd _ => mkqmon (qm_len m - 1) (qm_ok m)
  | Closed _ => mkqmon 0 (qm_ok m)
  | Ticked dt => mkqmon (qm_len m) (qm_ok m && ((dt =? 0) || (qm_len m <=? 1)))
  | _ => m
  end.
Definition calm (tr : list event) : bool :=
  qm_ok (fold_left qmon_step tr (mkqmon 0 true)).

(* ---- correspondence entry:  [t0; K; op ...]  with op codes
     0 dt = Tick dt | 1 = Service | 2 = AppSend | 3 p = Rx p (0 CONNACK, 1 PINGRESP, 2 other, 3 EOF) | 4 = Reconnect
   result: events as triples (time, code, arg) followed by the final state
     -1 now last_in last_out ping_t cstate(0 connecting,1 connected,2 lost) sock |inq| *)
Definition inpkt_of_Z (z : Z) : inpkt :=
  if z =? 0 then InConnack else if z =? 1 then InPingresp else if z =? 2 then InOther else InEof.
Definition Z_of_inpkt (p : inpkt) : Z :=
  match p with InConnack => 0 | InPingresp => 1 | InOther => 2 | InEof => 3 end.

Fixpoint decode_ops (fuel : nat) (l : list Z) : list op :=
  match fuel with
  | O => []
  | S f =>
      match l with
      | 0 :: dt :: r => Tick dt :: decode_ops f r
      | 1 :: r => Service :: decode_ops f r
      | 2 :: r => AppSend :: decode_ops f r
      | 3 :: p :: r => Rx (inpkt_of_Z p) :: decode_ops f r
      | 4 :: r => Reconnect :: decode_ops f r
      | _ => []
      end
  end.

Definition encode_ev (e : event) : list Z :=
  let t := fst e in
  match snd e with
  | Ticked dt => [t; 0; dt]
  | Arr p => [t; 1; Z_of_inpkt p]
  | Rd p => [t; 2; Z_of_inpkt p]
  | TxConnect => [t; 3; 0]
  | TxPing => [t; 4; 0]
  | TxOther => [t; 5; 0]
  | Closed rc => [t; 6; rc]
  | CbDisconnect rc => [t; 7; rc]
  | LoopRc rc => [t; 8; rc]
  end.

Definition Z_of_cst (c : cst) : Z := match c with CsConnecting => 0 | CsConnected => 1 | CsLost => 2 end.

Definition entry_keepalive (args : list Z) : list Z :=
  match args with
  | t0 :: k :: r =>
      let (s, tr) := run t0 k (decode_ops (length r) r) in
      flat_map encode_ev tr ++
      [-1; now s; last_in s; last_out s; ping_t s; Z_of_cst (cstate s);
       if sock s then 1 else 0; Z.of_nat (length (inq s))]
  | _ => []
  end.

(* the trace judges, for traces recorded from the implementation:
   [K; d; t0; (time code arg)*] -> [last_tx; closes_justified; timely; calm; own closes; pings] *)
Definition decode_evk (c a : Z) : evk :=
  if c =? 0 then Ticked a else if c =? 1 then Arr (inpkt_of_Z a) else if c =? 2 then Rd (inpkt_of_Z a)
  else if c =? 3 then TxConnect else if c =? 4 then TxPing else if c =? 5 then TxOther
  else if c =? 6 then Closed a else if c =? 7 then CbDisconnect a else LoopRc a.
Fixpoint decode_tr (fuel : nat) (l : list Z) : list event :=
  match fuel with
  | O => []
  | S f => match l with
           | t :: c :: a :: r => (t, decode_evk c a) :: decode_tr f r
           | _ => []
           end
  end.
Definition b2z (b : bool) : Z := if b then 1 else 0.
Definition entry_judge (args : list Z) : list Z :=
  match args with
  | k :: d :: t0 :: r =>
      let tr := decode_tr (length r) r in
      [last_tx t0 tr; b2z (closes_justified k tr); b2z (timely k d tr); b2z (calm tr);
       Z.of_nat (count_k is_own_close tr); Z.of_nat (count_k is_txping tr)]
  | _ => []
  end.
