(* Proofs about Link/Reader.v: the resumable reader refines the byte-at-a-time automaton for every
   transport behaviour; framing round trip. *)
From PahoV Require Import Base.Prelude Link.Reader.

(* ------------------------------------------------------------------------------------------------ *)
(* bit facts on bytes *)

Lemma land_127 b : 0 <= b -> Z.land b 127 = b mod 128.
Proof. intros. change 127 with (Z.ones 7). rewrite Z.land_ones by lia. reflexivity. Qed.

Definition byte_tab_ok : bool :=
  forallb (fun n => let b := Z.of_nat n in Z.land b 128 =? (if b <? 128 then 0 else 128)) (seq 0 256).

Lemma land_128 b : 0 <= b < 256 -> Z.land b 128 = if b <? 128 then 0 else 128.
Proof.
  intros H.
  assert (E : byte_tab_ok = true) by (vm_compute; reflexivity).
  unfold byte_tab_ok in E. rewrite forallb_forall in E.
  specialize (E (Z.to_nat b)). cbv zeta in E. rewrite Z2Nat.id in E by lia.
  apply Z.eqb_eq, E. apply in_seq. lia.
Qed.

(* ------------------------------------------------------------------------------------------------ *)
(* the automaton: raw steps, completion, folding *)

Notation flush := flush_pending.

(* command == 0 only while nothing else has been read *)
Definition rd_ok (r : rd) : Prop := command r = 0 -> have_remaining r = false.

Lemma rd_ok_init : rd_ok rd_init.
Proof. intro; reflexivity. Qed.

Lemma complete_init : complete rd_init = false.
Proof. reflexivity. Qed.

Lemma flush_init : flush rd_init = ([], rd_init).
Proof. reflexivity. Qed.

(* fold of raw1 without error, no state before a byte being complete *)
Fixpoint raws (r : rd) (bs : list Z) : option rd :=
  match bs with
  | [] => Some r
  | b :: bs' =>
      if complete r then None
      else let '(r', e) := raw1 r b in if e then None else raws r' bs'
  end.

Lemma raws_app r a b :
  raws r (a ++ b) = match raws r a with Some r1 => raws r1 b | None => None end.
Proof.
  revert r; induction a as [|x a IH]; intros r; cbn [app raws]; [reflexivity|].
  destruct (complete r); [reflexivity|].
  destruct (raw1 r x) as [r' e]. destruct e; [reflexivity|]. apply IH.
Qed.

Lemma raws_cons_not_complete r b bs r' : raws r (b :: bs) = Some r' -> complete r = false.
Proof. cbn [raws]. destruct (complete r); congruence. Qed.

(* a clean raw prefix is invisible to feed *)
Lemma feed_raws_prefix r c r1 rest :
  raws r c = Some r1 -> complete r1 = false -> feed r (c ++ rest) = feed r1 rest.
Proof.
  revert r; induction c as [|b c IH]; intros r H Hc.
  - cbn in H. inv H. reflexivity.
  - pose proof (raws_cons_not_complete _ _ _ _ H) as Hr.
    cbn [raws] in H. rewrite Hr in H.
    destruct (raw1 r b) as [r' e] eqn:E1. destruct e; [discriminate|].
    assert (Hc' : complete r' = false).
    { destruct c as [|b2 c2]; [cbn in H; inv H; assumption|].
      eapply raws_cons_not_complete; eassumption. }
    cbn [app feed]. unfold feed1. rewrite E1, Hc'. apply IH; assumption.
Qed.

Lemma feed_nil r : feed r [] = ([], false, r, []).
Proof. reflexivity. Qed.

Lemma raws_feed_flush r c r' :
  complete r = false -> raws r c = Some r' ->
  feed r c = (fst (flush r'), false, snd (flush r'), []).
Proof.
  intros Hr H.
  destruct c as [|b c] using rev_ind.
  - cbn in H. inv H. unfold flush. rewrite Hr. reflexivity.
  - clear IHc. rewrite raws_app in H. destruct (raws r c) as [r1|] eqn:E; [|discriminate].
    pose proof (raws_cons_not_complete _ _ _ _ H) as Hc1.
    rewrite (feed_raws_prefix _ _ _ _ E Hc1).
    cbn [raws] in H. rewrite Hc1 in H. destruct (raw1 r1 b) as [r2 e] eqn:E1.
    destruct e; [discriminate|]. inv H.
    cbn [feed]. unfold feed1, flush. rewrite E1.
    destruct (complete r') eqn:Ec; reflexivity.
Qed.

Lemma raws_feed_err r c r0 b r' :
  raws r c = Some r0 -> complete r0 = false -> raw1 r0 b = (r', true) ->
  feed r (c ++ [b]) = ([], true, r', []).
Proof.
  intros H Hc E. rewrite (feed_raws_prefix _ _ _ _ H Hc).
  cbn [feed]. unfold feed1. rewrite E. reflexivity.
Qed.

Lemma feed_app r c1 c2 F1 R1 :
  feed r c1 = (F1, false, R1, []) ->
  feed r (c1 ++ c2) = let '(F2, e, R2, rest) := feed R1 c2 in (F1 ++ F2, e, R2, rest).
Proof.
  revert r F1; induction c1 as [|b c1 IH]; intros r F1 H.
  - cbn in H. inv H. cbn [app]. destruct (feed R1 c2) as [[[F2 e] R2] rest]. reflexivity.
  - cbn [app feed] in *. destruct (feed1 r b) as [r' fr]. destruct fr.
    + apply IH; assumption.
    + destruct (feed r' c1) as [[[fs e] r''] rest] eqn:E. inv H.
      rewrite (IH _ _ E). destruct (feed R1 c2) as [[[F2 e2] R2] rest2]. reflexivity.
    + discriminate.
Qed.

Lemma feed_err_app r c F R rest :
  feed r c = (F, true, R, []) -> feed r (c ++ rest) = (F, true, R, rest).
Proof.
  revert r F; induction c as [|b c IH]; intros r F H.
  - cbn in H. discriminate.
  - cbn [app feed] in *. destruct (feed1 r b) as [r' fr]. destruct fr.
    + apply IH; assumption.
    + destruct (feed r' c) as [[[fs e] r''] rest'] eqn:E. inv H.
      rewrite (IH _ _ E). reflexivity.
    + inv H. reflexivity.
Qed.

(* ------------------------------------------------------------------------------------------------ *)
Section GenericProofs.
  Context {T : Type}.
  Variable recv : Z -> T -> rres * T.
  Variable idle : T -> bool.
  Variable stream : T -> list Z.       (* ghost: bytes the transport will still deliver, in order *)
  Variable size : T -> nat.            (* ghost: termination measure *)
  Variable live : T -> bool.           (* ghost: the transport never fails *)
  Variable inv : T -> Prop.            (* ghost: consistency of the transport state (True for the raw socket) *)

  Definition recv_inv : Prop := forall n t, 1 <= n -> inv t -> inv (snd (recv n t)).

  Definition recv_spec : Prop := forall n t, 1 <= n -> inv t ->
    match recv n t with
    | (RData d, t') =>
        stream t = d ++ stream t' /\ (size t' < size t)%nat /\
        (live t = true -> d <> [] /\ live t' = true) /\ Z.of_nat (length d) <= n
    | (RBlock, t') =>
        stream t' = stream t /\ ((size t' < size t)%nat \/ idle t' = true) /\ (live t = true -> live t' = true)
    | (_, t') => stream t' = stream t /\ live t = false
    end.

  Hypothesis Hrecv : recv_spec.
  Hypothesis Hinv : recv_inv.

  Local Notation packet_read := (packet_read recv).
  Local Notation run := (run recv idle).

  Definition soft (rc : prc) : Prop := rc = PrAgain \/ rc = PrConnLost.

  (* what a step may report when it returns early without a protocol error *)
  Definition early (t0 : T) (rc : prc) (t' : T) : Prop :=
    (rc = PrAgain /\ ((size t' < size t0)%nat \/ idle t' = true) /\ (live t0 = true -> live t' = true)) \/
    (rc = PrConnLost /\ live t0 = false).

  Lemma recv1_cases t : inv t ->
    match recv 1 t with
    | (RData [b], t') => stream t = b :: stream t' /\ (size t' < size t)%nat /\ (live t = true -> live t' = true)
    | (RData [], t') => stream t = stream t' /\ live t = false
    | (RData (_ :: _ :: _), _) => False
    | (RBlock, t') => stream t' = stream t /\ ((size t' < size t)%nat \/ idle t' = true) /\ (live t = true -> live t' = true)
    | (_, t') => stream t' = stream t /\ live t = false
    end.
  Proof.
    intro Hi. pose proof (Hrecv 1 t ltac:(lia) Hi) as H. destruct (recv 1 t) as [[d| | |] t']; try assumption.
    destruct H as (Hs & Hz & Hl & Hn). destruct d as [|b [|b2 d]].
    - split; [assumption|]. destruct (live t); [|reflexivity]. destruct (Hl eq_refl) as [X _]. congruence.
    - repeat split; try assumption. intro L. apply Hl; assumption.
    - cbn [length] in Hn. lia.
  Qed.

  (* ---- phase 1 ---- *)
  Lemma phase1_spec r t :
    inv t -> rd_ok r -> complete r = false ->
    match phase1 recv r t with
    | Ret rc r' t' =>
        (r' = r /\ stream t' = stream t /\ early t rc t') \/
        (rc = PrProtocol /\ exists b, stream t = b :: stream t' /\ raw1 r b = (r', true))
    | Cont r' t' =>
        exists c, stream t = c ++ stream t' /\ raws r c = Some r' /\ command r' <> 0 /\
                  have_remaining r' = have_remaining r /\ to_process r' = to_process r /\
                  (size t' <= size t)%nat /\ (live t = true -> live t' = true) /\
                  (c = [] -> t' = t)
    end.
  Proof.
    intros Hi Hok Hc. unfold phase1. destruct (command r =? 0) eqn:E0.
    - apply Z.eqb_eq in E0. pose proof (recv1_cases t Hi) as H.
      destruct (recv 1 t) as [[d| | |] t'].
      + destruct d as [|b [|b2 d]].
        * destruct H. left. repeat split; auto. right. auto.
        * destruct H as (Hs & Hz & Hl). destruct (b =? 0) eqn:Eb.
          -- right. split; [reflexivity|]. exists b. split; [assumption|].
             unfold raw1. rewrite E0, Eb. reflexivity.
          -- exists [b]. cbn [raws]. rewrite Hc. unfold raw1. rewrite E0, Eb. cbn [Z.eqb].
             apply Z.eqb_neq in Eb.
             repeat split; auto; try lia. discriminate.
        * contradiction.
      + destruct H as (Hs & Hz & Hl). left. repeat split; auto. left. auto.
      + destruct H. left. repeat split; auto. right; auto.
      + destruct H. left. repeat split; auto. right; auto.
    - apply Z.eqb_neq in E0. exists []. repeat split; auto.
  Qed.

  (* ---- phase 2 ---- *)
  Lemma len_loop_spec fuel : forall r t,
    inv t -> command r <> 0 -> have_remaining r = false ->
    match len_loop recv fuel r t with
    | Ret rc r' t' =>
        exists c, stream t = c ++ stream t' /\
          ((early t rc t' /\ raws r c = Some r' /\ have_remaining r' = false /\ command r' = command r) \/
           (rc = PrProtocol /\ exists c0 b r0, c = c0 ++ [b] /\ raws r c0 = Some r0 /\
                                               complete r0 = false /\ raw1 r0 b = (r', true)) \/
           (rc = PrFuel /\ ((length (remaining_count r) + fuel <= 4)%nat \/ fuel = O)))
    | Cont r' t' =>
        exists c, stream t = c ++ stream t' /\ raws r c = Some r' /\ have_remaining r' = true /\
                  command r' = command r /\ (size t' < size t)%nat /\ (live t = true -> live t' = true)
    end.
  Proof.
    induction fuel as [|f IH]; intros r t Hi Hcmd Hhr.
    - cbn [len_loop]. exists []. split; [reflexivity|]. right; right. auto.
    - cbn [len_loop]. pose proof (recv1_cases t Hi) as H. pose proof (Hinv 1 t ltac:(lia) Hi) as Hi'.
      assert (Hc : complete r = false) by (unfold complete; rewrite Hhr; reflexivity).
      destruct (recv 1 t) as [[d| | |] t'].
      + destruct d as [|b [|b2 d]]; [| |contradiction].
        * destruct H. exists []. split; [auto|]. left. repeat split; auto. right; auto.
        * destruct H as (Hs & Hz & Hl).
          assert (Eraw : raw1 r b =
                    let r1 := push_count r b in
                    if 4 <? Z.of_nat (length (remaining_count r1)) then (r1, true)
                    else let r2 := add_length r1 b in
                         if Z.land b 128 =? 0 then (finish_length r2, false) else (r2, false)).
          { unfold raw1. apply Z.eqb_neq in Hcmd. rewrite Hcmd, Hhr. reflexivity. }
          cbv zeta in Eraw.
          destruct (4 <? Z.of_nat (length (remaining_count (push_count r b)))) eqn:E4.
          -- exists [b]. split; [assumption|]. right; left. split; [reflexivity|].
             exists [], b, r. repeat split; auto.
          -- destruct (Z.land b 128 =? 0) eqn:E128.
             ++ exists [b]. repeat split; auto. cbn [raws]. rewrite Hc, Eraw. reflexivity.
             ++ set (r2 := add_length (push_count r b) b) in *.
                specialize (IH r2 t' Hi' Hcmd Hhr).
                destruct (len_loop recv f r2 t') as [rc r' t''|r' t''].
                ** destruct IH as (c & Hs' & IH). exists (b :: c). split; [rewrite Hs, Hs'; reflexivity|].
                   destruct IH as [(He & Hr & Hh & Hk)|[(Hp & c0 & b0 & r0 & Hc0 & Hr0 & Hcc & Hraw)|(Hfu & Hlen)]].
                   --- left. repeat split; auto.
                       +++ destruct He as [(? & Hsz & Hlv)|(? & Hlv)]; [left|right]; repeat split; auto.
                           *** destruct Hsz; [left; lia|right; assumption].
                           *** destruct (live t); [|reflexivity]. rewrite (Hl eq_refl) in Hlv. discriminate.
                       +++ cbn [raws]. rewrite Hc, Eraw. assumption.
                   --- right; left. split; [assumption|]. exists (b :: c0), b0, r0. subst c.
                       repeat split; auto. cbn [raws]. rewrite Hc, Eraw. assumption.
                   --- right; right. split; [assumption|]. left.
                       apply Z.ltb_ge in E4. unfold push_count in E4. cbn [remaining_count] in E4.
                       rewrite app_length in E4. cbn [length] in E4.
                       destruct Hlen as [Hlen|Hlen].
                       +++ subst r2. unfold add_length, push_count in Hlen. cbn [remaining_count] in Hlen.
                           rewrite app_length in Hlen. cbn [length] in Hlen. lia.
                       +++ subst f. lia.
                ** destruct IH as (c & Hs' & Hr & Hh & Hk & Hsz & Hlv). exists (b :: c).
                   repeat split; auto.
                   --- rewrite Hs, Hs'; reflexivity.
                   --- cbn [raws]. rewrite Hc, Eraw. assumption.
                   --- lia.
      + destruct H as (Hs & Hz & Hl). exists []. split; [auto|]. left. repeat split; auto. left; auto.
      + destruct H. exists []. split; [auto|]. left. repeat split; auto. right; auto.
      + destruct H. exists []. split; [auto|]. left. repeat split; auto. right; auto.
  Qed.

  (* ---- phase 3 ---- *)
  Lemma raws_add_data d : forall r,
    command r <> 0 -> have_remaining r = true -> Z.of_nat (length d) <= to_process r ->
    raws r d = Some (add_data r d) \/ (d = [] /\ True).
  Proof.
    induction d as [|b d IH]; intros r Hcmd Hhr Hlen; [right; auto|left].
    cbn [length] in Hlen.
    assert (Hc : complete r = false).
    { unfold complete. rewrite Hhr. cbn. destruct (0 <? to_process r) eqn:E; [reflexivity|]. lia. }
    cbn [raws]. rewrite Hc. unfold raw1. apply Z.eqb_neq in Hcmd. rewrite Hcmd, Hhr. cbn [negb].
    assert (Hadd : forall x, add_data (add_data r [b]) x = add_data r (b :: x)).
    { intro x. unfold add_data. cbn [command have_remaining remaining_count remaining_mult remaining_length packet to_process].
      rewrite <- app_assoc. cbn [app length]. f_equal. lia. }
    destruct d as [|b2 d'].
    - reflexivity.
    - destruct (IH (add_data r [b])) as [H|[H _]].
      + apply Z.eqb_neq in Hcmd. assumption.
      + assumption.
      + unfold add_data. cbn [to_process length]. cbn [length] in Hlen. lia.
      + rewrite H. rewrite Hadd. reflexivity.
      + discriminate.
  Qed.

  Lemma body_loop_spec count : forall r t,
    inv t -> command r <> 0 -> have_remaining r = true ->
    match body_loop recv count r t with
    | Ret rc r' t' =>
        exists c, stream t = c ++ stream t' /\
          ((early t rc t' /\ raws r c = Some r' /\ have_remaining r' = true /\ command r' = command r) \/
           (rc = PrFuel /\ count = O))
    | Cont r' t' =>
        exists c, stream t = c ++ stream t' /\ raws r c = Some r' /\ complete r' = true /\
                  command r' = command r /\ (size t' <= size t)%nat /\ (live t = true -> live t' = true) /\
                  (c = [] -> t' = t /\ r' = r) /\ (c <> [] -> (size t' < size t)%nat)
    end.
  Proof.
    induction count as [|k IH]; intros r t Hi Hcmd Hhr.
    - cbn [body_loop]. destruct (0 <? to_process r) eqn:E0.
      + exists []. split; [reflexivity|]. right; auto.
      + exists []. repeat split; auto. unfold complete. rewrite Hhr, E0. reflexivity. congruence.
    - cbn [body_loop]. destruct (0 <? to_process r) eqn:E0.
      2:{ exists []. repeat split; auto. unfold complete. rewrite Hhr, E0. reflexivity. congruence. }
      apply Z.ltb_lt in E0.
      pose proof (Hrecv (to_process r) t ltac:(lia) Hi) as H.
      pose proof (Hinv (to_process r) t ltac:(lia) Hi) as Hi'.
      destruct (recv (to_process r) t) as [[d| | |] t'].
      + destruct H as (Hs & Hz & Hl & Hn).
        destruct d as [|b d].
        * exists []. split; [auto|]. left. repeat split; auto. right. split; [reflexivity|].
          destruct (live t); [|reflexivity]. destruct (Hl eq_refl) as [X _]. congruence.
        * assert (Hraws : raws r (b :: d) = Some (add_data r (b :: d))).
          { destruct (raws_add_data (b :: d) r Hcmd Hhr Hn) as [X|[X _]]; [assumption|discriminate]. }
          destruct k as [|k'].
          -- exists (b :: d). split; [assumption|]. left. repeat split; auto.
             left. repeat split; auto. intro L. apply Hl; assumption.
          -- specialize (IH (add_data r (b :: d)) t' Hi' Hcmd Hhr).
             destruct (body_loop recv (S k') (add_data r (b :: d)) t') as [rc r' t''|r' t''].
             ++ destruct IH as (c & Hs' & IH). exists ((b :: d) ++ c).
                split; [rewrite Hs, Hs', app_assoc; reflexivity|].
                destruct IH as [(He & Hr & Hh & Hk)|(Hfu & Hk)]; [|discriminate].
                left. repeat split; auto.
                ** destruct He as [(? & Hsz & Hlv)|(? & Hlv)]; [left|right]; repeat split; auto.
                   --- destruct Hsz; [left; lia|right; assumption].
                   --- intro L. apply Hlv. apply Hl; assumption.
                   --- destruct (live t); [|reflexivity]. destruct (Hl eq_refl) as [_ X]. congruence.
                ** rewrite raws_app, Hraws. assumption.
             ++ destruct IH as (c & Hs' & Hr & Hcp & Hk & Hsz & Hlv & _ & _). exists ((b :: d) ++ c).
                repeat split; auto.
                ** rewrite Hs, Hs', app_assoc; reflexivity.
                ** rewrite raws_app, Hraws. assumption.
                ** lia.
                ** intro L. apply Hlv. apply Hl; assumption.
                ** discriminate.
                ** discriminate.
                ** lia.
      + destruct H as (Hs & Hz & Hl). exists []. split; [auto|]. left. repeat split; auto. left; auto.
      + destruct H. exists []. split; [auto|]. left. repeat split; auto. right; auto.
      + destruct H. exists []. split; [auto|]. left. repeat split; auto. right; auto.
  Qed.

  (* ---- the transport invariant is kept ---- *)
  Definition step_inv (x : step T) : Prop := match x with Ret _ _ t' => inv t' | Cont _ t' => inv t' end.

  Lemma phase1_inv r t : inv t -> step_inv (phase1 recv r t).
  Proof.
    intro Hi. unfold phase1. destruct (command r =? 0); [|exact Hi].
    pose proof (Hinv 1 t ltac:(lia) Hi) as H. destruct (recv 1 t) as [[[|b d]| | |] t']; cbn [snd] in H; try exact H.
    destruct (b =? 0); exact H.
  Qed.

  Lemma len_loop_inv fuel : forall r t, inv t -> step_inv (len_loop recv fuel r t).
  Proof.
    induction fuel as [|f IH]; intros r t Hi; [exact Hi|]. cbn [len_loop].
    pose proof (Hinv 1 t ltac:(lia) Hi) as H. destruct (recv 1 t) as [[[|b d]| | |] t']; cbn [snd] in H; try exact H.
    destruct (4 <? _); [exact H|]. destruct (Z.land b 128 =? 0); [exact H|]. apply IH; exact H.
  Qed.

  Lemma body_loop_inv count : forall r t, inv t -> step_inv (body_loop recv count r t).
  Proof.
    induction count as [|k IH]; intros r t Hi; cbn [body_loop]; destruct (0 <? to_process r) eqn:E; try exact Hi.
    apply Z.ltb_lt in E.
    pose proof (Hinv (to_process r) t ltac:(lia) Hi) as H.
    destruct (recv (to_process r) t) as [[[|b d]| | |] t']; cbn [snd] in H; try exact H.
    destruct k; [exact H|]. apply IH; exact H.
  Qed.

  Lemma packet_read_inv r t : inv t -> inv (snd (packet_read r t)).
  Proof.
    intro Hi. unfold Reader.packet_read.
    pose proof (phase1_inv r t Hi) as H1. destruct (phase1 recv r t) as [rc r1 t1|r1 t1]; [exact H1|].
    cbn [step_inv] in H1.
    assert (H2 : step_inv (phase2 recv r1 t1)).
    { unfold phase2. destruct (have_remaining r1); [exact H1|]. apply len_loop_inv; exact H1. }
    destruct (phase2 recv r1 t1) as [rc r2 t2|r2 t2]; [exact H2|]. cbn [step_inv] in H2.
    pose proof (body_loop_inv 100 r2 t2 H2) as H3.
    destruct (body_loop recv 100 r2 t2) as [rc r3 t3|r3 t3]; exact H3.
  Qed.

  (* ---- one _packet_read() call ---- *)
  Definition call_rel (r : rd) (c : list Z) (rc : prc) (r' : rd) : Prop :=
    match rc with
    | PrAgain | PrConnLost =>
        exists F, feed (snd (flush r)) c = (F, false, snd (flush r'), []) /\
                  fst (flush r) ++ F = fst (flush r') /\ rd_ok r'
    | PrProtocol => feed (snd (flush r)) c = ([], true, r', []) /\ fst (flush r) = []
    | PrFrame cmd body =>
        exists F, feed (snd (flush r)) c = (F, false, rd_init, []) /\
                  fst (flush r) ++ F = [(cmd, body)] /\ r' = rd_init
    | PrFuel => False
    end.

  Definition call_progress (r : rd) (t : T) (rc : prc) (t' : T) : Prop :=
    match rc with
    | PrAgain => ((size t' < size t)%nat \/ idle t' = true) /\ (live t = true -> live t' = true)
    | PrConnLost => live t = false
    | PrFrame _ _ =>
        (live t = true -> live t' = true) /\
        ((complete r = true /\ t' = t) \/ (complete r = false /\ (size t' < size t)%nat))
    | _ => True
    end.

  Lemma early_progress r t rc t' : early t rc t' -> call_progress r t rc t'.
  Proof. intros [(-> & ? & ?)|(-> & ?)]; cbn; auto. Qed.

  Lemma early_soft t rc t' : early t rc t' -> soft rc.
  Proof. intros [(-> & _)|(-> & _)]; [left|right]; reflexivity. Qed.

  Lemma early_mono t0 t1 rc t' :
    (size t1 <= size t0)%nat -> (live t0 = true -> live t1 = true) -> early t1 rc t' -> early t0 rc t'.
  Proof.
    intros Hs Hl [(-> & Hz & Hlv)|(-> & Hlv)]; [left|right]; repeat split; auto.
    - destruct Hz; [left; lia|right; assumption].
    - destruct (live t0); [|reflexivity]. rewrite (Hl eq_refl) in Hlv. discriminate.
  Qed.

  Lemma soft_rel r c rc r' :
    soft rc -> complete r = false -> raws r c = Some r' -> (command r' = 0 -> have_remaining r' = false) ->
    call_rel r c rc r'.
  Proof.
    intros Hsoft Hc Hr Hok.
    assert (X : exists F, feed (snd (flush r)) c = (F, false, snd (flush r'), []) /\
                          fst (flush r) ++ F = fst (flush r') /\ rd_ok r').
    { unfold flush at 1 3. rewrite Hc. cbn [fst snd]. exists (fst (flush r')).
      split; [apply raws_feed_flush; assumption|]. split; [reflexivity|assumption]. }
    destruct Hsoft; subst rc; exact X.
  Qed.

  Lemma packet_read_spec r t :
    inv t -> rd_ok r ->
    let '(rc, r', t') := packet_read r t in
    exists c, stream t = c ++ stream t' /\ call_rel r c rc r' /\ call_progress r t rc t'.
  Proof.
    intros Hi Hok. unfold Reader.packet_read.
    destruct (complete r) eqn:Hc.
    - (* a complete packet is pending (the 100-reads early return happened on its last byte) *)
      assert (Hhr : have_remaining r = true /\ (0 <? to_process r) = false).
      { unfold complete in Hc. apply andb_true_iff in Hc as [? Hc]. split; [assumption|].
        destruct (0 <? to_process r); [discriminate|reflexivity]. }
      destruct Hhr as [Hhr Htp].
      assert (Hc0 : (command r =? 0) = false).
      { apply Z.eqb_neq. intro E. rewrite (Hok E) in Hhr. discriminate. }
      unfold phase1. rewrite Hc0. unfold phase2. rewrite Hhr.
      cbn [body_loop]. rewrite Htp.
      exists []. split; [reflexivity|]. split.
      + cbn [call_rel]. unfold flush. rewrite Hc. cbn [fst snd]. exists []. repeat split.
      + cbn [call_progress]. split; [auto|]. left; auto.
    - assert (Hfl : snd (flush r) = r) by (unfold flush; rewrite Hc; reflexivity).
      pose proof (phase1_spec r t Hi Hok Hc) as H1.
      pose proof (phase1_inv r t Hi) as Hi1.
      destruct (phase1 recv r t) as [rc r1 t1|r1 t1].
      { destruct H1 as [(-> & Hs & He)|(-> & b & Hs & Hraw)].
        - exists []. split; [rewrite Hs; reflexivity|]. split.
          + apply soft_rel; [eapply early_soft; eassumption|assumption|reflexivity|assumption].
          + eapply early_progress; eassumption.
        - exists [b]. split; [assumption|]. split; [|exact I].
          cbn [call_rel]. unfold flush. rewrite Hc. cbn [fst snd]. split; [|reflexivity].
          apply (raws_feed_err r [] r b r1); [reflexivity|assumption|assumption]. }
      destruct H1 as (c1 & Hs1 & Hr1 & Hcmd1 & Hhr1 & Htp1 & Hsz1 & Hlv1 & Hnil1).
      cbn [step_inv] in Hi1.
      assert (Hi2 : step_inv (phase2 recv r1 t1)).
      { unfold phase2. destruct (have_remaining r1); [exact Hi1|]. apply len_loop_inv; exact Hi1. }
      (* phase 2 *)
      assert (H2 : match phase2 recv r1 t1 with
                   | Ret rc r2 t2 =>
                       exists c, stream t1 = c ++ stream t2 /\
                         ((early t1 rc t2 /\ raws r1 c = Some r2 /\ command r2 = command r1) \/
                          (rc = PrProtocol /\ exists c0 b r0, c = c0 ++ [b] /\ raws r1 c0 = Some r0 /\
                                               complete r0 = false /\ raw1 r0 b = (r2, true)))
                   | Cont r2 t2 =>
                       exists c, stream t1 = c ++ stream t2 /\ raws r1 c = Some r2 /\ have_remaining r2 = true /\
                                 command r2 = command r1 /\ (size t2 <= size t1)%nat /\
                                 (live t1 = true -> live t2 = true) /\
                                 (c = [] -> t2 = t1 /\ r2 = r1) /\ (c <> [] -> (size t2 < size t1)%nat)
                   end).
      { unfold phase2. destruct (have_remaining r1) eqn:Hh.
        - exists []. repeat split; auto. congruence.
        - pose proof (len_loop_spec 5 r1 t1 Hi1 Hcmd1 Hh) as H.
          destruct (len_loop recv 5 r1 t1) as [rc r2 t2|r2 t2].
          + destruct H as (c & Hs & [(He & Hr & _ & Hk)|[Hp|(_ & [Hl|Hl])]]).
            * exists c. split; [assumption|]. left; auto.
            * exists c. split; [assumption|]. right; assumption.
            * lia.
            * discriminate.
          + destruct H as (c & Hs & Hr & Hh2 & Hk & Hsz & Hlv). exists c.
            split; [assumption|]. split; [assumption|]. split; [assumption|]. split; [assumption|].
            split; [lia|]. split; [assumption|]. split; [|intros _; assumption].
            intros ->. cbn in Hr. inv Hr. congruence. }
      destruct (phase2 recv r1 t1) as [rc r2 t2|r2 t2].
      { destruct H2 as (c2 & Hs2 & [(He & Hr2 & Hk2)|(-> & c0 & b & r0 & -> & Hr0 & Hc0 & Hraw)]).
        - exists (c1 ++ c2). split; [rewrite Hs1, Hs2, app_assoc; reflexivity|]. split.
          + apply soft_rel; [eapply early_soft; eassumption|assumption| |].
            * rewrite raws_app, Hr1. assumption.
            * intro E. rewrite Hk2 in E. contradiction.
          + eapply early_progress, early_mono; eassumption.
        - exists (c1 ++ c0 ++ [b]). split; [rewrite Hs1, Hs2, app_assoc; reflexivity|]. split; [|exact I].
          cbn [call_rel]. unfold flush. rewrite Hc. cbn [fst snd]. split; [|reflexivity].
          rewrite app_assoc. eapply raws_feed_err; [|eassumption|eassumption].
          rewrite raws_app, Hr1. assumption. }
      destruct H2 as (c2 & Hs2 & Hr2 & Hhr2 & Hk2 & Hsz2 & Hlv2 & Hnil2 & Hne2).
      assert (Hcmd2 : command r2 <> 0) by (rewrite Hk2; assumption).
      cbn [step_inv] in Hi2.
      pose proof (body_loop_spec 100 r2 t2 Hi2 Hcmd2 Hhr2) as H3.
      destruct (body_loop recv 100 r2 t2) as [rc r3 t3|r3 t3].
      { destruct H3 as (c3 & Hs3 & [(He & Hr3 & _ & Hk3)|(_ & Hx)]); [|discriminate].
        exists (c1 ++ c2 ++ c3). split; [rewrite Hs1, Hs2, Hs3, !app_assoc; reflexivity|]. split.
        - apply soft_rel; [eapply early_soft; eassumption|assumption| |].
          + rewrite raws_app, Hr1, raws_app, Hr2. assumption.
          + intro E. rewrite Hk3 in E. contradiction.
        - eapply early_progress, early_mono; [| |eassumption]; [lia|auto]. }
      destruct H3 as (c3 & Hs3 & Hr3 & Hc3 & Hk3 & Hsz3 & Hlv3 & Hnil3 & Hne3).
      exists (c1 ++ c2 ++ c3). split; [rewrite Hs1, Hs2, Hs3, !app_assoc; reflexivity|]. split.
      + cbn [call_rel]. unfold flush at 1 2. rewrite Hc. cbn [fst snd].
        exists [(command r3, packet r3)]. split; [|split; reflexivity].
        assert (Hr : raws r (c1 ++ c2 ++ c3) = Some r3).
        { rewrite raws_app, Hr1, raws_app, Hr2. assumption. }
        rewrite (raws_feed_flush _ _ _ Hc Hr). unfold flush. rewrite Hc3. reflexivity.
      + cbn [call_progress]. split; [auto|]. right. split; [assumption|].
        destruct c3 as [|x c3].
        * destruct (Hnil3 eq_refl) as [-> ->].
          destruct c2 as [|y c2].
          -- destruct (Hnil2 eq_refl) as [-> ->].
             exfalso. unfold complete in Hc, Hc3. rewrite Hhr1, Htp1 in Hc3. congruence.
          -- assert (size t2 < size t1)%nat by (apply Hne2; discriminate). lia.
        * assert (size t3 < size t2)%nat by (apply Hne3; discriminate). lia.
  Qed.

  (* ---- the driver ---- *)
  Definition weight (r : rd) (t : T) : nat := (2 * size t + (if complete r then 1 else 0))%nat.

  Definition run_rel (r : rd) (c : list Z) (fs : list frame) (st : status) (r' : rd) : Prop :=
    match st with
    | StIdle | StConnLost =>
        exists F, feed (snd (flush r)) c = (F, false, snd (flush r'), []) /\
                  fst (flush r) ++ F = fs ++ fst (flush r')
    | StProtocol =>
        exists F, feed (snd (flush r)) c = (F, true, r', []) /\ fst (flush r) ++ F = fs
    | StFuel => True
    end.

  Lemma run_spec fuel : forall r t,
    inv t -> rd_ok r ->
    let '(fs, st, r', t') := run fuel r t in
    exists c, stream t = c ++ stream t' /\ run_rel r c fs st r' /\
      (st = StIdle -> idle t' = true) /\
      (st = StConnLost -> live t = false) /\
      (st = StFuel -> (fuel <= weight r t)%nat).
  Proof.
    induction fuel as [|f IH]; intros r t Hinvt Hok.
    - cbn [Reader.run]. exists []. repeat split; try discriminate. intros _. lia.
    - cbn [Reader.run]. pose proof (packet_read_spec r t Hinvt Hok) as H.
      pose proof (packet_read_inv r t Hinvt) as Hi1.
      destruct (packet_read r t) as [[rc r1] t1]. cbn [snd] in Hi1.
      destruct H as (c1 & Hs1 & Hrel & Hprog).
      destruct rc as [| | |cmd body|]; cbn [call_rel call_progress] in Hrel, Hprog.
      + (* AGAIN *)
        destruct Hrel as (F & HF & HFl & Hok1). destruct Hprog as [Hsz Hlv].
        destruct (idle t1) eqn:Hid.
        * exists c1. split; [assumption|]. split; [|repeat split; try discriminate; auto].
          cbn [run_rel]. exists F. split; [assumption|]. cbn [app]. assumption.
        * specialize (IH r1 t1 Hi1 Hok1).
          destruct (run f r1 t1) as [[[fs st] r2] t2].
          destruct IH as (c2 & Hs2 & Hrel2 & Hi & Hcl & Hfu).
          exists (c1 ++ c2). split; [rewrite Hs1, Hs2, app_assoc; reflexivity|].
          destruct Hsz as [Hsz|Hsz]; [|congruence].
          split; [|repeat split; auto].
          -- destruct st; cbn [run_rel] in *; auto; rewrite (feed_app _ _ c2 _ _ HF).
             ++ destruct Hrel2 as (F2 & HF2 & HFl2). rewrite HF2. exists (F ++ F2). split; [reflexivity|].
                rewrite app_assoc, HFl. assumption.
             ++ destruct Hrel2 as (F2 & HF2 & HFl2). rewrite HF2. exists (F ++ F2). split; [reflexivity|].
                rewrite app_assoc, HFl. assumption.
             ++ destruct Hrel2 as (F2 & HF2 & HFl2). rewrite HF2. exists (F ++ F2). split; [reflexivity|].
                rewrite app_assoc, HFl. assumption.
          -- intro E. specialize (Hcl E). destruct (live t); [|reflexivity]. rewrite (Hlv eq_refl) in Hcl. discriminate.
          -- intro E. specialize (Hfu E). unfold weight in *. destruct (complete r), (complete r1); lia.
      + (* CONN_LOST *)
        destruct Hrel as (F & HF & HFl & Hok1).
        exists c1. split; [assumption|]. split; [|repeat split; try discriminate; auto].
        cbn [run_rel]. exists F. split; [assumption|]. cbn [app]. assumption.
      + (* PROTOCOL *)
        destruct Hrel as (HF & HFl).
        exists c1. split; [assumption|]. split; [|repeat split; try discriminate; auto].
        cbn [run_rel]. exists []. split; [assumption|]. rewrite HFl. reflexivity.
      + (* a frame *)
        destruct Hrel as (F & HF & HFl & ->). destruct Hprog as [Hlv Hsz].
        specialize (IH rd_init t1 Hi1 rd_ok_init).
        destruct (run f rd_init t1) as [[[fs st] r2] t2].
        destruct IH as (c2 & Hs2 & Hrel2 & Hi & Hcl & Hfu).
        exists (c1 ++ c2). split; [rewrite Hs1, Hs2, app_assoc; reflexivity|].
        split; [|repeat split; auto].
        * destruct st; cbn [run_rel] in *; auto; rewrite (feed_app _ _ c2 _ _ HF);
            change (snd (flush rd_init)) with rd_init in *.
          -- destruct Hrel2 as (F2 & HF2 & HFl2). rewrite HF2. exists (F ++ F2). split; [reflexivity|].
             rewrite app_assoc, HFl. change (fst (flush rd_init)) with (@nil frame) in HFl2.
             cbn [app] in HFl2. rewrite HFl2. reflexivity.
          -- destruct Hrel2 as (F2 & HF2 & HFl2). rewrite HF2. exists (F ++ F2). split; [reflexivity|].
             rewrite app_assoc, HFl. change (fst (flush rd_init)) with (@nil frame) in HFl2.
             cbn [app] in HFl2. rewrite HFl2. reflexivity.
          -- destruct Hrel2 as (F2 & HF2 & HFl2). rewrite HF2. exists (F ++ F2). split; [reflexivity|].
             rewrite app_assoc, HFl. change (fst (flush rd_init)) with (@nil frame) in HFl2.
             cbn [app] in HFl2. rewrite HFl2. reflexivity.
        * intro E. specialize (Hcl E). destruct (live t); [|reflexivity]. rewrite (Hlv eq_refl) in Hcl. discriminate.
        * intro E. specialize (Hfu E). unfold weight in *. cbn [complete rd_init have_remaining andb] in Hfu.
          destruct Hsz as [[Hc ->]|[Hc Hsz]]; rewrite Hc; lia.
      + contradiction.
  Qed.

  Lemma run_inv fuel : forall r t, inv t -> inv (snd (run fuel r t)).
  Proof.
    induction fuel as [|f IH]; intros r t Hi; [exact Hi|]. cbn [Reader.run].
    pose proof (packet_read_inv r t Hi) as H. destruct (packet_read r t) as [[rc r1] t1]. cbn [snd] in H.
    destruct rc; try exact H.
    - destruct (idle t1); [exact H|]. apply IH; exact H.
    - specialize (IH r1 t1 H). destruct (run f r1 t1) as [[[fs st] r2] t2]. exact IH.
  Qed.
End GenericProofs.

(* ------------------------------------------------------------------------------------------------ *)
(* the raw socket is such a transport *)
Definition sock_stream (s : sock) : list Z := fst s.
Definition sock_size (s : sock) : nat := (length (fst s) + length (snd s))%nat.
Definition ev_live (e : ev) : bool := match e with Eof | Err => false | _ => true end.
Definition sock_live (s : sock) : bool := forallb ev_live (snd s).

Lemma take_drop n l : take n l ++ drop n l = l.
Proof. apply firstn_skipn. Qed.

Lemma drop_length n l : 1 <= n -> l <> [] -> (length (drop n l) < length l)%nat.
Proof.
  intros Hn Hl. unfold drop. rewrite skipn_length. destruct l; [congruence|]. cbn [length]. lia.
Qed.

Lemma take_nonempty n l : 1 <= n -> l <> [] -> take n l <> [].
Proof.
  intros Hn Hl. unfold take. destruct l as [|x l]; [congruence|].
  destruct (Z.to_nat n) eqn:E; [lia|]. cbn. discriminate.
Qed.

Lemma take_length n l : 0 <= n -> Z.of_nat (length (take n l)) <= n.
Proof. intros Hn. unfold take. pose proof (firstn_le_length (Z.to_nat n) l). lia. Qed.

Definition sock_inv (s : sock) : Prop := True.

Lemma sock_recv_inv : recv_inv sock_recv sock_inv.
Proof. intros n t _ _. exact I. Qed.

Lemma sock_recv_spec : recv_spec sock_recv sock_idle sock_stream sock_size sock_live sock_inv.
Proof.
  intros n [av sch] Hn _. unfold sock_recv, sock_stream, sock_size, sock_live, sock_idle.
  destruct sch as [|e sch'].
  - destruct av as [|a av'].
    + cbn. repeat split; auto.
    + cbn [fst snd]. split; [|split; [|split; [intros _; split|]]].
      * symmetry; apply take_drop.
      * pose proof (drop_length n (a :: av') Hn ltac:(discriminate)). cbn [length] in *. lia.
      * apply take_nonempty; [assumption|discriminate].
      * reflexivity.
      * apply take_length; lia.
  - destruct e as [k| | |]; cbn [fst snd forallb ev_live andb].
    + destruct av as [|a av']; cbn [fst snd].
      * split; [reflexivity|split; [left; cbn [length]; lia|auto]].
      * assert (Hm : 1 <= Z.max 1 (Z.min n k) <= n) by lia.
        split; [|split; [|split; [intros Hl; split|]]].
        -- symmetry; apply take_drop.
        -- pose proof (drop_length (Z.max 1 (Z.min n k)) (a :: av') ltac:(lia) ltac:(discriminate)).
           cbn [length] in *. lia.
        -- apply take_nonempty; [lia|discriminate].
        -- assumption.
        -- pose proof (take_length (Z.max 1 (Z.min n k)) (a :: av') ltac:(lia)). lia.
    + split; [reflexivity|split; [left; cbn [length]; lia|auto]].
    + split; reflexivity.
    + split; reflexivity.
Qed.

Lemma sock_idle_nil s : sock_idle s = true -> fst s = [].
Proof. unfold sock_idle. destruct (fst s); [reflexivity|discriminate]. Qed.

Definition is_proto (st : status) : bool := match st with StProtocol => true | _ => false end.

(* THE refinement theorem: every schedule, every byte string, every (sane) starting state *)
Theorem read_refines_feed_gen : forall r bs sch,
  rd_ok r ->
  let '(fs, st, r', s') := sock_run (sock_fuel (bs, sch)) r (bs, sch) in
  st <> StFuel /\
  exists c, bs = c ++ fst s' /\
    (if is_proto st
     then exists F, feed (snd (flush r)) c = (F, true, r', []) /\ fst (flush r) ++ F = fs
     else exists F, feed (snd (flush r)) c = (F, false, snd (flush r'), []) /\
                    fst (flush r) ++ F = fs ++ fst (flush r')) /\
    (st = StIdle -> fst s' = []) /\
    (st = StConnLost -> sock_live (bs, sch) = false).
Proof.
  intros r bs sch Hok.
  pose proof (run_spec sock_recv sock_idle sock_stream sock_size sock_live sock_inv sock_recv_spec sock_recv_inv
                (sock_fuel (bs, sch)) r (bs, sch) I Hok) as H.
  unfold sock_run. destruct (run sock_recv sock_idle (sock_fuel (bs, sch)) r (bs, sch)) as [[[fs st] r'] s'].
  destruct H as (c & Hs & Hrel & Hi & Hcl & Hfu). split.
  - intro E. specialize (Hfu E). unfold weight, sock_fuel, sock_size in Hfu. cbn [fst snd] in Hfu.
    destruct (complete r); lia.
  - exists c. split; [exact Hs|]. split; [|split].
    + destruct st; cbn [is_proto run_rel] in *; try assumption. exfalso.
      apply (fun X => X) in Hfu. (* StFuel excluded above; keep the goal simple *)
      specialize (Hfu eq_refl). unfold weight, sock_fuel, sock_size in Hfu. cbn [fst snd] in Hfu.
      destruct (complete r); lia.
    + intro E. apply sock_idle_nil. auto.
    + assumption.
Qed.

Theorem read_refines_feed : forall bs sch,
  let '(fs, st, r', s') := sock_run (sock_fuel (bs, sch)) rd_init (bs, sch) in
  st <> StFuel /\
  exists c, bs = c ++ fst s' /\
    (if is_proto st
     then feed rd_init c = (fs, true, r', [])
     else feed rd_init c = (fs ++ fst (flush r'), false, snd (flush r'), [])) /\
    (st = StIdle -> fst s' = []) /\
    (st = StConnLost -> sock_live (bs, sch) = false).
Proof.
  intros bs sch.
  pose proof (read_refines_feed_gen rd_init bs sch rd_ok_init) as H.
  destruct (sock_run (sock_fuel (bs, sch)) rd_init (bs, sch)) as [[[fs st] r'] s'].
  destruct H as (Hf & c & Hs & Hrel & Hi & Hcl). split; [assumption|].
  exists c. split; [assumption|]. split; [|split; assumption].
  change (snd (flush rd_init)) with rd_init in Hrel. change (fst (flush rd_init)) with (@nil frame) in Hrel.
  destruct (is_proto st); destruct Hrel as (F & HF & HFl); cbn [app] in HFl; subst F; assumption.
Qed.

(* observable result of a run, with a pending complete packet counted as delivered *)
Definition outcome (x : list frame * status * rd * sock) : list frame * bool * rd * list Z :=
  let '(fs, st, r', s') := x in
  if is_proto st then (fs, true, r', fst s')
  else (fs ++ fst (flush r'), false, snd (flush r'), fst s').

(* schedules made of Chunk / Block only: the run equals the fold, whatever the schedule *)
Theorem read_total : forall bs sch,
  sock_live (bs, sch) = true ->
  outcome (sock_run (sock_fuel (bs, sch)) rd_init (bs, sch)) = feed rd_init bs.
Proof.
  intros bs sch Hlive.
  pose proof (read_refines_feed bs sch) as H.
  destruct (sock_run (sock_fuel (bs, sch)) rd_init (bs, sch)) as [[[fs st] r'] s'].
  destruct H as (Hf & c & Hs & Hrel & Hi & Hcl). unfold outcome.
  destruct st; cbn [is_proto] in *.
  - rewrite (Hi eq_refl) in *. rewrite app_nil_r in Hs. subst c. symmetry; assumption.
  - rewrite (Hcl eq_refl) in Hlive. discriminate.
  - rewrite Hs. symmetry. apply feed_err_app. assumption.
  - congruence.
Qed.

Corollary chunk_independent : forall bs sch1 sch2,
  sock_live (bs, sch1) = true -> sock_live (bs, sch2) = true ->
  outcome (sock_run (sock_fuel (bs, sch1)) rd_init (bs, sch1)) =
  outcome (sock_run (sock_fuel (bs, sch2)) rd_init (bs, sch2)).
Proof. intros. rewrite !read_total by assumption. reflexivity. Qed.

(* arbitrary schedules (also with EOF / errors): same bytes consumed => same frames, error, state *)
Corollary chunk_independent_gen : forall bs sch1 sch2,
  let x1 := sock_run (sock_fuel (bs, sch1)) rd_init (bs, sch1) in
  let x2 := sock_run (sock_fuel (bs, sch2)) rd_init (bs, sch2) in
  snd (outcome x1) = snd (outcome x2) -> outcome x1 = outcome x2.
Proof.
  intros bs sch1 sch2 x1 x2. subst x1 x2.
  pose proof (read_refines_feed bs sch1) as H1.
  pose proof (read_refines_feed bs sch2) as H2.
  destruct (sock_run (sock_fuel (bs, sch1)) rd_init (bs, sch1)) as [[[fs1 st1] r1] s1].
  destruct (sock_run (sock_fuel (bs, sch2)) rd_init (bs, sch2)) as [[[fs2 st2] r2] s2].
  destruct H1 as (_ & c1 & Hs1 & Hrel1 & _). destruct H2 as (_ & c2 & Hs2 & Hrel2 & _).
  unfold outcome. intro Hrest.
  assert (Hr : fst s1 = fst s2) by (destruct (is_proto st1), (is_proto st2); exact Hrest).
  assert (c1 = c2) by (rewrite Hr in Hs1; rewrite Hs1 in Hs2; eapply app_inv_tail; eassumption).
  subst c2. rewrite Hr.
  destruct (is_proto st1), (is_proto st2); congruence.
Qed.

(* regression for F-C05b (fixed in /repo 362d314): the stream 00 00, whole or as 00 | EAGAIN | 00,
   is a protocol error at its first byte; before the fix the split delivery swallowed both bytes *)
Example zero_command_regression :
  outcome (sock_run 20 rd_init ([0; 0], [])) = ([], true, rd_init, [0]) /\
  outcome (sock_run 20 rd_init ([0; 0], [Chunk 1; Block])) = ([], true, rd_init, [0]).
Proof. split; vm_compute; reflexivity. Qed.

(* ------------------------------------------------------------------------------------------------ *)
(* framing round trip *)

Lemma rl_step x mult rl : rl + (x mod 128) * mult + x / 128 * (mult * 128) = rl + x * mult.
Proof.
  pose proof (Z.div_mod x 128 ltac:(lia)) as H.
  remember (x / 128) as q. remember (x mod 128) as d. rewrite H. ring.
Qed.

Lemma enc_rl_fuel_S f x :
  enc_rl_fuel (S f) x = if 0 <? x / 128 then (x mod 128 + 128) :: enc_rl_fuel f (x / 128) else [x mod 128].
Proof. reflexivity. Qed.

Lemma raws_enc_rl c : c <> 0 -> forall fuel x cnt mult rl,
  0 <= x < 128 ^ Z.of_nat (S fuel) -> (length cnt + S fuel <= 4)%nat ->
  exists cnt' m,
    raws (mkRd c false cnt mult rl [] 0) (enc_rl_fuel (S fuel) x) =
    Some (mkRd c true cnt' m (rl + x * mult) [] (rl + x * mult)).
Proof.
  intros Hc. induction fuel as [|f IH]; intros x cnt mult rl Hx Hlen.
  - change (128 ^ Z.of_nat 1) with 128 in Hx.
    cbn [enc_rl_fuel]. replace (0 <? x / 128) with false by (symmetry; apply Z.ltb_ge; lia).
    replace (x mod 128) with x by lia.
    cbn [raws complete have_remaining andb]. unfold raw1.
    cbn [command have_remaining negb push_count remaining_count].
    apply Z.eqb_neq in Hc. rewrite Hc.
    replace (4 <? Z.of_nat (length (cnt ++ [x]))) with false
      by (symmetry; apply Z.ltb_ge; rewrite app_length; cbn [length]; lia).
    rewrite land_128 by lia. replace (x <? 128) with true by (symmetry; apply Z.ltb_lt; lia).
    cbn [Z.eqb]. unfold finish_length, add_length, push_count.
    cbn [command have_remaining remaining_count remaining_mult remaining_length packet to_process].
    rewrite land_127 by lia. replace (x mod 128) with x by lia.
    eexists _, _. reflexivity.
  - assert (Hp : 128 ^ Z.of_nat (S (S f)) = 128 * 128 ^ Z.of_nat (S f)).
    { rewrite (Nat2Z.inj_succ (S f)), Z.pow_succ_r by lia. reflexivity. }
    rewrite enc_rl_fuel_S. destruct (0 <? x / 128) eqn:E.
    + apply Z.ltb_lt in E.
      set (d := x mod 128). assert (Hd : 0 <= d < 128) by (subst d; lia).
      cbn [raws complete have_remaining andb]. unfold raw1.
      cbn [command have_remaining negb push_count remaining_count].
      apply Z.eqb_neq in Hc. rewrite Hc.
      replace (4 <? Z.of_nat (length (cnt ++ [d + 128]))) with false
        by (symmetry; apply Z.ltb_ge; rewrite app_length; cbn [length]; lia).
      rewrite land_128 by lia. replace (d + 128 <? 128) with false by (symmetry; apply Z.ltb_ge; lia).
      cbn [Z.eqb]. unfold add_length, push_count.
      cbn [command have_remaining remaining_count remaining_mult remaining_length packet to_process].
      rewrite land_127 by lia. replace ((d + 128) mod 128) with d by lia.
      destruct (IH (x / 128) (cnt ++ [d + 128]) (mult * 128) (rl + d * mult)) as (cnt' & m & Hr).
      * rewrite Hp in Hx. lia.
      * rewrite app_length. cbn [length]. lia.
      * rewrite Hr. eexists _, _. f_equal.
        assert (Hx' : rl + d * mult + x / 128 * (mult * 128) = rl + x * mult).
        { subst d. apply rl_step. }
        rewrite Hx'. reflexivity.
    + apply Z.ltb_ge in E.
      assert (x < 128) by lia.
      replace (x mod 128) with x by lia.
      cbn [raws complete have_remaining andb]. unfold raw1.
      cbn [command have_remaining negb push_count remaining_count].
      apply Z.eqb_neq in Hc. rewrite Hc.
      replace (4 <? Z.of_nat (length (cnt ++ [x]))) with false
        by (symmetry; apply Z.ltb_ge; rewrite app_length; cbn [length]; lia).
      rewrite land_128 by lia. replace (x <? 128) with true by (symmetry; apply Z.ltb_lt; lia).
      cbn [Z.eqb]. unfold finish_length, add_length, push_count.
      cbn [command have_remaining remaining_count remaining_mult remaining_length packet to_process].
      rewrite land_127 by lia. replace (x mod 128) with x by lia.
      eexists _, _. reflexivity.
Qed.

Lemma raws_body r d :
  command r <> 0 -> have_remaining r = true -> to_process r = Z.of_nat (length d) ->
  exists r', raws r d = Some r' /\ complete r' = true /\ command r' = command r /\ packet r' = packet r ++ d.
Proof.
  intros Hc Hh Ht. destruct d as [|b d].
  - exists r. cbn [raws]. repeat split; auto.
    + unfold complete. rewrite Hh, Ht. reflexivity.
    + rewrite app_nil_r; reflexivity.
  - exists (add_data r (b :: d)).
    assert (X : forall (T : Type), True) by auto.
    pose proof (raws_add_data (b :: d) r Hc Hh ltac:(lia)) as [H|[H _]]; [|discriminate].
    repeat split; auto.
    unfold complete, add_data. cbn [have_remaining to_process]. rewrite Hh, Ht.
    replace (0 <? Z.of_nat (length (b :: d)) - Z.of_nat (length (b :: d))) with false
      by (symmetry; apply Z.ltb_ge; lia).
    reflexivity.
Qed.

Lemma frame_raws c body :
  frame_ok (c, body) = true ->
  c <> 0 /\
  exists r3, raws (mkRd c false [] 1 0 [] 0) (enc_rl (Z.of_nat (length body)) ++ body) = Some r3 /\
             complete r3 = true /\ command r3 = c /\ packet r3 = body.
Proof.
  unfold frame_ok, max_rl. cbn [fst snd]. intro Hok.
  apply andb_true_iff in Hok as [Hok Hl]. apply andb_true_iff in Hok as [Hc1 Hc2].
  assert (Hc : c <> 0) by lia. split; [assumption|].
  set (n := Z.of_nat (length body)) in *.
  destruct (raws_enc_rl c Hc 3%nat n [] 1 0) as (cnt' & m & Hr).
  { change (128 ^ Z.of_nat 4) with 268435456. lia. }
  { cbn. lia. }
  replace (0 + n * 1) with n in Hr by lia.
  destruct (raws_body (mkRd c true cnt' m n [] n) body) as (r3 & Hr3 & Hc3 & Hk3 & Hp3); try reflexivity; try assumption.
  exists r3. repeat split; auto.
  rewrite raws_app. unfold enc_rl. rewrite Hr. assumption.
Qed.

Lemma feed_one_frame f :
  frame_ok f = true -> feed rd_init (encode_frame f) = ([f], false, rd_init, []).
Proof.
  destruct f as [c body]. intro Hok. destruct (frame_raws c body Hok) as (Hc & r3 & Hr & Hc3 & Hk3 & Hp3).
  unfold encode_frame. cbn [fst snd].
  assert (H : raws rd_init (c :: enc_rl (Z.of_nat (length body)) ++ body) = Some r3).
  { cbn [raws]. rewrite complete_init. unfold raw1. cbn [command rd_init Z.eqb].
    apply Z.eqb_neq in Hc. rewrite Hc. exact Hr. }
  rewrite (raws_feed_flush _ _ _ complete_init H). unfold flush. rewrite Hc3.
  cbn [fst snd]. rewrite Hk3, Hp3. reflexivity.
Qed.

Theorem frames_roundtrip : forall fs,
  forallb frame_ok fs = true ->
  feed rd_init (concat (map encode_frame fs)) = (fs, false, rd_init, []).
Proof.
  induction fs as [|f fs IH]; intro H; [reflexivity|].
  cbn [forallb] in H. apply andb_true_iff in H as [Hf H].
  cbn [map concat]. rewrite (feed_app _ _ _ _ _ (feed_one_frame f Hf)), (IH H). reflexivity.
Qed.


(* any list of frames, encoded, pushed through the reader under any Chunk/Block schedule, comes out intact *)
Corollary read_encoded_frames : forall fs sch,
  forallb frame_ok fs = true -> sock_live ([], sch) = true ->
  let bs := concat (map encode_frame fs) in
  outcome (sock_run (sock_fuel (bs, sch)) rd_init (bs, sch)) = (fs, false, rd_init, []).
Proof.
  intros fs sch Hf Hl bs. subst bs.
  rewrite read_total; [apply frames_roundtrip; assumption|exact Hl].
Qed.

(* ------------------------------------------------------------------------------------------------ *)
(* the handlers read `remaining_length`; at dispatch it is the length of the body *)
Definition rl_inv (r : rd) : Prop :=
  0 <= remaining_length r /\ 0 < remaining_mult r /\
  (have_remaining r = false -> packet r = []) /\
  (have_remaining r = true ->
     0 <= to_process r /\ remaining_length r = Z.of_nat (length (packet r)) + to_process r).

Lemma rl_inv_init : rl_inv rd_init.
Proof. unfold rl_inv. cbn. repeat split; try lia; try discriminate; auto. Qed.

Lemma raw1_rl_inv r b r' : rl_inv r -> complete r = false -> raw1 r b = (r', false) -> rl_inv r'.
Proof.
  intros (H0 & Hm & Hp & Hh) Hc. unfold raw1.
  destruct (command r =? 0).
  - destruct (b =? 0); intro E; inv E. unfold rl_inv, set_command; cbn [remaining_length remaining_mult have_remaining packet to_process]. auto.
  - destruct (have_remaining r) eqn:Ehr; cbn [negb].
    + intro E; inv E. specialize (Hh eq_refl). destruct Hh as [Ht Hl].
      unfold complete in Hc. cbn [andb] in Hc.
      rewrite Ehr in Hc. cbn [andb] in Hc.
      assert (0 < to_process r) by (destruct (0 <? to_process r) eqn:X; [lia|cbn in Hc; discriminate]).
      unfold rl_inv, add_data; cbn [remaining_length remaining_mult have_remaining packet to_process].
      rewrite Ehr. split; [assumption|]. split; [assumption|]. split; [discriminate|].
      intros _. rewrite app_length. cbn [length]. lia.
    + cbv zeta. destruct (4 <? _); [discriminate|].
      assert (0 <= Z.land b 127) by (apply Z.land_nonneg; right; lia).
      assert (0 <= remaining_length r + Z.land b 127 * remaining_mult r) by nia.
      specialize (Hp eq_refl).
      destruct (Z.land b 128 =? 0); intro E; inv E;
        unfold rl_inv, finish_length, add_length, push_count;
        cbn [remaining_length remaining_mult have_remaining packet to_process].
      * split; [assumption|]. split; [lia|]. split; [discriminate|].
        intros _. rewrite Hp. cbn [length]. lia.
      * split; [assumption|]. split; [lia|]. split; [auto|]. congruence.
Qed.

Lemma feed1_frame_length r b r' c body :
  rl_inv r -> complete r = false -> feed1 r b = (r', FFrame c body) ->
  exists r1, raw1 r b = (r1, false) /\ command r1 = c /\ packet r1 = body /\
             remaining_length r1 = Z.of_nat (length body) /\ rl_inv r'.
Proof.
  intros Hi Hc. unfold feed1. destruct (raw1 r b) as [r1 e] eqn:E1. destruct e; [discriminate|].
  destruct (complete r1) eqn:Ec1; [|discriminate]. intro E; inv E.
  exists r1. split; [reflexivity|]. split; [reflexivity|]. split; [reflexivity|]. split; [|apply rl_inv_init].
  destruct (raw1_rl_inv _ _ _ Hi Hc E1) as (_ & _ & _ & Hh).
  unfold complete in Ec1. apply andb_true_iff in Ec1 as [Eh Et]. destruct (Hh Eh) as [Ht Hl].
  destruct (0 <? to_process r1) eqn:X; [discriminate|]. lia.
Qed.
