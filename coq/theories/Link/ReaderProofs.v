(* Proofs about Link/Reader.v: the resumable reader refines the byte-at-a-time automaton for every
   transport behaviour; framing round trip. *)
From PahoV Require Import Base.Prelude Link.Reader.

(* ------------------------------------------------------------------------------------------------ *)
(* bit facts on bytes *)

Lemma land_127 b : 0 <= b -> Z.land b 127 = b mod 128.
Proof. intros. change 127 with (Z.ones 7). rewrite Z.land_ones by lia. reflexivity. Qed.

Definition byte_tab_ok : bool :=
  forallb (fun n => let b := Z.of_nat n in Z.land b 128 =? (if b <? 128 then 0 else 128)) (seq 0 256).

Lemma land_128 b : 0 <= b < 256 -> Z.land b 128 = if b <? 128 then 0 else 128.
Proof.
  intros H.
  assert (E : byte_tab_ok = true) by (vm_compute; reflexivity).
  unfold byte_tab_ok in E. rewrite forallb_forall in E.
  specialize (E (Z.to_nat b)). cbv zeta in E. rewrite Z2Nat.id in E by lia.
  apply Z.eqb_eq, E. apply in_seq. lia.
Qed.

(* ------------------------------------------------------------------------------------------------ *)
(* the automaton: raw steps, completion, folding *)

Definition flush (r : rd) : list frame * rd :=
  if complete r then ([(command r, packet r)], rd_init) else ([], r).

(* command == 0 only while nothing else has been read *)
Definition rd_ok (r : rd) : Prop := command r = 0 -> have_remaining r = false.

Lemma rd_ok_init : rd_ok rd_init.
Proof. intro; reflexivity. Qed.

Lemma complete_init : complete rd_init = false.
Proof. reflexivity. Qed.

Lemma flush_init : flush rd_init = ([], rd_init).
Proof. reflexivity. Qed.

(* fold of raw1 without error, no state before a byte being complete *)
Fixpoint raws (r : rd) (bs : list Z) : option rd :=
  match bs with
  | [] => Some r
  | b :: bs' =>
      if complete r then None
      else let '(r', e) := raw1 r b in if e then None else raws r' bs'
  end.

Lemma raws_app r a b :
  raws r (a ++ b) = match raws r a with Some r1 => raws r1 b | None => None end.
Proof.
  revert r; induction a as [|x a IH]; intros r; cbn [app raws]; [reflexivity|].
  destruct (complete r); [reflexivity|].
  destruct (raw1 r x) as [r' e]. destruct e; [reflexivity|]. apply IH.
Qed.

Lemma raws_cons_not_complete r b bs r' : raws r (b :: bs) = Some r' -> complete r = false.
Proof. cbn [raws]. destruct (complete r); congruence. Qed.

(* a clean raw prefix is invisible to feed *)
Lemma feed_raws_prefix r c r1 rest :
  raws r c = Some r1 -> complete r1 = false -> feed r (c ++ rest) = feed r1 rest.
Proof.
  revert r; induction c as [|b c IH]; intros r H Hc.
  - cbn in H. inv H. reflexivity.
  - pose proof (raws_cons_not_complete _ _ _ _ H) as Hr.
    cbn [raws] in H. rewrite Hr in H.
    destruct (raw1 r b) as [r' e] eqn:E1. destruct e; [discriminate|].
    assert (Hc' : complete r' = false).
    { destruct c as [|b2 c2]; [cbn in H; inv H; assumption|].
      eapply raws_cons_not_complete; eassumption. }
    cbn [app feed]. unfold feed1. rewrite E1, Hc'. apply IH; assumption.
Qed.

Lemma feed_nil r : feed r [] = ([], false, r, []).
Proof. reflexivity. Qed.

Lemma raws_feed_flush r c r' :
  complete r = false -> raws r c = Some r' ->
  feed r c = (fst (flush r'), false, snd (flush r'), []).
Proof.
  intros Hr H.
  destruct c as [|b c] using rev_ind.
  - cbn in H. inv H. unfold flush. rewrite Hr. reflexivity.
  - clear IHc. rewrite raws_app in H. destruct (raws r c) as [r1|] eqn:E; [|discriminate].
    pose proof (raws_cons_not_complete _ _ _ _ H) as Hc1.
    rewrite (feed_raws_prefix _ _ _ _ E Hc1).
    cbn [raws] in H. rewrite Hc1 in H. destruct (raw1 r1 b) as [r2 e] eqn:E1.
    destruct e; [discriminate|]. inv H.
    cbn [feed]. unfold feed1, flush. rewrite E1.
    destruct (complete r') eqn:Ec; reflexivity.
Qed.

Lemma raws_feed_err r c r0 b r' :
  raws r c = Some r0 -> complete r0 = false -> raw1 r0 b = (r', true) ->
  feed r (c ++ [b]) = ([], true, r', []).
Proof.
  intros H Hc E. rewrite (feed_raws_prefix _ _ _ _ H Hc).
  cbn [feed]. unfold feed1. rewrite E. reflexivity.
Qed.

Lemma feed_app r c1 c2 F1 R1 :
  feed r c1 = (F1, false, R1, []) ->
  feed r (c1 ++ c2) = let '(F2, e, R2, rest) := feed R1 c2 in (F1 ++ F2, e, R2, rest).
Proof.
  revert r F1; induction c1 as [|b c1 IH]; intros r F1 H.
  - cbn in H. inv H. cbn [app]. destruct (feed R1 c2) as [[[F2 e] R2] rest]. reflexivity.
  - cbn [app feed] in *. destruct (feed1 r b) as [r' fr]. destruct fr.
    + apply IH; assumption.
    + destruct (feed r' c1) as [[[fs e] r''] rest] eqn:E. inv H.
      rewrite (IH _ _ E). destruct (feed R1 c2) as [[[F2 e2] R2] rest2]. reflexivity.
    + discriminate.
Qed.

Lemma feed_err_app r c F R rest :
  feed r c = (F, true, R, []) -> feed r (c ++ rest) = (F, true, R, rest).
Proof.
  revert r F; induction c as [|b c IH]; intros r F H.
  - cbn in H. discriminate.
  - cbn [app feed] in *. destruct (feed1 r b) as [r' fr]. destruct fr.
    + apply IH; assumption.
    + destruct (feed r' c) as [[[fs e] r''] rest'] eqn:E. inv H.
      rewrite (IH _ _ E). reflexivity.
    + inv H. reflexivity.
Qed.

Lemma cmd_ok_app r c rest F R :
  cmd_ok r (c ++ rest) = true -> feed r c = (F, false, R, []) -> cmd_ok R rest = true.
Proof.
  revert r F; induction c as [|b c IH]; intros r F H HF.
  - cbn in HF. inv HF. assumption.
  - cbn [app cmd_ok feed] in *. apply andb_true_iff in H as [_ H].
    destruct (feed1 r b) as [r' fr]. destruct fr.
    + eapply IH; eassumption.
    + destruct (feed r' c) as [[[fs e] r''] rest'] eqn:E. inv HF. eapply IH; eassumption.
    + discriminate.
Qed.

Lemma cmd_ok_head r b rest : cmd_ok r (b :: rest) = true -> command r = 0 -> b <> 0.
Proof.
  cbn [cmd_ok]. intros H Hc. apply andb_true_iff in H as [H _]. rewrite Hc in H. cbn in H.
  intro; subst. discriminate.
Qed.

(* ------------------------------------------------------------------------------------------------ *)
Section GenericProofs.
  Context {T : Type}.
  Variable recv : Z -> T -> rres * T.
  Variable idle : T -> bool.
  Variable stream : T -> list Z.       (* ghost: bytes the transport will still deliver, in order *)
  Variable size : T -> nat.            (* ghost: termination measure *)
  Variable live : T -> bool.           (* ghost: the transport never fails *)

  Definition recv_spec : Prop := forall n t, 1 <= n ->
    match recv n t with
    | (RData d, t') =>
        stream t = d ++ stream t' /\ (size t' < size t)%nat /\
        (live t = true -> d <> [] /\ live t' = true) /\ Z.of_nat (length d) <= n
    | (RBlock, t') =>
        stream t' = stream t /\ ((size t' < size t)%nat \/ idle t' = true) /\ (live t = true -> live t' = true)
    | (_, t') => stream t' = stream t /\ live t = false
    end.

  Hypothesis Hrecv : recv_spec.

  Local Notation packet_read := (packet_read recv).
  Local Notation run := (run recv idle).

  Definition soft (rc : prc) : Prop := rc = PrAgain \/ rc = PrConnLost.

  (* what a step may report when it returns early without a protocol error *)
  Definition early (t0 : T) (rc : prc) (t' : T) : Prop :=
    (rc = PrAgain /\ ((size t' < size t0)%nat \/ idle t' = true) /\ (live t0 = true -> live t' = true)) \/
    (rc = PrConnLost /\ live t0 = false).

  Lemma recv1_cases t :
    match recv 1 t with
    | (RData [b], t') => stream t = b :: stream t' /\ (size t' < size t)%nat /\ (live t = true -> live t' = true)
    | (RData [], t') => stream t = stream t' /\ live t = false
    | (RData (_ :: _ :: _), _) => False
    | (RBlock, t') => stream t' = stream t /\ ((size t' < size t)%nat \/ idle t' = true) /\ (live t = true -> live t' = true)
    | (_, t') => stream t' = stream t /\ live t = false
    end.
  Proof.
    pose proof (Hrecv 1 t ltac:(lia)) as H. destruct (recv 1 t) as [[d| | |] t']; try assumption.
    destruct H as (Hs & Hz & Hl & Hn). destruct d as [|b [|b2 d]].
    - split; [assumption|]. destruct (live t); [|reflexivity]. destruct (Hl eq_refl) as [X _]. congruence.
    - repeat split; try assumption. intro L. apply Hl; assumption.
    - cbn [length] in Hn. lia.
  Qed.

  (* ---- phase 1 ---- *)
  Lemma phase1_spec r t :
    rd_ok r -> complete r = false -> cmd_ok r (stream t) = true ->
    match phase1 recv r t with
    | Ret rc r' t' => r' = r /\ stream t' = stream t /\ early t rc t'
    | Cont r' t' =>
        exists c, stream t = c ++ stream t' /\ raws r c = Some r' /\ command r' <> 0 /\
                  have_remaining r' = have_remaining r /\ to_process r' = to_process r /\
                  (size t' <= size t)%nat /\ (live t = true -> live t' = true) /\
                  (c = [] -> t' = t)
    end.
  Proof.
    intros Hok Hc Hcmd. unfold phase1. destruct (command r =? 0) eqn:E0.
    - apply Z.eqb_eq in E0. pose proof (recv1_cases t) as H.
      destruct (recv 1 t) as [[d| | |] t'].
      + destruct d as [|b [|b2 d]].
        * destruct H. repeat split; auto. right. auto.
        * destruct H as (Hs & Hz & Hl). exists [b]. rewrite Hs in Hcmd.
          pose proof (cmd_ok_head _ _ _ Hcmd E0) as Hb.
          cbn [raws]. rewrite Hc. unfold raw1. rewrite E0. cbn [Z.eqb].
          repeat split; auto; try lia. discriminate.
        * contradiction.
      + destruct H as (Hs & Hz & Hl). repeat split; auto. left. auto.
      + destruct H. repeat split; auto. right; auto.
      + destruct H. repeat split; auto. right; auto.
    - apply Z.eqb_neq in E0. exists []. repeat split; auto.
  Qed.

  (* ---- phase 2 ---- *)
  Lemma len_loop_spec fuel : forall r t,
    command r <> 0 -> have_remaining r = false ->
    match len_loop recv fuel r t with
    | Ret rc r' t' =>
        exists c, stream t = c ++ stream t' /\
          ((early t rc t' /\ raws r c = Some r' /\ have_remaining r' = false /\ command r' = command r) \/
           (rc = PrProtocol /\ exists c0 b r0, c = c0 ++ [b] /\ raws r c0 = Some r0 /\
                                               complete r0 = false /\ raw1 r0 b = (r', true)) \/
           (rc = PrFuel /\ ((length (remaining_count r) + fuel <= 4)%nat \/ fuel = O)))
    | Cont r' t' =>
        exists c, stream t = c ++ stream t' /\ raws r c = Some r' /\ have_remaining r' = true /\
                  command r' = command r /\ (size t' < size t)%nat /\ (live t = true -> live t' = true)
    end.
  Proof.
    induction fuel as [|f IH]; intros r t Hcmd Hhr.
    - cbn [len_loop]. exists []. split; [reflexivity|]. right; right. auto.
    - cbn [len_loop]. pose proof (recv1_cases t) as H.
      assert (Hc : complete r = false) by (unfold complete; rewrite Hhr; reflexivity).
      destruct (recv 1 t) as [[d| | |] t'].
      + destruct d as [|b [|b2 d]]; [| |contradiction].
        * destruct H. exists []. split; [auto|]. left. repeat split; auto. right; auto.
        * destruct H as (Hs & Hz & Hl).
          assert (Eraw : raw1 r b =
                    let r1 := push_count r b in
                    if 4 <? Z.of_nat (length (remaining_count r1)) then (r1, true)
                    else let r2 := add_length r1 b in
                         if Z.land b 128 =? 0 then (finish_length r2, false) else (r2, false)).
          { unfold raw1. apply Z.eqb_neq in Hcmd. rewrite Hcmd, Hhr. reflexivity. }
          cbv zeta in Eraw.
          destruct (4 <? Z.of_nat (length (remaining_count (push_count r b)))) eqn:E4.
          -- exists [b]. split; [assumption|]. right; left. split; [reflexivity|].
             exists [], b, r. repeat split; auto.
          -- destruct (Z.land b 128 =? 0) eqn:E128.
             ++ exists [b]. repeat split; auto. cbn [raws]. rewrite Hc, Eraw. reflexivity.
             ++ set (r2 := add_length (push_count r b) b) in *.
                specialize (IH r2 t' Hcmd Hhr).
                destruct (len_loop recv f r2 t') as [rc r' t''|r' t''].
                ** destruct IH as (c & Hs' & IH). exists (b :: c). split; [rewrite Hs, Hs'; reflexivity|].
                   destruct IH as [(He & Hr & Hh & Hk)|[(Hp & c0 & b0 & r0 & Hc0 & Hr0 & Hcc & Hraw)|(Hfu & Hlen)]].
                   --- left. repeat split; auto.
                       +++ destruct He as [(? & Hsz & Hlv)|(? & Hlv)]; [left|right]; repeat split; auto.
                           *** destruct Hsz; [left; lia|right; assumption].
                           *** destruct (live t); [|reflexivity]. rewrite (Hl eq_refl) in Hlv. discriminate.
                       +++ cbn [raws]. rewrite Hc, Eraw. assumption.
                   --- right; left. split; [assumption|]. exists (b :: c0), b0, r0. subst c.
                       repeat split; auto. cbn [raws]. rewrite Hc, Eraw. assumption.
                   --- right; right. split; [assumption|]. left.
                       apply Z.ltb_ge in E4. unfold push_count in E4. cbn [remaining_count] in E4.
                       rewrite app_length in E4. cbn [length] in E4.
                       destruct Hlen as [Hlen|Hlen].
                       +++ subst r2. unfold add_length, push_count in Hlen. cbn [remaining_count] in Hlen.
                           rewrite app_length in Hlen. cbn [length] in Hlen. lia.
                       +++ subst f. lia.
                ** destruct IH as (c & Hs' & Hr & Hh & Hk & Hsz & Hlv). exists (b :: c).
                   repeat split; auto.
                   --- rewrite Hs, Hs'; reflexivity.
                   --- cbn [raws]. rewrite Hc, Eraw. assumption.
                   --- lia.
      + destruct H as (Hs & Hz & Hl). exists []. split; [auto|]. left. repeat split; auto. left; auto.
      + destruct H. exists []. split; [auto|]. left. repeat split; auto. right; auto.
      + destruct H. exists []. split; [auto|]. left. repeat split; auto. right; auto.
  Qed.

  (* ---- phase 3 ---- *)
  Lemma raws_add_data d : forall r,
    command r <> 0 -> have_remaining r = true -> Z.of_nat (length d) <= to_process r ->
    raws r d = Some (add_data r d) \/ (d = [] /\ True).
  Proof.
    induction d as [|b d IH]; intros r Hcmd Hhr Hlen; [right; auto|left].
    cbn [length] in Hlen.
    assert (Hc : complete r = false).
    { unfold complete. rewrite Hhr. cbn. destruct (0 <? to_process r) eqn:E; [reflexivity|]. lia. }
    cbn [raws]. rewrite Hc. unfold raw1. apply Z.eqb_neq in Hcmd. rewrite Hcmd, Hhr. cbn [negb].
    assert (Hadd : forall x, add_data (add_data r [b]) x = add_data r (b :: x)).
    { intro x. unfold add_data. cbn [command have_remaining remaining_count remaining_mult remaining_length packet to_process].
      rewrite <- app_assoc. cbn [app length]. f_equal. lia. }
    destruct d as [|b2 d'].
    - reflexivity.
    - destruct (IH (add_data r [b])) as [H|[H _]].
      + apply Z.eqb_neq in Hcmd. assumption.
      + assumption.
      + unfold add_data. cbn [to_process length]. cbn [length] in Hlen. lia.
      + rewrite H. rewrite Hadd. reflexivity.
      + discriminate.
  Qed.

  Lemma body_loop_spec count : forall r t,
    command r <> 0 -> have_remaining r = true ->
    match body_loop recv count r t with
    | Ret rc r' t' =>
        exists c, stream t = c ++ stream t' /\
          ((early t rc t' /\ raws r c = Some r' /\ have_remaining r' = true /\ command r' = command r) \/
           (rc = PrFuel /\ count = O))
    | Cont r' t' =>
        exists c, stream t = c ++ stream t' /\ raws r c = Some r' /\ complete r' = true /\
                  command r' = command r /\ (size t' <= size t)%nat /\ (live t = true -> live t' = true) /\
                  (c = [] -> t' = t /\ r' = r) /\ (c <> [] -> (size t' < size t)%nat)
    end.
  Proof.
    induction count as [|k IH]; intros r t Hcmd Hhr.
    - cbn [body_loop]. destruct (0 <? to_process r) eqn:E0.
      + exists []. split; [reflexivity|]. right; auto.
      + exists []. repeat split; auto. unfold complete. rewrite Hhr, E0. reflexivity. congruence.
    - cbn [body_loop]. destruct (0 <? to_process r) eqn:E0.
      2:{ exists []. repeat split; auto. unfold complete. rewrite Hhr, E0. reflexivity. congruence. }
      apply Z.ltb_lt in E0.
      pose proof (Hrecv (to_process r) t ltac:(lia)) as H.
      destruct (recv (to_process r) t) as [[d| | |] t'].
      + destruct H as (Hs & Hz & Hl & Hn).
        destruct d as [|b d].
        * exists []. split; [auto|]. left. repeat split; auto. right. split; [reflexivity|].
          destruct (live t); [|reflexivity]. destruct (Hl eq_refl) as [X _]. congruence.
        * assert (Hraws : raws r (b :: d) = Some (add_data r (b :: d))).
          { destruct (raws_add_data (b :: d) r Hcmd Hhr Hn) as [X|[X _]]; [assumption|discriminate]. }
          destruct k as [|k'].
          -- exists (b :: d). split; [assumption|]. left. repeat split; auto.
             left. repeat split; auto. intro L. apply Hl; assumption.
          -- specialize (IH (add_data r (b :: d)) t' Hcmd Hhr).
             destruct (body_loop recv (S k') (add_data r (b :: d)) t') as [rc r' t''|r' t''].
             ++ destruct IH as (c & Hs' & IH). exists ((b :: d) ++ c).
                split; [rewrite Hs, Hs', app_assoc; reflexivity|].
                destruct IH as [(He & Hr & Hh & Hk)|(Hfu & Hk)]; [|discriminate].
                left. repeat split; auto.
                ** destruct He as [(? & Hsz & Hlv)|(? & Hlv)]; [left|right]; repeat split; auto.
                   --- destruct Hsz; [left; lia|right; assumption].
                   --- intro L. apply Hlv. apply Hl; assumption.
                   --- destruct (live t); [|reflexivity]. destruct (Hl eq_refl) as [_ X]. congruence.
                ** rewrite raws_app, Hraws. assumption.
             ++ destruct IH as (c & Hs' & Hr & Hcp & Hk & Hsz & Hlv & _ & _). exists ((b :: d) ++ c).
                repeat split; auto.
                ** rewrite Hs, Hs', app_assoc; reflexivity.
                ** rewrite raws_app, Hraws. assumption.
                ** lia.
                ** intro L. apply Hlv. apply Hl; assumption.
                ** discriminate.
                ** discriminate.
                ** lia.
      + destruct H as (Hs & Hz & Hl). exists []. split; [auto|]. left. repeat split; auto. left; auto.
      + destruct H. exists []. split; [auto|]. left. repeat split; auto. right; auto.
      + destruct H. exists []. split; [auto|]. left. repeat split; auto. right; auto.
  Qed.

  (* ---- one _packet_read() call ---- *)
  Definition call_rel (r : rd) (c : list Z) (rc : prc) (r' : rd) : Prop :=
    match rc with
    | PrAgain | PrConnLost =>
        exists F, feed (snd (flush r)) c = (F, false, snd (flush r'), []) /\
                  fst (flush r) ++ F = fst (flush r') /\ rd_ok r'
    | PrProtocol => feed (snd (flush r)) c = ([], true, r', []) /\ fst (flush r) = []
    | PrFrame cmd body =>
        exists F, feed (snd (flush r)) c = (F, false, rd_init, []) /\
                  fst (flush r) ++ F = [(cmd, body)] /\ r' = rd_init
    | PrFuel => False
    end.

  Definition call_progress (r : rd) (t : T) (rc : prc) (t' : T) : Prop :=
    match rc with
    | PrAgain => ((size t' < size t)%nat \/ idle t' = true) /\ (live t = true -> live t' = true)
    | PrConnLost => live t = false
    | PrFrame _ _ =>
        (live t = true -> live t' = true) /\
        ((complete r = true /\ t' = t) \/ (complete r = false /\ (size t' < size t)%nat))
    | _ => True
    end.

  Lemma early_progress r t rc t' : early t rc t' -> call_progress r t rc t'.
  Proof. intros [(-> & ? & ?)|(-> & ?)]; cbn; auto. Qed.

  Lemma early_soft t rc t' : early t rc t' -> soft rc.
  Proof. intros [(-> & _)|(-> & _)]; [left|right]; reflexivity. Qed.

  Lemma early_mono t0 t1 rc t' :
    (size t1 <= size t0)%nat -> (live t0 = true -> live t1 = true) -> early t1 rc t' -> early t0 rc t'.
  Proof.
    intros Hs Hl [(-> & Hz & Hlv)|(-> & Hlv)]; [left|right]; repeat split; auto.
    - destruct Hz; [left; lia|right; assumption].
    - destruct (live t0); [|reflexivity]. rewrite (Hl eq_refl) in Hlv. discriminate.
  Qed.

  Lemma soft_rel r c rc r' :
    soft rc -> complete r = false -> raws r c = Some r' -> (command r' = 0 -> have_remaining r' = false) ->
    call_rel r c rc r'.
  Proof.
    intros Hsoft Hc Hr Hok.
    assert (X : exists F, feed (snd (flush r)) c = (F, false, snd (flush r'), []) /\
                          fst (flush r) ++ F = fst (flush r') /\ rd_ok r').
    { unfold flush at 1 3. rewrite Hc. cbn [fst snd]. exists (fst (flush r')).
      split; [apply raws_feed_flush; assumption|]. split; [reflexivity|assumption]. }
    destruct Hsoft; subst rc; exact X.
  Qed.

  Lemma packet_read_spec r t :
    rd_ok r -> cmd_ok (snd (flush r)) (stream t) = true ->
    let '(rc, r', t') := packet_read r t in
    exists c, stream t = c ++ stream t' /\ call_rel r c rc r' /\ call_progress r t rc t'.
  Proof.
    intros Hok Hcmd. unfold Reader.packet_read.
    destruct (complete r) eqn:Hc.
    - (* a complete packet is pending (the 100-reads early return happened on its last byte) *)
      assert (Hhr : have_remaining r = true /\ (0 <? to_process r) = false).
      { unfold complete in Hc. apply andb_true_iff in Hc as [? Hc]. split; [assumption|].
        destruct (0 <? to_process r); [discriminate|reflexivity]. }
      destruct Hhr as [Hhr Htp].
      assert (Hc0 : (command r =? 0) = false).
      { apply Z.eqb_neq. intro E. rewrite (Hok E) in Hhr. discriminate. }
      unfold phase1. rewrite Hc0. unfold phase2. rewrite Hhr.
      cbn [body_loop]. rewrite Htp.
      exists []. split; [reflexivity|]. split.
      + cbn [call_rel]. unfold flush. rewrite Hc. cbn [fst snd]. exists []. repeat split.
      + cbn [call_progress]. split; [auto|]. left; auto.
    - assert (Hfl : snd (flush r) = r) by (unfold flush; rewrite Hc; reflexivity).
      rewrite Hfl in Hcmd.
      pose proof (phase1_spec r t Hok Hc Hcmd) as H1.
      destruct (phase1 recv r t) as [rc r1 t1|r1 t1].
      { destruct H1 as (-> & Hs & He). exists []. split; [rewrite Hs; reflexivity|]. split.
        - apply soft_rel; [eapply early_soft; eassumption|assumption|reflexivity|assumption].
        - eapply early_progress; eassumption. }
      destruct H1 as (c1 & Hs1 & Hr1 & Hcmd1 & Hhr1 & Htp1 & Hsz1 & Hlv1 & Hnil1).
      (* phase 2 *)
      assert (H2 : match phase2 recv r1 t1 with
                   | Ret rc r2 t2 =>
                       exists c, stream t1 = c ++ stream t2 /\
                         ((early t1 rc t2 /\ raws r1 c = Some r2 /\ command r2 = command r1) \/
                          (rc = PrProtocol /\ exists c0 b r0, c = c0 ++ [b] /\ raws r1 c0 = Some r0 /\
                                               complete r0 = false /\ raw1 r0 b = (r2, true)))
                   | Cont r2 t2 =>
                       exists c, stream t1 = c ++ stream t2 /\ raws r1 c = Some r2 /\ have_remaining r2 = true /\
                                 command r2 = command r1 /\ (size t2 <= size t1)%nat /\
                                 (live t1 = true -> live t2 = true) /\
                                 (c = [] -> t2 = t1 /\ r2 = r1) /\ (c <> [] -> (size t2 < size t1)%nat)
                   end).
      { unfold phase2. destruct (have_remaining r1) eqn:Hh.
        - exists []. repeat split; auto. congruence.
        - pose proof (len_loop_spec 5 r1 t1 Hcmd1 Hh) as H.
          destruct (len_loop recv 5 r1 t1) as [rc r2 t2|r2 t2].
          + destruct H as (c & Hs & [(He & Hr & _ & Hk)|[Hp|(_ & [Hl|Hl])]]).
            * exists c. split; [assumption|]. left; auto.
            * exists c. split; [assumption|]. right; assumption.
            * lia.
            * discriminate.
          + destruct H as (c & Hs & Hr & Hh2 & Hk & Hsz & Hlv). exists c.
            split; [assumption|]. split; [assumption|]. split; [assumption|]. split; [assumption|].
            split; [lia|]. split; [assumption|]. split; [|intros _; assumption].
            intros ->. cbn in Hr. inv Hr. congruence. }
      destruct (phase2 recv r1 t1) as [rc r2 t2|r2 t2].
      { destruct H2 as (c2 & Hs2 & [(He & Hr2 & Hk2)|(-> & c0 & b & r0 & -> & Hr0 & Hc0 & Hraw)]).
        - exists (c1 ++ c2). split; [rewrite Hs1, Hs2, app_assoc; reflexivity|]. split.
          + apply soft_rel; [eapply early_soft; eassumption|assumption| |].
            * rewrite raws_app, Hr1. assumption.
            * intro E. rewrite Hk2 in E. contradiction.
          + eapply early_progress, early_mono; eassumption.
        - exists (c1 ++ c0 ++ [b]). split; [rewrite Hs1, Hs2, app_assoc; reflexivity|]. split; [|exact I].
          cbn [call_rel]. unfold flush. rewrite Hc. cbn [fst snd]. split; [|reflexivity].
          rewrite app_assoc. eapply raws_feed_err; [|eassumption|eassumption].
          rewrite raws_app, Hr1. assumption. }
      destruct H2 as (c2 & Hs2 & Hr2 & Hhr2 & Hk2 & Hsz2 & Hlv2 & Hnil2 & Hne2).
      assert (Hcmd2 : command r2 <> 0) by (rewrite Hk2; assumption).
      pose proof (body_loop_spec 100 r2 t2 Hcmd2 Hhr2) as H3.
      destruct (body_loop recv 100 r2 t2) as [rc r3 t3|r3 t3].
      { destruct H3 as (c3 & Hs3 & [(He & Hr3 & _ & Hk3)|(_ & Hx)]); [|discriminate].
        exists (c1 ++ c2 ++ c3). split; [rewrite Hs1, Hs2, Hs3, !app_assoc; reflexivity|]. split.
        - apply soft_rel; [eapply early_soft; eassumption|assumption| |].
          + rewrite raws_app, Hr1, raws_app, Hr2. assumption.
          + intro E. rewrite Hk3 in E. contradiction.
        - eapply early_progress, early_mono; [| |eassumption]; [lia|auto]. }
      destruct H3 as (c3 & Hs3 & Hr3 & Hc3 & Hk3 & Hsz3 & Hlv3 & Hnil3 & Hne3).
      exists (c1 ++ c2 ++ c3). split; [rewrite Hs1, Hs2, Hs3, !app_assoc; reflexivity|]. split.
      + cbn [call_rel]. unfold flush at 1 2. rewrite Hc. cbn [fst snd].
        exists [(command r3, packet r3)]. split; [|split; reflexivity].
        assert (Hr : raws r (c1 ++ c2 ++ c3) = Some r3).
        { rewrite raws_app, Hr1, raws_app, Hr2. assumption. }
        rewrite (raws_feed_flush _ _ _ Hc Hr). unfold flush. rewrite Hc3. reflexivity.
      + cbn [call_progress]. split; [auto|]. right. split; [assumption|].
        destruct c3 as [|x c3].
        * destruct (Hnil3 eq_refl) as [-> ->].
          destruct c2 as [|y c2].
          -- destruct (Hnil2 eq_refl) as [-> ->].
             exfalso. unfold complete in Hc, Hc3. rewrite Hhr1, Htp1 in Hc3. congruence.
          -- assert (size t2 < size t1)%nat by (apply Hne2; discriminate). lia.
        * assert (size t3 < size t2)%nat by (apply Hne3; discriminate). lia.
  Qed.

  (* ---- the driver ---- *)
  Definition weight (r : rd) (t : T) : nat := (2 * size t + (if complete r then 1 else 0))%nat.

  Definition run_rel (r : rd) (c : list Z) (fs : list frame) (st : status) (r' : rd) : Prop :=
    match st with
    | StIdle | StConnLost =>
        exists F, feed (snd (flush r)) c = (F, false, snd (flush r'), []) /\
                  fst (flush r) ++ F = fs ++ fst (flush r')
    | StProtocol =>
        exists F, feed (snd (flush r)) c = (F, true, r', []) /\ fst (flush r) ++ F = fs
    | StFuel => True
    end.

  Lemma run_spec fuel : forall r t,
    rd_ok r -> cmd_ok (snd (flush r)) (stream t) = true ->
    let '(fs, st, r', t') := run fuel r t in
    exists c, stream t = c ++ stream t' /\ run_rel r c fs st r' /\
      (st = StIdle -> idle t' = true) /\
      (st = StConnLost -> live t = false) /\
      (st = StFuel -> (fuel <= weight r t)%nat).
  Proof.
    induction fuel as [|f IH]; intros r t Hok Hcmd.
    - cbn [Reader.run]. exists []. repeat split; try discriminate. intros _. lia.
    - cbn [Reader.run]. pose proof (packet_read_spec r t Hok Hcmd) as H.
      destruct (packet_read r t) as [[rc r1] t1].
      destruct H as (c1 & Hs1 & Hrel & Hprog).
      destruct rc as [| | |cmd body|]; cbn [call_rel call_progress] in Hrel, Hprog.
      + (* AGAIN *)
        destruct Hrel as (F & HF & HFl & Hok1). destruct Hprog as [Hsz Hlv].
        destruct (idle t1) eqn:Hid.
        * exists c1. split; [assumption|]. split; [|repeat split; try discriminate; auto].
          cbn [run_rel]. exists F. split; [assumption|]. cbn [app]. assumption.
        * assert (Hcmd1 : cmd_ok (snd (flush r1)) (stream t1) = true).
          { rewrite Hs1 in Hcmd. eapply cmd_ok_app; eassumption. }
          specialize (IH r1 t1 Hok1 Hcmd1).
          destruct (run f r1 t1) as [[[fs st] r2] t2].
          destruct IH as (c2 & Hs2 & Hrel2 & Hi & Hcl & Hfu).
          exists (c1 ++ c2). split; [rewrite Hs1, Hs2, app_assoc; reflexivity|].
          destruct Hsz as [Hsz|Hsz]; [|congruence].
          split; [|repeat split; auto].
          -- rewrite (feed_app _ _ c2 _ _ HF).
             destruct st; cbn [run_rel] in *; auto.
             ++ destruct Hrel2 as (F2 & HF2 & HFl2). rewrite HF2. exists (F ++ F2). split; [reflexivity|].
                rewrite app_assoc, HFl. assumption.
             ++ destruct Hrel2 as (F2 & HF2 & HFl2). rewrite HF2. exists (F ++ F2). split; [reflexivity|].
                rewrite app_assoc, HFl. assumption.
             ++ destruct Hrel2 as (F2 & HF2 & HFl2). rewrite HF2. exists (F ++ F2). split; [reflexivity|].
                rewrite app_assoc, HFl. assumption.
          -- intro E. specialize (Hcl E). destruct (live t); [|reflexivity]. rewrite (Hlv eq_refl) in Hcl. discriminate.
          -- intro E. specialize (Hfu E). unfold weight in *. destruct (complete r), (complete r1); lia.
      + (* CONN_LOST *)
        destruct Hrel as (F & HF & HFl & Hok1).
        exists c1. split; [assumption|]. split; [|repeat split; try discriminate; auto].
        cbn [run_rel]. exists F. split; [assumption|]. cbn [app]. assumption.
      + (* PROTOCOL *)
        destruct Hrel as (HF & HFl).
        exists c1. split; [assumption|]. split; [|repeat split; try discriminate; auto].
        cbn [run_rel]. exists []. split; [assumption|]. rewrite HFl. reflexivity.
      + (* a frame *)
        destruct Hrel as (F & HF & HFl & ->). destruct Hprog as [Hlv Hsz].
        assert (Hcmd1 : cmd_ok (snd (flush rd_init)) (stream t1) = true).
        { rewrite Hs1 in Hcmd. eapply cmd_ok_app; eassumption. }
        specialize (IH rd_init t1 rd_ok_init Hcmd1).
        destruct (run f rd_init t1) as [[[fs st] r2] t2].
        destruct IH as (c2 & Hs2 & Hrel2 & Hi & Hcl & Hfu).
        exists (c1 ++ c2). split; [rewrite Hs1, Hs2, app_assoc; reflexivity|].
        split; [|repeat split; auto].
        * change (snd (flush rd_init)) with rd_init in *.
          rewrite (feed_app _ _ c2 _ _ HF).
          destruct st; cbn [run_rel] in *; auto.
          -- destruct Hrel2 as (F2 & HF2 & HFl2). rewrite HF2. exists (F ++ F2). split; [reflexivity|].
             rewrite app_assoc, HFl. cbn [fst flush app] in *. rewrite HFl2. reflexivity.
          -- destruct Hrel2 as (F2 & HF2 & HFl2). rewrite HF2. exists (F ++ F2). split; [reflexivity|].
             rewrite app_assoc, HFl. cbn [fst flush app] in *. rewrite HFl2. reflexivity.
          -- destruct Hrel2 as (F2 & HF2 & HFl2). rewrite HF2. exists (F ++ F2). split; [reflexivity|].
             rewrite app_assoc, HFl. cbn [fst flush app] in *. rewrite HFl2. reflexivity.
        * intro E. specialize (Hcl E). destruct (live t); [|reflexivity]. rewrite (Hlv eq_refl) in Hcl. discriminate.
        * intro E. specialize (Hfu E). unfold weight in *. cbn [complete rd_init have_remaining andb] in Hfu.
          destruct Hsz as [[Hc ->]|[Hc Hsz]]; rewrite Hc; lia.
      + contradiction.
  Qed.
End GenericProofs.
