(* C09.1 arithmetic: the delay sequence produced by _reconnect_wait's update. *)
From PahoV Require Import Base.Prelude Link.Backoff.

Lemma pow2_pos i : 0 < 2 ^ Z.of_nat i.
Proof. apply Z.pow_pos_nonneg; lia. Qed.

Lemma delay_at_0 mn mx : mn <= mx -> delay_at mn mx 0 = mn.
Proof. intros H. unfold delay_at. change (2 ^ Z.of_nat 0) with 1. lia. Qed.

Lemma delay_at_ge_min mn mx i : 1 <= mn <= mx -> mn <= delay_at mn mx i.
Proof.
  intros H. unfold delay_at. pose proof (pow2_pos i). apply Z.min_glb; [|lia]. nia.
Qed.

Lemma delay_at_le_max mn mx i : delay_at mn mx i <= mx.
Proof. unfold delay_at. lia. Qed.

Lemma delay_at_succ mn mx i : 1 <= mn <= mx ->
  Z.min (delay_at mn mx i * 2) mx = delay_at mn mx (S i).
Proof.
  intros H. unfold delay_at. pose proof (pow2_pos i) as Hp.
  replace (2 ^ Z.of_nat (S i)) with (2 ^ Z.of_nat i * 2).
  2:{ rewrite Nat2Z.inj_succ, Z.pow_succ_r by lia. lia. }
  assert (Hq : 1 <= mn * 2 ^ Z.of_nat i) by nia.
  replace (mn * (2 ^ Z.of_nat i * 2)) with (mn * 2 ^ Z.of_nat i * 2) by lia.
  generalize dependent (mn * 2 ^ Z.of_nat i). intros q Hq. lia.
Qed.

(* the delay state after j waits since the last reset *)
Definition delay_rel (mn mx : Z) (d : option Z) (j : nat) : Prop :=
  match d with
  | None => j = 0%nat
  | Some x => exists j', j = S j' /\ x = delay_at mn mx j'
  end.

Lemma next_delay_rel cfg d j : 1 <= c_min cfg <= c_max cfg ->
  delay_rel (c_min cfg) (c_max cfg) d j ->
  next_delay cfg d = delay_at (c_min cfg) (c_max cfg) j /\
  delay_rel (c_min cfg) (c_max cfg) (Some (next_delay cfg d)) (S j).
Proof.
  intros H R. unfold delay_rel, next_delay in *. destruct d as [x|].
  - destruct R as (j' & -> & ->). rewrite delay_at_succ by assumption. split; [reflexivity|].
    exists (S j'). split; reflexivity.
  - subst j. rewrite delay_at_0 by lia. split; [reflexivity|]. exists 0%nat. split; [reflexivity|].
    rewrite delay_at_0 by lia. reflexivity.
Qed.

(* iterating the update of the source from "no delay": min, 2 min, 4 min, ... capped *)
Fixpoint delays (cfg : config) (k : nat) (d : option Z) : list Z :=
  match k with
  | O => []
  | S k' => next_delay cfg d :: delays cfg k' (Some (next_delay cfg d))
  end.

Lemma delays_closed cfg : 1 <= c_min cfg <= c_max cfg -> forall k d j,
  delay_rel (c_min cfg) (c_max cfg) d j ->
  forall i, (i < k)%nat -> nth i (delays cfg k d) 0 = delay_at (c_min cfg) (c_max cfg) (j + i).
Proof.
  intros H. induction k as [|k IH]; intros d j R i Hi; [lia|].
  cbn [delays]. destruct (next_delay_rel cfg d j H R) as (E & R').
  destruct i as [|i]; cbn [nth].
  - rewrite E. f_equal. lia.
  - rewrite (IH _ _ R' i) by lia. f_equal. lia.
Qed.

Lemma delays_from_start cfg k i : 1 <= c_min cfg <= c_max cfg -> (i < k)%nat ->
  nth i (delays cfg k None) 0 = Z.min (c_min cfg * 2 ^ Z.of_nat i) (c_max cfg) /\
  c_min cfg <= nth i (delays cfg k None) 0 <= c_max cfg.
Proof.
  intros H Hi. rewrite (delays_closed cfg H k None 0%nat eq_refl i Hi). cbn [Nat.add].
  split; [reflexivity|]. split; [apply delay_at_ge_min; assumption|apply delay_at_le_max].
Qed.
