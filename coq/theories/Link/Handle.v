(* M1/M3: value extraction of client.py `_packet_handle` (3797) and every `_handle_*` for protocol
   versions 3 (MQTT 3.1), 4 (3.1.1), 5 (5.0) and callback API versions 1 and 2, as pure functions
   frame -> res hval; and, independently, an encoder of broker packets written from the OASIS texts
   (`spec_encode_in`) with the values a callback must receive (`values_of`).  Model only, no proofs.

   Scope: an MQTT 5 property block is delimited by its variable-byte length and handed on as opaque
   bytes (its codec is property C17's); a reason code is its byte value (tables: C17).  Session
   effects (message store, in-flight window, "is this mid outstanding") belong to model M2: here a
   handler yields the parsed values, the *kind* of callback, the kind of reply and - where it does not
   depend on the session - the return code. *)
From PahoV Require Import Base.Prelude Link.Reader.

(* exception kinds beyond Prelude's: 6 struct.error, 7 IndexError *)

Record cfg : Type := mkCfg {
  ver : Z;                (* 3 = MQTTv31, 4 = MQTTv311, 5 = MQTTv5 *)
  api : Z;                (* CallbackAPIVersion 1 or 2 *)
  rof : bool;             (* reconnect_on_failure *)
  cid_empty : bool        (* self._client_id == b'' *)
}.

(* a callback argument, as the user sees it *)
Inductive arg : Type :=
| AInt (z : Z)
| ABool (b : bool)
| ANone
| ABytes (l : list Z)
| AInts (l : list Z)                 (* tuple of ints (granted_qos) *)
| ACode (z : Z)                      (* ReasonCode object with this value *)
| ACodes (l : list Z)                (* list of ReasonCode objects *)
| AProps (raw : list Z)              (* Properties object; raw = its packed form without the length prefix *)
| AFlagsDict (sp : Z)                (* {'session present': sp} *)
| AConnectFlags (sp : bool)
| ADisconnectFlags (from_server : bool)
| AMsg (dup : bool) (qos : Z) (retain : bool) (topic : list Z) (mid : Z)
       (props : option (list Z)) (payload : list Z).

(* callback kinds *)
Definition cb_none : Z := 0.
Definition cb_connect : Z := 1.
Definition cb_message : Z := 2.
Definition cb_publish : Z := 3.       (* invoked iff the mid is outstanding (M2) *)
Definition cb_subscribe : Z := 4.
Definition cb_unsubscribe : Z := 5.
Definition cb_disconnect : Z := 6.
Definition cb_store : Z := 7.         (* QoS 2 message stored; on_message gets it when PUBREL arrives (M2) *)

Record hval : Type := mkH {
  h_cb : Z;
  h_args : list arg;
  h_reply : option (Z * Z);            (* first byte and mid of the packet sent in reply *)
  h_rc : Z                             (* MQTTErrorCode returned; 100 = result of reconnect() *)
}.

Definition proto : res hval := Ok (mkH cb_none [] None 2).

Definition bind {A B} (x : res A) (f : A -> res B) : res B :=
  match x with Ok a => f a | Raise k => Raise k | OutOfFuel => OutOfFuel end.
Notation "'do' x <- e ; f" := (bind e (fun x => f)) (at level 200, x name, e at level 100, f at level 200).
Notation "'do' ' p <- e ; f" := (bind e (fun x => let 'p := x in f))
  (at level 200, p pattern, e at level 100, f at level 200).

Definition blen (l : list Z) : Z := Z.of_nat (length l).

(* struct.unpack("!H...") *)
Definition get_u16 (l : list Z) : res (Z * list Z) :=
  match l with
  | hi :: lo :: rest => Ok (hi * 256 + lo, rest)
  | _ => Raise 6
  end.

(* VariableByteIntegers.decode: no limit on the number of bytes, IndexError at the end of the buffer *)
Fixpoint vbi_dec (buf : list Z) (mult value : Z) : res (Z * list Z) :=
  match buf with
  | [] => Raise 7
  | d :: buf' =>
      let value' := value + Z.land d 127 * mult in
      if Z.land d 128 =? 0 then Ok (value', buf') else vbi_dec buf' (mult * 128) value'
  end.

(* Properties.unpack(buffer): (content, what follows).  A block longer than the buffer is malformed. *)
Definition split_props (buf : list Z) : res (list Z * list Z) :=
  do '(n, rest) <- vbi_dec buf 1 0 ;
  if blen rest <? n then Raise 7 else Ok (take n rest, drop n rest).

(* convert_connack_rc_to_reason_code (352-378) *)
Definition conv_connack (rc : Z) : Z :=
  if rc =? 0 then 0 else if rc =? 1 then 132 else if rc =? 2 then 133 else if rc =? 3 then 136
  else if rc =? 4 then 134 else if rc =? 5 then 135 else 128.

(* convert_disconnect_error_code_to_reason_code (381-404) *)
Definition conv_disconnect (rc : Z) : Z :=
  if rc =? 0 then 0 else if rc =? 16 then 141 else 128.

Definition opt_props (o : option (list Z)) : arg := match o with Some p => AProps p | None => ANone end.
Definition dfl_props (o : option (list Z)) : list Z := match o with Some p => p | None => [] end.

(* ---- CONNACK (3844-4016) ---- *)
Definition connack_rc (result : Z) : Z :=
  if result =? 0 then 0 else if (0 <? result) && (result <? 6) then 5 else 2.

Definition connack_args (c : cfg) (flags result : Z) (reason : Z) (props : option (list Z)) : list arg :=
  if api c =? 1 then
    if ver c =? 5 then [AFlagsDict (Z.land flags 1); ACode reason; opt_props props]
    else [AFlagsDict (Z.land flags 1); AInt result]
  else [AConnectFlags (0 <? Z.land flags 1); ACode reason; AProps (dfl_props props)].

Definition handle_connack (c : cfg) (body : list Z) : res hval :=
  let rl := blen body in
  if (if ver c =? 5 then rl <? 2 else negb (rl =? 2)) then proto
  else
    match body with
    | flags :: result :: rest =>
        do '(reason, props) <-
           (if ver c =? 5 then
              if result =? 1 then Ok (132, None)
              else do '(p, _) <- split_props rest ; Ok (result, Some p)
            else Ok (conv_connack result, None)) ;
        if (ver c =? 4) && ((result =? 1) || ((result =? 2) && cid_empty c)) then
          Ok (mkH cb_none [] None (if rof c then 100 else 2))
        else
          Ok (mkH cb_connect (connack_args c flags result reason props) None (connack_rc result))
    | _ => Raise 6
    end.

(* ---- PUBLISH (4101-4180) ---- *)
Definition handle_publish (c : cfg) (header : Z) (body : list Z) : res hval :=
  let dup := negb (Z.shiftr (Z.land header 8) 3 =? 0) in
  let qos := Z.shiftr (Z.land header 6) 1 in
  let retain := negb (Z.land header 1 =? 0) in
  do '(slen, packet) <- get_u16 body ;
  if blen packet <? slen then Raise 6
  else
    let topic := take slen packet in
    let packet := drop slen packet in
    if negb (ver c =? 5) && (blen topic =? 0) then proto
    else
      do '(mid, packet) <- (if 0 <? qos then get_u16 packet else Ok (0, packet)) ;
      do '(props, payload) <-
         (if ver c =? 5 then do '(p, rest) <- split_props packet ; Ok (Some p, rest)
          else Ok (None, packet)) ;
      let m := [AMsg dup qos retain topic mid props payload] in
      if qos =? 0 then Ok (mkH cb_message m None 0)
      else if qos =? 1 then Ok (mkH cb_message m (Some (64, mid)) 0)
      else if qos =? 2 then Ok (mkH cb_store m (Some (80, mid)) 0)
      else proto.

(* ---- PUBACK / PUBCOMP (4437-4465), PUBREC (4300-4325), PUBREL (4223-4262) ---- *)
Definition ack_parse (c : cfg) (body : list Z) : res (option (Z * Z * list Z)) :=
  let rl := blen body in
  if (if ver c =? 5 then rl <? 2 else negb (rl =? 2)) then Ok None
  else
    do '(mid, rest) <- get_u16 body ;
    if (ver c =? 5) && (2 <? rl) then
      match rest with
      | reason :: rest' =>
          if 3 <? rl then do '(p, _) <- split_props rest' ; Ok (Some (mid, reason, p))
          else Ok (Some (mid, reason, []))
      | [] => Raise 7
      end
    else Ok (Some (mid, 0, [])).

Definition handle_pubackcomp (c : cfg) (body : list Z) : res hval :=
  do r <- ack_parse c body ;
  match r with
  | None => proto
  | Some (mid, reason, props) =>
      Ok (mkH cb_publish
              (if api c =? 1 then [AInt mid] else [AInt mid; ACode reason; AProps props])
              None 0)
  end.

Definition handle_pubrec (c : cfg) (body : list Z) : res hval :=
  do r <- ack_parse c body ;
  match r with
  | None => proto
  | Some (mid, _, _) => Ok (mkH cb_none [] (Some (98, mid)) 0)      (* PUBREL iff mid outstanding (M2) *)
  end.

Definition handle_pubrel (c : cfg) (body : list Z) : res hval :=
  do r <- ack_parse c body ;
  match r with
  | None => proto
  | Some (mid, _, _) => Ok (mkH cb_none [] (Some (112, mid)) 0)     (* stored message delivered (M2); PUBCOMP *)
  end.

(* ---- SUBACK (4041-4099) ---- *)
Definition handle_suback (c : cfg) (body : list Z) : res hval :=
  do '(mid, packet) <- get_u16 body ;
  if ver c =? 5 then
    do '(p, codes) <- split_props packet ;
    Ok (mkH cb_subscribe [AInt mid; ACodes codes; AProps p] None 0)
  else if api c =? 1 then Ok (mkH cb_subscribe [AInt mid; AInts packet] None 0)
  else Ok (mkH cb_subscribe [AInt mid; ACodes packet; AProps []] None 0).

(* ---- UNSUBACK (4327-4388) ---- *)
Definition handle_unsuback (c : cfg) (body : list Z) : res hval :=
  let rl := blen body in
  if (if ver c =? 5 then rl <? 4 else negb (rl =? 2)) then proto
  else
    do '(mid, packet) <- get_u16 body ;
    if ver c =? 5 then
      do '(p, codes) <- split_props packet ;
      if api c =? 1 then
        Ok (mkH cb_unsubscribe
                [AInt mid; AProps p; match codes with [x] => ACode x | _ => ACodes codes end] None 0)
      else Ok (mkH cb_unsubscribe [AInt mid; ACodes codes; AProps p] None 0)
    else if api c =? 1 then Ok (mkH cb_unsubscribe [AInt mid] None 0)
    else Ok (mkH cb_unsubscribe [AInt mid; ACodes []; AProps []] None 0).

(* ---- DISCONNECT, MQTT 5 only (4018-4039) + _do_on_disconnect (4390-4435) ---- *)
Definition disconnect_args (c : cfg) (reason : option Z) (props : option (list Z)) : list arg :=
  if api c =? 1 then
    [match reason with Some r => ACode r | None => ANone end; opt_props props]
  else
    [ADisconnectFlags true; ACode (match reason with Some r => r | None => conv_disconnect 0 end);
     AProps (dfl_props props)].

Definition handle_disconnect (c : cfg) (body : list Z) : res hval :=
  match body with
  | [] => Ok (mkH cb_disconnect (disconnect_args c None None) None 0)
  | reason :: rest =>
      if 1 <? blen body then
        do '(p, _) <- split_props rest ;
        Ok (mkH cb_disconnect (disconnect_args c (Some reason) (Some p)) None 0)
      else Ok (mkH cb_disconnect (disconnect_args c (Some reason) None) None 0)
  end.

(* on_disconnect after a loop error rc (_loop_rc_handle, packet_from_broker = False) *)
Definition loop_error_args (c : cfg) (rc : Z) : list arg :=
  if api c =? 1 then (if ver c =? 5 then [AInt rc; ANone] else [AInt rc])
  else [ADisconnectFlags false; ACode (conv_disconnect rc); AProps []].

(* ---- PINGRESP / PINGREQ ---- *)
Definition handle_pingresp (body : list Z) : res hval :=
  if negb (blen body =? 0) then proto else Ok (mkH cb_none [] None 0).
Definition handle_pingreq (body : list Z) : res hval :=
  if negb (blen body =? 0) then proto else Ok (mkH cb_none [] (Some (208, 0)) 0).

(* ---- _packet_handle (3797-3826) ---- *)
Definition handle_values (c : cfg) (f : frame) : res hval :=
  let '(command, body) := f in
  let cmd := Z.land command 240 in
  if cmd =? 192 then handle_pingreq body
  else if cmd =? 208 then handle_pingresp body
  else if cmd =? 64 then handle_pubackcomp c body
  else if cmd =? 112 then handle_pubackcomp c body
  else if cmd =? 48 then handle_publish c command body
  else if cmd =? 80 then handle_pubrec c body
  else if cmd =? 96 then handle_pubrel c body
  else if cmd =? 32 then handle_connack c body
  else if cmd =? 144 then handle_suback c body
  else if cmd =? 176 then handle_unsuback c body
  else if (cmd =? 224) && (ver c =? 5) then handle_disconnect c body
  else proto.

(* ------------------------------------------------------------------------------------------------ *)
(* Callback API version 2 in terms of version 1 (documented in CallbackAPIVersion / the callback
   docstrings): flags dict -> ConnectFlags / DisconnectFlags, MQTT 3 return code ->
   convert_connack_rc_to_reason_code, granted QoS -> ReasonCode list, missing properties -> empty
   Properties, missing reason -> convert_disconnect_error_code_to_reason_code(SUCCESS), a single
   ReasonCode -> one-element list.  on_publish is the exception: version 1 receives only the mid, so
   there version 1 is the projection of version 2. *)
Definition lift_args (cb : Z) (a : list arg) : list arg :=
  if cb =? cb_connect then
    match a with
    | [AFlagsDict sp; AInt rc] => [AConnectFlags (0 <? sp); ACode (conv_connack rc); AProps []]
    | [AFlagsDict sp; ACode r; ANone] => [AConnectFlags (0 <? sp); ACode r; AProps []]
    | [AFlagsDict sp; ACode r; AProps p] => [AConnectFlags (0 <? sp); ACode r; AProps p]
    | _ => a
    end
  else if cb =? cb_subscribe then
    match a with
    | [AInt mid; AInts g] => [AInt mid; ACodes g; AProps []]
    | _ => a
    end
  else if cb =? cb_unsubscribe then
    match a with
    | [AInt mid] => [AInt mid; ACodes []; AProps []]
    | [AInt mid; AProps p; ACode x] => [AInt mid; ACodes [x]; AProps p]
    | [AInt mid; AProps p; ACodes l] => [AInt mid; ACodes l; AProps p]
    | _ => a
    end
  else if cb =? cb_disconnect then
    match a with
    | [AInt rc] => [ADisconnectFlags false; ACode (conv_disconnect rc); AProps []]
    | [AInt rc; ANone] => [ADisconnectFlags false; ACode (conv_disconnect rc); AProps []]
    | [ANone; ANone] => [ADisconnectFlags true; ACode (conv_disconnect 0); AProps []]
    | [ACode r; ANone] => [ADisconnectFlags true; ACode r; AProps []]
    | [ACode r; AProps p] => [ADisconnectFlags true; ACode r; AProps p]
    | _ => a
    end
  else a.

(* version-1 arguments as a function of the version-2 ones, for on_publish *)
Definition lower_args (cb : Z) (a : list arg) : list arg :=
  if cb =? cb_publish then firstn 1 a else a.

Definition with_api (c : cfg) (a : Z) : cfg := mkCfg (ver c) a (rof c) (cid_empty c).

(* ------------------------------------------------------------------------------------------------ *)
(* Specification side: packets a broker may send, field by field (MQTT 3.1.1 sections 3.2, 3.3-3.7,
   3.9, 3.11, 3.13; MQTT 5.0 sections 3.2, 3.3-3.7, 3.9, 3.11, 3.13, 3.14), and their wire form. *)
Inductive bpkt : Type :=
| BConnack (sp : bool) (code : Z) (props : list Z)
| BPublish (dup : bool) (qos : Z) (retain : bool) (topic : list Z) (mid : Z) (props : list Z) (payload : list Z)
| BAck (kind : Z) (mid : Z) (opt : option (Z * option (list Z)))    (* kind 4 PUBACK 5 PUBREC 6 PUBREL 7 PUBCOMP;
                                                                        MQTT 5: reason and properties may be omitted *)
| BSuback (mid : Z) (props : list Z) (codes : list Z)
| BUnsuback (mid : Z) (props : list Z) (codes : list Z)
| BPingresp
| BDisconnect (opt : option (Z * option (list Z))).

Definition u16 (x : Z) : list Z := [x / 256; x mod 256].

(* property length as a Variable Byte Integer, then the properties (MQTT 5.0 2.2.2.1) *)
Definition pblock (v : Z) (props : list Z) : list Z :=
  if v =? 5 then enc_rl (blen props) ++ props else [].

Definition opt_tail (v : Z) (opt : option (Z * option (list Z))) : list Z :=
  match opt with
  | None => []
  | Some (rc, None) => [rc]
  | Some (rc, Some ps) => rc :: pblock v ps
  end.

Definition ack_first (kind : Z) : Z :=
  if kind =? 4 then 64 else if kind =? 5 then 80 else if kind =? 6 then 98 else 112.

Definition b2z (b : bool) : Z := if b then 1 else 0.

Definition spec_encode_in (v : Z) (p : bpkt) : frame :=
  match p with
  | BConnack sp code props => (32, [b2z sp; code] ++ pblock v props)
  | BPublish dup qos retain topic mid props payload =>
      (48 + 8 * b2z dup + 2 * qos + b2z retain,
       u16 (blen topic) ++ topic ++ (if 0 <? qos then u16 mid else []) ++ pblock v props ++ payload)
  | BAck kind mid opt => (ack_first kind, u16 mid ++ opt_tail v opt)
  | BSuback mid props codes => (144, u16 mid ++ pblock v props ++ codes)
  | BUnsuback mid props codes => (176, u16 mid ++ pblock v props ++ codes)
  | BPingresp => (208, [])
  | BDisconnect opt => (224, opt_tail v opt)
  end.

Definition is_u16 (x : Z) : bool := (0 <=? x) && (x <? 65536).
Definition props_ok (v : Z) (props : list Z) : bool :=
  if v =? 5 then blen props <=? max_rl else match props with [] => true | _ => false end.
Definition opt_ok (v : Z) (opt : option (Z * option (list Z))) : bool :=
  match opt with
  | None => true
  | Some (_, None) => v =? 5
  | Some (_, Some ps) => (v =? 5) && (blen ps <=? max_rl)
  end.

Definition cfg_ok (c : cfg) : bool :=
  ((ver c =? 3) || (ver c =? 4) || (ver c =? 5)) && ((api c =? 1) || (api c =? 2)).

(* well-formed for protocol version v *)
Definition wf (v : Z) (p : bpkt) : bool :=
  match p with
  | BConnack sp code props => props_ok v props && negb ((v =? 5) && (code =? 1))
  | BPublish dup qos retain topic mid props payload =>
      (0 <=? qos) && (qos <=? 2) && is_u16 mid && (if qos =? 0 then mid =? 0 else true) &&
      (blen topic <? 65536) && props_ok v props &&
      (if v =? 5 then true else match topic with [] => false | _ => true end)
  | BAck kind mid opt => (4 <=? kind) && (kind <=? 7) && is_u16 mid && opt_ok v opt
  | BSuback mid props codes => is_u16 mid && props_ok v props
  | BUnsuback mid props codes =>
      is_u16 mid && props_ok v props &&
      (if v =? 5 then match codes with [] => false | _ => true end
       else match codes with [] => true | _ => false end)
  | BPingresp => true
  | BDisconnect opt => (v =? 5) && opt_ok v opt
  end.

(* what the callbacks must be handed, straight from the fields *)
Definition values_of (c : cfg) (p : bpkt) : hval :=
  let v := ver c in
  match p with
  | BConnack sp code props =>
      if (v =? 4) && ((code =? 1) || ((code =? 2) && cid_empty c)) then
        mkH cb_none [] None (if rof c then 100 else 2)      (* 3.1.1 -> 3.1 downgrade / client id retry: no callback *)
      else
        mkH cb_connect
            (if api c =? 1 then
               if v =? 5 then [AFlagsDict (b2z sp); ACode code; AProps props]
               else [AFlagsDict (b2z sp); AInt code]
             else [AConnectFlags sp; ACode (if v =? 5 then code else conv_connack code); AProps props])
            None (connack_rc code)
  | BPublish dup qos retain topic mid props payload =>
      let m := [AMsg dup qos retain topic mid (if v =? 5 then Some props else None) payload] in
      if qos =? 0 then mkH cb_message m None 0
      else if qos =? 1 then mkH cb_message m (Some (64, mid)) 0
      else mkH cb_store m (Some (80, mid)) 0
  | BAck kind mid opt =>
      let reason := match opt with Some (rc, _) => rc | None => 0 end in
      let props := match opt with Some (_, Some ps) => ps | _ => [] end in
      if (kind =? 4) || (kind =? 7) then
        mkH cb_publish (if api c =? 1 then [AInt mid] else [AInt mid; ACode reason; AProps props]) None 0
      else if kind =? 5 then mkH cb_none [] (Some (98, mid)) 0
      else mkH cb_none [] (Some (112, mid)) 0
  | BSuback mid props codes =>
      if (api c =? 1) && negb (v =? 5) then mkH cb_subscribe [AInt mid; AInts codes] None 0
      else mkH cb_subscribe [AInt mid; ACodes codes; AProps props] None 0
  | BUnsuback mid props codes =>
      if api c =? 1 then
        if v =? 5 then
          mkH cb_unsubscribe [AInt mid; AProps props; match codes with [x] => ACode x | _ => ACodes codes end] None 0
        else mkH cb_unsubscribe [AInt mid] None 0
      else mkH cb_unsubscribe [AInt mid; ACodes codes; AProps props] None 0
  | BPingresp => mkH cb_none [] None 0
  | BDisconnect opt =>
      mkH cb_disconnect
          (if api c =? 1 then
             [match opt with Some (rc, _) => ACode rc | None => ANone end;
              match opt with Some (_, Some ps) => AProps ps | _ => ANone end]
           else
             [ADisconnectFlags true; ACode (match opt with Some (rc, _) => rc | None => 0 end);
              AProps (match opt with Some (_, Some ps) => ps | _ => [] end)])
          None 0
  end.

(* ------------------------------------------------------------------------------------------------ *)
(* flat encoding for the correspondence driver *)
Definition enc_opt_bytes (o : option (list Z)) : list Z :=
  match o with None => [0] | Some l => 1 :: enc_list l end.

Definition enc_arg (a : arg) : list Z :=
  match a with
  | AInt z => [1; z]
  | ABool b => [2; b2z b]
  | ANone => [3]
  | ABytes l => 4 :: enc_list l
  | AInts l => 5 :: enc_list l
  | ACode z => [6; z]
  | ACodes l => 7 :: enc_list l
  | AProps raw => 8 :: enc_list raw
  | AFlagsDict sp => [9; sp]
  | AConnectFlags sp => [10; b2z sp]
  | ADisconnectFlags f => [11; b2z f]
  | AMsg dup qos retain topic mid props payload =>
      [12; b2z dup; qos; b2z retain] ++ enc_list topic ++ [mid] ++ enc_opt_bytes props ++ enc_list payload
  end.

Definition enc_hval (h : hval) : list Z :=
  [h_cb h; h_rc h] ++ (match h_reply h with None => [0; 0] | Some (t, m) => [t; m] end) ++
  [Z.of_nat (length (h_args h))] ++ concat (map enc_arg (h_args h)).

Definition enc_res (r : res hval) : list Z :=
  match r with Ok h => 0 :: enc_hval h | Raise k => [1; k] | OutOfFuel => [2] end.

(* args = ver :: api :: rof :: cid_empty :: command :: body *)
Definition entry_handle (args : list Z) : list Z :=
  match args with
  | v :: a :: r :: ce :: command :: body =>
      enc_res (handle_values (mkCfg v a (negb (r =? 0)) (negb (ce =? 0))) (command, body))
  | _ => []
  end.

(* args = ver :: api :: rc -> on_disconnect arguments after a loop error *)
Definition entry_loop_error (args : list Z) : list Z :=
  match args with
  | [v; a; rc] => let l := loop_error_args (mkCfg v a false false) rc in
                  Z.of_nat (length l) :: concat (map enc_arg l)
  | _ => []
  end.
