(* The Conn model is complete: its two fuels (callback nesting depth = number of scripts of the
   operation; _packet_write iterations = 2 * (queued packets + nested calls) + 1) are never exhausted,
   and no callback site that takes _in_callback_mutex is reached while it is held.  For all
   configurations, operation lists and scripts - no exclusion. *)
From PahoV Require Import Base.Prelude Link.Conn Link.ConnCheck Link.ConnInv.

Definition okev (e : event) : bool := negb (is_fuel e) && negb (is_deadlock e).
Definition clean (l : list event) : bool := forallb okev l.
Definition M (s : st) : nat := (length (outq s) + total_calls (scr s))%nat.

Definition Post (cost : nat) (s s' : st) : Prop :=
  clean (tr s') = true /\ incb s' = incb s /\ (nscripts (scr s') <= nscripts (scr s))%nat /\ (M s' <= M s + cost)%nat.

Lemma Post_refl s : clean (tr s) = true -> Post 0 s s.
Proof. intros H. repeat split; auto; lia. Qed.
Lemma Post_trans a b s1 s2 s3 : Post a s1 s2 -> Post b s2 s3 -> Post (a + b) s1 s3.
Proof. intros (A1 & A2 & A3 & A4) (B1 & B2 & B3 & B4). repeat split; try congruence; lia. Qed.
Lemma Post_weaken a b s s' : (a <= b)%nat -> Post a s s' -> Post b s s'.
Proof. intros H (A1 & A2 & A3 & A4). repeat split; auto; lia. Qed.

(* a step that only touches fields the measures do not see *)
Lemma Post_frame s s' : tr s' = tr s -> incb s' = incb s -> scr s' = scr s -> outq s' = outq s ->
  clean (tr s) = true -> Post 0 s s'.
Proof. intros A B C0 D H. unfold Post, M. rewrite A, B, C0, D. repeat split; auto; lia. Qed.
Lemma Post_emit e s : okev e = true -> clean (tr s) = true -> Post 0 s (emit e s).
Proof. intros He H. unfold Post, M. ssimpl. cbn [clean forallb]. rewrite He. repeat split; auto; lia. Qed.
Lemma Post_obs w s : clean (tr s) = true -> Post 0 s (obs w s).
Proof. intros H. unfold obs. apply Post_emit; [reflexivity|exact H]. Qed.

Lemma ncalls_pop (q : list (list acall)) :
  (ncalls (snd (pop_list q)) + length (fst (pop_list q)) = ncalls q)%nat /\
  (fst (pop_list q) <> [] -> (S (length (snd (pop_list q))) = length q)%nat) /\
  (length (snd (pop_list q)) <= length q)%nat.
Proof. destruct q as [|x q]; cbn; repeat split; try lia; congruence. Qed.

Lemma pop_script_measure si s :
  let sc := fst (pop_script si s) in let s' := snd (pop_script si s) in
  (total_calls (scr s') + length sc = total_calls (scr s))%nat /\
  (sc <> [] -> (S (nscripts (scr s')) = nscripts (scr s))%nat) /\
  (nscripts (scr s') <= nscripts (scr s))%nat.
Proof.
  destruct si; unfold pop_script, total_calls, nscripts;
    match goal with |- context [pop_list ?l] => pose proof (ncalls_pop l) as (A & B & C0); destruct (pop_list l) end;
    cbn [fst snd scr set_scr q_connect q_disconnect q_open q_close q_regw q_unregw q_publish q_discopen] in *;
    repeat split; try lia; intros H; specialize (B H); lia.
Qed.

Section Fuel.
Variable c : cfg.
Variable nested : list acall -> st -> st.
Variable d : nat.
Hypothesis Hn : forall sc s, (nscripts (scr s) < d)%nat -> clean (tr s) = true ->
  Post (length sc) s (nested sc s).

Definition Good (s : st) : Prop := (nscripts (scr s) <= d)%nat /\ clean (tr s) = true.

Lemma Good_post k s s' : Good s -> Post k s s' -> Good s'.
Proof. intros [A B] (P1 & P2 & P3 & P4). split; [lia|exact P1]. Qed.

Lemma run_site_F si held ev s : Good s -> okev ev = true -> (held = true -> incb s = false) ->
  Post 0 s (run_site nested si held ev s).
Proof.
  intros [Hd Hc] Hev Hh. unfold run_site.
  assert (E : held && incb s = false) by (destruct held; [rewrite Hh; reflexivity|reflexivity]). rewrite E.
  set (s1 := obs (WCb si) (emit ev s)).
  assert (P1 : Post 0 s s1).
  { apply (Post_trans 0 0 s (emit ev s) s1); [apply Post_emit; assumption|apply Post_obs]. cbn [tr emit clean forallb]. rewrite Hev. exact Hc. }
  pose proof (pop_script_frame si s1) as F. pose proof (pop_script_measure si s1) as (Q1 & Q2 & Q3).
  destruct (pop_script si s1) as [sc s2]. cbn [fst snd] in *.
  destruct F as (Fcs & Fsock & Fregw & Foutq & Fping & Fincb & Fcq & Fproto & Fnsock & Fsched & Ftr).
  destruct P1 as (A1 & A2 & A3 & A4).
  assert (Hc2 : clean (tr s2) = true) by (rewrite Ftr; exact A1).
  destruct sc as [|a sc].
  - unfold Post, M in *. rewrite Foutq. repeat split; try congruence; try lia.
  - specialize (Q2 ltac:(discriminate)).
    set (s3 := set_incb (held || incb s2) s2).
    assert (Hd3 : (nscripts (scr s3) < d)%nat) by (unfold s3; ssimpl; lia).
    destruct (Hn (a :: sc) s3 Hd3 Hc2) as (B1 & B2 & B3 & B4).
    unfold Post, M in *. ssimpl. unfold s3 in *. ssimpl.
    repeat split; try assumption; try congruence; try lia.
    rewrite Foutq in B4. lia.
Qed.

Lemma call_regw_F s : Good s -> Post 0 s (call_regw c nested s).
Proof.
  intros HG. pose proof HG as [Hd Hc]. unfold call_regw. destruct (sock s); [|apply Post_refl; exact Hc].
  destruct (regw s); [apply Post_refl; exact Hc|].
  assert (P1 : Post 0 s (set_regw true s)) by (apply Post_frame; auto).
  destruct (c_ext c); [|exact P1].
  apply (Post_trans 0 0 _ _ _ P1). apply run_site_F; [eapply Good_post; eassumption|reflexivity|discriminate].
Qed.

Lemma call_unregw_F x s : Good s -> Post 0 s (call_unregw c nested x s).
Proof.
  intros HG. pose proof HG as [Hd Hc]. unfold call_unregw.
  destruct (match x with Some i => Some i | None => sock s end); [|apply Post_refl; exact Hc].
  destruct (regw s); cbn [negb]; [|apply Post_refl; exact Hc].
  assert (P1 : Post 0 s (set_regw false s)) by (apply Post_frame; auto).
  destruct (c_ext c); [|exact P1].
  apply (Post_trans 0 0 _ _ _ P1). apply run_site_F; [eapply Good_post; eassumption|reflexivity|discriminate].
Qed.

Lemma sock_close_F r s : Good s -> Post 0 s (sock_close c nested r s).
Proof.
  intros HG. pose proof HG as [Hd Hc]. unfold sock_close. destruct (sock s) as [id|]; [|apply Post_refl; exact Hc].
  set (s1 := emit (ConnEnd id r) (set_sock None s)).
  assert (P1 : Post 0 s s1).
  { apply (Post_trans 0 0 s (set_sock None s) s1); [apply Post_frame; auto|apply Post_emit; [reflexivity|exact Hc]]. }
  pose proof (call_unregw_F (Some id) s1 (Good_post _ _ _ HG P1)) as P2.
  pose proof (Post_trans 0 0 _ _ _ P1 P2) as P12.
  destruct (c_sockcb c); [|exact P12].
  apply (Post_trans 0 0 _ _ _ P12). apply run_site_F; [eapply Good_post; eassumption|reflexivity|discriminate].
Qed.

Lemma do_on_disconnect_F rc fb s : Good s -> incb s = false -> Post 0 s (do_on_disconnect nested rc fb s).
Proof. intros HG Hi. unfold do_on_disconnect. apply run_site_F; [exact HG|reflexivity|intros _; exact Hi]. Qed.

Lemma lost_F r rc fb s : Good s -> incb s = false -> Post 0 s (fst (lost c nested r rc fb s)).
Proof.
  intros HG Hi. pose proof HG as [Hd Hc]. unfold lost.
  assert (G : forall x r', Post 0 s (do_on_disconnect nested r' fb (sock_close c nested r (set_cs x s)))).
  { intros x r'.
    assert (P1 : Post 0 s (set_cs x s)) by (apply Post_frame; auto).
    pose proof (sock_close_F r _ (Good_post _ _ _ HG P1)) as P2.
    pose proof (Post_trans 0 0 _ _ _ P1 P2) as P12.
    apply (Post_trans 0 0 _ _ _ P12). apply do_on_disconnect_F; [eapply Good_post; eassumption|].
    destruct P12 as (_ & A & _). congruence. }
  destruct (disc_state s); cbn [fst]; apply G.
Qed.

Lemma loop_rc_handle_F rc s : Good s -> incb s = false -> Post 0 s (fst (loop_rc_handle c nested rc s)).
Proof. intros HG Hi. unfold loop_rc_handle. apply lost_F; assumption. Qed.

(* the iteration bound of _packet_write *)
Definition mu (s : st) : nat :=
  (2 * M s - match outq s with p :: _ => if qstarted p then 1 else 0 | [] => 0 end)%nat.

Lemma pw_loop_F : forall n s, (mu s < n)%nat -> Good s -> incb s = false ->
  Post 0 s (fst (pw_loop c nested n s)).
Proof.
  induction n as [|n IH]; intros s Hmu HG Hi; [lia|]. pose proof HG as [Hd Hc]. cbn [pw_loop].
  destruct (outq s) as [|p q'] eqn:Eq; [apply Post_refl; exact Hc|].
  set (s0 := set_outq q' s).
  assert (HM : M s = S (M s0)) by (unfold M, s0; ssimpl; rewrite Eq; cbn [length]; lia).
  assert (P0 : clean (tr s0) = true /\ incb s0 = incb s /\ nscripts (scr s0) = nscripts (scr s)) by (repeat split; exact Hc).
  destruct (sock s0) as [id|] eqn:Es.
  2:{ cbn [fst]. unfold Post, M, s0 in *. ssimpl. rewrite Eq. repeat split; auto; lia. }
  unfold pop_outcome.
  set (s1 := match sched s0 with [] => s0 | _ :: l => set_sched l s0 end).
  assert (E1 : (match sched s0 with [] => (OAll, s0) | o :: l => (o, set_sched l s0) end)
               = (match sched s0 with [] => OAll | o :: _ => o end, s1)) by (unfold s1; destruct (sched s0); reflexivity).
  rewrite E1. clear E1.
  assert (F1 : tr s1 = tr s /\ incb s1 = incb s /\ scr s1 = scr s /\ outq s1 = q') by (unfold s1; destruct (sched s0); repeat split).
  destruct F1 as (F1 & F2 & F3 & F4).
  assert (G1 : Good s1) by (split; [rewrite F3; exact Hd|rewrite F1; exact Hc]).
  (* putting a packet with the kind of p back *)
  assert (Hback : forall b s', Post 0 s1 s' -> Post 0 s (push_front (mkQ (qk p) b) s')).
  { intros b s' (A1 & A2 & A3 & A4). unfold Post, M in *. ssimpl. rewrite F3, F4 in *. rewrite Eq. cbn [length].
    repeat split; try congruence; lia. }
  assert (Hback' : forall s', Post 0 s1 s' -> Post 0 s (push_front p s')).
  { intros s' H. specialize (Hback (qstarted p) s' H). destruct p; exact Hback. }
  assert (Hnext : forall s', Post 0 s1 s' -> Post 0 s (fst (pw_loop c nested n s'))).
  { intros s' P1. pose proof P1 as (A1 & A2 & A3 & A4).
    assert (P1' : Post 0 s s').
    { unfold Post, M in *. rewrite F3, F4 in *. rewrite Eq. cbn [length]. repeat split; try congruence; lia. }
    apply (Post_trans 0 0 _ _ _ P1'). apply IH.
    - unfold mu in *. unfold M in *. rewrite F3, F4 in A4. rewrite Eq in Hmu. cbn [length] in Hmu.
      destruct (outq s') as [|x y]; [|destruct (qstarted x)]; destruct (qstarted p); lia.
    - eapply Good_post; eassumption.
    - congruence. }
  destruct (match sched s0 with [] => OAll | o :: _ => o end).
  - (* complete *)
    assert (P2 : Post 0 s1 (emit (Tx id (qk p)) s1)) by (apply Post_emit; [reflexivity|apply G1]).
    destruct (qk p).
    + apply Hnext. exact P2.
    + cbn [fst].
      assert (Pa : Post 0 s1 (do_on_disconnect nested 0 false (emit (Tx id KDisconnect) s1))).
      { apply (Post_trans 0 0 _ _ _ P2). apply do_on_disconnect_F; [eapply Good_post; eassumption|ssimpl; congruence]. }
      assert (Pb : Post 0 s1 (sock_close c nested RDiscWritten (do_on_disconnect nested 0 false (emit (Tx id KDisconnect) s1)))).
      { apply (Post_trans 0 0 _ _ _ Pa). apply sock_close_F. eapply Good_post; eassumption. }
      assert (Pc : forall s', Post 0 s1 s' -> Post 0 s s').
      { intros s' (A1 & A2 & A3 & A4). unfold Post, M in *. rewrite F3, F4 in *. rewrite Eq. cbn [length]. repeat split; try congruence; lia. }
      destruct (sock (do_on_disconnect nested 0 false (emit (Tx id KDisconnect) s1))) as [id'|]; [|apply Pc; exact Pa].
      destruct (id' =? id); [|apply Pc; exact Pa].
      destruct (cs (sock_close c nested RDiscWritten (do_on_disconnect nested 0 false (emit (Tx id KDisconnect) s1))));
        try (apply Pc; exact Pb).
    + apply Hnext. apply (Post_trans 0 0 _ _ _ P2).
      apply run_site_F; [eapply Good_post; eassumption|reflexivity|intros _; ssimpl; congruence].
    + apply Hnext. exact P2.
    + apply Hnext. exact P2.
    + apply Hnext. exact P2.
  - (* partial *)
    destruct (qstarted p) eqn:Est.
    + cbn [fst]. apply Hback'. apply call_regw_F. exact G1.
    + (* the packet is now started: the measure drops by one *)
      assert (P1' : Post 0 s (push_front (mkQ (qk p) true) s1)) by (apply Hback; apply Post_refl; apply G1).
      apply (Post_trans 0 0 _ _ _ P1'). apply IH.
      * unfold mu, M in *. ssimpl. rewrite ?F3, ?F4. rewrite ?Eq, ?Est in *. cbn [length qstarted] in *. rewrite ?Est in *. lia.
      * exact (Good_post _ _ _ HG P1').
      * ssimpl. congruence.
  - cbn [fst]. apply Hback'. apply call_regw_F. exact G1.
  - cbn [fst]. apply Hback'. apply Post_refl. apply G1.
  - cbn [fst]. apply Hback'. apply Post_refl. apply G1.
Qed.

Lemma loop_write_F s : Good s -> incb s = false -> Post 0 s (fst (loop_write c nested s)).
Proof.
  intros HG Hi. pose proof HG as [Hd Hc]. unfold loop_write. destruct (sock s); [|apply Post_refl; exact Hc].
  destruct (negb (cq s)); [apply Post_refl; exact Hc|].
  unfold packet_write.
  assert (Hmu : (mu s < pw_fuel s)%nat) by (unfold mu, pw_fuel, M; lia).
  pose proof (pw_loop_F (pw_fuel s) s Hmu HG Hi) as P1.
  destruct (pw_loop c nested (pw_fuel s) s) as [s1 rc]. cbn [fst] in *.
  assert (P2 : Post 0 s (fst (if rc =? E_AGAIN then (s1, 0) else if rc >? 0 then loop_rc_handle c nested rc s1 else (s1, 0)))).
  { destruct (rc =? E_AGAIN); [exact P1|]. destruct (rc >? 0); [|exact P1].
    apply (Post_trans 0 0 _ _ _ P1). apply loop_rc_handle_F; [eapply Good_post; eassumption|]. destruct P1 as (_ & A & _). congruence. }
  destruct (if rc =? E_AGAIN then (s1, 0) else if rc >? 0 then loop_rc_handle c nested rc s1 else (s1, 0)) as [s2 rc2].
  cbn [fst] in *.
  destruct (want_write s2); apply (Post_trans 0 0 _ _ _ P2);
    [apply call_regw_F|apply call_unregw_F]; eapply Good_post; eassumption.
Qed.

Lemma packet_queue_F k s : Good s -> Post 1 s (fst (packet_queue c nested k s)).
Proof.
  intros HG. pose proof HG as [Hd Hc]. unfold packet_queue.
  set (s1 := match k with KConnect => set_cq true (set_outq (mkQ k false :: outq s) s) | _ => set_outq (outq s ++ [mkQ k false]) s end).
  assert (P1 : Post 1 s s1).
  { unfold Post, M, s1. destruct k; ssimpl; rewrite ?app_length; cbn [length]; repeat split; auto; lia. }
  destruct (negb (c_ext c) && cq s1 && negb (incb s1)) eqn:E.
  - apply andb_true_iff in E as [_ E]. apply negb_true_iff in E.
    apply (Post_trans 1 0 _ _ _ P1). apply loop_write_F; [eapply Good_post; eassumption|exact E].
  - cbn [fst]. apply (Post_trans 1 0 _ _ _ P1). apply call_regw_F. eapply Good_post; eassumption.
Qed.

Lemma reconnect_body_F ok s : Good s -> Post 1 s (fst (reconnect_body c nested ok s)).
Proof.
  intros HG. pose proof HG as [Hd Hc]. unfold reconnect_body.
  set (s1 := set_cs CsConnecting (set_ping false s)).
  assert (P1 : Post 0 s s1) by (apply Post_frame; auto).
  pose proof (sock_close_F RReplaced s1 (Good_post _ _ _ HG P1)) as P2.
  pose proof (Post_trans 0 0 _ _ _ P1 P2) as P12.
  set (s2 := sock_close c nested RReplaced s1) in *.
  assert (P3 : Post 0 s (set_outq [] s2)).
  { destruct P12 as (A1 & A2 & A3 & A4). unfold Post, M in *. ssimpl. cbn [length]. repeat split; auto; lia. }
  destruct ok; cbn [negb].
  2:{ cbn [fst]. apply (Post_weaken 0 1); [lia|]. apply (Post_trans 0 0 _ _ _ P3).
      apply (Post_trans 0 0 _ (set_cq false (set_outq [] s2))); [apply Post_frame; auto; apply P3|]. apply Post_emit; [reflexivity|apply P3]. }
  set (id := nsock (set_outq [] s2) + 1).
  set (s4 := emit (SockNew id) (set_regw false (set_sock (Some id) (set_nsock id (set_cq false (set_outq [] s2)))))).
  assert (P4 : Post 0 s s4).
  { apply (Post_trans 0 0 _ _ _ P3). unfold s4.
    eapply (Post_trans 0 0); [apply Post_frame with (s' := set_regw false (set_sock (Some id) (set_nsock id (set_cq false (set_outq [] s2))))); auto; apply P3|].
    apply Post_emit; [reflexivity|apply P3]. }
  assert (P5 : Post 0 s (if c_sockcb c then run_site nested SiOpen false (SockOpen id) s4 else s4)).
  { destruct (c_sockcb c); [|exact P4]. apply (Post_trans 0 0 _ _ _ P4).
    apply run_site_F; [eapply Good_post; eassumption|reflexivity|discriminate]. }
  pose proof (packet_queue_F KConnect _ (Good_post _ _ _ HG P5)) as P6.
  destruct (packet_queue c nested KConnect (if c_sockcb c then run_site nested SiOpen false (SockOpen id) s4 else s4)) as [s6 rc].
  cbn [fst] in *. exact (Post_trans 0 1 _ _ _ P5 P6).
Qed.

Lemma api_nested_F a s : Good s -> Post 1 s (api_nested c nested a s).
Proof.
  intros HG. pose proof HG as [Hd Hc]. destruct a; cbn [api_nested].
  - unfold api_send. ssimpl. pose proof (Post_emit (Call CPublish) s eq_refl Hc) as P1.
    destruct (sock s); cbn [fst]; [|apply (Post_weaken 0 1); [lia|exact P1]].
    apply (Post_trans 0 1 _ _ _ P1). apply packet_queue_F. eapply Good_post; eassumption.
  - unfold api_send. ssimpl. pose proof (Post_emit (Call CSubscribe) s eq_refl Hc) as P1.
    destruct (sock s); cbn [fst]; [|apply (Post_weaken 0 1); [lia|exact P1]].
    apply (Post_trans 0 1 _ _ _ P1). apply packet_queue_F. eapply Good_post; eassumption.
  - unfold api_disconnect. ssimpl. pose proof (Post_emit (Call CDisconnect) s eq_refl Hc) as P1.
    destruct (sock s); cbn [fst].
    + assert (P2 : Post 0 s (set_cs CsDisconnecting (emit (Call CDisconnect) s))).
      { apply (Post_trans 0 0 _ _ _ P1). apply Post_frame; auto; apply P1. }
      apply (Post_trans 0 1 _ _ _ P2). apply packet_queue_F. eapply Good_post; eassumption.
    + apply (Post_weaken 0 1); [lia|]. apply (Post_trans 0 0 _ _ _ P1). apply Post_frame; auto; apply P1.
  - unfold api_reconnect. pose proof (Post_emit (Call CReconnect) s eq_refl Hc) as P1.
    apply (Post_trans 0 1 _ _ _ P1). apply reconnect_body_F. eapply Good_post; eassumption.
Qed.

Lemma exec_script_F : forall sc s, Good s -> Post (length sc) s (exec_script c nested sc s).
Proof.
  unfold exec_script. induction sc as [|a sc IH]; intros s HG; cbn [fold_left length]; [apply Post_refl; apply HG|].
  pose proof (api_nested_F a s HG) as P1.
  exact (Post_trans 1 (length sc) _ _ _ P1 (IH _ (Good_post _ _ _ HG P1))).
Qed.

(* ---- the operations of the application ---- *)
Lemma after_read_F id0 r s0 : Good (fst r) -> incb (fst r) = false -> Post 1 s0 (fst r) ->
  Post 1 s0 (fst (after_read c nested id0 r)).
Proof.
  destruct r as [s [rc|]]; cbn [fst after_read]; intros HG Hi P0; [|exact P0].
  destruct (rc >? 0); [|exact P0]. destruct (sock s) as [x|]; [|exact P0]. destruct (x =? id0); [|exact P0].
  pose proof (loop_rc_handle_F rc s HG Hi) as P1. destruct (loop_rc_handle c nested rc s) as [s' rc'].
  cbn [fst] in *. exact (Post_trans 1 0 _ _ _ P0 P1).
Qed.

Lemma loop_read_F i s : Good s -> incb s = false -> Post 1 s (fst (loop_read c nested i s)).
Proof.
  intros HG Hi. pose proof HG as [Hd Hc]. unfold loop_read.
  assert (R0 : Post 1 s s) by (apply (Post_weaken 0 1); [lia|apply Post_refl; exact Hc]).
  destruct (sock s) as [id0|]; [|exact R0].
  assert (Hdown : forall ok, Post 1 s (fst (after_read c nested id0 (downgrade c nested ok s)))).
  { intros ok. unfold downgrade.
    assert (P1 : Post 0 s (set_proto 3 s)) by (apply Post_frame; auto).
    pose proof (reconnect_body_F ok _ (Good_post _ _ _ HG P1)) as P2.
    pose proof (Post_trans 0 1 _ _ _ P1 P2) as P12.
    destruct (reconnect_body c nested ok (set_proto 3 s)) as [sx [rcx|]]; cbn [fst] in *;
      (apply after_read_F; cbn [fst]; [eapply Good_post; eassumption| |exact P12]; destruct P12 as (_ & A & _); congruence). }
  assert (Hack : forall rc, Post 1 s (fst (after_read c nested id0 (handle_connack nested rc s)))).
  { intros rc. unfold handle_connack.
    set (sx := if rc =? 0 then match cs s with CsDisconnecting => s | _ => set_cs CsConnected s end else s).
    assert (P1 : Post 0 s sx).
    { unfold sx. destruct (rc =? 0); [|apply Post_refl; exact Hc].
      destruct (cs s); try (apply Post_refl; exact Hc); apply Post_frame; auto. }
    assert (P2 : Post 0 s (run_site nested SiConnect true (CbConnect rc) sx)).
    { apply (Post_trans 0 0 _ _ _ P1). apply run_site_F; [eapply Good_post; eassumption|reflexivity|].
      intros _. destruct P1 as (_ & A & _). congruence. }
    apply after_read_F; cbn [fst]; [eapply Good_post; eassumption| |apply (Post_weaken 0 1); [lia|exact P2]].
    destruct P2 as (_ & A & _). congruence. }
  destruct i; cbn [fst]; try exact R0.
  - destruct ((proto s =? 4) && (rc =? 1)); [apply Hdown|apply Hack].
  - destruct (proto s =? 4); [apply Hdown|apply Hack].
  - destruct (proto s =? 5).
    + unfold handle_server_disconnect.
      pose proof (lost_F RServerDisc rc true s HG Hi) as P2.
      destruct (lost c nested RServerDisc rc true s) as [s' x]. cbn [fst] in *.
      apply (Post_weaken 0 1); [lia|]. exact P2.
    + apply after_read_F; assumption.
  - apply after_read_F; assumption.
  - apply after_read_F; assumption.
  - apply after_read_F; assumption.
  - pose proof (packet_queue_F KOther s HG) as P1. destruct (packet_queue c nested KOther s) as [s1 rc]. cbn [fst] in *.
    apply after_read_F; cbn [fst]; [eapply Good_post; eassumption| |exact P1]. destruct P1 as (_ & A & _). congruence.
Qed.

Lemma keepalive_close_F s : Good s -> incb s = false -> Post 0 s (keepalive_close c nested s).
Proof.
  intros HG Hi. unfold keepalive_close. apply lost_F; assumption.
Qed.

Lemma loop_misc_F m s : Good s -> incb s = false -> Post 1 s (fst (loop_misc c nested m s)).
Proof.
  intros HG Hi. pose proof HG as [Hd Hc]. unfold loop_misc.
  assert (R0 : Post 1 s s) by (apply (Post_weaken 0 1); [lia|apply Post_refl; exact Hc]).
  destruct (sock s); [|exact R0].
  assert (P1 : Post 1 s (check_keepalive c nested m s)).
  { unfold check_keepalive. destruct m; try exact R0. destruct (sock s); [|exact R0].
    destruct (is_connected s && negb (ping s)).
    - pose proof (packet_queue_F KPingreq s HG) as P. destruct (packet_queue c nested KPingreq s) as [s1 rc]. cbn [fst] in *.
      destruct (rc =? 0); [|exact P]. apply (Post_trans 1 0 _ _ _ P). apply Post_frame; auto; apply P.
    - apply (Post_weaken 0 1); [lia|]. apply keepalive_close_F; assumption. }
  destruct (sock (check_keepalive c nested m s)); [|exact P1].
  destruct m; cbn [fst]; try exact P1.
  destruct (ping (check_keepalive c nested MPingDue s)); cbn [fst]; [|exact P1].
  apply (Post_trans 1 0 _ _ _ P1). apply keepalive_close_F; [eapply Good_post; eassumption|].
  destruct P1 as (_ & A & _). congruence.
Qed.

Lemma loop_read_incb i s : Good s -> incb s = false -> incb (fst (loop_read c nested i s)) = false.
Proof. intros HG Hi. destruct (loop_read_F i s HG Hi) as (_ & A & _). congruence. Qed.

Lemma loop_read_n_F : forall l s, Good s -> incb s = false -> Post (length l) s (fst (loop_read_n c nested l s)).
Proof.
  induction l as [|i r IH]; intros s HG Hi; cbn [loop_read_n length].
  - apply Post_refl. apply HG.
  - pose proof (loop_read_F i s HG Hi) as P1. pose proof (loop_read_incb i s HG Hi) as Hi1.
    destruct (read_continues c nested i s).
    + exact (Post_trans 1 (length r) _ _ _ P1 (IH _ (Good_post _ _ _ HG P1) Hi1)).
    + apply (Post_weaken 1); [lia|exact P1].
Qed.

Lemma run_top_F t s : Good s -> incb s = false -> clean (tr (run_top c nested t s)) = true.
Proof.
  intros HG Hi. pose proof HG as [Hd Hc].
  assert (Hret : forall k s' rc, Post k s s' -> clean (tr (emit (Ret rc) s')) = true).
  { intros k s' rc (A & _). cbn [tr emit clean forallb]. exact A. }
  assert (Hretof : forall k r, Post k s (fst r) -> clean (tr (ret_of r)) = true).
  { intros k [s' [rc|]] P; cbn [ret_of fst] in *; [eapply Hret; exact P|apply P]. }
  destruct t; cbn [run_top].
  - (* connect *)
    unfold api_connect. pose proof (Post_emit (Call CConnect) s eq_refl Hc) as P1.
    pose proof (sock_close_F RReplaced _ (Good_post _ _ _ HG P1)) as P2.
    pose proof (Post_trans 0 0 _ _ _ P1 P2) as P12.
    assert (P3 : Post 0 s (set_cs CsConnectAsync (sock_close c nested RReplaced (emit (Call CConnect) s)))).
    { apply (Post_trans 0 0 _ _ _ P12). apply Post_frame; auto; apply P12. }
    pose proof (reconnect_body_F ok _ (Good_post _ _ _ HG P3)) as P4.
    eapply Hretof. exact (Post_trans 0 1 _ _ _ P3 P4).
  - unfold api_reconnect. pose proof (Post_emit (Call CReconnect) s eq_refl Hc) as P1.
    pose proof (reconnect_body_F ok _ (Good_post _ _ _ HG P1)) as P2.
    eapply Hretof. exact (Post_trans 0 1 _ _ _ P1 P2).
  - pose proof (api_nested_F ADisconnect s HG) as P. cbn [api_nested] in P.
    destruct (api_disconnect c nested s) as [s1 rc]. eapply Hret. exact P.
  - pose proof (api_nested_F APublish0 s HG) as P. cbn [api_nested] in P.
    destruct (api_send c nested CPublish KPublish0 s) as [s1 rc]. eapply Hret. exact P.
  - pose proof (api_nested_F ASubscribe s HG) as P. cbn [api_nested] in P.
    destruct (api_send c nested CSubscribe KSubscribe s) as [s1 rc]. eapply Hret. exact P.
  - pose proof (Post_emit (Call CLoopRead) s eq_refl Hc) as P1.
    pose proof (loop_read_F i _ (Good_post _ _ _ HG P1) Hi) as P2.
    eapply Hretof. exact (Post_trans 0 1 _ _ _ P1 P2).
  - pose proof (Post_emit (Call CLoopWrite) s eq_refl Hc) as P1.
    pose proof (loop_write_F _ (Good_post _ _ _ HG P1) Hi) as P2.
    destruct (loop_write c nested (emit (Call CLoopWrite) s)) as [s1 rc]. eapply Hret. exact (Post_trans 0 0 _ _ _ P1 P2).
  - pose proof (Post_emit (Call CLoopMisc) s eq_refl Hc) as P1.
    pose proof (loop_misc_F m _ (Good_post _ _ _ HG P1) Hi) as P2.
    destruct (loop_misc c nested m (emit (Call CLoopMisc) s)) as [s1 rc]. eapply Hret. exact (Post_trans 0 1 _ _ _ P1 P2).
  - pose proof (Post_emit (Call CLoopRead) s eq_refl Hc) as P1.
    pose proof (loop_read_n_F l _ (Good_post _ _ _ HG P1) Hi) as P2.
    eapply Hretof. exact (Post_trans 0 (length l) _ _ _ P1 P2).
Qed.
End Fuel.

(* the nesting fuel: a script is run one level down, where at least one script less is left *)
Lemma nested_at_F c : forall d sc s, (nscripts (scr s) < d)%nat -> clean (tr s) = true ->
  Post (length sc) s (nested_at c d sc s).
Proof.
  induction d as [|d IH]; intros sc s Hd Hc; [lia|]. cbn [nested_at].
  apply exec_script_F with (d := d); [exact IH|]. split; [lia|exact Hc].
Qed.

Lemma step_clean c s o : clean (snd (step c s o)) = true.
Proof.
  unfold step. cbn [snd].
  set (s0 := set_incb false (set_sched (o_sched o) (set_scr (o_scr o)
               (mkSt (cs s) (sock s) (regw s) (outq s) (ping s) (incb s) (cq s) (proto s) (nsock s) (sched s) (scr s) [])))).
  assert (HG : Good (nscripts (o_scr o)) s0) by (split; [unfold s0; ssimpl; lia|reflexivity]).
  pose proof (run_top_F c (nested_at c (nscripts (o_scr o))) (nscripts (o_scr o)) (nested_at_F c _) (o_call o) s0 HG eq_refl) as H.
  unfold clean in *. unfold obs. ssimpl. rewrite forallb_forall in *. intros e He. apply in_rev in He.
  cbn [In] in He. destruct He as [<- | He]; [reflexivity|]. apply H. exact He.
Qed.

Lemma clean_split l : clean l = true -> existsb is_fuel l = false /\ existsb is_deadlock l = false.
Proof.
  unfold clean, okev. induction l as [|e l IH]; cbn; [auto|]. intros H.
  apply andb_true_iff in H as [H1 H2]. apply andb_true_iff in H1 as [A B]. destruct (IH H2) as [C D].
  apply negb_true_iff in A, B. rewrite A, B, C, D. auto.
Qed.

Theorem conn_model_complete : forall c ops,
  no_fuel_ok (optrace c ops) = true /\ no_deadlock_ok (optrace c ops) = true.
Proof.
  intros c ops. unfold optrace, no_fuel_ok, no_deadlock_ok. generalize (init c).
  induction ops as [|o ops IH]; intros s; cbn [run_steps map forallb]; [auto|].
  pose proof (step_clean c s o) as H. destruct (step c s o) as [s' ev]. cbn [snd map forallb] in *.
  destruct (clean_split _ H) as [A B]. destruct (IH s') as [C D]. rewrite A, B, C, D. auto.
Qed.
Print Assumptions conn_model_complete.
