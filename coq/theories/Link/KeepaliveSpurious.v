(* C08.3: a peer that answers in time is never dropped, provided no inbound backlog is carried across
   a clock advance (proofs about Link/Keepalive.v); and the counterexample without that proviso. *)
From PahoV Require Import Base.Prelude Link.Keepalive Link.KeepaliveProofs.

(* ------------------------------------------------------------------ two-invariant variant of the phase lemma:
   I holds between ops, J holds between the read phase and loop_misc of one Service *)
Section Phases2.
  Context {A O : Type}.
  Variable g : A -> op -> option A.
  Variable ostep : O -> event -> O.
  Variable I J : st -> O -> A -> Prop.
  Notation obs := (obs ostep).

  Hypothesis H_tick : forall s o a dt a', I s o a -> g a (Tick dt) = Some a' ->
    I (fst (step s (Tick dt))) (obs (now s + Z.max 0 dt) [Ticked (Z.max 0 dt)] o) a'.
  Hypothesis H_app : forall s o a a', I s o a -> g a AppSend = Some a' ->
    I s (obs (now s) (if sock s then [TxOther] else []) o) a'.
  Hypothesis H_rx : forall s o a p a', I s o a -> g a (Rx p) = Some a' ->
    I (fst (step s (Rx p))) (obs (now s) (if sock s then [Arr p] else []) o) a'.
  Hypothesis H_reconn : forall s o a a', I s o a -> g a Reconnect = Some a' ->
    I (fst (step s Reconnect)) (obs (now s) ((if sock s then [Closed RC_RECONNECT] else []) ++ [TxConnect]) o) a'.
  Hypothesis H_IJ : forall s o a, I s o a -> sock s = false -> J s o a.
  Hypothesis H_dead : forall s o a a', J s o a -> g a Service = Some a' -> sock s = false ->
    I s (obs (now s) [LoopRc RC_CONN_LOST] o) a'.
  Hypothesis H_read : forall s o a, I s o a -> sock s = true ->
    J (fst (read_phase s)) (obs (now s) (snd (read_phase s)) o) a.
  Hypothesis H_misc : forall s o a a', J s o a -> g a Service = Some a' -> sock s = true ->
    I (fst (loop_misc s)) (obs (now s) (snd (loop_misc s)) o) a'.

  Lemma phase_step2 : forall s o a op a', I s o a -> g a op = Some a' ->
    I (fst (step s op)) (fold_left ostep (stamp (now (fst (step s op))) (snd (step s op))) o) a'.
  Proof.
    intros s o a op a' HI Hg. destruct op as [dt| | |p|].
    5:{ pose proof (H_reconn s o a a' HI Hg) as H. cbn [step fst snd now] in *. exact H. }
    - pose proof (H_tick s o a dt a' HI Hg) as H. cbn [step fst snd now] in *. exact H.
    - cbn [step]. unfold service.
      destruct (sock s) eqn:Es; cbn [negb].
      + pose proof (H_read s o a HI Es) as Hr. pose proof (read_phase_now s) as Hn.
        destruct (read_phase s) as [s1 e1]. cbn [fst snd] in *.
        destruct (sock s1) eqn:Es1; cbn [negb].
        * pose proof (H_misc s1 _ a a' Hr Hg Es1) as Hm. pose proof (loop_misc_now s1) as Hn2.
          destruct (loop_misc s1) as [s2 e2]. cbn [fst snd] in *.
          rewrite Hn2, Hn. fold (obs (now s) (e1 ++ e2) o). rewrite obs_app. rewrite Hn in Hm. exact Hm.
        * cbn [fst snd]. rewrite Hn. fold (obs (now s) (e1 ++ [LoopRc RC_CONN_LOST]) o). rewrite obs_app.
          pose proof (H_dead s1 _ a a' Hr Hg Es1) as Hd. rewrite Hn in Hd. exact Hd.
      + cbn [fst snd]. apply (H_dead s o a a' (H_IJ s o a HI Es) Hg Es).
    - pose proof (H_app s o a a' HI Hg) as H. cbn [step]. destruct (sock s); exact H.
    - pose proof (H_rx s o a p a' HI Hg) as H. cbn [step] in *.
      destruct (sock s); cbn [fst snd now] in *; exact H.
  Qed.

  Lemma run_from_inv2 : forall ops s tr o0 a,
    I s (fold_left ostep tr o0) a -> guarded g a ops = true ->
    exists a', I (fst (run_from s tr ops)) (fold_left ostep (snd (run_from s tr ops)) o0) a'.
  Proof.
    induction ops as [|op r IH]; intros s tr o0 a HI Hg.
    - exists a. exact HI.
    - cbn [guarded] in Hg. destruct (g a op) as [a'|] eqn:Ega; [|discriminate].
      rewrite run_from_cons.
      apply (IH _ _ o0 a'); [|exact Hg].
      rewrite fold_left_app. apply (phase_step2 s (fold_left ostep tr o0) a op a' HI Ega).
  Qed.
End Phases2.

(* ------------------------------------------------------------------ the combined observer *)

Definition nobs : Type := tmon * qmon * nat.
Definition nstep (K d : Z) (o : nobs) (e : event) : nobs :=
  let '(tm, qm, n) := o in (tmon_step K d tm e, qmon_step qm e, cnt_step is_own_close n e).

Lemma nstep_fold K d : forall tr tm qm n,
  fold_left (nstep K d) tr (tm, qm, n) =
  (fold_left (tmon_step K d) tr tm, fold_left qmon_step tr qm, fold_left (cnt_step is_own_close) tr n).
Proof. induction tr as [|e r IH]; intros; cbn [fold_left nstep]; [reflexivity|apply IH]. Qed.

Definition fresh (K d t : Z) (w : option Z) : Prop :=
  match w with Some t' => t <= t' + K - d | None => True end.

Lemma overdue_fresh K d t w : overdue K d t w = false <-> fresh K d t w.
Proof. unfold overdue, fresh. destruct w; [rewrite Z.gtb_ltb, Z.ltb_ge; tauto|tauto]. Qed.

(* what a still-true flag says about one more event *)
Lemma tmon_ok_step K d tm e : tm_ok (tmon_step K d tm e) = true ->
  tm_ok tm = true /\ fresh K d (fst e) (tm_conn tm) /\ fresh K d (fst e) (tm_ping tm) /\
  (match snd e with TxConnect | TxPing => d <= K | _ => True end).
Proof.
  unfold tmon_step.
  destruct (snd e) as [x|p|p| | | |x|x|x]; try destruct p; cbn [tm_ok];
    rewrite <- !overdue_fresh; intros H;
    destruct (tm_ok tm), (overdue K d (fst e) (tm_conn tm)), (overdue K d (fst e) (tm_ping tm));
    cbn [andb negb] in H; try discriminate; repeat split; try lia.
Qed.

Lemma qmon_ok_step qm e : qm_ok (qmon_step qm e) = true ->
  qm_ok qm = true /\ (match snd e with Ticked dt => dt = 0 \/ qm_len qm <= 1 | _ => True end).
Proof.
  unfold qmon_step. destruct (snd e); cbn [qm_ok]; intros H; try (split; [exact H|exact Logic.I]).
  apply andb_true_iff in H. destruct H as (H1 & H2). split; [exact H1|]. apply orb_true_iff in H2. lia.
Qed.

Definition waiting (K d nw t : Z) (w : option Z) (p : inpkt) (q : list inpkt) : Prop :=
  (w = Some t /\ nw <= t + K - d) \/ (In p q /\ (nw <= t + K - d \/ hd_error q = Some p)).
(* between the read phase and loop_misc: the head of the queue has just been taken *)
Definition waitingJ (K d nw t : Z) (w : option Z) (p : inpkt) (q : list inpkt) : Prop :=
  (w = Some t \/ In p q) /\ nw <= t + K - d.

Lemma waitingJ_waiting K d nw t w p q : waitingJ K d nw t w p q -> waiting K d nw t w p q.
Proof. unfold waitingJ, waiting. tauto. Qed.

Definition Ins_gen (wt : Z -> Z -> Z -> Z -> option Z -> inpkt -> list inpkt -> Prop)
  (K d t0 : Z) (s : st) (o : nobs) (acc : Z) : Prop :=
  let '(tm, qm, n) := o in
  tm_ok tm = true -> qm_ok qm = true ->
    n = 0%nat /\ 0 <= acc <= d /\ t0 <= last_out s /\ (d = 0 -> now s = t0) /\
    (sock s = true ->
       qm_len qm = Z.of_nat (length (inq s)) /\
       (cstate s = CsConnecting -> wt K d (now s) (last_out s) (tm_conn tm) InConnack (inq s)) /\
       (ping_t s <> 0 -> wt K d (now s) (ping_t s) (tm_ping tm) InPingresp (inq s))).

Definition I_ns (K d t0 : Z) (s : st) (o : nobs) (acc : Z) : Prop := Ibase K s /\ Ins_gen waiting K d t0 s o acc.
Definition J_ns (K d t0 : Z) (s : st) (o : nobs) (acc : Z) : Prop := Ibase K s /\ Ins_gen waitingJ K d t0 s o acc.

Ltac tmproj := cbn [tm_conn tm_ping tm_ok qm_len qm_ok] in *.

(* list facts used for the queue *)
Lemma in_single {X} (p : X) q : In p q -> (length q <= 1)%nat -> hd_error q = Some p.
Proof. destruct q as [|x [|y r]]; cbn; intros H L; try lia; destruct H as [->|[]]; reflexivity. Qed.
Lemma hd_app {X} (q : list X) x : q <> [] -> hd_error (q ++ [x]) = hd_error q.
Proof. destruct q; [congruence|reflexivity]. Qed.

Lemma waiting_tick K d nw dt t w p q (len : Z) :
  waiting K d nw t w p q -> fresh K d (nw + dt) w -> len = Z.of_nat (length q) -> (dt = 0 \/ len <= 1) ->
  waiting K d (nw + dt) t w p q.
Proof.
  unfold waiting, fresh. intros [(-> & Hb)|(Hin & Hb)] Hf Hl Hc.
  - left. split; [reflexivity|lia].
  - right. split; [exact Hin|]. destruct Hb as [Hb|Hb]; [|right; exact Hb].
    destruct Hc as [->|Hc]; [left; lia|]. right. apply in_single; [exact Hin|lia].
Qed.

Lemma waiting_arr_other K d nw t w p q x : x <> p -> waiting K d nw t w p q -> waiting K d nw t w p (q ++ [x]).
Proof.
  unfold waiting. intros Hx [H|(Hin & Hb)]; [left; exact H|]. right. split; [apply in_or_app; left; exact Hin|].
  destruct Hb as [Hb|Hb]; [left; exact Hb|]. right. rewrite hd_app; [exact Hb|]. destruct q; [destruct Hin|congruence].
Qed.

Lemma waiting_arr_self K d nw t w w' p q : waiting K d nw t w p q -> waiting K d nw t w' p (q ++ [p]).
Proof.
  unfold waiting. intros [(_ & Hb)|(Hin & Hb)]; right.
  - split; [apply in_or_app; right; left; reflexivity|left; exact Hb].
  - split; [apply in_or_app; left; exact Hin|]. destruct Hb as [Hb|Hb]; [left; exact Hb|].
    right. rewrite hd_app; [exact Hb|]. destruct q; [destruct Hin|congruence].
Qed.

(* reading the head x <> p *)
Lemma waiting_read K d nw t w p x r : x <> p -> waiting K d nw t w p (x :: r) -> waitingJ K d nw t w p r.
Proof.
  unfold waiting, waitingJ. intros Hx [(Hw & Hb)|(Hin & Hb)].
  - split; [left; exact Hw|exact Hb].
  - cbn [In hd_error] in *. destruct Hin as [Hin|Hin]; [congruence|].
    destruct Hb as [Hb|Hb]; [|congruence]. split; [right; exact Hin|exact Hb].
Qed.
Lemma waiting_noread K d nw t w p : waiting K d nw t w p [] -> waitingJ K d nw t w p [].
Proof. unfold waiting, waitingJ. intros [(Hw & Hb)|(Hin & _)]; [tauto|destruct Hin]. Qed.

(* ------------------------------------------------------------------ observer over event groups *)

Lemma nobs_split K d t evs tm qm n :
  obs (nstep K d) t evs (tm, qm, n) =
  (obs (tmon_step K d) t evs tm, obs qmon_step t evs qm, obs (cnt_step is_own_close) t evs n).
Proof. unfold obs. apply nstep_fold. Qed.

Lemma tm_group K d t : forall evs tm, tm_ok (obs (tmon_step K d) t evs tm) = true ->
  tm_ok tm = true /\ (evs <> [] -> fresh K d t (tm_conn tm) /\ fresh K d t (tm_ping tm)) /\
  (In TxPing evs \/ In TxConnect evs -> d <= K).
Proof.
  induction evs as [|e r IH]; intros tm H.
  - split; [exact H|]. split; [congruence|]. cbn [In]. tauto.
  - unfold obs in *. cbn [stamp map fold_left] in H. apply IH in H. destruct H as (H1 & _ & H3).
    apply tmon_ok_step in H1. cbn [fst snd] in H1. destruct H1 as (Q1 & Q2 & Q3 & Q4).
    split; [exact Q1|]. split; [intros _; split; assumption|].
    cbn [In]. intros [[He|Hin]|[He|Hin]]; try (subst e; exact Q4); apply H3; tauto.
Qed.

Lemma qm_group t : forall evs qm, qm_ok (obs qmon_step t evs qm) = true -> qm_ok qm = true.
Proof.
  induction evs as [|e r IH]; intros qm H; [exact H|].
  unfold obs in *. cbn [stamp map fold_left] in H. apply IH in H. apply qmon_ok_step in H. tauto.
Qed.

Ltac obs_simpl :=
  unfold obs; cbn [stamp map fold_left]; unfold tmon_step, qmon_step, cnt_step;
  cbn [fst snd tm_conn tm_ping tm_ok qm_len qm_ok is_own_close]; zconst.

(* the part of Ins_gen that does not depend on the socket being open *)
Ltac frame_ns :=
  split; [first [assumption | lia]|]; split; [first [assumption | lia]|]; split; [first [assumption | lia]|];
  split; [first [assumption | (intros; lia)]|];
  let H := fresh in intros H; try discriminate H.

Section NS.
  Variables K d t0 : Z.
  Hypothesis HK : 0 < K.
  Hypothesis Hd : 0 <= d.
  Hypothesis Ht0 : 0 < t0.

  Lemma ns_tick : forall s o a dt a', I_ns K d t0 s o a -> sw_op d a (Tick dt) = Some a' ->
    I_ns K d t0 (fst (step s (Tick dt))) (obs (nstep K d) (now s + Z.max 0 dt) [Ticked (Z.max 0 dt)] o) a'.
  Proof.
    intros s [[tm qm] n] a dt a' (Hb & Hi) Hg. cbn [sw_op] in Hg.
    destruct (a + Z.max 0 dt <=? d) eqn:E; [|discriminate]. inv Hg.
    split; [apply Ibase_tick; exact Hb|]. rewrite nobs_split. unfold Ins_gen in *. intros Hok1 Hok2.
    pose proof (tm_group _ _ _ _ _ Hok1) as (T1 & T2 & _). specialize (T2 ltac:(discriminate)). destruct T2 as (F1 & F2).
    assert (Hq : qm_ok qm = true /\ (Z.max 0 dt = 0 \/ qm_len qm <= 1)).
    { unfold obs in Hok2. cbn [stamp map fold_left] in Hok2. apply qmon_ok_step in Hok2. exact Hok2. }
    destruct Hq as (Q1 & Q2). specialize (Hi T1 Q1). destruct Hi as (Hn0 & Ha & Hlo & Hd0 & Hs).
    destr_st s. cbn [step]. proj.
    split; [exact Hn0|]. split; [lia|]. split; [exact Hlo|]. split; [intros ->; specialize (Hd0 eq_refl); lia|].
    intros Hsk. specialize (Hs Hsk). destruct Hs as (Hl & Hc & Hp).
    obs_simpl. split; [exact Hl|]. split.
    - intros Hcs. apply (waiting_tick K d nw (Z.max 0 dt) lo (tm_conn tm) InConnack q (qm_len qm)); auto.
    - intros Hpn. apply (waiting_tick K d nw (Z.max 0 dt) pt (tm_ping tm) InPingresp q (qm_len qm)); auto.
  Qed.

  Lemma ns_app : forall s o a a', I_ns K d t0 s o a -> sw_op d a AppSend = Some a' ->
    I_ns K d t0 s (obs (nstep K d) (now s) (if sock s then [TxOther] else []) o) a'.
  Proof.
    intros s [[tm qm] n] a a' (Hb & Hi) Hg. inv Hg. split; [exact Hb|].
    destruct (sock s) eqn:Esk; [|exact Hi].
    rewrite nobs_split. unfold Ins_gen in *. intros Hok1 Hok2.
    pose proof (tm_group _ _ _ _ _ Hok1) as (T1 & _ & _). pose proof (qm_group _ _ _ Hok2) as Q1.
    specialize (Hi T1 Q1). obs_simpl. exact Hi.
  Qed.

  Lemma ns_rx : forall s o a p a', I_ns K d t0 s o a -> sw_op d a (Rx p) = Some a' ->
    I_ns K d t0 (fst (step s (Rx p))) (obs (nstep K d) (now s) (if sock s then [Arr p] else []) o) a'.
  Proof.
    intros s [[tm qm] n] a p a' (Hb & Hi) Hg. cbn [sw_op] in Hg. inv Hg.
    split; [apply Ibase_rx; exact Hb|].
    destr_st s. cbn [step]. proj. destruct sk; proj; [|exact Hi].
    rewrite nobs_split. unfold Ins_gen in *. intros Hok1 Hok2.
    pose proof (tm_group _ _ _ _ _ Hok1) as (T1 & _ & _). pose proof (qm_group _ _ _ Hok2) as Q1.
    specialize (Hi T1 Q1). destruct Hi as (Hn0 & Ha & Hlo & Hd0 & Hs). specialize (Hs eq_refl). destruct Hs as (Hl & Hc & Hp).
    proj. split; [obs_simpl; exact Hn0|]. split; [exact Ha|]. split; [exact Hlo|]. split; [exact Hd0|]. intros _.
    split; [obs_simpl; rewrite app_length; cbn [length]; lia|]. split.
    - intros Hcs. specialize (Hc Hcs). destruct p; obs_simpl;
        try (apply waiting_arr_other; [discriminate|exact Hc]). apply (waiting_arr_self _ _ _ _ _ _ _ _ Hc).
    - intros Hpn. specialize (Hp Hpn). destruct p; obs_simpl;
        try (apply waiting_arr_other; [discriminate|exact Hp]). apply (waiting_arr_self _ _ _ _ _ _ _ _ Hp).
  Qed.

  Lemma ns_reconn : forall s o a a', I_ns K d t0 s o a -> sw_op d a Reconnect = Some a' ->
    I_ns K d t0 (fst (step s Reconnect))
      (obs (nstep K d) (now s) ((if sock s then [Closed RC_RECONNECT] else []) ++ [TxConnect]) o) a'.
  Proof.
    intros s [[tm qm] n] a a' (Hb & Hi) Hg. inv Hg. split; [apply Ibase_reconn; exact Hb|].
    destruct Hb as (Hk & Hn & Hio & Hin & Hpp & _).
    rewrite nobs_split. unfold Ins_gen in *. intros Hok1 Hok2.
    pose proof (tm_group _ _ _ _ _ Hok1) as (T1 & _ & T3). pose proof (qm_group _ _ _ Hok2) as Q1.
    assert (HdK : d <= K) by (apply T3; right; apply in_or_app; right; left; reflexivity).
    specialize (Hi T1 Q1). destruct Hi as (Hn0 & Ha & Hlo & Hd0 & _).
    destr_st s. cbn [step]. proj.
    split; [destruct sk; obs_simpl; exact Hn0|]. split; [exact Ha|]. split; [lia|]. split; [exact Hd0|]. intros _.
    split; [destruct sk; obs_simpl; reflexivity|]. split.
    - intros _. left. split; [destruct sk; obs_simpl; reflexivity|lia].
    - congruence.
  Qed.

  Lemma ns_IJ : forall s o a, I_ns K d t0 s o a -> sock s = false -> J_ns K d t0 s o a.
  Proof.
    intros s [[tm qm] n] a (Hb & Hi) Hsk. split; [exact Hb|]. unfold Ins_gen in *. intros H1 H2.
    specialize (Hi H1 H2). rewrite Hsk in *. intuition discriminate.
  Qed.

  Lemma ns_dead : forall s o a a', J_ns K d t0 s o a -> sw_op d a Service = Some a' -> sock s = false ->
    I_ns K d t0 s (obs (nstep K d) (now s) [LoopRc RC_CONN_LOST] o) a'.
  Proof.
    intros s [[tm qm] n] a a' (Hb & Hi) Hg Hsk. inv Hg. split; [exact Hb|].
    rewrite nobs_split. unfold Ins_gen in *. intros Hok1 Hok2.
    pose proof (tm_group _ _ _ _ _ Hok1) as (T1 & _ & _). pose proof (qm_group _ _ _ Hok2) as Q1.
    specialize (Hi T1 Q1). rewrite Hsk in *. obs_simpl. repeat split; try tauto; try lia; discriminate.
  Qed.

  Lemma ns_read : forall s o a, I_ns K d t0 s o a -> sock s = true ->
    J_ns K d t0 (fst (read_phase s)) (obs (nstep K d) (now s) (snd (read_phase s)) o) a.
  Proof.
    intros s [[tm qm] n] a (Hb & Hi) Hsk. split; [apply Ibase_read; assumption|].
    destruct Hb as (Hk & Hn & Hio & Hin & Hpp & Hlo' & Hbs & _). specialize (Hbs Hsk). destruct Hbs as (Hnl & Hconn).
    rewrite nobs_split. unfold Ins_gen in *. intros Hok1 Hok2.
    pose proof (tm_group _ _ _ _ _ Hok1) as (T1 & _ & _). pose proof (qm_group _ _ _ Hok2) as Q1.
    specialize (Hi T1 Q1). destruct Hi as (Hn0 & Ha & Hlo & Hd0 & Hs). specialize (Hs Hsk). destruct Hs as (Hl & Hc & Hp).
    destruct (read_phase_cases s) as [(Eq & E)|[(r & Eq & E)|[(r & Eq & E)|[(r & Eq & E)|(r & Eq & E)]]]];
      rewrite E in *; unfold closed; proj; rewrite ?Hsk; rewrite Eq in *; cbn [length] in *.
    - (* nothing to read *) obs_simpl. frame_ns. split; [exact Hl|]. split.
      + intros Hcs. apply waiting_noread. auto.
      + intros Hpn. apply waiting_noread. auto.
    - (* EOF *) obs_simpl. frame_ns.
    - (* PINGRESP *) obs_simpl. frame_ns. split; [lia|]. split.
      + intros Hcs. apply (waiting_read _ _ _ _ _ _ InPingresp); [discriminate|auto].
      + congruence.
    - (* CONNACK *) obs_simpl. frame_ns. split; [lia|]. split.
      + discriminate.
      + intros Hpn. apply (waiting_read _ _ _ _ _ _ InConnack); [discriminate|auto].
    - (* other *) obs_simpl. frame_ns. split; [lia|]. split.
      + intros Hcs. apply (waiting_read _ _ _ _ _ _ InOther); [discriminate|auto].
      + intros Hpn. apply (waiting_read _ _ _ _ _ _ InOther); [discriminate|auto].
  Qed.

  Lemma ns_misc : forall s o a a', J_ns K d t0 s o a -> sw_op d a Service = Some a' -> sock s = true ->
    I_ns K d t0 (fst (loop_misc s)) (obs (nstep K d) (now s) (snd (loop_misc s)) o) a'.
  Proof.
    intros s [[tm qm] n] a a' (Hb & Hi) Hg Hsk. inv Hg. split; [apply Ibase_misc; assumption|].
    destruct Hb as (Hk & Hn & Hio & Hin & Hpp & Hlo' & Hbs & _). specialize (Hbs Hsk). destruct Hbs as (Hnl & Hconn).
    rewrite nobs_split. unfold Ins_gen in *. intros Hok1 Hok2.
    pose proof (tm_group _ _ _ _ _ Hok1) as (T1 & _ & T3). pose proof (qm_group _ _ _ Hok2) as Q1.
    specialize (Hi T1 Q1). destruct Hi as (Hn0 & Ha & Hlo & Hd0 & Hs). specialize (Hs Hsk). destruct Hs as (Hl & Hc & Hp).
    destruct (loop_misc_cases s Hsk ltac:(lia)) as [(E & H1 & H2 & H3)|[(E & Hcc & Hp0 & Hdue)|(E & Hwhy)]];
      rewrite E in *; unfold pinged, closed; proj; rewrite ?Hsk.
    - (* idle *) obs_simpl. frame_ns. split; [exact Hl|]. split.
      + intros Hcs. apply waitingJ_waiting. auto.
      + intros Hpn. apply waitingJ_waiting. auto.
    - (* ping *) specialize (T3 ltac:(left; left; reflexivity)).
      obs_simpl. frame_ns. split; [exact Hl|]. split.
      + congruence.
      + intros _. left. split; [reflexivity|lia].
    - (* keepalive close: impossible while the flags hold *)
      exfalso. unfold waitingJ in *.
      assert (Hfroz : d = 0 -> now s <= last_out s) by (intros Hd00; specialize (Hd0 Hd00); lia).
      destruct (cstate s) eqn:Ecs; [| |congruence].
      + specialize (Hc eq_refl). destruct Hc as (_ & Hc).
        assert (ping_t s = 0) by (destruct (Z.eq_dec (ping_t s) 0); [assumption|specialize (Hconn ltac:(assumption)); congruence]).
        destruct (Z.eq_dec d 0); [specialize (Hfroz ltac:(assumption))|]; lia.
      + destruct (Z.eq_dec (ping_t s) 0) as [Hp0|Hpn].
        * destruct Hwhy as [(_ & [Hx|Hx])|(Hx & _)]; try congruence; lia.
        * specialize (Hp Hpn). destruct Hp as (_ & Hp). specialize (Hlo' Hpn).
          destruct (Z.eq_dec d 0); [specialize (Hfroz ltac:(assumption))|]; lia.
  Qed.
End NS.

(* ------------------------------------------------------------------ C08.3 *)

Lemma no_spurious_partial : forall K d t0 ops, 0 < K -> 0 <= d -> 0 < t0 ->
  serviced_within d ops = true ->
  let tr := snd (run t0 K ops) in
  timely K d tr = true -> calm tr = true -> count_k is_own_close tr = 0%nat.
Proof.
  intros K d t0 ops HK Hd Ht0 Hsw tr Htim Hcalm.
  unfold serviced_within in Hsw. rewrite sw_guarded in Hsw.
  pose proof (fun h1 h2 h3 hr h4 h5 h6 h7 =>
                run_from_inv2 (sw_op d) (nstep K d) (I_ns K d t0) (J_ns K d t0) h1 h2 h3 hr h4 h5 h6 h7
                  ops (init t0 K) [(t0, TxConnect)] (mktmon None None true, mkqmon 0 true, 0%nat) 0) as H.
  rewrite nstep_fold in H. unfold run in tr. fold tr in H.
  destruct H as (a & _ & Hi); try exact Hsw.
  - intros; eapply ns_tick; eauto.
  - intros; eapply ns_app; eauto.
  - intros; eapply ns_rx; eauto.
  - intros; eapply ns_reconn; eauto.
  - intros; eapply ns_IJ; eauto.
  - intros; eapply ns_dead; eauto.
  - intros; eapply ns_read; eauto.
  - intros; eapply ns_misc; eauto.
  - split; [apply Ibase_init; exact Ht0|].
    cbn [fold_left]. unfold Ins_gen, init. proj.
    unfold tmon_step, qmon_step, cnt_step. cbn [fst snd tm_conn tm_ping tm_ok qm_len qm_ok is_own_close overdue andb negb].
    intros Hok _. assert (d <= K) by lia.
    split; [reflexivity|]. split; [lia|]. split; [lia|]. split; [reflexivity|]. intros _.
    split; [reflexivity|]. split; [|congruence]. intros _. left. split; [reflexivity|lia].
  - unfold Ins_gen in Hi. rewrite nstep_fold in Hi. unfold timely in Htim. unfold calm in Hcalm.
    specialize (Hi Htim Hcalm). rewrite count_k_fold. tauto.
Qed.

(* without the no-backlog proviso the clause is false: the PINGRESP arrives at once, behind two other
   packets; loop_read handles one packet per call and the client declares a timeout *)
Definition backlog_witness : list op :=
  [RxConnack; Service; Tick 1; Service; Tick 1; Service; RxOther; RxOther; RxPingresp;
   Tick 1; Service; Tick 1; Service].

Lemma no_spurious_refuted :
  exists K d t0 ops, 0 < K /\ 0 <= d /\ 0 < t0 /\ serviced_within d ops = true /\
    timely K d (snd (run t0 K ops)) = true /\ count_k is_own_close (snd (run t0 K ops)) = 1%nat.
Proof. exists 2, 1, 1000, backlog_witness. vm_compute. repeat split; congruence. Qed.

(* the literal reading of C08.2 is not what the code does either: an answer that arrives later than K
   but before the next service is accepted *)
Definition late_answer_witness : list op :=
  [RxConnack; Service; Tick 5; Service; Tick 5; Service;          (* PINGREQ at t0 + 10 *)
   Tick 5; Service; Tick 4; Service; Tick 2; RxPingresp;          (* answer arrives 11 after it, K = 10 *)
   Tick 3; Service; Tick 1].                                      (* t0 + 25 = t + K + d: still connected *)

Lemma detects_literal_refuted :
  exists K d t0 ops t, 0 < K /\ 0 <= d /\ 0 < t0 /\ serviced_within d ops = true /\
    unanswered_within K (snd (run t0 K ops)) = Some t /\ t + K + d <= now (fst (run t0 K ops)) /\
    sock (fst (run t0 K ops)) = true.
Proof. exists 10, 5, 1000, late_answer_witness, 1010. vm_compute. repeat split; congruence. Qed.
