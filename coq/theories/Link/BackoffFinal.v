(* C09.3: after disconnect()/stop, or after the first failure with reconnect_on_failure off, no
   further connection attempt; the machine is done a bounded number of steps later. *)
From PahoV Require Import Base.Prelude Link.Backoff Link.BackoffProofs.

Definition not_pending (k : sockst) : Prop := forall o, k <> Pending o.
Definition no_afterwait (p : pc) : Prop := forall rc, p <> PcAfterWait rc.

Definition Inv_F (cfg : config) (p : pc) (s : bst) (stopped : bool) : Prop :=
  (b_acted s = true -> should_exit s = true /\ not_pending (b_sock s)) /\
  (should_exit s = true -> b_acted s = true) /\
  (stopped = true -> b_acted s = true \/ (c_rof cfg = false /\ b_sock s = NoSock /\ is_async (b_cs s) = false)) /\
  (c_rof cfg = false -> no_afterwait p).

(* name the fields of every state variable introduced by the specs and eliminate the unchanged ones *)
Ltac name_states :=
  repeat match goal with s : bst |- _ => destruct s end; bproj; subst; bproj.

Ltac fin_F :=
  unfold Inv_F, should_exit, not_pending, no_afterwait, acted_from in *; bproj;
  cbn [chk final_step app orb andb negb disc_like is_async] in *.

Lemma F_step cfg : forall p s c, Inv_F cfg p s c -> is_done p = false ->
  exists c', chk (final_step (c_rof cfg)) c (st_evs (step cfg p s)) = Some c' /\
             Inv_F cfg (st_pc (step cfg p s)) (st_st (step cfg p s)) c'.
Proof.
  intros p s c HI Hd. destruct s as [nw dl cs sk p3 tm oq sc n ac].
  destruct p; try discriminate; unfold_ctl; bproj; bcases; cb_split; name_states; fin_F.
  all: idtac.
Admitted.
