(* C09.3: after disconnect()/stop, or after the first failure with reconnect_on_failure off, no
   further connection attempt.  Boolean invariant; each primitive contributes a few equations on the
   observations (acted, _thread_terminate, state is DISCONNECT*, state is CONNECT_ASYNC, socket shape);
   every leaf of the symbolic execution of one step is a propositional tautology closed by a truth table (Link/BoolTaut.v). *)
From PahoV Require Import Base.Prelude Link.Backoff Link.BackoffProofs Link.BackoffU Link.BoolTaut.

Definition is_first_or_inner (p : pc) : bool := match p with PcFirst | PcInner => true | _ => false end.

(* acted <-> should_exit; acted -> the socket is not awaiting a broker reaction; a socket awaiting
   a reaction only at the first / inner program points;
   stopped -> acted, or (reconnect_on_failure off, no socket, past the first attempt);
   reconnect_on_failure off -> never at the reconnect point *)
Definition invF (cfg : config) (p : pc) (s : bst) (stopped : bool) : bool :=
  negb (xorb (b_acted s) (should_exit s))
  && (negb (b_acted s) || negb (is_pending (b_sock s)))
  && (negb (is_pending (b_sock s)) || is_first_or_inner p)
  && (negb stopped || b_acted s || (negb (c_rof cfg) && is_nosock (b_sock s) && negb (is_async (b_cs s))))
  && (c_rof cfg || negb (is_afterwait p)).

Definition fs := final_step.

Lemma fs_act rof c t f k : chk (fs rof) c (act_ev t f k) = Some (c || f).
Proof. destruct f; cbn; rewrite ?orb_true_r, ?orb_false_r; reflexivity. Qed.

(* observations changed by an application action *)
Definition obsF (s s1 : bst) (f d : bool) : Prop :=
  b_acted s1 = b_acted s || f /\
  b_term s1 = b_term s || (f && negb d) /\
  disc_like (b_cs s1) = disc_like (b_cs s) || d /\
  is_async (b_cs s1) = is_async (b_cs s) && negb d /\
  f && b_acted s = false /\ d && negb f = false.

Lemma acted_u_obsF s s1 f d : acted_u s s1 f d -> obsF s s1 f d /\ b_sock s1 = b_sock s.
Proof. unfold acted_u, obsF. intuition. Qed.

Lemma callback_F cfg pl rc s s1 e1 : callback cfg pl rc s = (s1, e1) ->
  exists f d, (forall rof c, chk (fs rof) c e1 = Some (c || f)) /\ obsF s s1 f d /\ b_sock s1 = b_sock s.
Proof.
  intros H. apply callback_u in H. destruct H as (f & d & k & _ & U & ->).
  apply acted_u_obsF in U. exists f, d. split; [|exact U].
  intros rof c. rewrite chk_cons. cbn [fs final_step]. apply fs_act.
Qed.

Lemma reconnect_wait_F cfg s s1 e1 : reconnect_wait cfg s = (s1, e1) ->
  exists f d, (forall rof c, chk (fs rof) c e1 = Some (c || f)) /\ obsF s s1 f d /\ b_sock s1 = b_sock s.
Proof.
  intros H. apply reconnect_wait_u in H. cbn zeta in H. destruct H as (f & d & k & sl & _ & _ & U & -> & _).
  apply acted_u_obsF in U. bproj. exists f, d. split; [|exact U].
  intros rof c. rewrite chk_cons. cbn [fs final_step]. apply fs_act.
Qed.

Lemma write_disconnect_F cfg s s1 e1 : write_disconnect cfg s = (s1, e1) ->
  exists f d, (forall rof c, chk (fs rof) c e1 = Some (c || f)) /\ obsF s s1 f d /\ b_sock s1 = NoSock.
Proof.
  intros H. apply write_disconnect_u in H.
  destruct H as (f & d & k & -> & _ & _ & U3 & _ & _ & _ & U7 & U8 & U9 & U10 & _ & U12 & U13).
  exists f, d. split; [|split; [unfold obsF; repeat split; assumption|exact U3]].
  intros rof c. rewrite chk_cons. cbn [fs final_step]. apply fs_act.
Qed.

Lemma failed_F cfg rc s : exists rc' s1 e1 f d,
  failed cfg rc s = LRet rc' s1 e1 /\
  (forall rof c, chk (fs rof) c e1 = Some (c || negb rof || f)) /\
  rc' = (if disc_like (b_cs s) then 0 else rc) /\
  b_acted s1 = b_acted s || f /\ b_term s1 = b_term s || (f && negb d) /\
  disc_like (b_cs s1) = disc_like (b_cs s) || d /\ is_async (b_cs s1) = false /\
  f && b_acted s = false /\ d && negb f = false /\ b_sock s1 = NoSock.
Proof.
  destruct (failed_u cfg rc s) as (rc' & s3 & f & d & k & E & Hrc & _ & _ & F3 & _ & _ & _ & F7 & F8 & F9 & F10 & _ & F12 & F13).
  eexists rc', s3, _, f, d. split; [exact E|]. split.
  - intros rof c. repeat (rewrite chk_cons; cbn [fs final_step]). apply fs_act.
  - repeat split; assumption.
Qed.

Lemma refused_connack_F cfg code s : exists rc' s1 e1 f1 d1 f2 d2,
  refused_connack cfg code s = LRet rc' s1 e1 /\
  (forall rof c, chk (fs rof) c e1 = Some (c || f1 || negb rof || f2)) /\
  rc' = (if disc_like (b_cs s) || d1 then 0 else 5) /\
  b_acted s1 = b_acted s || f1 || f2 /\
  b_term s1 = b_term s || (f1 && negb d1) || (f2 && negb d2) /\
  disc_like (b_cs s1) = disc_like (b_cs s) || d1 || d2 /\ is_async (b_cs s1) = false /\
  f1 && b_acted s = false /\ d1 && negb f1 = false /\
  f2 && (b_acted s || f1) = false /\ d2 && negb f2 = false /\ b_sock s1 = NoSock.
Proof.
  destruct (refused_connack_u cfg code s)
    as (rc' & s2 & f1 & d1 & k1 & f2 & d2 & k2 & E & Hrc & _ & _ & R3 & _ & _ & _ & R7 & R8 & R9 & R10 & _ & R12 & R13 & R14 & R15).
  eexists rc', s2, _, f1, d1, f2, d2. split; [exact E|]. split.
  - intros rof c. rewrite chk_app. repeat (rewrite chk_cons; cbn [fs final_step]). rewrite fs_act.
    repeat (rewrite chk_cons; cbn [fs final_step]). apply fs_act.
  - repeat split; assumption.
Qed.

(* the expression evaluated next: follow the chain of scrutinees from the outermost match *)
Ltac head_scrut t :=
  lazymatch t with
  | match ?x with _ => _ end => head_scrut x
  | _ => t
  end.

Ltac f1 :=
  match goal with
  | |- ?G ?E = true =>
      lazymatch E with match _ with _ => _ end => idtac | _ => fail end;
      let h := head_scrut E in
      lazymatch h with
      | callback ?c ?p ?r ?s =>
          let s1 := fresh "s" in let e1 := fresh "e" in let E := fresh "E" in
          destruct (callback c p r s) as [s1 e1] eqn:E; apply callback_F in E;
          destruct E as (? & ? & ? & (? & ? & ? & ? & ? & ?) & ?)
      | reconnect_wait ?c ?s =>
          let s1 := fresh "s" in let e1 := fresh "e" in let E := fresh "E" in
          destruct (reconnect_wait c s) as [s1 e1] eqn:E; apply reconnect_wait_F in E;
          destruct E as (? & ? & ? & (? & ? & ? & ? & ? & ?) & ?)
      | write_disconnect ?c ?s =>
          let s1 := fresh "s" in let e1 := fresh "e" in let E := fresh "E" in
          destruct (write_disconnect c s) as [s1 e1] eqn:E; apply write_disconnect_F in E;
          destruct E as (? & ? & ? & (? & ? & ? & ? & ? & ?) & ?)
      | refused_connack ?c ?code ?s =>
          let E := fresh "E" in
          destruct (refused_connack_F c code s) as (? & ? & ? & ? & ? & ? & ? & E & ? & ? & ? & ? & ? & ? & ? & ? & ? & ? & ?);
          rewrite E; clear E
      | failed ?c ?rc ?s =>
          let E := fresh "E" in
          destruct (failed_F c rc s) as (? & ? & ? & ? & ? & E & ? & ? & ? & ? & ? & ? & ? & ? & ?);
          rewrite E; clear E
      | do_reconnect ?i ?s =>
          let E := fresh "E" in
          destruct (do_reconnect_cases i s) as [(? & E)|[(? & ? & E)|(? & ? & ? & ? & E)]];
          cbn zeta in E; rewrite E; clear E
      | _ => destruct h eqn:?
      end
  | |- ?G ?E = true =>
      (* the result is built; resolve what is left inside its components *)
      match E with
      | context [match ?x with _ => _ end] =>
          lazymatch x with
          | context [match _ with _ => _ end] => fail
          | _ => destruct x eqn:?
          end
      end
  end; bproj; cbn beta iota zeta.

Ltac f_chk :=
  repeat first
    [ rewrite chk_app
    | rewrite chk_cons
    | rewrite chk_nil
    | match goal with H : forall rof c, chk (fs rof) c ?e = Some _ |- context [chk (fs ?r0) ?c0 ?e] => rewrite (H r0 c0) end
    | progress cbn [fs final_step app] ].

Ltac f_obs :=
  repeat match goal with
  | H : b_acted ?x = _ |- context [b_acted ?x] => rewrite H
  | H : b_term ?x = _ |- context [b_term ?x] => rewrite H
  | H : b_sock ?x = _ |- context [b_sock ?x] => rewrite H
  | H : disc_like (b_cs ?x) = _ |- context [disc_like (b_cs ?x)] => rewrite H
  | H : is_async (b_cs ?x) = _ |- context [is_async (b_cs ?x)] => rewrite H
  end.

Ltac clear_junk :=
  repeat match goal with
  | H : (_ <=? _) = _ |- _ => clear H
  | H : (_ <? _) = _ |- _ => clear H
  | H : (_ =? _) = _ |- _ => clear H
  | H : forall _, _ |- _ => clear H
  | H : @eq Z _ _ |- _ => clear H
  | H : @eq (list _) _ _ |- _ => clear H
  | H : @eq sockst _ _ |- _ => clear H
  | H : @eq (option _) _ _ |- _ => clear H
  | H : _ <> _ |- _ => clear H
  end.

Ltac f_leaf :=
  try match goal with H : (?a =? ?b) = _ |- _ => discriminate H end;
  repeat match goal with
  | H : context [match b_cs ?s with BDisconnecting => _ | _ => _ end] |- _ => destruct (b_cs s) eqn:?
  | H : context [match b_cs ?s with BConnecting => _ | _ => _ end] |- _ => destruct (b_cs s) eqn:?
  | |- context [match b_cs ?s with BConnecting => _ | _ => _ end] => destruct (b_cs s) eqn:?
  end;
  bproj;
  repeat match goal with
  | H : context [if ?b then ?s else set_now ?t ?s] |- _ => destruct b
  | |- context [if ?b then ?s else set_now ?t ?s] => destruct b
  end;
  cbv beta; bproj; f_chk;
  unfold invF, should_exit in *; bproj;
  repeat match goal with H : b_cs ?x = _ |- _ => is_var x; try rewrite H in *; clear H end;
  repeat match goal with H : b_sock ?x = _ |- _ => rewrite H in *; clear H end;
  repeat (f_obs; bproj);
  repeat match goal with c : bst |- _ => lazymatch goal with H : negb (is_async (b_cs c)) || negb (disc_like (b_cs c)) = true |- _ => fail | _ => pose proof (async_not_disc (b_cs c)) end end;
  (* the defining equations of the intermediate states are used up: substitute them everywhere *)
  repeat match goal with
  | H : b_acted ?x = _ |- _ => is_var x; try rewrite H in *; clear H
  | H : b_term ?x = _ |- _ => is_var x; try rewrite H in *; clear H
  | H : disc_like (b_cs ?x) = _ |- _ => is_var x; try rewrite H in *; clear H
  | H : is_async (b_cs ?x) = _ |- _ => is_var x; try rewrite H in *; clear H
  end;
  cbn [is_pending is_nosock is_afterwait is_first_or_inner disc_like is_async andb orb negb xorb] in *;
  clear_junk;
  ttaut.

Lemma F_step cfg : forall p s c, invF cfg p s c = true -> is_done p = false ->
  match chk (fs (c_rof cfg)) c (st_evs (step cfg p s)) with
  | Some c' => invF cfg (st_pc (step cfg p s)) (st_st (step cfg p s)) c'
  | None => false
  end = true.
Proof.
  intros p s c HI Hd.
  set (G := fun x => match chk (fs (c_rof cfg)) c (st_evs x) with
                     | Some c' => invF cfg (st_pc x) (st_st x) c' | None => false end).
  change (G (step cfg p s) = true).
  destruct c.
  all: destruct p; try discriminate; unfold step, loop_once, loop_up, lose, read_pending; bproj.
  all: repeat f1.
  all: subst G; timeout 100 f_leaf.
Qed.

Theorem final_no_attempt : forall cfg t0 script,
  final_ok (c_rof cfg) (fst (run_script cfg t0 script)) = true.
Proof.
  intros cfg t0 script. unfold final_ok, run_script.
  destruct (run_inv cfg (fs (c_rof cfg)) (fun p s c => invF cfg p s c = true)) with
    (fuel := fuel_for script) (p := PcFirst) (s := binit t0 script) (c := false) as (c' & E & _).
  - intros p s c HI Hd. pose proof (F_step cfg p s c HI Hd) as H.
    destruct (chk (fs (c_rof cfg)) c (st_evs (step cfg p s))) as [c'|]; [|discriminate].
    exists c'. split; [reflexivity|exact H].
  - unfold invF, binit, should_exit. bproj. cbn. destruct (c_rof cfg); reflexivity.
  - unfold fs in E. rewrite E. reflexivity.
Qed.
