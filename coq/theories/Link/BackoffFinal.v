(* C09.3: after disconnect()/stop, or after the first failure with reconnect_on_failure off, no
   further connection attempt; the machine is done a bounded number of steps later. *)
From PahoV Require Import Base.Prelude Link.Backoff Link.BackoffProofs.

Definition not_pending (k : sockst) : Prop := forall o, k <> Pending o.
Definition no_afterwait (p : pc) : Prop := forall rc, p <> PcAfterWait rc.

Definition Inv_F (cfg : config) (p : pc) (s : bst) (stopped : bool) : Prop :=
  (b_acted s = true -> should_exit s = true /\ not_pending (b_sock s)) /\
  (should_exit s = true -> b_acted s = true) /\
  (stopped = true -> b_acted s = true \/ (c_rof cfg = false /\ b_sock s = NoSock /\ is_async (b_cs s) = false)) /\
  (c_rof cfg = false -> no_afterwait p).

(* name the fields of every state variable introduced by the specs and eliminate the unchanged ones *)
Ltac name_states :=
  repeat match goal with s : bst |- _ => destruct s end; bproj; subst; bproj.

Ltac fin_F :=
  unfold Inv_F, should_exit, not_pending, no_afterwait, acted_from in *; bproj;
  cbn [chk final_step app orb andb negb disc_like is_async] in *.

Lemma async_not_disc c : is_async c = true -> disc_like c = false.
Proof. destruct c; cbn; congruence. Qed.

Ltac boolfacts :=
  repeat match goal with
  | c : bcs |- _ =>
      lazymatch goal with
      | H : is_async c = true -> disc_like c = false |- _ => fail
      | _ => pose proof (async_not_disc c)
      end
  end.

(* propositional reasoning over boolean equations *)
Ltac bnorm :=
  repeat (rewrite ?orb_true_iff, ?andb_true_iff, ?orb_false_iff, ?andb_false_iff, ?negb_true_iff, ?negb_false_iff in * );
  repeat match goal with
  | H : context [?b = false] |- _ => rewrite <- (not_true_iff_false b) in H
  | |- context [?b = false] => rewrite <- (not_true_iff_false b)
  end.
Ltac bsolve := bnorm; intuition (try discriminate; try congruence).

Ltac leaf_F M1b :=
  boolfacts;
  lazymatch goal with
  | |- exists _, None = Some _ /\ _ => exfalso; bsolve
  | |- exists _, Some _ = Some _ /\ _ =>
      eexists; split; [reflexivity|];
      split; [ let Hx := fresh in intros Hx; split;
               [bsolve | first [intros ?; discriminate | apply M1b; bsolve | exfalso; bsolve]] |];
      split; [ bsolve |];
      split; [ let Hx := fresh in intros Hx;
               first [left; solve [bsolve] | right; repeat split; first [reflexivity | solve [bsolve]] | exfalso; bsolve ] |];
      let Hx := fresh in let rc := fresh in intros Hx rc; first [discriminate | exfalso; bsolve]
  end.

Lemma F_step cfg : forall p s c, Inv_F cfg p s c -> is_done p = false ->
  exists c', chk (final_step (c_rof cfg)) c (st_evs (step cfg p s)) = Some c' /\
             Inv_F cfg (st_pc (step cfg p s)) (st_st (step cfg p s)) c'.
Proof.
  intros p s c (M1 & M2 & F1 & F2) Hd. destruct s as [nw dl cs sk p3 tm oq sc n ac].
  unfold should_exit, not_pending, no_afterwait in *. bproj.
  assert (M1a : ac = true -> disc_like cs || tm = true) by (intros Hx; apply M1; exact Hx).
  assert (M1b : ac = true -> forall o, sk <> Pending o) by (intros Hx; apply M1; exact Hx).
  clear M1.
  assert (F2' : c_rof cfg = false -> match p with PcAfterWait _ => False | _ => True end).
  { intros Hx. destruct p; try exact Logic.I. exact (F2 Hx rc eq_refl). }
  clear F2.
  destruct c; [destruct (F1 eq_refl) as [Fa|(Fr & Fs & Fy)]; [|subst sk]|]; clear F1.
  all: destruct p; try discriminate; unfold_ctl; bproj; bcases; cb_split; name_states; fin_F; try solve [leaf_F M1b].
  Show.
Admitted.
