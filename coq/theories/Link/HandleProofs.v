(* Proofs about Link/Handle.v: decoding what the specification encodes gives back the fields, for every
   well-formed broker packet, protocol version and callback API version. *)
From PahoV Require Import Base.Prelude Link.Reader Link.ReaderProofs Link.Handle.

Lemma blen_app a b : blen (a ++ b) = blen a + blen b.
Proof. unfold blen. rewrite app_length. lia. Qed.

Lemma blen_cons x l : blen (x :: l) = 1 + blen l.
Proof. unfold blen. cbn [length]. lia. Qed.

Lemma blen_nil : blen [] = 0.
Proof. reflexivity. Qed.

Lemma blen_nonneg l : 0 <= blen l.
Proof. unfold blen. lia. Qed.

Lemma take_app_exact a b : take (blen a) (a ++ b) = a.
Proof.
  unfold take, blen. rewrite Nat2Z.id. rewrite firstn_app, Nat.sub_diag, firstn_all. cbn. apply app_nil_r.
Qed.

Lemma drop_app_exact a b : drop (blen a) (a ++ b) = b.
Proof.
  unfold drop, blen. rewrite Nat2Z.id. rewrite skipn_app, Nat.sub_diag, skipn_all. reflexivity.
Qed.

Lemma get_u16_enc x rest : 0 <= x -> get_u16 (u16 x ++ rest) = Ok (x, rest).
Proof. intro H. unfold u16, get_u16. cbn [app]. f_equal. f_equal. lia. Qed.

Lemma blen_u16 x : blen (u16 x) = 2.
Proof. reflexivity. Qed.

Lemma vbi_dec_enc f : forall x rest mult value,
  0 <= x < 128 ^ Z.of_nat (S f) ->
  vbi_dec (enc_rl_fuel (S f) x ++ rest) mult value = Ok (value + x * mult, rest).
Proof.
  induction f as [|f IH]; intros x rest mult value Hx.
  - change (128 ^ Z.of_nat 1) with 128 in Hx.
    rewrite enc_rl_fuel_S. replace (0 <? x / 128) with false by (symmetry; apply Z.ltb_ge; lia).
    replace (x mod 128) with x by lia. cbn [app vbi_dec].
    rewrite land_128 by lia. replace (x <? 128) with true by (symmetry; apply Z.ltb_lt; lia).
    cbn [Z.eqb]. rewrite land_127 by lia. replace (x mod 128) with x by lia. reflexivity.
  - assert (Hp : 128 ^ Z.of_nat (S (S f)) = 128 * 128 ^ Z.of_nat (S f)).
    { rewrite (Nat2Z.inj_succ (S f)), Z.pow_succ_r by lia. reflexivity. }
    rewrite enc_rl_fuel_S. destruct (0 <? x / 128) eqn:E.
    + apply Z.ltb_lt in E. set (d := x mod 128). assert (Hd : 0 <= d < 128) by (subst d; lia).
      cbn [app vbi_dec]. rewrite land_128 by lia.
      replace (d + 128 <? 128) with false by (symmetry; apply Z.ltb_ge; lia). cbn [Z.eqb].
      rewrite land_127 by lia. replace ((d + 128) mod 128) with d by lia.
      rewrite IH by (rewrite Hp in Hx; lia). f_equal. f_equal. subst d. apply rl_step.
    + apply Z.ltb_ge in E. assert (x < 128) by lia.
      replace (x mod 128) with x by lia. cbn [app vbi_dec].
      rewrite land_128 by lia. replace (x <? 128) with true by (symmetry; apply Z.ltb_lt; lia).
      cbn [Z.eqb]. rewrite land_127 by lia. replace (x mod 128) with x by lia. reflexivity.
Qed.

Lemma split_props_enc ps rest :
  blen ps <= max_rl -> split_props (enc_rl (blen ps) ++ ps ++ rest) = Ok (ps, rest).
Proof.
  intro H. unfold split_props, enc_rl. rewrite vbi_dec_enc.
  - cbn [bind]. replace (0 + blen ps * 1) with (blen ps) by lia.
    replace (blen (ps ++ rest) <? blen ps) with false
      by (symmetry; apply Z.ltb_ge; rewrite blen_app; pose proof (blen_nonneg rest); lia).
    rewrite take_app_exact, drop_app_exact. reflexivity.
  - change (128 ^ Z.of_nat 4) with 268435456. unfold max_rl in H. pose proof (blen_nonneg ps). lia.
Qed.

Lemma pblock_5 ps : pblock 5 ps = enc_rl (blen ps) ++ ps.
Proof. reflexivity. Qed.

Lemma blen_pblock_5 ps : 1 + blen ps <= blen (pblock 5 ps).
Proof.
  rewrite pblock_5, blen_app. unfold enc_rl. rewrite enc_rl_fuel_S.
  pose proof (blen_nonneg (enc_rl_fuel 3 (blen ps / 128))).
  destruct (0 <? blen ps / 128); rewrite blen_cons; [|rewrite blen_nil]; lia.
Qed.

Lemma split_props_pblock ps rest :
  blen ps <= max_rl -> split_props (pblock 5 ps ++ rest) = Ok (ps, rest).
Proof. intro H. rewrite pblock_5, <- app_assoc. apply split_props_enc; assumption. Qed.

Lemma pblock_v3 v ps : v <> 5 -> props_ok v ps = true -> pblock v ps = [] /\ ps = [].
Proof.
  intros Hv H. unfold pblock, props_ok in *. apply Z.eqb_neq in Hv. rewrite Hv in *.
  destruct ps; [auto|discriminate].
Qed.

Lemma props_ok_v5 ps : props_ok 5 ps = true -> blen ps <= max_rl.
Proof. unfold props_ok. change (5 =? 5) with true. cbv iota. lia. Qed.

Definition pub_header (dup : bool) (qos : Z) (retain : bool) : Z := 48 + 8 * b2z dup + 2 * qos + b2z retain.

Lemma pub_header_fields dup qos retain :
  0 <= qos <= 2 ->
  let h := pub_header dup qos retain in
  Z.land h 240 = 48 /\ negb (Z.shiftr (Z.land h 8) 3 =? 0) = dup /\
  Z.shiftr (Z.land h 6) 1 = qos /\ negb (Z.land h 1 =? 0) = retain.
Proof.
  intros Hq. assert (Hc : qos = 0 \/ qos = 1 \/ qos = 2) by lia.
  destruct Hc as [->|[->| ->]]; destruct dup, retain; vm_compute; repeat split; reflexivity.
Qed.

Lemma ver_cases c : cfg_ok c = true ->
  (ver c = 3 \/ ver c = 4 \/ ver c = 5) /\ (api c = 1 \/ api c = 2).
Proof. unfold cfg_ok. lia. Qed.

Ltac ltb_false := symmetry; apply Z.ltb_ge; unfold u16; rewrite ?blen_app, ?blen_cons, ?blen_nil; lia.

(* ---- per packet type ---- *)

Lemma connack_ok c sp code props :
  cfg_ok c = true -> wf (ver c) (BConnack sp code props) = true ->
  handle_values c (spec_encode_in (ver c) (BConnack sp code props)) = Ok (values_of c (BConnack sp code props)).
Proof.
  intros Hc Hwf. destruct c as [v a r ce]. cbn [ver api rof cid_empty] in *.
  destruct (ver_cases _ Hc) as [Hv Ha]. cbn [ver api] in Hv, Ha.
  cbn [wf] in Hwf. apply andb_true_iff in Hwf as [Hp Hcode].
  unfold spec_encode_in, handle_values. change (Z.land 32 240) with 32. cbn [Z.eqb Pos.eqb].
  unfold handle_connack. cbn [ver api rof cid_empty].
  destruct Hv as [->|[->| ->]].
  - (* 3.1 *)
    destruct (pblock_v3 3 props ltac:(lia) Hp) as [-> ->]. cbn [app Z.eqb Pos.eqb blen length Z.of_nat negb].
    cbn [bind andb]. unfold values_of. cbn [ver api rof cid_empty Z.eqb Pos.eqb andb].
    unfold connack_args. cbn [ver api Z.eqb Pos.eqb].
    destruct Ha as [->| ->]; cbn [Z.eqb Pos.eqb]; destruct sp; reflexivity.
  - (* 3.1.1 *)
    destruct (pblock_v3 4 props ltac:(lia) Hp) as [-> ->]. cbn [app Z.eqb Pos.eqb blen length Z.of_nat negb].
    cbn [bind andb]. unfold values_of. cbn [ver api rof cid_empty Z.eqb Pos.eqb andb].
    destruct ((code =? 1) || (code =? 2) && ce); [reflexivity|].
    unfold connack_args. cbn [ver api Z.eqb Pos.eqb].
    destruct Ha as [->| ->]; cbn [Z.eqb Pos.eqb]; destruct sp; reflexivity.
  - (* 5 *)
    apply props_ok_v5 in Hp. cbn [Z.eqb Pos.eqb andb negb] in Hcode.
    replace (blen ([b2z sp; code] ++ pblock 5 props) <? 2) with false
      by (cbn [app]; pose proof (blen_nonneg (pblock 5 props)); ltb_false).
    cbn [app]. destruct (code =? 1) eqn:E1; [discriminate|].
    rewrite <- (app_nil_r (pblock 5 props)), split_props_pblock by assumption.
    cbn [bind andb Z.eqb Pos.eqb]. unfold values_of. cbn [ver api rof cid_empty Z.eqb Pos.eqb andb].
    unfold connack_args. cbn [ver api Z.eqb Pos.eqb opt_props dfl_props].
    destruct Ha as [->| ->]; cbn [Z.eqb Pos.eqb]; destruct sp; reflexivity.
Qed.

Lemma publish_ok c dup qos retain topic mid props payload :
  cfg_ok c = true -> wf (ver c) (BPublish dup qos retain topic mid props payload) = true ->
  handle_values c (spec_encode_in (ver c) (BPublish dup qos retain topic mid props payload)) =
  Ok (values_of c (BPublish dup qos retain topic mid props payload)).
Proof.
  intros Hc Hwf. destruct c as [v a r ce]. cbn [ver api rof cid_empty] in *.
  destruct (ver_cases _ Hc) as [Hv _]. cbn [ver] in Hv.
  cbn [wf] in Hwf.
  apply andb_true_iff in Hwf as [Hwf Htop]. apply andb_true_iff in Hwf as [Hwf Hp].
  apply andb_true_iff in Hwf as [Hwf Htl]. apply andb_true_iff in Hwf as [Hwf Hm0].
  apply andb_true_iff in Hwf as [Hwf Hmid]. apply andb_true_iff in Hwf as [Hq0 Hq2].
  unfold is_u16 in Hmid.
  assert (Hq : 0 <= qos <= 2) by lia.
  destruct (pub_header_fields dup qos retain Hq) as (H240 & Hdup & Hqos & Hret).
  unfold spec_encode_in, handle_values. fold (pub_header dup qos retain). rewrite H240.
  cbn [Z.eqb Pos.eqb]. unfold handle_publish. rewrite Hdup, Hqos, Hret. cbn [ver].
  rewrite get_u16_enc by apply blen_nonneg. cbn [bind].
  set (tail := (if 0 <? qos then u16 mid else []) ++ pblock v props ++ payload).
  assert (Hlt : (blen (topic ++ tail) <? blen topic) = false).
  { apply Z.ltb_ge. rewrite blen_app. pose proof (blen_nonneg tail). lia. }
  rewrite Hlt.
  rewrite take_app_exact, drop_app_exact.
  assert (Hempty : (negb (v =? 5) && (blen topic =? 0)) = false).
  { destruct (v =? 5) eqn:E5; [reflexivity|]. cbn [negb andb]. destruct topic; [discriminate|]. reflexivity. }
  rewrite Hempty. subst tail.
  assert (Hmidpart : (if 0 <? qos then get_u16 ((if 0 <? qos then u16 mid else []) ++ pblock v props ++ payload)
                      else Ok (0, (if 0 <? qos then u16 mid else []) ++ pblock v props ++ payload)) =
                     Ok (mid, pblock v props ++ payload)).
  { destruct (0 <? qos) eqn:E.
    - apply get_u16_enc. lia.
    - assert (qos = 0) by lia. subst qos. cbn [Z.eqb] in Hm0. cbn [app]. f_equal. f_equal. lia. }
  rewrite Hmidpart. cbn [bind].
  assert (Hprops : (if v =? 5 then do '(p, rest) <- split_props (pblock v props ++ payload); Ok (Some p, rest)
                    else Ok (None, pblock v props ++ payload)) =
                   Ok ((if v =? 5 then Some props else None), payload)).
  { destruct (v =? 5) eqn:E5.
    - apply Z.eqb_eq in E5. subst v. rewrite split_props_pblock by (apply props_ok_v5; assumption). reflexivity.
    - apply Z.eqb_neq in E5. destruct (pblock_v3 v props E5 Hp) as [-> _]. reflexivity. }
  rewrite Hprops. cbn [bind]. unfold values_of. cbn [ver].
  assert (Hcq : qos = 0 \/ qos = 1 \/ qos = 2) by lia.
  destruct Hcq as [->|[->| ->]]; reflexivity.
Qed.

Lemma ack_parse_ok c mid opt :
  (ver c = 3 \/ ver c = 4 \/ ver c = 5) -> is_u16 mid = true -> opt_ok (ver c) opt = true ->
  ack_parse c (u16 mid ++ opt_tail (ver c) opt) =
  Ok (Some (mid, match opt with Some (rc, _) => rc | None => 0 end,
            match opt with Some (_, Some ps) => ps | _ => [] end)).
Proof.
  intros Hv Hmid Hopt. unfold is_u16 in Hmid. unfold ack_parse.
  destruct opt as [[rc [ps|]]|]; cbn [opt_tail opt_ok] in *.
  - apply andb_true_iff in Hopt as [E5 Hps]. rewrite E5. apply Z.eqb_eq in E5. rewrite E5.
    replace (blen (u16 mid ++ rc :: pblock 5 ps) <? 2) with false
      by (pose proof (blen_nonneg (pblock 5 ps)); ltb_false).
    rewrite get_u16_enc by lia. cbn [bind andb].
    replace (2 <? blen (u16 mid ++ rc :: pblock 5 ps)) with true
      by (symmetry; apply Z.ltb_lt; rewrite blen_app, blen_cons, blen_u16; pose proof (blen_nonneg (pblock 5 ps)); lia).
    replace (3 <? blen (u16 mid ++ rc :: pblock 5 ps)) with true
      by (symmetry; apply Z.ltb_lt; rewrite blen_app, blen_cons, blen_u16;
          pose proof (blen_pblock_5 ps); pose proof (blen_nonneg ps); lia).
    rewrite <- (app_nil_r (pblock 5 ps)), split_props_pblock by lia. reflexivity.
  - rewrite Hopt.
    replace (blen (u16 mid ++ [rc]) <? 2) with false by ltb_false.
    rewrite get_u16_enc by lia. cbn [bind andb].
    replace (2 <? blen (u16 mid ++ [rc])) with true by reflexivity.
    replace (3 <? blen (u16 mid ++ [rc])) with false by reflexivity. reflexivity.
  - rewrite app_nil_r. change (blen (u16 mid)) with 2.
    change (2 <? 2) with false. change (negb (2 =? 2)) with false.
    assert (X : (if ver c =? 5 then false else false) = false) by (destruct (ver c =? 5); reflexivity).
    rewrite X. rewrite <- (app_nil_r (u16 mid)), get_u16_enc by lia. cbn [bind].
    rewrite andb_false_r. reflexivity.
Qed.

Lemma ack_ok c kind mid opt :
  cfg_ok c = true -> wf (ver c) (BAck kind mid opt) = true ->
  handle_values c (spec_encode_in (ver c) (BAck kind mid opt)) = Ok (values_of c (BAck kind mid opt)).
Proof.
  intros Hc Hwf. destruct (ver_cases _ Hc) as [Hv Ha].
  cbn [wf] in Hwf. apply andb_true_iff in Hwf as [Hwf Hopt]. apply andb_true_iff in Hwf as [Hk Hmid].
  pose proof (ack_parse_ok c mid opt Hv Hmid Hopt) as Hparse.
  assert (Hkc : kind = 4 \/ kind = 5 \/ kind = 6 \/ kind = 7) by lia.
  unfold spec_encode_in, handle_values.
  destruct Hkc as [->|[->|[->| ->]]]; cbn [ack_first Z.eqb Pos.eqb];
    [change (Z.land 64 240) with 64|change (Z.land 80 240) with 80|
     change (Z.land 98 240) with 96|change (Z.land 112 240) with 112];
    cbn [Z.eqb Pos.eqb];
    unfold handle_pubackcomp, handle_pubrec, handle_pubrel; rewrite Hparse; cbn [bind];
    unfold values_of; cbn [Z.eqb Pos.eqb orb]; reflexivity.
Qed.

Lemma suback_ok c mid props codes :
  cfg_ok c = true -> wf (ver c) (BSuback mid props codes) = true ->
  handle_values c (spec_encode_in (ver c) (BSuback mid props codes)) = Ok (values_of c (BSuback mid props codes)).
Proof.
  intros Hc Hwf. destruct (ver_cases _ Hc) as [Hv Ha].
  cbn [wf] in Hwf. apply andb_true_iff in Hwf as [Hmid Hp]. unfold is_u16 in Hmid.
  unfold spec_encode_in, handle_values. change (Z.land 144 240) with 144. cbn [Z.eqb Pos.eqb].
  unfold handle_suback. rewrite get_u16_enc by lia. cbn [bind]. unfold values_of.
  destruct (ver c =? 5) eqn:E5.
  - apply Z.eqb_eq in E5. rewrite E5 in *. rewrite split_props_pblock by (apply props_ok_v5; assumption).
    cbn [bind negb andb]. rewrite andb_false_r. reflexivity.
  - apply Z.eqb_neq in E5. destruct (pblock_v3 _ props E5 Hp) as [-> ->]. cbn [app negb].
    rewrite andb_true_r. destruct (api c =? 1); reflexivity.
Qed.

Lemma unsuback_ok c mid props codes :
  cfg_ok c = true -> wf (ver c) (BUnsuback mid props codes) = true ->
  handle_values c (spec_encode_in (ver c) (BUnsuback mid props codes)) = Ok (values_of c (BUnsuback mid props codes)).
Proof.
  intros Hc Hwf. destruct (ver_cases _ Hc) as [Hv Ha].
  cbn [wf] in Hwf. apply andb_true_iff in Hwf as [Hwf Hcodes]. apply andb_true_iff in Hwf as [Hmid Hp].
  unfold is_u16 in Hmid.
  unfold spec_encode_in, handle_values. change (Z.land 176 240) with 176. cbn [Z.eqb Pos.eqb].
  unfold handle_unsuback, values_of.
  destruct (ver c =? 5) eqn:E5.
  - apply Z.eqb_eq in E5. rewrite E5 in *.
    destruct codes as [|x codes]; [discriminate|].
    replace (blen (u16 mid ++ pblock 5 props ++ x :: codes) <? 4) with false
      by (symmetry; apply Z.ltb_ge; rewrite !blen_app, blen_cons, blen_u16;
          pose proof (blen_pblock_5 props); pose proof (blen_nonneg props); pose proof (blen_nonneg codes); lia).
    rewrite get_u16_enc by lia. cbn [bind].
    rewrite split_props_pblock by (apply props_ok_v5; assumption). cbn [bind]. destruct (api c =? 1); reflexivity.
  - apply Z.eqb_neq in E5. destruct (pblock_v3 _ props E5 Hp) as [-> ->].
    destruct codes; [|discriminate]. cbn [app]. change (blen (u16 mid ++ [])) with 2.
    change (negb (2 =? 2)) with false. rewrite get_u16_enc by lia. cbn [bind].
    destruct (api c =? 1); reflexivity.
Qed.

Lemma disconnect_ok c opt :
  cfg_ok c = true -> wf (ver c) (BDisconnect opt) = true ->
  handle_values c (spec_encode_in (ver c) (BDisconnect opt)) = Ok (values_of c (BDisconnect opt)).
Proof.
  intros Hc Hwf. destruct (ver_cases _ Hc) as [Hv Ha].
  cbn [wf] in Hwf. apply andb_true_iff in Hwf as [E5 Hopt].
  unfold spec_encode_in, handle_values. change (Z.land 224 240) with 224. cbn [Z.eqb Pos.eqb].
  rewrite E5. cbn [andb]. apply Z.eqb_eq in E5. rewrite E5 in *.
  unfold handle_disconnect, values_of, disconnect_args.
  destruct opt as [[rc [ps|]]|]; cbn [opt_tail opt_ok] in *.
  - apply andb_true_iff in Hopt as [_ Hps].
    replace (1 <? blen (rc :: pblock 5 ps)) with true
      by (symmetry; apply Z.ltb_lt; rewrite blen_cons; pose proof (blen_pblock_5 ps); pose proof (blen_nonneg ps); lia).
    rewrite <- (app_nil_r (pblock 5 ps)), split_props_pblock by lia. cbn [bind opt_props dfl_props].
    destruct (api c =? 1); reflexivity.
  - change (1 <? blen [rc]) with false. cbn [opt_props dfl_props]. destruct (api c =? 1); reflexivity.
  - cbn [opt_props dfl_props]. destruct (api c =? 1); reflexivity.
Qed.

(* ---- C05 theorem 4 ---- *)
Theorem handle_values_spec : forall c p,
  cfg_ok c = true -> wf (ver c) p = true ->
  handle_values c (spec_encode_in (ver c) p) = Ok (values_of c p).
Proof.
  intros c p Hc Hwf. destruct p.
  - apply connack_ok; assumption.
  - apply publish_ok; assumption.
  - apply ack_ok; assumption.
  - apply suback_ok; assumption.
  - apply unsuback_ok; assumption.
  - reflexivity.
  - apply disconnect_ok; assumption.
Qed.

(* the handlers see `remaining_length`; the reader guarantees it is the body length (ReaderProofs.feed1_frame_length),
   and the wire form of a specified packet survives any fragmentation (ReaderProofs.read_encoded_frames): *)
Definition spec_frame_ok (v : Z) (p : bpkt) : bool := frame_ok (spec_encode_in v p).

Theorem values_any_fragmentation : forall c ps sch,
  cfg_ok c = true ->
  forallb (fun p => wf (ver c) p && spec_frame_ok (ver c) p) ps = true ->
  sock_live ([], sch) = true ->
  let bs := concat (map (fun p => encode_frame (spec_encode_in (ver c) p)) ps) in
  let '(fs, e, r, rest) := outcome (sock_run (sock_fuel (bs, sch)) rd_init (bs, sch)) in
  e = false /\ r = rd_init /\ rest = [] /\
  map (handle_values c) fs = map (fun p => Ok (values_of c p)) ps.
Proof.
  intros c ps sch Hc Hps Hl bs.
  assert (Hf : forallb frame_ok (map (spec_encode_in (ver c)) ps) = true).
  { clear - Hps. induction ps as [|p ps IH]; [reflexivity|]. cbn [forallb map] in *.
    apply andb_true_iff in Hps as [Hp Hps]. apply andb_true_iff in Hp as [_ Hp].
    unfold spec_frame_ok in Hp. rewrite Hp. cbn [andb]. auto. }
  pose proof (read_encoded_frames (map (spec_encode_in (ver c)) ps) sch Hf Hl) as H.
  cbv zeta in H. rewrite map_map in H. subst bs. rewrite H.
  repeat split; auto. rewrite map_map.
  clear - Hc Hps. induction ps as [|p ps IH]; [reflexivity|]. cbn [forallb map] in *.
  apply andb_true_iff in Hps as [Hp Hps]. apply andb_true_iff in Hp as [Hp _].
  rewrite handle_values_spec by assumption. f_equal. auto.
Qed.

(* ---- API version 2 versus version 1 ---- *)
Definition api_rel (h1 h2 : hval) : Prop :=
  h_cb h2 = h_cb h1 /\ h_reply h2 = h_reply h1 /\ h_rc h2 = h_rc h1 /\
  (if h_cb h1 =? cb_publish then h_args h1 = lower_args cb_publish (h_args h2)
   else h_args h2 = lift_args (h_cb h1) (h_args h1)).

Theorem api_lift : forall c p,
  cfg_ok c = true -> wf (ver c) p = true ->
  api_rel (values_of (with_api c 1) p) (values_of (with_api c 2) p).
Proof.
  intros c p Hc Hwf. destruct (ver_cases _ Hc) as [Hv _]. destruct c as [v a r ce].
  cbn [ver api] in *. unfold with_api, api_rel. cbn [ver api rof cid_empty].
  destruct p; cbn [values_of ver api rof cid_empty Z.eqb Pos.eqb andb].
  - (* CONNACK *)
    cbn [wf] in Hwf. apply andb_true_iff in Hwf as [Hp _].
    destruct ((v =? 4) && ((code =? 1) || (code =? 2) && ce)); [cbn; auto|].
    cbn [h_cb h_args h_reply h_rc]. repeat split; auto.
    change (cb_connect =? cb_publish) with false. cbv iota.
    destruct (v =? 5) eqn:E5.
    + cbn [lift_args]. change (cb_connect =? cb_connect) with true. cbv iota. destruct sp; reflexivity.
    + apply Z.eqb_neq in E5. destruct (pblock_v3 v props E5 Hp) as [_ ->].
      cbn [lift_args]. change (cb_connect =? cb_connect) with true. cbv iota. destruct sp; reflexivity.
  - (* PUBLISH *)
    destruct (qos =? 0); [|destruct (qos =? 1)]; cbn; auto.
  - (* acks *)
    destruct ((kind =? 4) || (kind =? 7)); [|destruct (kind =? 5)]; cbn; auto.
  - (* SUBACK *)
    cbn [wf] in Hwf. apply andb_true_iff in Hwf as [_ Hp].
    destruct (v =? 5) eqn:E5; cbn [negb andb h_cb h_args h_reply h_rc]; repeat split; auto.
    apply Z.eqb_neq in E5. destruct (pblock_v3 v props E5 Hp) as [_ ->]. reflexivity.
  - (* UNSUBACK *)
    cbn [wf] in Hwf. apply andb_true_iff in Hwf as [Hwf Hcodes]. apply andb_true_iff in Hwf as [_ Hp].
    destruct (v =? 5) eqn:E5; cbn [h_cb h_args h_reply h_rc]; repeat split; auto.
    + change (cb_unsubscribe =? cb_publish) with false. cbv iota.
      destruct codes as [|x [|y l]]; reflexivity.
    + apply Z.eqb_neq in E5. destruct (pblock_v3 v props E5 Hp) as [_ ->].
      destruct codes; [reflexivity|discriminate].
  - cbn; auto.
  - (* DISCONNECT *)
    cbn [h_cb h_args h_reply h_rc]. repeat split; auto.
    destruct opt as [[rc [ps|]]|]; reflexivity.
Qed.

Lemma loop_error_lift c rc :
  loop_error_args (with_api c 2) rc = lift_args cb_disconnect (loop_error_args (with_api c 1) rc).
Proof. unfold loop_error_args, with_api. cbn [api ver Z.eqb Pos.eqb]. destruct (ver c =? 5); reflexivity. Qed.

(* the MQTT 5 special case of _handle_connack: return code 1 from a broker that does not speak MQTT 5 *)
Lemma connack_v5_result1 a r ce sp :
  (a = 1 \/ a = 2) ->
  handle_values (mkCfg 5 a r ce) (32, [b2z sp; 1]) =
  Ok (mkH cb_connect
          (if a =? 1 then [AFlagsDict (b2z sp); ACode 132; ANone] else [AConnectFlags sp; ACode 132; AProps []])
          None 5).
Proof. intros [->| ->]; destruct sp; reflexivity. Qed.

(* length checks: MQTT_ERR_PROTOCOL, no callback *)
Lemma short_bodies_protocol c : cfg_ok c = true ->
  handle_values c (32, [0]) = proto /\ handle_values c (64, [0]) = proto /\ handle_values c (80, [0]) = proto /\
  handle_values c (98, [0]) = proto /\ handle_values c (112, [0]) = proto /\ handle_values c (176, [0]) = proto /\
  handle_values c (208, [0]) = proto /\ handle_values c (192, [0]) = proto /\ handle_values c (16, []) = proto /\
  handle_values c (240, []) = proto.
Proof.
  intro Hc. destruct (ver_cases _ Hc) as [Hv Ha]. destruct c as [v a r ce]. cbn [ver api] in *.
  destruct Hv as [->|[->| ->]]; repeat split; reflexivity.
Qed.
