(* Bridge: the timing decisions cut out of client.py on every run (Gen/GenTiming.v, see
   tools/py2v/specs/timing.py) are the ones the models Link/Keepalive.v and Link/Backoff.v use.
   A change of a comparison, of the `or`, of the doubling / cap, ... changes the generated text and
   these lemmas stop compiling. *)
From PahoV Require Import Base.Prelude Link.Keepalive Link.Backoff Gen.GenTiming.

Definition sock_opt (s : st) : option unit := if sock s then Some tt else None.
(* _ConnectionState values (enum.auto()): CONNECTING 3, CONNECTED 4, CONNECTION_LOST 5 *)
Definition cst_code (c : cst) : Z := match c with CsConnecting => 3 | CsConnected => 4 | CsLost => 5 end.

Lemma ka_due_bridge s :
  ka_due_gen (sock_opt s) (now s) (last_out s) (last_in s) (kk s) = Ok (ka_due s).
Proof. unfold ka_due_gen, ka_due, sock_opt. destruct (sock s); reflexivity. Qed.

Lemma ka_may_ping_bridge s :
  ka_may_ping_gen (cst_code (cstate s)) (ping_t s) = Ok (ka_may_ping s).
Proof. unfold ka_may_ping_gen, ka_may_ping, is_connected. destruct (cstate s); reflexivity. Qed.

Lemma cs_connected_bridge : cs_connected_code = Ok (cst_code CsConnected).
Proof. reflexivity. Qed.

Lemma ka_ping_expired_bridge s :
  ka_ping_expired_gen (ping_t s) (now s) (kk s) = Ok (ka_ping_expired s).
Proof. reflexivity. Qed.

Lemma ping_updates_bridge : ping_t_updates_present = Ok true.
Proof. reflexivity. Qed.

Lemma reconnect_delay_bridge cfg d :
  reconnect_delay_update d (c_min cfg) (c_max cfg) = Ok (Some (next_delay cfg d)).
Proof. unfold reconnect_delay_update, next_delay. destruct d; reflexivity. Qed.
