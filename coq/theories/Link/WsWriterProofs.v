(* Proofs about Link/WsWriter.v (property C06 over WebSockets): the wrapper's _send_impl satisfies the
   transport specification of WriterProofs.v with a relation that describes the raw byte stream as a sequence
   of complete frames followed by a part of the frame being flushed; the independent parser [deframe] recovers
   exactly the payloads from such a stream and finds every complete frame well-formed. *)
From PahoV Require Import Base.Prelude Link.Writer Link.WriterProofs Link.WsWriter.

(* ------------------------------------------------------------------ small list facts *)
Lemma is_nil_true {A} (l : list A) : is_nil l = true -> l = [].
Proof. destruct l; [reflexivity|discriminate]. Qed.

Lemma is_nil_false {A} (l : list A) : is_nil l = false -> l <> [].
Proof. destruct l; [discriminate|intros _ H; discriminate]. Qed.

Lemma zskip_nil_ztake n (l : list Z) : zskip n l = [] -> ztake n l = l.
Proof. intros H. rewrite <- (ztake_zskip l n) at 2. rewrite H, app_nil_r. reflexivity. Qed.

Lemma ztake_app_le n (a x : list Z) : n <= zlen a -> ztake n (a ++ x) = ztake n a.
Proof.
  unfold ztake, zlen. intros H. rewrite firstn_app.
  replace (Z.to_nat n - length a)%nat with O by lia. cbn [firstn]. apply app_nil_r.
Qed.

Lemma zskip_app_le n (a x : list Z) : n <= zlen a -> zskip n (a ++ x) = zskip n a ++ x.
Proof.
  unfold zskip, zlen. intros H. rewrite skipn_app.
  replace (Z.to_nat n - length a)%nat with O by lia. reflexivity.
Qed.

Lemma ztake_app_exact (a x : list Z) : ztake (zlen a) (a ++ x) = a.
Proof. rewrite ztake_app_le by lia. apply ztake_all. lia. Qed.

Lemma zskip_app_exact (a x : list Z) : zskip (zlen a) (a ++ x) = x.
Proof. rewrite zskip_app_le by lia. rewrite zskip_all by lia. reflexivity. Qed.

(* ------------------------------------------------------------------ what _create_frame builds *)
Definition hdr (len : Z) : list Z :=
  if len <? 126 then [130; 128 + len]
  else if len <? 65536 then [130; 254] ++ be_bytes 2 len
  else [130; 255] ++ be_bytes 8 len.

Definition frame_of (d key : list Z) : list Z := hdr (zlen d) ++ key ++ mask_data key d.

Lemma lor_128_small l : 0 <= l < 128 -> Z.lor 128 l = 128 + l.
Proof.
  intros H.
  assert (Hall : forallb (fun n => Z.lor 128 (Z.of_nat n) =? 128 + Z.of_nat n) (seq 0 128) = true) by (vm_compute; reflexivity).
  rewrite forallb_forall in Hall. specialize (Hall (Z.to_nat l)).
  rewrite Z2Nat.id in Hall by lia. apply Z.eqb_eq, Hall, in_seq. lia.
Qed.

Lemma create_frame_eq d key :
  zlen d < 9223372036854775809 -> create_frame 2 d 1 key = Some (frame_of d key).
Proof.
  intros H. unfold create_frame, frame_of, hdr. pose proof (zlen_nonneg d) as H0.
  change (Z.shiftl 1 7) with 128. change (Z.lor 128 2) with 130.
  change (Z.lor 128 126) with 254. change (Z.lor 128 127) with 255. change (1 =? 1) with true. cbv iota.
  destruct (zlen d <? 126) eqn:H1.
  - rewrite lor_128_small by lia. reflexivity.
  - destruct (zlen d <? 65536) eqn:H2; [reflexivity|].
    destruct (zlen d <? 9223372036854775809) eqn:H3; [reflexivity|lia].
Qed.

Lemma create_frame_big d key :
  9223372036854775809 <= zlen d -> create_frame 2 d 1 key = None.
Proof.
  intros H. unfold create_frame.
  destruct (zlen d <? 126) eqn:H1; [lia|]. destruct (zlen d <? 65536) eqn:H2; [lia|].
  destruct (zlen d <? 9223372036854775809) eqn:H3; [lia|]. reflexivity.
Qed.

Lemma frame_of_nonempty d key : frame_of d key <> [].
Proof. unfold frame_of, hdr. destruct (zlen d <? 126); [|destruct (zlen d <? 65536)]; discriminate. Qed.

(* ------------------------------------------------------------------ _send_impl meets the transport specification *)
Section WsSpec.
Variable keyf : nat -> list Z.

(* (data, key) of the frames that were flushed completely; the part of the current frame already flushed *)
Definition ws_TR (t : wsst) (rw lw : list Z) (od : option (list Z)) : Prop :=
  exists (fs : list (list Z * list Z)) (part : list Z),
    rw = concat (map (fun x => frame_of (fst x) (snd x)) fs) ++ part
    /\ lw = concat (map fst fs)
    /\ Forall (fun x => exists n, snd x = keyf n) fs
    /\ ((sendbuf t = [] /\ part = [] /\ pend t = false)
        \/ (sendbuf t <> [] /\ pend t = true /\ exists d n, od = Some d /\ req t = zlen d
                                          /\ part ++ sendbuf t = frame_of d (keyf n))).

Lemma ws_TR_none t rw lw : ws_TR t rw lw None -> forall od, ws_TR t rw lw od.
Proof.
  intros (fs & part & H1 & H2 & H3 & [H4|(_ & _ & d & n & H4 & _)]) od; [|discriminate].
  exists fs, part. repeat split; try assumption. left. assumption.
Qed.

Lemma ws_TR_snoc fs d n :
  Forall (fun x => exists n, snd x = keyf n) fs ->
  Forall (fun x : list Z * list Z => exists n, snd x = keyf n) (fs ++ [(d, keyf n)]).
Proof. intros H. apply Forall_app. split; [assumption|]. constructor; [exists n; reflexivity|constructor]. Qed.

Lemma ws_send_spec t rw lw d s r t' raw s' :
  ws_TR t rw lw (Some d) -> ws_send keyf t d s = (r, t', raw, s') ->
  match r with
  | SWrote n => 0 <= n <= zlen d
                /\ (0 < n -> forall od, ws_TR t' (rw ++ raw) (lw ++ ztake n d) od)
                /\ (n = 0 -> ws_TR t' (rw ++ raw) lw (Some d))
  | _ => ws_TR t' (rw ++ raw) lw (Some d)
  end.
Proof.
  intros (fs & part & H1 & H2 & H3 & H4) Hs. unfold ws_send in Hs.
  pose proof (zlen_nonneg d) as Hd0.
  (* the state after the optional frame creation: buffer [part0 ++ buf] is the frame of d *)
  assert (Hmid : forall t1, (sendbuf t1 <> [] /\ pend t1 = true /\ req t1 = zlen d /\ exists part0 n, rw = concat (map (fun x => frame_of (fst x) (snd x)) fs) ++ part0 /\ part0 ++ sendbuf t1 = frame_of d (keyf n)) ->
     (let '(o, s0) := next_outcome (zlen (sendbuf t1)) s in
      match o with
      | Accept k =>
        let n := clip k (zlen (sendbuf t1)) in
        let buf' := zskip n (sendbuf t1) in
        let t2 := mkws buf' (req t1) (nframes t1) (negb (is_nil buf') && pend t1) in
        (SWrote (if is_nil buf' then req t1 else 0), t2, ztake n (sendbuf t1), s0)
      | Block => (SBlock, t1, [], s0)
      | Fail => (SFail, t1, [], s0)
      | FailV => (SFailV, t1, [], s0)
      end) = (r, t', raw, s') ->
     match r with
     | SWrote n => 0 <= n <= zlen d
                /\ (0 < n -> forall od, ws_TR t' (rw ++ raw) (lw ++ ztake n d) od)
                /\ (n = 0 -> ws_TR t' (rw ++ raw) lw (Some d))
     | _ => ws_TR t' (rw ++ raw) lw (Some d)
     end).
  { intros t1 (Hb & Hpd & Hr & part0 & n & Hrw & Hfr) Ho.
    assert (Hsame : ws_TR t1 (rw ++ []) lw (Some d)).
    { rewrite app_nil_r. exists fs, part0. repeat split; try assumption. right. split; [assumption|]. split; [assumption|].
      exists d, n. repeat split; assumption. }
    destruct (next_outcome (zlen (sendbuf t1)) s) as [o s0].
    destruct o; injection Ho as <- <- <- <-; try exact Hsame.
    destruct (is_nil (zskip (clip k (zlen (sendbuf t1))) (sendbuf t1))) eqn:Hnil.
    - apply is_nil_true in Hnil. pose proof (zskip_nil_ztake _ _ Hnil) as Htk. rewrite Htk, Hr.
      assert (Hrw' : rw ++ sendbuf t1 = concat (map (fun x => frame_of (fst x) (snd x)) (fs ++ [(d, keyf n)])) ++ []).
      { rewrite Hrw, map_app, concat_app. cbn [map concat fst snd]. rewrite !app_nil_r, <- app_assoc, Hfr. reflexivity. }
      split; [lia|]. split.
      + intros _ od. exists (fs ++ [(d, keyf n)]), []. split; [exact Hrw'|].
        split; [rewrite map_app, concat_app, H2; cbn [map concat fst]; rewrite app_nil_r, ztake_all by lia; reflexivity|].
        split; [apply ws_TR_snoc; assumption|]. left. cbn [sendbuf pend negb andb]. split; [assumption|]. split; reflexivity.
      + intros Hz. exists (fs ++ [(d, keyf n)]), []. split; [exact Hrw'|].
        split; [rewrite map_app, concat_app, H2; cbn [map concat fst]; rewrite (zlen_nil_inv d Hz), !app_nil_r; reflexivity|].
        split; [apply ws_TR_snoc; assumption|]. left. cbn [sendbuf pend negb andb]. split; [assumption|]. split; reflexivity.
    - apply is_nil_false in Hnil. split; [lia|]. split; [lia|]. intros _.
      exists fs, (part0 ++ ztake (clip k (zlen (sendbuf t1))) (sendbuf t1)).
      split; [rewrite Hrw, <- app_assoc; reflexivity|]. split; [assumption|]. split; [assumption|].
      right. cbn [sendbuf req pend]. split; [assumption|]. split; [cbn [negb andb]; exact Hpd|]. exists d, n. split; [reflexivity|]. split; [assumption|].
      rewrite <- app_assoc, ztake_zskip. assumption. }
  destruct H4 as [(Hnil & Hp & Hpf)|(Hne & Hpt & d0 & n & Hod & Hr & Hfr)].
  - rewrite Hpf in Hs. cbn [negb] in Hs. subst part.
    rewrite app_nil_r in H1.
    destruct (create_frame 2 d 1 (keyf (nframes t))) as [f|] eqn:Hcf.
    + assert (Hf : f = frame_of d (keyf (nframes t))).
      { destruct (Z_lt_ge_dec (zlen d) 9223372036854775809) as [Hl|Hl].
        - rewrite create_frame_eq in Hcf by assumption. congruence.
        - rewrite create_frame_big in Hcf by lia. discriminate. }
      apply Hmid in Hs; [exact Hs|]. cbn [sendbuf req pend]. rewrite Hnil. cbn [app].
      split; [rewrite Hf; apply frame_of_nonempty|]. split; [reflexivity|]. split; [reflexivity|].
      exists [], (nframes t). split; [rewrite app_nil_r; assumption|]. cbn [app]. assumption.
    + inv Hs. rewrite app_nil_r. exists fs, []. rewrite app_nil_r. repeat split; try assumption.
      left. cbn [sendbuf pend]. repeat split; try assumption; try reflexivity.
  - rewrite Hpt in Hs. cbn [negb] in Hs.
    injection Hod as Hd. subst d0. apply Hmid in Hs; [exact Hs|]. split; [assumption|]. split; [assumption|]. split; [assumption|].
    exists part, n. split; assumption.
Qed.

End WsSpec.

(* ------------------------------------------------------------------ big-endian numbers, masking *)
Lemma be_bytes_length n : forall v, length (be_bytes n v) = n.
Proof. induction n as [|n IH]; intros v; cbn [be_bytes]; [reflexivity|]. rewrite app_length, IH. cbn [length]. lia. Qed.

Lemma zlen_be_bytes n v : zlen (be_bytes n v) = Z.of_nat n.
Proof. unfold zlen. rewrite be_bytes_length. reflexivity. Qed.

Lemma be_val_app a b acc : be_val (a ++ b) acc = be_val b (be_val a acc).
Proof. revert acc; induction a as [|x a IH]; intros acc; cbn [app be_val]; [reflexivity|apply IH]. Qed.

Lemma be_val_bytes n : forall v acc, 0 <= v -> be_val (be_bytes n v) acc = acc * 256 ^ Z.of_nat n + v mod 256 ^ Z.of_nat n.
Proof.
  induction n as [|n IH]; intros v acc Hv; cbn [be_bytes be_val].
  - change (256 ^ Z.of_nat 0) with 1. rewrite Z.mod_1_r. lia.
  - rewrite be_val_app, IH by (apply Z.div_pos; lia). cbn [be_val].
    rewrite Nat2Z.inj_succ, Z.pow_succ_r by lia.
    rewrite (Z.rem_mul_r v 256 (256 ^ Z.of_nat n)) by (try apply Z.pow_pos_nonneg; lia).
    ring.
Qed.

Lemma be_roundtrip n v : 0 <= v < 256 ^ Z.of_nat n -> be_val (be_bytes n v) 0 = v.
Proof. intros H. rewrite be_val_bytes by lia. rewrite Z.mod_small by assumption. lia. Qed.

Lemma mask_from_length key d : forall i, length (mask_from i key d) = length d.
Proof. induction d as [|x d IH]; intros i; cbn [mask_from length]; [reflexivity|]. rewrite IH. reflexivity. Qed.

Lemma lxor_twice x k : Z.lxor (Z.lxor x k) k = x.
Proof. rewrite Z.lxor_assoc, Z.lxor_nilpotent, Z.lxor_0_r. reflexivity. Qed.

Lemma unmask_mask k0 k1 k2 k3 d : forall i,
  ((i mod 4 = 0)%nat -> unmask k0 k1 k2 k3 (mask_from i [k0; k1; k2; k3] d) = d)
  /\ ((i mod 4 = 1)%nat -> unmask k1 k2 k3 k0 (mask_from i [k0; k1; k2; k3] d) = d)
  /\ ((i mod 4 = 2)%nat -> unmask k2 k3 k0 k1 (mask_from i [k0; k1; k2; k3] d) = d)
  /\ ((i mod 4 = 3)%nat -> unmask k3 k0 k1 k2 (mask_from i [k0; k1; k2; k3] d) = d).
Proof.
  induction d as [|x d IH]; intros i; [repeat split; reflexivity|].
  destruct (IH (S i)) as (I0 & I1 & I2 & I3).
  assert (Hm : (S i mod 4 = (i mod 4 + 1) mod 4)%nat).
  { replace (S i) with (i + 1)%nat by lia. rewrite Nat.add_mod by lia. reflexivity. }
  cbn [mask_from unmask].
  repeat split; intros Hi; rewrite Hi in *; cbn [nth]; rewrite lxor_twice; f_equal;
    [apply I1|apply I2|apply I3|apply I0]; rewrite Hm; reflexivity.
Qed.

(* ------------------------------------------------------------------ the parser on frames built by _create_frame *)
Lemma parse_frame_mono A X fr rest :
  parse_frame A = Some (fr, rest) -> parse_frame (A ++ X) = Some (fr, rest ++ X).
Proof.
  destruct A as [|b0 [|b1 r]]; try discriminate. cbn [app]. unfold parse_frame. cbv zeta.
  pose proof (zlen_nonneg X) as HX.
  remember (if b1 mod 128 =? 126 then 2 else if b1 mod 128 =? 127 then 8 else 0) as ext.
  destruct (zlen r <? ext) eqn:E1; [discriminate|]. apply Z.ltb_ge in E1.
  replace (zlen (r ++ X) <? ext) with false by (symmetry; apply Z.ltb_ge; rewrite zlen_app; lia).
  rewrite (ztake_app_le ext r X), (zskip_app_le ext r X) by lia.
  remember (zskip ext r) as r1.
  remember (if b1 / 128 =? 1 then 4 else 0) as kl.
  destruct (zlen r1 <? kl) eqn:E2; [discriminate|]. apply Z.ltb_ge in E2.
  replace (zlen (r1 ++ X) <? kl) with false by (symmetry; apply Z.ltb_ge; rewrite zlen_app; lia).
  rewrite (ztake_app_le kl r1 X), (zskip_app_le kl r1 X) by lia.
  remember (zskip kl r1) as r2.
  remember (if ext =? 0 then b1 mod 128 else be_val (ztake ext r) 0) as plen.
  destruct (zlen r2 <? plen) eqn:E3; [discriminate|]. apply Z.ltb_ge in E3.
  replace (zlen (r2 ++ X) <? plen) with false by (symmetry; apply Z.ltb_ge; rewrite zlen_app; lia).
  rewrite (ztake_app_le plen r2 X), (zskip_app_le plen r2 X) by lia.
  intros H; inv H. reflexivity.
Qed.

Lemma parse_frame_gen b0 b1 extb key d len7 ext :
  len7 = b1 mod 128 ->
  ext = (if len7 =? 126 then 2 else if len7 =? 127 then 8 else 0) ->
  zlen extb = ext -> b1 / 128 = 1 -> length key = 4%nat ->
  (if ext =? 0 then len7 else be_val extb 0) = zlen d ->
  parse_frame (b0 :: b1 :: extb ++ key ++ mask_data key d)
  = Some (mkframe (b0 / 128) ((b0 / 16) mod 8) (b0 mod 16) 1 len7 (zlen d) key d, []).
Proof.
  intros H7 Hext Hel Hm Hk Hpl. unfold parse_frame. cbv zeta. rewrite <- H7, <- Hext, Hm.
  change (1 =? 1) with true. cbv iota.
  assert (Hkl : zlen key = 4) by (unfold zlen; lia).
  assert (Hml : zlen (mask_data key d) = zlen d) by (unfold zlen, mask_data; rewrite mask_from_length; reflexivity).
  pose proof (zlen_nonneg d) as Hd0.
  replace (zlen (extb ++ key ++ mask_data key d) <? ext) with false
    by (symmetry; apply Z.ltb_ge; rewrite !zlen_app; lia).
  rewrite <- Hel, ztake_app_exact, zskip_app_exact, Hel, Hpl.
  replace (zlen (key ++ mask_data key d) <? 4) with false
    by (symmetry; apply Z.ltb_ge; rewrite !zlen_app; lia).
  rewrite <- Hkl, ztake_app_exact, zskip_app_exact.
  replace (zlen (mask_data key d) <? zlen d) with false by (symmetry; apply Z.ltb_ge; lia).
  rewrite ztake_all, zskip_all by lia.
  destruct key as [|k0 [|k1 [|k2 [|k3 [|? ?]]]]]; try discriminate.
  unfold mask_data. destruct (unmask_mask k0 k1 k2 k3 d 0) as (U0 & _). rewrite U0 by reflexivity.
  reflexivity.
Qed.

Definition len7_of (L : Z) : Z := if L <? 126 then L else if L <? 65536 then 126 else 127.
Definition frec (d key : list Z) : frame := mkframe 1 0 2 1 (len7_of (zlen d)) (zlen d) key d.

Lemma parse_frame_complete d key :
  length key = 4%nat -> zlen d < 9223372036854775808 ->
  parse_frame (frame_of d key) = Some (frec d key, []).
Proof.
  intros Hk Hl. pose proof (zlen_nonneg d) as H0. unfold frame_of, hdr, frec, len7_of.
  destruct (zlen d <? 126) eqn:H1; [|destruct (zlen d <? 65536) eqn:H2].
  - change ([130; 128 + zlen d] ++ key ++ mask_data key d) with (130 :: (128 + zlen d) :: [] ++ key ++ mask_data key d).
    rewrite (parse_frame_gen 130 (128 + zlen d) [] key d (zlen d) 0); try reflexivity; try assumption; try lia.
    replace (zlen d =? 126) with false by lia. replace (zlen d =? 127) with false by lia. reflexivity.
  - change (([130; 254] ++ be_bytes 2 (zlen d)) ++ key ++ mask_data key d)
      with (130 :: 254 :: be_bytes 2 (zlen d) ++ key ++ mask_data key d).
    rewrite (parse_frame_gen 130 254 (be_bytes 2 (zlen d)) key d 126 2); try reflexivity; try assumption.
    change (2 =? 0) with false. cbv iota. apply be_roundtrip. change (256 ^ Z.of_nat 2) with 65536. lia.
  - change (([130; 255] ++ be_bytes 8 (zlen d)) ++ key ++ mask_data key d)
      with (130 :: 255 :: be_bytes 8 (zlen d) ++ key ++ mask_data key d).
    rewrite (parse_frame_gen 130 255 (be_bytes 8 (zlen d)) key d 127 8); try reflexivity; try assumption.
    change (8 =? 0) with false. cbv iota. apply be_roundtrip.
      change (256 ^ Z.of_nat 8) with 18446744073709551616. lia.
Qed.

Lemma frec_wf d key : length key = 4%nat -> zlen d < 9223372036854775808 -> frame_wf (frec d key) = true.
Proof.
  intros Hk Hl. pose proof (zlen_nonneg d) as H0. unfold frame_wf, frec, len7_of; cbn [f_fin f_rsv f_opcode f_masked f_key f_len7 f_len f_payload].
  rewrite Hk. change (Z.of_nat 4 =? 4) with true. change (1 =? 1) with true. change (0 =? 0) with true. change (2 =? 2) with true.
  cbn [andb]. rewrite Z.eqb_refl, andb_true_r.
  destruct (zlen d <? 126) eqn:H1.
  - rewrite H1. apply Z.eqb_refl.
  - destruct (zlen d <? 65536) eqn:H2.
    + change (126 <? 126) with false. change (126 =? 126) with true. cbv iota. lia.
    + change (127 <? 126) with false. change (127 =? 126) with false. cbv iota. lia.
Qed.

Lemma parse_frame_part d key part buf :
  length key = 4%nat -> zlen d < 9223372036854775808 ->
  part ++ buf = frame_of d key -> buf <> [] -> parse_frame part = None.
Proof.
  intros Hk Hl He Hb. destruct (parse_frame part) as [[fr rest]|] eqn:E; [|reflexivity].
  apply (parse_frame_mono _ buf) in E. rewrite He, parse_frame_complete in E by assumption.
  inv E. destruct rest; destruct buf; try discriminate. exfalso; apply Hb; reflexivity.
Qed.

Definition fs_ok (fs : list (list Z * list Z)) : Prop :=
  Forall (fun x => length (snd x) = 4%nat /\ zlen (fst x) < 9223372036854775808) fs.

Lemma parse_frames_stream fs part : fs_ok fs -> parse_frame part = None ->
  forall fuel, (length fs <= fuel)%nat ->
  parse_frames fuel (concat (map (fun x => frame_of (fst x) (snd x)) fs) ++ part)
  = (map (fun x => frec (fst x) (snd x)) fs, part).
Proof.
  intros Hok Hp. induction Hok as [|[d key] fs [Hk Hl] _ IH]; intros fuel Hf.
  - cbn [map concat app]. destruct fuel; cbn [parse_frames]; [reflexivity|]. rewrite Hp. reflexivity.
  - destruct fuel as [|fuel]; [cbn [length] in Hf; lia|]. cbn [map concat fst snd parse_frames].
    rewrite <- app_assoc.
    rewrite (parse_frame_mono (frame_of d key) _ (frec d key) []) by (apply parse_frame_complete; assumption).
    cbn [app]. rewrite IH by (cbn [length] in Hf; lia). reflexivity.
Qed.

Lemma concat_frames_length fs :
  (length fs <= length (concat (map (fun x => frame_of (fst x) (snd x)) fs)))%nat.
Proof.
  induction fs as [|x fs IH]; [cbn; lia|]. cbn [map concat length]. rewrite app_length.
  pose proof (frame_of_nonempty (fst x) (snd x)). destruct (frame_of (fst x) (snd x)); [congruence|]. cbn [length]. lia.
Qed.

Lemma deframe_stream fs part : fs_ok fs -> parse_frame part = None ->
  deframe (concat (map (fun x => frame_of (fst x) (snd x)) fs) ++ part) = Some (map fst fs, part).
Proof.
  intros Hok Hp. unfold deframe. rewrite parse_frames_stream; try assumption.
  2:{ rewrite app_length. pose proof (concat_frames_length fs). lia. }
  assert (Hwf : forallb frame_wf (map (fun x => frec (fst x) (snd x)) fs) = true).
  { induction Hok as [|x fs [Hk Hl] _ IH]; [reflexivity|]. cbn [map forallb]. rewrite frec_wf, IH by assumption. reflexivity. }
  rewrite Hwf, map_map. reflexivity.
Qed.

Lemma parse_frame_nil : parse_frame [] = None.
Proof. reflexivity. Qed.

Lemma deframe_some_wf l cs rest : deframe l = Some (cs, rest) ->
  forallb frame_wf (fst (parse_frames (length l) l)) = true
  /\ cs = map f_payload (fst (parse_frames (length l) l)) /\ rest = snd (parse_frames (length l) l).
Proof.
  unfold deframe. destruct (parse_frames (length l) l) as [fs r]. cbn [fst snd].
  destruct (forallb frame_wf fs); intros H; inv H. repeat split.
Qed.

Lemma fst_len_le (fs : list (list Z * list Z)) :
  Forall (fun x => zlen (fst x) <= zlen (concat (map fst fs))) fs.
Proof.
  induction fs as [|x fs IH]; [constructor|]. cbn [map concat]. constructor.
  - rewrite zlen_app. pose proof (zlen_nonneg (concat (map fst fs))). lia.
  - eapply Forall_impl; [|exact IH]. cbn beta. intros a Ha. rewrite zlen_app. pose proof (zlen_nonneg (fst x)). lia.
Qed.

Lemma zlen_concat_firstn n (l : list (list Z)) : zlen (concat (firstn n l)) <= zlen (concat l).
Proof.
  rewrite <- (firstn_skipn n l) at 2. rewrite concat_app, zlen_app.
  pose proof (zlen_nonneg (concat (skipn n l))). lia.
Qed.

(* ================================================================== C06 over the WebSocket wrapper *)
Section WsTheorems.
Variable keyf : nat -> list Z.
Hypothesis keyf_len : forall n, length (keyf n) = 4%nat.

Lemma ws_TR_init : ws_TR keyf ws_init [] [] None.
Proof. exists [], []. cbn. repeat split; [constructor|]. left. repeat split; reflexivity. Qed.

Lemma ws_run_inv c ops : conn_once ops = true -> RInv wsst (ws_TR keyf) c (ws_run keyf c ops).
Proof.
  intros Hcf.
  apply (run_inv wsst (ws_send keyf) (ws_TR keyf) (ws_TR_none keyf) (ws_send_spec keyf)); [assumption|apply ws_TR_init].
Qed.

(* a stream that satisfies the relation parses into well-formed frames whose payloads are the bytes counted as
   written; what is left over is the flushed part of the frame in the send buffer *)
Lemma ws_TR_deframe t rw lw od :
  ws_TR keyf t rw lw od -> zlen lw < 9223372036854775808 ->
  (forall d, od = Some d -> zlen d < 9223372036854775808) ->
  exists chunks rest, deframe rw = Some (chunks, rest) /\ concat chunks = lw /\ (sendbuf t = [] -> rest = []).
Proof.
  intros (fs & part & H1 & H2 & H3 & H4) Hl Hd.
  assert (Hok : fs_ok fs).
  { unfold fs_ok. pose proof (fst_len_le fs) as Hle. rewrite <- H2 in Hle.
    rewrite Forall_forall in *. intros x Hx. specialize (H3 x Hx) as [n Hn]. specialize (Hle x Hx).
    split; [rewrite Hn; apply keyf_len|lia]. }
  assert (Hp : parse_frame part = None).
  { destruct H4 as [(_ & -> & _)|(Hb & _ & d & n & Hod & _ & Hf)]; [reflexivity|].
    eapply parse_frame_part; [apply (keyf_len n)|apply Hd; exact Hod|exact Hf|exact Hb]. }
  exists (map fst fs), part. rewrite H1. split; [apply deframe_stream; assumption|]. split; [symmetry; assumption|].
  intros Hb. destruct H4 as [(_ & -> & _)|(Hne & _)]; [reflexivity|congruence].
Qed.

Lemma head_off_le q d : head_off q = Some d -> zlen d <= zlen (unsent_q q).
Proof.
  destruct q as [|p q]; [discriminate|]. cbn [head_off]. intros H; inv H.
  unfold unsent_q. cbn [map concat]. rewrite zlen_app. pose proof (zlen_nonneg (concat (map offered q))). lia.
Qed.

Lemma ws_acc_deframe c ops : conn_once ops = true ->
  zlen (concat (queued_bytes ops)) < 9223372036854775808 ->
  exists chunks rest,
    deframe (wire_of (r_trace (ws_run keyf c ops))) = Some (chunks, rest)
    /\ concat chunks = acc_of (r_trace (ws_run keyf c ops))
    /\ acc_of (r_trace (ws_run keyf c ops)) ++ unsent (r_st (ws_run keyf c ops)) = concat (queued_bytes ops).
Proof.
  intros Hcf Hsz. destruct (ws_run_inv c ops Hcf) as [[done HI] _ _].
  pose proof (IB_stream _ _ _ _ _ _ _ _ _ HI) as Hs. pose proof (ib_tr _ _ _ _ _ _ _ _ _ HI) as Ht.
  unfold ws_run in Hs. rewrite run_hist in Hs. fold (queued_bytes ops) in Hs.
  fold (ws_run keyf c ops) in Hs.
  assert (Hsum : zlen (acc_of (r_trace (ws_run keyf c ops))) + zlen (unsent_q (outq (r_st (ws_run keyf c ops))))
                 = zlen (concat (queued_bytes ops))) by (rewrite <- Hs, zlen_app; reflexivity).
  pose proof (zlen_nonneg (acc_of (r_trace (ws_run keyf c ops)))).
  pose proof (zlen_nonneg (unsent_q (outq (r_st (ws_run keyf c ops))))).
  apply ws_TR_deframe in Ht as (chunks & rest & Hd & Hc & _); [| lia |].
  - exists chunks, rest. split; [assumption|]. split; [assumption|]. exact Hs.
  - intros d Hd. apply head_off_le in Hd. lia.
Qed.

Lemma ws_stream c ops : conn_once ops = true ->
  zlen (concat (queued_bytes ops)) < 9223372036854775808 ->
  exists chunks rest,
    deframe (wire_of (r_trace (ws_run keyf c ops))) = Some (chunks, rest)
    /\ concat chunks ++ unsent (r_st (ws_run keyf c ops)) = concat (queued_bytes ops).
Proof.
  intros Hcf Hsz. destruct (ws_acc_deframe c ops Hcf Hsz) as (chunks & rest & Hd & Hc & Hs).
  exists chunks, rest. split; [assumption|]. rewrite Hc. exact Hs.
Qed.

Lemma ws_frames_wf c ops : conn_once ops = true ->
  zlen (concat (queued_bytes ops)) < 9223372036854775808 ->
  let w := wire_of (r_trace (ws_run keyf c ops)) in
  forallb ws_frame_wf (fst (parse_frames (length w) w)) = true.
Proof.
  intros Hcf Hsz. cbn zeta. destruct (ws_stream c ops Hcf Hsz) as (cs & rest & Hd & _).
  apply deframe_some_wf in Hd as (Hwf & _). exact Hwf.
Qed.

Lemma zlen_concat_prefix (pre : list opkt) p post :
  zlen (concat (map p_bytes (pre ++ [p]))) <= zlen (concat (map p_bytes (pre ++ p :: post))).
Proof.
  replace (pre ++ p :: post) with ((pre ++ [p]) ++ post) by (rewrite <- app_assoc; reflexivity).
  rewrite (map_app _ (pre ++ [p])), concat_app, zlen_app.
  pose proof (zlen_nonneg (concat (map p_bytes post))). lia.
Qed.

Lemma ws_qos0_published c ops tr1 e tr2 i : conn_once ops = true ->
  zlen (concat (queued_bytes ops)) < 9223372036854775808 ->
  r_trace (ws_run keyf c ops) = tr1 ++ e :: tr2 -> e = CbPublish i \/ e = SetPublished i ->
  exists pre p post,
    hist_of ops = pre ++ p :: post /\ p_kind p = KPub0 /\ p_id p = i
    /\ exists chunks, deframe (wire_of tr1) = Some (chunks, [])
                      /\ concat chunks = concat (map p_bytes (pre ++ [p])).
Proof.
  intros Hcf Hsz Htr He. destruct (ws_run_inv c ops Hcf) as [[done HI] _ _].
  pose proof (ib_pubs _ _ _ _ _ _ _ _ _ HI) as Hp. rewrite Htr in Hp.
  apply (pubs_ok_split wsst (ws_TR keyf) _ _ _ _ i) in Hp; [|assumption].
  destruct Hp as (pre & p & post & Hh & Hk & Hi & Hl & (t & Ht)).
  unfold ws_run in Hh. rewrite run_hist in Hh.
  exists pre, p, post. split; [assumption|]. split; [assumption|]. split; [assumption|].
  pose proof (zlen_concat_prefix pre p post) as Hle. rewrite <- Hh in Hle. fold (queued_bytes ops) in Hle.
  pose proof Ht as (fs & part & _ & _ & _ & [(Hb & _)|(_ & _ & d & n & Hod & _)]); [|discriminate].
  apply ws_TR_deframe in Ht as (chunks & rest & Hd & Hc & Hr); [| rewrite Hl; lia | intros d Hd; discriminate].
  exists chunks. rewrite <- (Hr Hb). split; [assumption|]. rewrite Hc. exact Hl.
Qed.

Lemma ws_qos0_once c ops : conn_once ops = true ->
  zlen (concat (queued_bytes ops)) < 9223372036854775808 ->
  let r := ws_run keyf c ops in
  NoDup (setpub_ids (r_trace r)) /\ NoDup (cbpub_ids (r_trace r))
  /\ exists done chunks rest,
       hist_of ops = done ++ map reset (outq (r_st r))
       /\ deframe (wire_of (r_trace r)) = Some (chunks, rest)
       /\ concat chunks = concat (map p_bytes done) ++ sent_part (outq (r_st r))
       /\ setpub_ids (r_trace r) = setpub_of c done
       /\ cbpub_ids (r_trace r) = cbpub_of c done.
Proof.
  intros Hcf Hsz. cbn zeta. destruct (ws_run_inv c ops Hcf) as [[done HI] _ _].
  destruct (IB_once _ _ _ _ _ _ _ _ _ HI) as [N1 N2]. split; [assumption|]. split; [assumption|].
  destruct (ws_acc_deframe c ops Hcf Hsz) as (chunks & rest & Hd & Hc & _).
  exists done, chunks, rest. pose proof HI as [H1 H2 _ _ H5 H6 _ _ _].
  unfold ws_run in H1. rewrite run_hist in H1. rewrite Hc. repeat split; assumption.
Qed.

Lemma ws_want_write c ops : conn_once ops = true ->
  let st := r_st (ws_run keyf c ops) in
  unsent st <> [] -> want_write st = true /\ (sock st = true -> regw st = true).
Proof.
  intros Hcf. cbn zeta. intros H. split; [apply unsent_want_write; assumption|].
  destruct (ws_run_inv c ops Hcf) as [_ Ha _]. intros Hs. apply Ha; [assumption|].
  intros Hq. apply H. unfold unsent. rewrite Hq. reflexivity.
Qed.

Lemma ws_terminates c ops : conn_once ops = true -> ~ In RcOutOfFuel (r_rcs (ws_run keyf c ops)).
Proof. intros Hcf. apply (ws_run_inv c ops Hcf). Qed.

End WsTheorems.
