(* C09: concrete runs of the machine (vm_compute): regression witnesses of the two repaired defects,
   non-vacuity examples, and the literal gap statement checked on an exhaustive small scope. *)
From PahoV Require Import Base.Prelude Link.Backoff.

Definition cfg_plain (mn mx : Z) (retry_first : bool) : config := mkcfg mn mx retry_first true None 50 false.

Definition attempts (tr : list bev) : list (Z * bool) :=
  flat_map (fun e => match e with EvAttempt t i => [(t, i)] | _ => [] end) tr.

(* former F-C09a (fixed in /repo 6a826ba + 8319104): retry_first_connection and a refused first attempt;
   min = 1, max = 8: attempts at 0, 1, 3, 7, 15 (before the fix: 0, 3, 7, 15, 23) *)
Example first_retry_run :
  attempts (fst (run_script (cfg_plain 1 8 true) 0 [Refused; Refused; Refused; Refused]))
  = [(0, false); (1, false); (3, false); (7, false); (15, false)] /\
  gaps_ok 1 8 (fst (run_script (cfg_plain 1 8 true) 0 [Refused; Refused; Refused; Refused])) = true.
Proof. vm_compute. split; reflexivity. Qed.

(* former F-C09b (fixed in d2253bf): CONNACK rc 1, the immediate downgrade reconnect() is refused: counted as
   a failure, the normal back-off continues (0, 0 immediate, 1, 3, 7), loop_forever does not raise *)
Example downgrade_refused_run :
  let r := run_script (cfg_plain 1 8 false) 0 [Downgrade; Refused; Refused; ClosedBeforeConnack] in
  attempts (fst r) = [(0, false); (0, true); (1, false); (3, false); (7, false)] /\
  gaps_ok 1 8 (fst r) = true /\ fst (snd r) = PcDone REnd.
Proof. vm_compute. repeat split; reflexivity. Qed.

(* former F-C09c (regression of the first repair, fixed in 8319104): disconnect() inside on_connect_fail of the
   refused first attempt is final *)
Example disconnect_in_first_fail_run :
  let cfg := mkcfg 1 8 true true (Some (mkact 0 PConnectFail ADisconnect)) 50 false in
  let r := run_script cfg 0 [Refused; Refused; Refused] in
  attempts (fst r) = [(0, false)] /\ fst (snd r) = PcDone (RRet 7) /\ final_ok true (fst r) = true.
Proof. vm_compute. repeat split; reflexivity. Qed.

(* non-vacuity: a history with every kind of outcome, reset of the back-off after the accepted CONNACK,
   the immediate downgrade attempt (time 125 twice), and the cap *)
Definition mixed_script : list outcome :=
  [ClosedBeforeConnack; ConnackRefused RfNotAuthorised; Refused; Refused; Accepted 7 LEof; Downgrade; ClosedBeforeConnack; Refused].
Example mixed_run :
  attempts (fst (run_script (cfg_plain 2 5 false) 100 mixed_script))
  = [(100, false); (102, false); (106, false); (111, false); (116, false); (125, false); (125, true);
     (129, false); (134, false)] /\
  gaps_ok 2 5 (fst (run_script (cfg_plain 2 5 false) 100 mixed_script)) = true /\
  waits_ok 2 5 (fst (run_script (cfg_plain 2 5 false) 100 mixed_script)) = true /\
  fst (snd (run_script (cfg_plain 2 5 false) 100 mixed_script)) = PcDone REnd.
Proof. vm_compute. repeat split; reflexivity. Qed.

(* disconnect() during the second one-second sleep of the wait after attempt 1 *)
Example disconnect_in_wait_run :
  let cfg := mkcfg 1 8 false true (Some (mkact 1 (PWait 2) ADisconnect)) 50 false in
  let r := run_script cfg 0 [ClosedBeforeConnack; Refused; Refused; Refused] in
  attempts (fst r) = [(0, false); (1, false)] /\ fst (snd r) = PcDone (RRet 7) /\
  final_ok true (fst r) = true /\ has_act (fst r) = true.
Proof. vm_compute. repeat split; reflexivity. Qed.

(* reconnect_on_failure off: one loss ends the loop; the first-connection retries are not affected *)
Example rof_off_run :
  let cfg := mkcfg 1 8 true false None 50 false in
  let r := run_script cfg 0 [Refused; Refused; Accepted 3 LEof; Refused] in
  attempts (fst r) = [(0, false); (1, false); (3, false)] /\ fst (snd r) = PcDone (RRet 7) /\
  final_ok false (fst r) = true.
Proof. vm_compute. repeat split; reflexivity. Qed.

(* failed attempts, an accepted connection, then a loss that does not go through _loop_rc_handle (keepalive expiry,
   keepalive 5): the back-off starts again from min (waits 2 4 8 | 2 4), whatever the kind of loss *)
Example reset_after_silent_loss_run :
  let cfg := mkcfg 2 60 false true None 5 false in
  let r := run_script cfg 0 [ClosedBeforeConnack; Refused; Refused; Accepted 0 LSilent; Refused; Refused] in
  attempts (fst r) = [(0, false); (2, false); (6, false); (14, false); (26, false); (30, false); (38, false)] /\
  gaps_ok 2 60 (fst r) = true.
Proof. vm_compute. split; reflexivity. Qed.

(* ---- the literal gap statement on an exhaustive small scope: every script of length <= 5 over
   {refused, closed, CONNACK refused, accepted+EOF at once, accepted+recv error after 3, accepted+silent (keepalive
   expiry), accepted+server DISCONNECT after 2, CONNACK rc 1} (keepalive 50),
   (min,max) in {(1,1),(1,4),(2,5),(3,100)}, retry_first on/off: 4 * 2 * 9331 runs *)
Definition alphabet : list outcome :=
  [Refused; ClosedBeforeConnack; ConnackRefused RfNotAuthorised; Accepted 0 LEof; Accepted 3 LRecvErr; Accepted 0 LSilent;
   Accepted 2 LServerDisc; Downgrade].
Fixpoint scripts_upto (n : nat) : list (list outcome) :=
  match n with
  | O => [[]]
  | S n' => [] :: flat_map (fun s => map (fun o => o :: s) alphabet) (scripts_upto n')
  end.
Definition pairs : list (Z * Z) := [(1, 1); (1, 4); (2, 5); (3, 100)].
Definition gaps_scope (n : nat) : bool :=
  forallb (fun mm =>
    forallb (fun rf =>
      forallb (fun sc =>
        let tr := fst (run_script (cfg_plain (fst mm) (snd mm) rf) 0 sc) in
        gaps_ok (fst mm) (snd mm) tr && waits_ok (fst mm) (snd mm) tr)
      (scripts_upto n)) [true; false]) pairs.

Lemma gaps_small_scope : gaps_scope 4 = true.
Proof. vm_compute. reflexivity. Qed.
