(* C09: concrete runs of the machine (vm_compute): the two defects, and non-vacuity examples. *)
From PahoV Require Import Base.Prelude Link.Backoff.

Definition cfg_plain (mn mx : Z) (retry_first : bool) : config := mkcfg mn mx retry_first true None.

Definition attempts (tr : list bev) : list (Z * bool) :=
  flat_map (fun e => match e with EvAttempt t i => [(t, i)] | _ => [] end) tr.

(* F-C09a: retry_first_connection and a refused first attempt: attempts at 0, 3, 7, 15, 23 for
   min = 1, max = 8 - the first retry comes after TWO waits (1 + 2), the later ones are one doubling ahead *)
Example first_retry_double_wait_run :
  attempts (fst (run_script (cfg_plain 1 8 true) 0 [Refused; Refused; Refused; Refused]))
  = [(0, false); (3, false); (7, false); (15, false); (23, false)].
Proof. vm_compute. reflexivity. Qed.

Lemma delays_refuted :
  exists cfg script t0, 1 <= c_min cfg <= c_max cfg /\ c_act cfg = None /\ c_rof cfg = true /\
    gaps_ok (c_min cfg) (c_max cfg) (fst (run_script cfg t0 script)) = false.
Proof.
  exists (cfg_plain 1 8 true), [Refused; Refused; Refused; Refused], 0. vm_compute. repeat split; congruence.
Qed.

(* F-C09b: CONNACK rc 1 -> immediate downgrade reconnect(); if that TCP connect is refused the OSError
   leaves loop_forever: the machine ends in RRaise although nobody disconnected and reconnect_on_failure is on *)
Lemma retries_refuted :
  exists cfg script t0, c_act cfg = None /\ c_rof cfg = true /\ first_is_refused script = false /\
    fst (snd (run_script cfg t0 script)) = PcDone RRaise.
Proof.
  exists (cfg_plain 1 8 false), [Downgrade; Refused], 0. vm_compute. repeat split; congruence.
Qed.

(* non-vacuity: a history with every kind of outcome, reset of the back-off after the accepted CONNACK,
   the immediate downgrade attempt, and the cap *)
Definition mixed_script : list outcome :=
  [ClosedBeforeConnack; ConnackRefused RfNotAuthorised; Refused; Refused; Accepted 7; Downgrade; ClosedBeforeConnack; Refused].
Example mixed_run :
  attempts (fst (run_script (cfg_plain 2 5 false) 100 mixed_script))
  = [(100, false); (102, false); (106, false); (111, false); (116, false); (125, false); (125, true);
     (129, false); (134, false)] /\
  gaps_ok 2 5 (fst (run_script (cfg_plain 2 5 false) 100 mixed_script)) = true /\
  waits_ok 2 5 (fst (run_script (cfg_plain 2 5 false) 100 mixed_script)) = true /\
  fst (snd (run_script (cfg_plain 2 5 false) 100 mixed_script)) = PcDone REnd.
Proof. vm_compute. repeat split; reflexivity. Qed.

(* disconnect() during the second one-second sleep of the wait after attempt 1: loop_forever returns,
   two attempts only *)
Example disconnect_in_wait_run :
  let cfg := mkcfg 1 8 false true (Some (mkact 1 (PWait 2) ADisconnect)) in
  let r := run_script cfg 0 [ClosedBeforeConnack; Refused; Refused; Refused] in
  attempts (fst r) = [(0, false); (1, false)] /\ fst (snd r) = PcDone (RRet 7) /\
  final_ok true (fst r) = true /\ has_act (fst r) = true.
Proof. vm_compute. repeat split; reflexivity. Qed.

(* reconnect_on_failure off: one loss ends the loop *)
Example rof_off_run :
  let cfg := mkcfg 1 8 false false None in
  let r := run_script cfg 0 [Accepted 3; Refused] in
  attempts (fst r) = [(0, false)] /\ fst (snd r) = PcDone (RRet 7) /\ final_ok false (fst r) = true.
Proof. vm_compute. repeat split; reflexivity. Qed.
