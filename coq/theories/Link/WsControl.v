(* M3 Link / WebSocket sender with control frames (property C06).  Model only, no proofs.
   The two places of _WebsocketWrapper that write: _send_impl (data frames, Link/WsWriter.ws_send) and
   _send_control_frame (PONG in reply to PING, CLOSE in reply to CLOSE, called from _recv_impl).  Both append the frame
   they create to the ONE buffer _sendbuffer and then offer the whole buffer to the raw socket once; bytes leave from
   the front.  _data_pending tells _send_impl whether the data frame of the packet offered last is still (partly) in the
   buffer; a control frame does not touch it.
   [Before /repo commit 9acff76 the control frame was given to the raw socket directly: F-C06c/d.] *)
From PahoV Require Import Base.Prelude Link.Writer Link.WsWriter.

Inductive wop :=
| WData (d : list Z) (o : outcome)               (* _send_impl(d); the raw send() behaves as o *)
| WCtl (opcode : Z) (d : list Z) (o : outcome).  (* _send_control_frame(opcode, d) *)

(* result of one call: bytes reported as written | BlockingIOError | OSError | ValueError *)
Definition res_code (r : sendres) : Z :=
  match r with SWrote n => n | SBlock => -1 | SFail => -2 | SFailV => -3 end.

(* _send_control_frame(opcode, payload) *)
Definition ws_ctl (keyf : nat -> list Z) (t : wsst) (opcode : Z) (d : list Z) (o : outcome)
  : sendres * wsst * list Z :=
  match create_frame opcode d 1 (keyf (nframes t)) with
  | None => (SFailV, mkws (sendbuf t) (req t) (S (nframes t)) (pend t), [])
  | Some frame =>
      let buf1 := sendbuf t ++ frame in
      let t1 := mkws buf1 (req t) (S (nframes t)) (pend t) in
      match o with
      | Accept k =>
          let n := clip k (zlen buf1) in
          (SWrote 0, mkws (zskip n buf1) (req t) (S (nframes t)) (pend t), ztake n buf1)
      | Block => (SBlock, t1, [])
      | Fail => (SFail, t1, [])
      | FailV => (SFailV, t1, [])
      end
  end.

Record wrun := mkwr {
  w_t : wsst;
  w_wire : list Z;                          (* bytes the raw socket accepted, oldest first *)
  w_frames : list (Z * list Z * list Z);    (* ghost: (opcode, payload, key) of every frame created, oldest first *)
  w_res : list Z                            (* result of every call, oldest first *)
}.

Definition wr_init : wrun := mkwr ws_init [] [] [].

Definition wstep (keyf : nat -> list Z) (r : wrun) (op : wop) : wrun :=
  let t := w_t r in
  match op with
  | WData d o =>
      let '(res, t', raw, _) := ws_send keyf t d [o] in
      let created :=
        if negb (pend t) then
          match create_frame 2 d 1 (keyf (nframes t)) with Some _ => [(2, d, keyf (nframes t))] | None => [] end
        else [] in
      mkwr t' (w_wire r ++ raw) (w_frames r ++ created) (w_res r ++ [res_code res])
  | WCtl opcode d o =>
      let '(res, t', raw) := ws_ctl keyf t opcode d o in
      let created :=
        match create_frame opcode d 1 (keyf (nframes t)) with Some _ => [(opcode, d, keyf (nframes t))] | None => [] end in
      mkwr t' (w_wire r ++ raw) (w_frames r ++ created) (w_res r ++ [res_code res])
  end.

Definition wrun_ops (keyf : nat -> list Z) (ops : list wop) : wrun := fold_left (wstep keyf) ops wr_init.

(* the bytes of a created frame *)
Definition frame_bytes (f : Z * list Z * list Z) : list Z :=
  let '(opcode, d, key) := f in
  match create_frame opcode d 1 key with Some b => b | None => [] end.

(* ------------------------------------------------------------------ correspondence entry
   entry 4: [nkeys; 4*nkeys key bytes; ops...]; op = [kind (0 data, 1 control); opcode; outcome (0 accept k, 1 block,
   2 OSError, 3 ValueError); k; len; bytes...]
   result: per op [result; len sendbuf; pend; req] ..., then -9, the wire bytes *)
Definition dec_out (c k : Z) : outcome :=
  if c =? 0 then Accept k else if c =? 1 then Block else if c =? 2 then Fail else FailV.

Fixpoint dec_wops (fuel : nat) (l : list Z) : list wop :=
  match fuel with
  | O => []
  | S f =>
      match l with
      | kind :: opcode :: oc :: k :: len :: r =>
          let d := ztake len r in
          (if kind =? 0 then WData d (dec_out oc k) else WCtl opcode d (dec_out oc k)) :: dec_wops f (zskip len r)
      | _ => []
      end
  end.

Fixpoint trace_ops (keyf : nat -> list Z) (r : wrun) (ops : list wop) : list Z * wrun :=
  match ops with
  | [] => ([], r)
  | op :: ops' =>
      let r1 := wstep keyf r op in
      let '(out, rf) := trace_ops keyf r1 ops' in
      (last (w_res r1) 0 :: zlen (sendbuf (w_t r1)) :: (if pend (w_t r1) then 1 else 0) :: req (w_t r1) :: out, rf)
  end.

Definition entry_wsctl (args : list Z) : list Z :=
  match args with
  | nk :: rest =>
      let '(ks, rest') := dec_keys (Z.to_nat nk) rest in
      let keyf := fun n => nth n ks (last ks [0; 0; 0; 0]) in
      let '(out, rf) := trace_ops keyf wr_init (dec_wops (length rest') rest') in
      out ++ [-9] ++ w_wire rf
  | _ => []
  end.
