(* Generic machinery for the Conn proofs: checker state of the trace kept in the model state,
   lifting of a per-operation preservation lemma to whole runs, projections of the setters. *)
From PahoV Require Import Base.Prelude Link.Conn Link.ConnCheck.

(* checker state after the events accumulated in the model state (newest first) *)
Definition KS {K} (kev : K -> event -> K) (k0 : K) (s : st) : K :=
  fold_right (fun e k => kev k e) k0 (tr s).

Lemma KS_emit {K} (kev : K -> event -> K) k0 e s : KS kev k0 (emit e s) = kev (KS kev k0 s) e.
Proof. reflexivity. Qed.

Lemma fold_left_rev_KS {K} (kev : K -> event -> K) k0 s :
  fold_left kev (rev (tr s)) k0 = KS kev k0 s.
Proof.
  unfold KS. rewrite <- (rev_involutive (tr s)) at 2. rewrite fold_left_rev_right. reflexivity.
Qed.

(* projections through the setters: all by computation *)
Ltac ssimpl :=
  cbn [cs sock regw outq ping incb cq proto nsock sched scr tr
       emit set_cs set_sock set_regw set_outq set_ping set_incb set_cq set_proto set_nsock set_sched set_scr
       push_front obs fst snd] in *.

Lemma KS_frame {K} (kev : K -> event -> K) k0 s s' : tr s' = tr s -> KS kev k0 s' = KS kev k0 s.
Proof. unfold KS. intros ->. reflexivity. Qed.

(* ---- lifting a per-operation lemma to runs ---- *)
Section Lift.
Context {K : Type}.
Variables (kev : K -> event -> K) (fin : K -> K) (okb : K -> bool).
Variable c : cfg.
Variable hyp : st -> op -> bool.
Variable Top : st -> K -> Prop.
Hypothesis Top_ok : forall s k, Top s k -> okb k = true.
Hypothesis Top_step : forall s k o, Top s k -> hyp s o = true ->
  Top (fst (step c s o)) (fin (fold_left kev (snd (step c s o)) k)).

Fixpoint hyp_from (s : st) (ops : list op) : bool :=
  match ops with
  | [] => true
  | o :: r => hyp s o && hyp_from (fst (step c s o)) r
  end.

Lemma run_checker_inv : forall ops s k, Top s k -> hyp_from s ops = true ->
  okb (run_checker kev fin k (map snd (run_steps c s ops))) = true.
Proof.
  induction ops as [|o ops IH]; intros s k HT Hh; cbn [run_steps map run_checker fold_left].
  - eapply Top_ok; eassumption.
  - cbn [hyp_from] in Hh. apply andb_true_iff in Hh as [H1 H2].
    pose proof (Top_step s k o HT H1) as HT'.
    destruct (step c s o) as [s' ev] eqn:E. cbn [fst snd map fold_left] in *.
    unfold run_checker in IH. apply IH with (s := s'); assumption.
Qed.
End Lift.

(* a hypothesis that does not look at the state *)
Lemma hyp_from_static (c : cfg) (h : op -> bool) : forall ops s,
  forallb h ops = true -> hyp_from c (fun _ o => h o) s ops = true.
Proof.
  induction ops as [|o ops IH]; intros s H; cbn [hyp_from forallb] in *; [reflexivity|].
  apply andb_true_iff in H as [H1 H2]. rewrite H1. cbn. apply IH. exact H2.
Qed.

Lemma hyp_from_and (c : cfg) (h1 h2 : st -> op -> bool) : forall ops s,
  hyp_from c h1 s ops = true -> hyp_from c h2 s ops = true ->
  hyp_from c (fun s o => h1 s o && h2 s o) s ops = true.
Proof.
  induction ops as [|o ops IH]; intros s A B; cbn [hyp_from] in *; [reflexivity|].
  apply andb_true_iff in A as [A1 A2]. apply andb_true_iff in B as [B1 B2].
  rewrite A1, B1. cbn. apply IH; assumption.
Qed.

(* ---- scripts: popping ---- *)
Definition is_pubsub (a : acall) : bool := match a with APublish0 | ASubscribe => true | _ => false end.
Definition script_noreconn (sc : list acall) : bool := negb (existsb is_reconnect sc).
Definition queue_noreconn (q : list (list acall)) : bool := forallb script_noreconn q.
Definition scr_noreconn (q : scripts) : bool :=
  queue_noreconn (q_connect q) && queue_noreconn (q_disconnect q) && queue_noreconn (q_open q)
  && queue_noreconn (q_close q) && queue_noreconn (q_regw q) && queue_noreconn (q_unregw q)
  && queue_noreconn (q_publish q) && queue_noreconn (q_discopen q).

Lemma pop_list_noreconn q : queue_noreconn q = true ->
  script_noreconn (fst (pop_list q)) = true /\ queue_noreconn (snd (pop_list q)) = true.
Proof.
  destruct q as [|x q]; cbn; [auto|]. intros H. apply andb_true_iff in H. exact H.
Qed.

Lemma pop_script_frame si s :
  let s' := snd (pop_script si s) in
  cs s' = cs s /\ sock s' = sock s /\ regw s' = regw s /\ outq s' = outq s /\ ping s' = ping s /\
  incb s' = incb s /\ cq s' = cq s /\ proto s' = proto s /\ nsock s' = nsock s /\ sched s' = sched s /\ tr s' = tr s.
Proof.
  destruct si; unfold pop_script;
    match goal with |- context [pop_list ?l] => destruct (pop_list l) end; cbn; repeat split.
Qed.

Lemma pop_script_noreconn si s : scr_noreconn (scr s) = true ->
  script_noreconn (fst (pop_script si s)) = true /\ scr_noreconn (scr (snd (pop_script si s))) = true.
Proof.
  unfold scr_noreconn. intros H. repeat (apply andb_true_iff in H as [H ?]).
  destruct si; unfold pop_script;
    match goal with |- context [pop_list ?l] =>
      let P := fresh in pose proof (pop_list_noreconn l ltac:(assumption)) as P; destruct (pop_list l); destruct P end;
    cbn [fst snd scr set_scr q_connect q_disconnect q_open q_close q_regw q_unregw q_publish q_discopen];
    (split; [assumption|]); repeat (apply andb_true_iff; split); assumption.
Qed.

Lemma existsb_app_false {A} (f : A -> bool) l1 l2 : existsb f (l1 ++ l2) = false -> existsb f l1 = false /\ existsb f l2 = false.
Proof. rewrite existsb_app. intros H. apply orb_false_iff in H. exact H. Qed.

Lemma queue_noreconn_of q : existsb (existsb is_reconnect) q = false -> queue_noreconn q = true.
Proof.
  induction q as [|x q IH]; cbn; [reflexivity|]. intros H. apply orb_false_iff in H as [H1 H2].
  unfold script_noreconn. rewrite H1. cbn. apply IH. exact H2.
Qed.

Lemma scr_noreconn_of q : script_has_reconnect q = false -> scr_noreconn q = true.
Proof.
  unfold script_has_reconnect, all_scripts, scr_noreconn. intros H.
  repeat (apply existsb_app_false in H as [?%queue_noreconn_of H]).
  apply queue_noreconn_of in H.
  repeat (apply andb_true_iff; split); assumption.
Qed.

(* ---- a nested script run while no socket is held and without reconnect(): it can only record its
   calls and (disconnect()) change the state ---- *)
Definition tev (e : event) : bool := match e with Call _ | Fuel => true | _ => false end.
Definition tev_ps (e : event) : bool :=
  match e with Call CPublish | Call CSubscribe | Fuel => true | _ => false end.

Record same_core (s s' : st) : Prop := mkCore {
  co_sock : sock s' = sock s; co_regw : regw s' = regw s; co_outq : outq s' = outq s;
  co_scr : scr s' = scr s; co_nsock : nsock s' = nsock s; co_proto : proto s' = proto s;
  co_ping : ping s' = ping s; co_incb : incb s' = incb s; co_sched : sched s' = sched s; co_cq : cq s' = cq s }.

Definition teardown_rel (s s' : st) : Prop :=
  same_core s s' /\ (cs s' = cs s \/ cs s' = CsDisconnected) /\
  exists evs, tr s' = evs ++ tr s /\ Forall (fun e => tev e = true) evs.
Definition teardown_rel_ps (s s' : st) : Prop :=
  same_core s s' /\ cs s' = cs s /\
  exists evs, tr s' = evs ++ tr s /\ Forall (fun e => tev_ps e = true) evs.

Lemma same_core_refl s : same_core s s.
Proof. constructor; reflexivity. Qed.
Lemma same_core_trans s1 s2 s3 : same_core s1 s2 -> same_core s2 s3 -> same_core s1 s3.
Proof. intros [] []. constructor; congruence. Qed.

Lemma teardown_rel_refl s : teardown_rel s s.
Proof. split; [apply same_core_refl|]. split; [left; reflexivity|]. exists []. split; [reflexivity|constructor]. Qed.
Lemma teardown_rel_ps_refl s : teardown_rel_ps s s.
Proof. split; [apply same_core_refl|]. split; [reflexivity|]. exists []. split; [reflexivity|constructor]. Qed.

Lemma teardown_rel_trans s1 s2 s3 : teardown_rel s1 s2 -> teardown_rel s2 s3 -> teardown_rel s1 s3.
Proof.
  intros (A & B & evs1 & C1 & C2) (A' & B' & evs2 & D1 & D2).
  split; [eapply same_core_trans; eassumption|]. split.
  - destruct B' as [B'|B']; [rewrite B'; exact B | right; exact B'].
  - exists (evs2 ++ evs1). split; [rewrite D1, C1, app_assoc; reflexivity|]. apply Forall_app; split; assumption.
Qed.
Lemma teardown_rel_ps_trans s1 s2 s3 : teardown_rel_ps s1 s2 -> teardown_rel_ps s2 s3 -> teardown_rel_ps s1 s3.
Proof.
  intros (A & B & evs1 & C1 & C2) (A' & B' & evs2 & D1 & D2).
  split; [eapply same_core_trans; eassumption|]. split; [congruence|].
  exists (evs2 ++ evs1). split; [rewrite D1, C1, app_assoc; reflexivity|]. apply Forall_app; split; assumption.
Qed.

Lemma teardown_rel_ps_weaken s s' : teardown_rel_ps s s' -> teardown_rel s s'.
Proof.
  intros (A & B & evs & C1 & C2). split; [exact A|]. split; [left; exact B|]. exists evs. split; [exact C1|].
  eapply Forall_impl; [|exact C2]. intros e. destruct e as [| | | | | | | | | |x| | | | |]; cbn; try discriminate; try reflexivity.
Qed.

Section Teardown.
Variable c : cfg.
Variable nested : list acall -> st -> st.

Lemma api_nested_teardown a s : is_reconnect a = false -> sock s = None ->
  teardown_rel s (api_nested c nested a s).
Proof.
  intros Ha Hs. destruct a; try discriminate Ha; cbn [api_nested].
  - unfold api_send. ssimpl. rewrite Hs. cbn [fst].
    split; [constructor; reflexivity|]. split; [left; reflexivity|]. exists [Call CPublish]. split; [reflexivity|repeat constructor].
  - unfold api_send. ssimpl. rewrite Hs. cbn [fst].
    split; [constructor; reflexivity|]. split; [left; reflexivity|]. exists [Call CSubscribe]. split; [reflexivity|repeat constructor].
  - unfold api_disconnect. ssimpl. rewrite Hs. cbn [fst].
    split; [constructor; reflexivity|]. split; [right; reflexivity|]. exists [Call CDisconnect]. split; [reflexivity|repeat constructor].
Qed.

Lemma api_nested_teardown_ps a s : is_pubsub a = true -> sock s = None ->
  teardown_rel_ps s (api_nested c nested a s).
Proof.
  intros Ha Hs. destruct a; try discriminate Ha; cbn [api_nested].
  - unfold api_send. ssimpl. rewrite Hs. cbn [fst].
    split; [constructor; reflexivity|]. split; [reflexivity|]. exists [Call CPublish]. split; [reflexivity|repeat constructor].
  - unfold api_send. ssimpl. rewrite Hs. cbn [fst].
    split; [constructor; reflexivity|]. split; [reflexivity|]. exists [Call CSubscribe]. split; [reflexivity|repeat constructor].
Qed.

Lemma exec_teardown : forall sc s, script_noreconn sc = true -> sock s = None ->
  teardown_rel s (exec_script c nested sc s).
Proof.
  unfold script_noreconn. induction sc as [|a sc IH]; intros s H Hs; cbn [exec_script fold_left].
  - apply teardown_rel_refl.
  - cbn [existsb] in H. apply negb_true_iff in H. apply orb_false_iff in H as [H1 H2].
    pose proof (api_nested_teardown a s H1 Hs) as R1.
    eapply teardown_rel_trans; [exact R1|]. apply IH.
    + rewrite H2. reflexivity.
    + destruct R1 as ([] & _). congruence.
Qed.

Lemma exec_teardown_ps : forall sc s, forallb is_pubsub sc = true -> sock s = None ->
  teardown_rel_ps s (exec_script c nested sc s).
Proof.
  induction sc as [|a sc IH]; intros s H Hs; cbn [exec_script fold_left].
  - apply teardown_rel_ps_refl.
  - cbn [forallb] in H. apply andb_true_iff in H as [H1 H2].
    pose proof (api_nested_teardown_ps a s H1 Hs) as R1.
    eapply teardown_rel_ps_trans; [exact R1|]. apply IH; [exact H2|].
    destruct R1 as ([] & _). congruence.
Qed.
End Teardown.

Lemma nested_at_teardown c d sc s : script_noreconn sc = true -> sock s = None ->
  teardown_rel s (nested_at c d sc s).
Proof.
  destruct d; cbn [nested_at]; intros H Hs.
  - split; [constructor; reflexivity|]. split; [left; reflexivity|]. exists [Fuel]. split; [reflexivity|repeat constructor].
  - apply exec_teardown; assumption.
Qed.
Lemma nested_at_teardown_ps c d sc s : forallb is_pubsub sc = true -> sock s = None ->
  teardown_rel_ps s (nested_at c d sc s).
Proof.
  destruct d; cbn [nested_at]; intros H Hs.
  - split; [constructor; reflexivity|]. split; [reflexivity|]. exists [Fuel]. split; [reflexivity|repeat constructor].
  - apply exec_teardown_ps; assumption.
Qed.

(* checker state across events a checker ignores *)
Lemma KS_ignored {K} (kev : K -> event -> K) (ign : event -> bool) k0 s s' evs :
  (forall k e, ign e = true -> kev k e = k) ->
  tr s' = evs ++ tr s -> Forall (fun e => ign e = true) evs -> KS kev k0 s' = KS kev k0 s.
Proof.
  intros Hi Ht Hf. unfold KS. rewrite Ht. clear Ht.
  induction Hf as [|e evs He Hf IH]; cbn [app fold_right]; [reflexivity|].
  rewrite Hi; assumption.
Qed.

(* the per-packet result [raw_read] used by the multi-packet loop_read is the one [loop_read] looks at *)
Lemma loop_read_raw c nested i s :
  loop_read c nested i s =
  match sock s with
  | None => (s, Some E_NO_CONN)
  | Some id0 => after_read c nested id0 (raw_read c nested i s)
  end.
Proof.
  unfold loop_read, raw_read. destruct (sock s) as [id0|]; [|reflexivity].
  destruct i; try reflexivity.
  - destruct ((proto s =? 4) && (rc =? 1)); reflexivity.
  - destruct (proto s =? 4); reflexivity.
  - destruct (proto s =? 5); [|reflexivity].
    unfold handle_server_disconnect. destruct (lost c nested RServerDisc rc true s). reflexivity.
  - destruct (packet_queue c nested KOther s); reflexivity.
Qed.
