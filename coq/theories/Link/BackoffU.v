(* C09: branch-free ("uniform") specifications of the callbacks and of the other primitives of
   Link/Backoff.v: the new state is described through the boolean observations the invariants use,
   in terms of fresh booleans (did the application act here? was it disconnect()?). *)
From Coq Require Import Btauto.
From PahoV Require Import Base.Prelude Link.Backoff Link.BackoffProofs.

Lemma chk_cons {C} (f : C -> bev -> option C) c e r :
  chk f c (e :: r) = match f c e with Some c' => chk f c' r | None => None end.
Proof. reflexivity. Qed.
Lemma chk_nil {C} (f : C -> bev -> option C) c : chk f c [] = Some c.
Proof. reflexivity. Qed.

Definition is_pending (k : sockst) : bool := match k with Pending _ => true | _ => false end.
Definition is_nosock (k : sockst) : bool := match k with NoSock => true | _ => false end.
Definition is_afterwait (p : pc) : bool := match p with PcAfterWait _ => true | _ => false end.
Definition act_ev (t : Z) (fired : bool) (k : akind) : list bev := if fired then [EvAct t k] else [].

(* what an application action leaves untouched / how it shows in the observations *)
Definition acted_u (s s1 : bst) (fired fd : bool) : Prop :=
  b_delay s1 = b_delay s /\ b_sock s1 = b_sock s /\ b_p311 s1 = b_p311 s /\
  b_script s1 = b_script s /\ b_n s1 = b_n s /\
  b_acted s1 = b_acted s || fired /\
  b_term s1 = b_term s || (fired && negb fd) /\
  disc_like (b_cs s1) = disc_like (b_cs s) || fd /\
  is_async (b_cs s1) = is_async (b_cs s) && negb fd /\
  b_outq s1 = b_outq s || (fd && negb (is_nosock (b_sock s))) /\
  fired && b_acted s = false /\ fd && negb fired = false.

Lemma apply_act_u k s : b_acted s = false ->
  exists fd, b_now (apply_act k s) = b_now s /\ acted_u s (apply_act k s) true fd.
Proof.
  intros Ha. destruct s as [nw dl cs sk p3 tm oq sc n ac]. bproj. subst ac.
  destruct k.
  - exists true. unfold apply_act, acted_u. destruct sk; bproj; cbn [disc_like is_async is_nosock negb andb orb];
      rewrite ?orb_true_r, ?orb_false_r, ?andb_false_r, ?andb_true_r; repeat split; reflexivity.
  - exists false. unfold apply_act, acted_u. bproj. cbn [negb andb orb is_nosock].
    rewrite ?orb_true_r, ?orb_false_r, ?andb_false_r, ?andb_true_r. repeat split; reflexivity.
Qed.

Lemma acted_u_refl s : acted_u s s false false.
Proof.
  unfold acted_u. cbn [negb andb orb]. rewrite ?orb_false_r, ?andb_true_r. repeat split; reflexivity.
Qed.

Lemma callback_u cfg pl rc s s1 e1 : callback cfg pl rc s = (s1, e1) ->
  exists fired fd k,
    b_now s1 = b_now s /\ acted_u s s1 fired fd /\
    e1 = EvCb (b_now s) pl rc :: act_ev (b_now s) fired k.
Proof.
  unfold callback. destruct (wants cfg s pl) as [k|] eqn:W; intros H; inv H.
  - destruct (apply_act_u k s (wants_acted _ _ _ _ W)) as (fd & Hn & Hu).
    exists true, fd, k. split; [exact Hn|]. split; [exact Hu|reflexivity].
  - exists false, false, ADisconnect. split; [reflexivity|]. split; [apply acted_u_refl|reflexivity].
Qed.

(* _reconnect_wait: new delay, time passes (fully, or up to the action), possibly an action *)
Lemma reconnect_wait_u cfg s s1 e1 : reconnect_wait cfg s = (s1, e1) ->
  exists fired fd k slept,
    let d := next_delay cfg (b_delay s) in
    b_delay s1 = Some d /\ b_now s1 = b_now s + slept /\
    acted_u (set_delay (Some d) s) s1 fired fd /\
    e1 = EvWait (b_now s) d slept :: act_ev (b_now s + slept) fired k /\
    (should_exit s = true -> slept = 0 /\ fired = false) /\
    (should_exit s = false -> fired = false -> slept = Z.max 0 d) /\
    (fired = true -> 1 <= slept <= d).
Proof.
  intros H. apply reconnect_wait_spec in H. set (d := next_delay cfg (b_delay s)) in *.
  destruct H as (Hd & Hsk & Hp & Hsc & Hn & [(Hse & -> & ->)|[(Hse & -> & ->)|(Hse & j & k & Hj & Hnow & A & ->)]]).
  - exists false, false, ADisconnect, 0. cbn zeta. bproj. split; [reflexivity|]. split; [lia|].
    split; [apply acted_u_refl|]. split; [reflexivity|]. repeat split; try congruence; try lia.
  - exists false, false, ADisconnect, (Z.max 0 d). cbn zeta. bproj. split; [reflexivity|]. split; [reflexivity|].
    split.
    + unfold acted_u. bproj. cbn [negb andb orb]. rewrite ?orb_false_r, ?andb_true_r. repeat split; reflexivity.
    + split; [reflexivity|]. repeat split; try congruence; try lia.
  - unfold acted_from in A. destruct A as (Ha & Ha1 & Hse1 & Hwhy).
    assert (Hfd : exists fd, acted_u (set_delay (Some d) s) s1 true fd).
    { unfold acted_u, should_exit in *. bproj.
      destruct Hwhy as [(T & C & O)|[(T & S & C & O)|(T & S & C & O)]].
      - exists false. rewrite Ha, T, C, O. cbn [negb andb orb]. rewrite ?orb_true_r, ?orb_false_r.
        repeat split; try assumption; try reflexivity; try congruence; try btauto.
      - exists true. rewrite Ha, T, C, O, S. cbn [negb andb orb disc_like is_async is_nosock].
        rewrite ?orb_true_r, ?orb_false_r, ?andb_false_r. repeat split; try assumption; try reflexivity; try congruence; try btauto.
      - exists true. rewrite Ha, T, C, O. cbn [negb andb orb disc_like is_async].
        rewrite ?orb_true_r, ?orb_false_r, ?andb_false_r.
        assert (is_nosock (b_sock s) = false) as -> by (destruct (b_sock s); [congruence|reflexivity|reflexivity]).
        repeat split; try assumption; try reflexivity; try congruence; try btauto. }
    destruct Hfd as (fd & Hu).
    exists true, fd, k, j. cbn zeta. split; [exact Hd|]. split; [exact Hnow|]. split; [exact Hu|].
    split; [reflexivity|]. repeat split; try congruence; try lia.
Qed.

Lemma disc_like_closed (d : bool) : disc_like (if d then BDisconnected else BLost) = d.
Proof. destruct d; reflexivity. Qed.
Lemma is_async_closed (d : bool) : is_async (if d then BDisconnected else BLost) = false.
Proof. destruct d; reflexivity. Qed.

(* _loop_rc_handle(rc) after an error: socket closed, state LOST / DISCONNECTED, on_disconnect *)
Lemma failed_u cfg rc s :
  exists rc' s3 fired fd k,
    failed cfg rc s = LRet rc' s3 (EvFail (b_now s) :: EvCb (b_now s) PDisconnect rc' :: act_ev (b_now s) fired k) /\
    rc' = (if disc_like (b_cs s) then 0 else rc) /\
    b_now s3 = b_now s /\ b_delay s3 = b_delay s /\ b_sock s3 = NoSock /\ b_p311 s3 = b_p311 s /\
    b_script s3 = b_script s /\ b_n s3 = b_n s /\
    b_acted s3 = b_acted s || fired /\
    b_term s3 = b_term s || (fired && negb fd) /\
    disc_like (b_cs s3) = disc_like (b_cs s) || fd /\
    is_async (b_cs s3) = false /\
    b_outq s3 = b_outq s /\
    fired && b_acted s = false /\ fd && negb fired = false.
Proof.
  unfold failed, rc_handle. bproj.
  set (s2 := if disc_like (b_cs s) then set_cs BDisconnected (set_sock NoSock s) else set_cs BLost (set_sock NoSock s)).
  destruct (callback cfg PDisconnect (if disc_like (b_cs s) then 0 else rc) s2) as [s3 e] eqn:Ecb.
  apply callback_u in Ecb. destruct Ecb as (fired & fd & k & Hn & Hu & ->).
  unfold acted_u in Hu. destruct Hu as (U1 & U2 & U3 & U4 & U5 & U6 & U7 & U8 & U9 & U10 & U11 & U12).
  assert (Hs2 : b_now s2 = b_now s /\ b_delay s2 = b_delay s /\ b_sock s2 = NoSock /\ b_p311 s2 = b_p311 s /\
                b_script s2 = b_script s /\ b_n s2 = b_n s /\ b_acted s2 = b_acted s /\ b_term s2 = b_term s /\
                b_outq s2 = b_outq s /\ disc_like (b_cs s2) = disc_like (b_cs s) /\ is_async (b_cs s2) = false).
  { unfold s2. destruct (disc_like (b_cs s)) eqn:Ed; bproj; repeat split; reflexivity. }
  destruct Hs2 as (S1 & S2 & S3 & S4 & S5 & S6 & S7 & S8 & S9 & S10 & S11).
  exists (if disc_like (b_cs s) then 0 else rc), s3, fired, fd, k.
  rewrite S1 in *. split; [reflexivity|]. split; [reflexivity|].
  rewrite S3 in *. cbn [is_nosock negb] in U10. rewrite andb_false_r, orb_false_r in U10.
  repeat split; try congruence.
  - rewrite U9, S11. reflexivity.
Qed.

Definition after_disc (c : bcs) : bcs := match c with BDisconnecting => BDisconnected | _ => c end.
Lemma disc_like_after c : disc_like (after_disc c) = disc_like c. Proof. destruct c; reflexivity. Qed.
Lemma is_async_after c : is_async (after_disc c) = is_async c. Proof. destruct c; reflexivity. Qed.

(* DISCONNECT written: on_disconnect(0), socket closed *)
Lemma write_disconnect_u cfg s s2 e : write_disconnect cfg s = (s2, e) ->
  exists fired fd k,
    e = EvCb (b_now s) PDisconnect 0 :: act_ev (b_now s) fired k /\
    b_now s2 = b_now s /\ b_delay s2 = b_delay s /\ b_sock s2 = NoSock /\ b_p311 s2 = b_p311 s /\
    b_script s2 = b_script s /\ b_n s2 = b_n s /\
    b_acted s2 = b_acted s || fired /\
    b_term s2 = b_term s || (fired && negb fd) /\
    disc_like (b_cs s2) = disc_like (b_cs s) || fd /\
    is_async (b_cs s2) = is_async (b_cs s) && negb fd /\
    b_outq s2 = fd && negb (is_nosock (b_sock s)) /\
    fired && b_acted s = false /\ fd && negb fired = false.
Proof.
  unfold write_disconnect.
  destruct (callback cfg PDisconnect 0 (set_outq false s)) as [s1 e1] eqn:Ecb. intros H.
  apply callback_u in Ecb. destruct Ecb as (fired & fd & k & Hn & Hu & ->). bproj.
  unfold acted_u in Hu. bproj. destruct Hu as (U1 & U2 & U3 & U4 & U5 & U6 & U7 & U8 & U9 & U10 & U11 & U12).
  assert (Hs2 : s2 = set_cs (after_disc (b_cs s1)) (set_sock NoSock s1)).
  { inv H. destruct s1 as [a b c d0 e0 f g h i j]. bproj. destruct c; reflexivity. }
  assert (He : e = EvCb (b_now s) PDisconnect 0 :: act_ev (b_now s) fired k) by (inv H; reflexivity).
  subst s2 e. clear H. exists fired, fd, k. bproj. rewrite disc_like_after, is_async_after.
  cbn [orb] in U10.
  repeat split; try congruence.
Qed.

Lemma refused_connack_u cfg code s :
  exists rc' s2 f1 d1 k1 f2 d2 k2,
    refused_connack cfg code s =
      LRet rc' s2 ((EvCb (b_now s) PConnect code :: act_ev (b_now s) f1 k1) ++
                   EvFail (b_now s) :: EvCb (b_now s) PDisconnect rc' :: act_ev (b_now s) f2 k2) /\
    rc' = (if disc_like (b_cs s) || d1 then 0 else 5) /\
    b_now s2 = b_now s /\ b_delay s2 = b_delay s /\ b_sock s2 = NoSock /\ b_p311 s2 = b_p311 s /\
    b_script s2 = b_script s /\ b_n s2 = b_n s /\
    b_acted s2 = b_acted s || f1 || f2 /\
    b_term s2 = b_term s || (f1 && negb d1) || (f2 && negb d2) /\
    disc_like (b_cs s2) = disc_like (b_cs s) || d1 || d2 /\
    is_async (b_cs s2) = false /\
    b_outq s2 = b_outq s || (d1 && negb (is_nosock (b_sock s))) /\
    f1 && b_acted s = false /\ d1 && negb f1 = false /\
    f2 && (b_acted s || f1) = false /\ d2 && negb f2 = false.
Proof.
  unfold refused_connack.
  destruct (callback cfg PConnect code s) as [s1 e1] eqn:Ecb.
  apply callback_u in Ecb. destruct Ecb as (f1 & d1 & k1 & Hn & Hu & ->).
  unfold acted_u in Hu. destruct Hu as (U1 & U2 & U3 & U4 & U5 & U6 & U7 & U8 & U9 & U10 & U11 & U12).
  destruct (failed_u cfg 5 s1) as (rc' & s3 & f2 & d2 & k2 & E & Hrc & F1 & F2 & F3 & F4 & F5 & F6 & F7 & F8 & F9 & F10 & F11 & F12 & F13).
  rewrite E. exists rc', s3, f1, d1, k1, f2, d2, k2.
  rewrite Hn in *. split; [reflexivity|].
  rewrite U8 in Hrc. split; [exact Hrc|].
  repeat split; try congruence;
    try (rewrite F7, U6; reflexivity); try (rewrite F8, U7; reflexivity); try (rewrite F9, U8; reflexivity);
    try (rewrite F11, U10; reflexivity); try (rewrite U6 in F12; exact F12).
Qed.

Lemma do_reconnect_cases imm s :
  let s1 := set_n (b_n s + 1) (set_outq false (set_sock NoSock (set_cs BConnecting s))) in
  (b_script s = [] /\ do_reconnect imm s = RcEnd s1 [EvAttempt (b_now s) imm])
  \/ (exists r, b_script s = Refused :: r /\
        do_reconnect imm s = RcFail (set_script r s1) [EvAttempt (b_now s) imm])
  \/ (exists o r, b_script s = o :: r /\ o <> Refused /\
        do_reconnect imm s = RcOk (set_sock (Pending o) (set_script r s1)) [EvAttempt (b_now s) imm]).
Proof.
  cbn zeta. unfold do_reconnect. destruct (b_script s) as [|o r].
  - left. split; reflexivity.
  - destruct o; [right; left; eexists; split; reflexivity| | | |];
      right; right; eexists; eexists; (split; [reflexivity|split; [discriminate|reflexivity]]).
Qed.

(* ------------------------------------------------------------------ symbolic execution of one step *)

Lemma bt_imp b g : negb b || g = true -> b = true -> g = true.
Proof. destruct b, g; cbn; congruence. Qed.
Lemma bt_impf b g : b || g = true -> b = false -> g = true.
Proof. destruct b, g; cbn; congruence. Qed.
Lemma async_not_disc c : negb (is_async c) || negb (disc_like c) = true.
Proof. destruct c; reflexivity. Qed.

(* move every boolean equation of the context into the goal, then decide *)
Ltac btaut :=
  repeat match goal with
  | H : true = _ |- _ => symmetry in H
  | H : false = _ |- _ => symmetry in H
  end;
  repeat match goal with
  | H : ?b = true |- _ = true => revert H; apply bt_imp
  | H : ?b = false |- _ = true => revert H; apply bt_impf
  end;
  btauto.

(* name the fields of a state introduced by a spec and substitute what the spec says about them *)
Ltac absorb s :=
  destruct s; bproj;
  repeat match goal with
  | H : disc_like ?c = _ |- _ => is_var c; rewrite H in *; clear H
  | H : is_async ?c = _ |- _ => is_var c; rewrite H in *; clear H
  end;
  subst.

(* resolve the innermost scrutinee of the goal: primitives through their uniform specs *)
Ltac ustep1 :=
  match goal with
  | |- context [callback ?c ?p ?r ?s] =>
      let s1 := fresh "s" in let e1 := fresh "e" in let E := fresh "E" in
      destruct (callback c p r s) as [s1 e1] eqn:E; apply callback_u in E;
      destruct E as (? & ? & ? & ? & E & ?); unfold acted_u in E; bproj;
      destruct E as (? & ? & ? & ? & ? & ? & ? & ? & ? & ? & ? & ?); absorb s1
  | |- context [reconnect_wait ?c ?s] =>
      let s1 := fresh "s" in let e1 := fresh "e" in let E := fresh "E" in
      destruct (reconnect_wait c s) as [s1 e1] eqn:E; apply reconnect_wait_u in E; cbn zeta in E;
      destruct E as (? & ? & ? & ? & ? & ? & E & ? & ? & ? & ?); unfold acted_u in E; bproj;
      destruct E as (? & ? & ? & ? & ? & ? & ? & ? & ? & ? & ? & ?); absorb s1
  | |- context [write_disconnect ?c ?s] =>
      let s1 := fresh "s" in let e1 := fresh "e" in let E := fresh "E" in
      destruct (write_disconnect c s) as [s1 e1] eqn:E; apply write_disconnect_u in E; bproj;
      destruct E as (? & ? & ? & ? & ? & ? & ? & ? & ? & ? & ? & ? & ? & ? & ? & ? & ?); absorb s1
  | |- context [refused_connack ?c ?code ?s] =>
      let E := fresh "E" in let s1 := fresh "s" in
      destruct (refused_connack_u c code s) as (? & s1 & ? & ? & ? & ? & ? & ? & E & ? & ? & ? & ? & ? & ? & ? & ? & ? & ? & ? & ? & ? & ? & ? & ?);
      rewrite E; clear E; bproj; absorb s1
  | |- context [failed ?c ?rc ?s] =>
      let E := fresh "E" in let s1 := fresh "s" in
      destruct (failed_u c rc s) as (? & s1 & ? & ? & ? & E & ? & ? & ? & ? & ? & ? & ? & ? & ? & ? & ? & ? & ? & ?);
      rewrite E; clear E; bproj; absorb s1
  | |- context [do_reconnect ?i ?s] =>
      let E := fresh "E" in
      destruct (do_reconnect_cases i s) as [(? & E)|[(? & ? & E)|(? & ? & ? & ? & E)]];
      cbn zeta in E; rewrite E; clear E; bproj; subst
  | |- context [match ?x with _ => _ end] =>
      lazymatch x with
      | context [match _ with _ => _ end] => fail
      | _ => destruct x eqn:?
      end
  end; bproj; cbn beta iota zeta.
Ltac usteps := repeat ustep1.
