(* C10 over the Conn model, part 1: the three checkers side by side, the invariant, and the
   characterisation of nested scripts that do not call reconnect(). *)
From PahoV Require Import Base.Prelude Link.Conn Link.ConnCheck Link.ConnInv Link.ConnStatements.

Record k10 := mkK10 { b1 : k1; b2 : k2; b3 : k3 }.
Definition k10_ev (k : k10) (e : event) : k10 := mkK10 (k1x_ev (b1 k) e) (k2_ev (b2 k) e) (k3_ev (b3 k) e).
Definition k10_fin (k : k10) : k10 := mkK10 (b1 k) (k2_fin (b2 k)) (b3 k).
Definition k10_init := mkK10 k1_init k2_init k3_init.
Definition k10_okb (k : k10) : bool := k1_ok (b1 k) && k2_ok (b2 k) && k3_ok (b3 k).

Lemma k10_fold evs : forall k,
  fold_left k10_ev evs k =
  mkK10 (fold_left k1x_ev evs (b1 k)) (fold_left k2_ev evs (b2 k)) (fold_left k3_ev evs (b3 k)).
Proof.
  induction evs as [|e evs IH]; intros k; cbn [fold_left]; [destruct k; reflexivity|].
  rewrite IH. reflexivity.
Qed.
Lemma k10_run tr : forall k,
  run_checker k10_ev k10_fin k tr =
  mkK10 (run_checker k1x_ev (fun k => k) (b1 k) tr) (run_checker k2_ev k2_fin (b2 k) tr)
        (run_checker k3_ev (fun k => k) (b3 k) tr).
Proof.
  unfold run_checker. induction tr as [|evs tr IH]; intros k; cbn [fold_left]; [destruct k; reflexivity|].
  rewrite IH, k10_fold. reflexivity.
Qed.

(* ---- queue shapes ---- *)
Definition nocon (q : list qpkt) : bool := forallb (fun x => negb (is_connect (qk x))) q.
Definition wire_okb (phase : Z) (q : list qpkt) : bool :=
  if phase =? 0 then match q with p :: r => is_connect (qk p) && nocon r | [] => false end
  else (phase =? 1) && nocon q.
Definition has_disc (q : list qpkt) : bool := existsb (fun x => is_disconnect (qk x)) q.

Lemma nocon_app a b : nocon (a ++ b) = nocon a && nocon b.
Proof. apply forallb_app. Qed.
Lemma wire_okb_app ph q a : wire_okb ph q = true -> nocon a = true -> wire_okb ph (q ++ a) = true.
Proof.
  unfold wire_okb. intros H Ha. destruct (ph =? 0).
  - destruct q as [|p r]; [discriminate|]. cbn [app]. apply andb_true_iff in H as [H1 H2].
    rewrite H1, nocon_app, H2, Ha. reflexivity.
  - apply andb_true_iff in H as [H1 H2]. rewrite H1, nocon_app, H2, Ha. reflexivity.
Qed.
Lemma has_disc_app a b : has_disc (a ++ b) = has_disc a || has_disc b.
Proof. apply existsb_app. Qed.

(* ---- the invariant at stable points ---- *)
(* w = false: a socket was just created and CONNECT is not queued yet (wire clause suspended) *)
Record V (w : bool) (s : st) (k : k10) : Prop := mkV {
  i_ok1 : k1_ok (b1 k) = true;
  i_ok2 : k2_ok (b2 k) = true;
  i_ok3 : k3_ok (b3 k) = true;
  i_cur1 : k1_cur (b1 k) = sock s;
  i_cur2 : k2_cur (b2 k) = sock s;
  i_cur3 : forall id, sock s = Some id -> k3_cur (b3 k) = id;
  i_conn : is_connected s = true -> k1_est (b1 k) = true /\ sock s <> None;
  i_owed : k2_owed (b2 k) = None;
  i_credit : k2_credit (b2 k) = None;
  i_disc : sock s <> None -> k2_disc (b2 k) = disc_state s;
  i_qdisc : has_disc (outq s) = true -> sock s <> None -> cs s = CsDisconnecting;
  i_wire : w = true -> sock s <> None -> wire_okb (k3_phase (b3 k)) (outq s) = true;
  i_new : w = false -> k3_phase (b3 k) = 0 /\ nocon (outq s) = true;
  i_dsock : cs s = CsDisconnected -> sock s = None;
  i_fresh : forall id, sock s = Some id -> id <= nsock s
}.

(* scripts allowed by the exclusions D and R *)
Definition scr_ok (q : scripts) : bool :=
  queue_noreconn (q_open q)
  && forallb (forallb is_pubsub) (q_close q) && forallb (forallb is_pubsub) (q_unregw q)
  && queue_noreconn (q_regw q).

(* ---- what a nested script without reconnect() does ---- *)
(* events: its own calls, a write registration with its callback entry, fuel *)
Definition qev (e : event) : bool :=
  match e with Call _ | RegW _ | Fuel | Deadlock | Obs (WCb SiRegW) _ _ _ _ => true | _ => false end.
(* a connected-observation can only be made if the state was connected to begin with *)
Definition obs_sound (conn0 : bool) (e : event) : Prop :=
  match e with Obs _ conn hs _ _ => conn = true -> conn0 = true /\ hs = true | _ => True end.
Definition has_call_disc (evs : list event) : bool :=
  existsb (fun e => match e with Call CDisconnect => true | _ => false end) evs.

Record quiet_rel (s s' : st) : Prop := mkQuiet {
  qr_sock : sock s' = sock s;
  qr_nsock : nsock s' = nsock s;
  qr_proto : proto s' = proto s;
  qr_ping : ping s' = ping s;
  qr_incb : incb s' = incb s;
  qr_cq : cq s' = cq s;
  qr_sched : sched s' = sched s;
  qr_scr : q_connect (scr s') = q_connect (scr s) /\ q_disconnect (scr s') = q_disconnect (scr s) /\
           q_open (scr s') = q_open (scr s) /\ q_close (scr s') = q_close (scr s) /\
           q_unregw (scr s') = q_unregw (scr s) /\ q_publish (scr s') = q_publish (scr s) /\
           q_discopen (scr s') = q_discopen (scr s) /\
           (queue_noreconn (q_regw (scr s)) = true -> queue_noreconn (q_regw (scr s')) = true);
  qr_outq : exists added, outq s' = outq s ++ added /\ nocon added = true /\ (sock s = None -> added = []) /\
            (has_disc added = true -> cs s' = CsDisconnecting);
  qr_regw : regw s = true -> regw s' = true;
  qr_regw_none : sock s = None -> regw s' = regw s;
  qr_tr : exists evs, tr s' = evs ++ tr s /\ Forall (fun e => qev e = true) evs /\
          Forall (obs_sound (is_connected s)) evs /\
          (* the state moves only through disconnect() *)
          (if has_call_disc evs
           then cs s' = (match sock s with Some _ => CsDisconnecting | None => CsDisconnected end)
           else cs s' = cs s)
}.

Lemma quiet_refl s : quiet_rel s s.
Proof.
  constructor; try reflexivity; try tauto.
  - exists []. rewrite app_nil_r. repeat split; auto; try discriminate.
  - exists []. repeat split; constructor.
Qed.

Lemma is_connected_disc s (x : option Z) : cs s = (match x with Some _ => CsDisconnecting | None => CsDisconnected end) ->
  is_connected s = false.
Proof. unfold is_connected. intros ->. destruct x; reflexivity. Qed.

Lemma quiet_trans s1 s2 s3 : quiet_rel s1 s2 -> quiet_rel s2 s3 -> quiet_rel s1 s3.
Proof.
  intros A B. destruct A as [A1 A2 A3 A4 A5 Acq A6 A7 A8 A9 A10 A11]. destruct B as [B1 B2 B3 B4 B5 Bcq B6 B7 B8 B9 B10 B11].
  constructor; try congruence.
  - destruct A7 as (a1 & a2 & a3 & a4 & a5 & a6 & a7 & a8). destruct B7 as (c1 & c2 & c3 & c4 & c5 & c6 & c7 & c8).
    repeat split; try congruence. auto.
  - destruct A8 as (x & X1 & X2 & X3 & X4). destruct B8 as (y & Y1 & Y2 & Y3 & Y4).
    exists (x ++ y). rewrite Y1, X1, app_assoc, nocon_app, X2, Y2. repeat split.
    + intros Hs. rewrite X3 by exact Hs. rewrite Y3; [reflexivity|congruence].
    + rewrite has_disc_app. intros H. apply orb_true_iff in H as [H|H]; [|exact (Y4 H)].
      specialize (X4 H). destruct B11 as (ev & _ & _ & _ & E).
      assert (Hs1 : sock s1 <> None). { intros Z0. rewrite (X3 Z0) in H. discriminate. }
      destruct (has_call_disc ev); [|congruence].
      rewrite E, A1. destruct (sock s1); [reflexivity|congruence].
  - auto.
  - intros Hs. rewrite B10, A10; congruence.
  - destruct A11 as (x & X1 & X2 & X3 & X4). destruct B11 as (y & Y1 & Y2 & Y3 & Y4).
    exists (y ++ x). rewrite Y1, X1, app_assoc. split; [reflexivity|]. split; [apply Forall_app; split; assumption|].
    split.
    + apply Forall_app. split; [|exact X3].
      eapply Forall_impl; [|exact Y3]. intros e. unfold obs_sound. destruct e; auto.
      intros H Hc. destruct (H Hc) as [H1 H2]. split; [|exact H2].
      (* connected in s2 -> connected in s1 *)
      destruct (has_call_disc x); [|unfold is_connected in *; rewrite X4 in H1; exact H1].
      rewrite (is_connected_disc s2 (sock s1) X4) in H1. discriminate.
    + unfold has_call_disc in *. rewrite existsb_app.
      destruct (existsb _ y) eqn:Ey; cbn [orb].
      * rewrite Y4, A1. reflexivity.
      * destruct (existsb _ x); rewrite Y4, X4; reflexivity.
Qed.

(* a nested call does not write: external-loop mode, or _in_callback_mutex is held, or the CONNECT of the
   socket is not queued yet *)
Definition NW (c : cfg) (s : st) : Prop := c_ext c = true \/ incb s = true \/ cq s = false.

Lemma quiet_emit e s : qev e = true -> obs_sound (is_connected s) e ->
  (match e with Call CDisconnect => False | _ => True end) -> quiet_rel s (emit e s).
Proof.
  intros He Ho Hd. constructor; ssimpl; try reflexivity; try tauto; try (repeat split; auto; fail).
  - exists []. rewrite app_nil_r. repeat split; auto; try discriminate.
  - exists [e]. split; [reflexivity|]. split; [repeat constructor; exact He|]. split; [repeat constructor; exact Ho|].
    unfold has_call_disc. cbn [existsb orb]. destruct e as [| | | | | | | | | |x| | | | |]; try reflexivity.
    destruct x; try reflexivity. destruct Hd.
Qed.

Lemma quiet_frame s s' :
  cs s' = cs s -> sock s' = sock s -> outq s' = outq s -> ping s' = ping s -> incb s' = incb s -> cq s' = cq s ->
  proto s' = proto s -> nsock s' = nsock s -> sched s' = sched s -> scr s' = scr s -> tr s' = tr s ->
  (regw s = true -> regw s' = true) -> (sock s = None -> regw s' = regw s) -> quiet_rel s s'.
Proof.
  intros. constructor; try assumption; try (rewrite H8; repeat split; auto; fail).
  - exists []. rewrite app_nil_r. repeat split; auto; try discriminate.
  - exists []. cbn. repeat split; auto; constructor.
Qed.

Section Quiet.
Variable c : cfg.
Variable nested : list acall -> st -> st.
Hypothesis Hq : forall sc s, NW c s -> script_noreconn sc = true ->
  queue_noreconn (q_regw (scr s)) = true -> quiet_rel s (nested sc s).

Lemma NW_quiet s s' : quiet_rel s s' -> NW c s -> NW c s'.
Proof.
  intros Q [A|[A|A]]; [left; exact A|right; left|right; right].
  - rewrite (qr_incb _ _ Q). exact A.
  - rewrite (qr_cq _ _ Q). exact A.
Qed.
Lemma regwq_quiet s s' : quiet_rel s s' -> queue_noreconn (q_regw (scr s)) = true ->
  queue_noreconn (q_regw (scr s')) = true.
Proof. intros Q. destruct (qr_scr _ _ Q) as (_ & _ & _ & _ & _ & _ & _ & H). exact H. Qed.

Lemma call_regw_quiet s : NW c s -> queue_noreconn (q_regw (scr s)) = true ->
  quiet_rel s (call_regw c nested s).
Proof.
  intros Hnw Hrq. unfold call_regw. destruct (sock s) as [id|] eqn:Es; [|apply quiet_refl].
  destruct (regw s) eqn:Er; [apply quiet_refl|].
  assert (Q1 : quiet_rel s (set_regw true s)).
  { apply quiet_frame; try reflexivity; ssimpl; try reflexivity; congruence. }
  destruct (c_ext c) eqn:Ex; [|exact Q1].
  unfold run_site. cbn [andb].
  eapply quiet_trans; [exact Q1|].
  assert (Q2 : quiet_rel (set_regw true s) (obs (WCb SiRegW) (emit (RegW id) (set_regw true s)))).
  { eapply quiet_trans; [apply (quiet_emit (RegW id)); [reflexivity|exact I|exact I]|].
    unfold obs. apply quiet_emit; [reflexivity| |exact I]. cbn. unfold has_sock. ssimpl. rewrite Es. auto. }
  eapply quiet_trans; [exact Q2|].
  set (s2 := obs (WCb SiRegW) (emit (RegW id) (set_regw true s))).
  assert (Hrq2 : queue_noreconn (q_regw (scr s2)) = true) by exact Hrq.
  unfold pop_script.
  pose proof (pop_list_noreconn _ Hrq2) as [N1 N2].
  destruct (pop_list (q_regw (scr s2))) as [sc r]. cbn [fst snd] in N1, N2.
  set (s3 := set_scr _ s2).
  assert (Q3 : quiet_rel s2 s3).
  { constructor; try reflexivity; try tauto;
      try (unfold s3; ssimpl; cbn [q_connect q_disconnect q_open q_close q_regw q_unregw q_publish q_discopen];
           repeat split; auto; fail).
    - exists []. rewrite app_nil_r. repeat split; auto; try discriminate.
    - exists []. cbn. repeat split; auto; constructor. }
  eapply quiet_trans; [exact Q3|].
  destruct sc as [|a sc]; [apply quiet_refl|].
  assert (Q4 : quiet_rel s3 (set_incb (false || incb s3) s3)).
  { apply quiet_frame; try reflexivity; auto. }
  eapply quiet_trans; [exact Q4|].
  assert (Hnw4 : NW c (set_incb (false || incb s3) s3)) by (left; exact Ex).
  pose proof (Hq (a :: sc) _ Hnw4 N1 N2) as Q5.
  eapply quiet_trans; [exact Q5|].
  apply quiet_frame; try reflexivity; ssimpl; auto.
  rewrite (qr_incb _ _ Q5). reflexivity.
Qed.

Lemma packet_queue_quiet k s : NW c s -> queue_noreconn (q_regw (scr s)) = true ->
  sock s <> None -> is_connect k = false -> (is_disconnect k = true -> cs s = CsDisconnecting) ->
  quiet_rel s (fst (packet_queue c nested k s)).
Proof.
  intros Hnw Hrq Hs Hk Hkd. unfold packet_queue.
  assert (Em : (match k with KConnect => set_cq true (set_outq (mkQ k false :: outq s) s) | _ => set_outq (outq s ++ [mkQ k false]) s end)
               = set_outq (outq s ++ [mkQ k false]) s)
    by (destruct k; try discriminate Hk; reflexivity).
  rewrite Em. clear Em.
  set (s1 := set_outq (outq s ++ [mkQ k false]) s).
  assert (E : negb (c_ext c) && cq s1 && negb (incb s1) = false).
  { destruct Hnw as [A|[A|A]]; [rewrite A; reflexivity| |]; unfold s1; ssimpl; rewrite A;
      [apply andb_false_r|rewrite andb_false_r; reflexivity]. }
  rewrite E. cbn [fst].
  assert (Q1 : quiet_rel s s1).
  { constructor; try reflexivity; try tauto; try (repeat split; auto; fail).
    - exists [mkQ k false]. split; [reflexivity|]. split; [cbn; rewrite Hk; reflexivity|]. split; [intros X; contradiction|].
      cbn. rewrite orb_false_r. exact Hkd.
    - exists []. cbn. repeat split; auto; constructor. }
  eapply quiet_trans; [exact Q1|]. apply call_regw_quiet; [|exact Hrq].
  exact Hnw.
Qed.

Lemma api_send_quiet ck k s : NW c s -> queue_noreconn (q_regw (scr s)) = true ->
  is_connect k = false -> is_disconnect k = false -> (ck = CPublish \/ ck = CSubscribe) ->
  quiet_rel s (fst (api_send c nested ck k s)).
Proof.
  intros Hnw Hrq Hk Hkd Hck. unfold api_send. ssimpl.
  assert (Q1 : quiet_rel s (emit (Call ck) s)).
  { apply quiet_emit; [reflexivity|exact I|destruct Hck as [-> | ->]; exact I]. }
  destruct (sock s) eqn:Es; cbn [fst]; [|exact Q1].
  eapply quiet_trans; [exact Q1|]. apply packet_queue_quiet; ssimpl; try assumption.
  all: try (rewrite Es; discriminate); try exact Hnw.
  rewrite Hkd. discriminate.
Qed.

Lemma api_disconnect_quiet s : NW c s -> queue_noreconn (q_regw (scr s)) = true ->
  quiet_rel s (fst (api_disconnect c nested s)).
Proof.
  intros Hnw Hrq. unfold api_disconnect. ssimpl.
  destruct (sock s) as [id|] eqn:Es; cbn [fst].
  - assert (Q1 : quiet_rel s (set_cs CsDisconnecting (emit (Call CDisconnect) s))).
    { constructor; ssimpl; try reflexivity; try tauto; try (repeat split; auto; fail).
      - exists []. rewrite app_nil_r. repeat split; auto; try discriminate.
      - exists [Call CDisconnect]. split; [reflexivity|]. split; [repeat constructor|]. split; [repeat constructor|].
        cbn. rewrite Es. reflexivity. }
    eapply quiet_trans; [exact Q1|]. apply packet_queue_quiet; ssimpl; try assumption; try reflexivity.
    all: try (rewrite Es; discriminate); try exact Hnw.
  - constructor; ssimpl; try reflexivity; try tauto; try (repeat split; auto; fail).
    + exists []. rewrite app_nil_r. repeat split; auto; try discriminate.
    + exists [Call CDisconnect]. split; [reflexivity|]. split; [repeat constructor|]. split; [repeat constructor|].
      cbn. rewrite Es. reflexivity.
Qed.

Lemma api_nested_quiet a s : NW c s -> queue_noreconn (q_regw (scr s)) = true -> is_reconnect a = false ->
  quiet_rel s (api_nested c nested a s).
Proof.
  intros Hnw Hrq Ha. destruct a; try discriminate Ha; cbn [api_nested].
  - apply api_send_quiet; auto.
  - apply api_send_quiet; auto.
  - apply api_disconnect_quiet; auto.
Qed.

Lemma exec_script_quiet : forall sc s, NW c s -> queue_noreconn (q_regw (scr s)) = true ->
  script_noreconn sc = true -> quiet_rel s (exec_script c nested sc s).
Proof.
  unfold script_noreconn, exec_script. induction sc as [|a sc IH]; intros s Hnw Hrq H; cbn [fold_left]; [apply quiet_refl|].
  cbn [existsb] in H. apply negb_true_iff in H. apply orb_false_iff in H as [H1 H2].
  pose proof (api_nested_quiet a s Hnw Hrq H1) as Q1.
  eapply quiet_trans; [exact Q1|]. apply IH.
  - eapply NW_quiet; eassumption.
  - eapply regwq_quiet; eassumption.
  - rewrite H2. reflexivity.
Qed.
End Quiet.

Lemma nested_at_quiet c : forall d sc s, NW c s -> script_noreconn sc = true ->
  queue_noreconn (q_regw (scr s)) = true -> quiet_rel s (nested_at c d sc s).
Proof.
  induction d as [|d IH]; intros sc s Hnw Hsc Hrq; cbn [nested_at].
  - apply quiet_emit; [reflexivity|exact I|exact I].
  - apply exec_script_quiet; assumption.
Qed.

(* ================================================================ events against the invariant *)
Ltac k10s := unfold k10_ev; cbn [b1 b2 b3 k1x_ev k1_ev k2_ev k3_ev teardown_site
                                  k1_ok k1_cur k1_est k1_repl k2_ok k2_cur k2_disc k2_owed k2_credit k3_ok k3_cur k3_phase].
Ltac dV H := destruct H as [ok1 ok2 ok3 cur1 cur2 cur3 conn owed credit disc qdisc wire new dsock fresh].

Definition inert10 (e : event) : bool :=
  match e with
  | SockOpen _ | SockClose _ | RegW _ | UnregW _ | CbPublish | Ret _ | Raised | Deadlock | Fuel => true
  | Call x => match x with CDisconnect => false | _ => true end
  | _ => false
  end.
Lemma k10_inert k e : inert10 e = true -> k10_ev k e = k.
Proof.
  destruct k as [[] [] []]. destruct e as [| | | | | | | | | |x| | | | |w ? ? ? ?]; try discriminate; try reflexivity.
  destruct x; try discriminate; reflexivity.
Qed.
Lemma tev_ps_inert e : tev_ps e = true -> inert10 e = true.
Proof. destruct e as [| | | | | | | | | |x| | | | |]; try discriminate; try reflexivity. destruct x; try discriminate; reflexivity. Qed.

(* an observation at the entry of on_socket_close / on_socket_unregister_write changes nothing when the
   state is not connected, or when the connection is being replaced (not judged) *)
Lemma k10_obs_tear k w conn hs ww rw : teardown_site w = true -> (conn = false \/ k1_repl (b1 k) = true) ->
  k10_ev k (Obs w conn hs ww rw) = k.
Proof.
  intros Hw H. destruct k as [[a b r o] [] []]. unfold k10_ev. cbn [b1 b2 b3 k1x_ev k2_ev k3_ev k1_repl] in *.
  rewrite Hw. cbn [andb]. destruct r; [reflexivity|]. destruct H as [-> | H]; [|discriminate].
  cbn [k1_ev negb orb k1_cur k1_est k1_repl k1_ok]. rewrite andb_true_r. reflexivity.
Qed.
Lemma k10_connend_repl k id r : k1_repl (b1 (k10_ev k (ConnEnd id r))) = is_replaced r.
Proof. reflexivity. Qed.

Lemma V_frame w s s' k : sock s' = sock s -> cs s' = cs s -> outq s' = outq s -> nsock s' = nsock s -> V w s k -> V w s' k.
Proof.
  intros Hs Hc Hq Hn HV; dV HV. unfold is_connected, disc_state in *.
  constructor; unfold is_connected, disc_state; rewrite ?Hs, ?Hc, ?Hq, ?Hn; assumption.
Qed.
Lemma V_inert w s k e : inert10 e = true -> V w s k -> V w s (k10_ev k e).
Proof. intros He H. rewrite k10_inert by exact He. exact H. Qed.

Lemma V_obs w x s k ww rw : V w s k -> V w s (k10_ev k (Obs x (is_connected s) (has_sock s) ww rw)).
Proof.
  intros H. dV H. k10s.
  assert (G : V w s (mkK10 (k1_ev (b1 k) (Obs x (is_connected s) (has_sock s) ww rw)) (b2 k) (b3 k))).
  { constructor; k10s; try assumption.
    rewrite ok1. cbn [andb]. destruct (is_connected s) eqn:Ec; [|reflexivity]. cbn [negb orb].
    destruct (conn eq_refl) as [A B]. rewrite A. unfold has_sock. destruct (sock s); [reflexivity|congruence]. }
  destruct (teardown_site x && k1_repl (b1 k)); [|exact G].
  constructor; assumption.
Qed.

(* with no socket held the invariant is small *)
Lemma V_nosock w s k : sock s = None -> is_connected s = false ->
  k1_ok (b1 k) = true -> k2_ok (b2 k) = true -> k3_ok (b3 k) = true ->
  k1_cur (b1 k) = None -> k2_cur (b2 k) = None -> k2_owed (b2 k) = None -> k2_credit (b2 k) = None ->
  (w = false -> k3_phase (b3 k) = 0 /\ nocon (outq s) = true) -> V w s k.
Proof.
  intros Hs Hc. intros. constructor; rewrite ?Hs; try assumption; try congruence.
Qed.

(* disconnect() *)
Lemma V_call_disc_some id w s k : sock s = Some id -> V w s k ->
  V w (set_cs CsDisconnecting s) (k10_ev k (Call CDisconnect)).
Proof.
  intros Hs HV; dV HV. k10s. rewrite owed.
  constructor; k10s; ssimpl; unfold is_connected, disc_state in *; ssimpl; try assumption; try discriminate; try reflexivity.
Qed.
Lemma V_call_disc_none w s k : sock s = None -> V w s k ->
  V w (set_cs CsDisconnected s) (k10_ev k (Call CDisconnect)).
Proof.
  intros Hs HV; dV HV. k10s. rewrite owed.
  constructor; k10s; ssimpl; unfold is_connected, disc_state in *; ssimpl; rewrite ?Hs in *; try assumption; try discriminate; try congruence.
Qed.

(* queueing a packet *)
Lemma V_append kd w s k : V w s k -> is_connect kd = false ->
  (is_disconnect kd = true -> sock s <> None -> cs s = CsDisconnecting) ->
  V w (set_outq (outq s ++ [mkQ kd false]) s) k.
Proof.
  intros HV Hk Hd; dV HV. constructor; ssimpl; try assumption.
  - rewrite has_disc_app. intros H Hs. apply orb_true_iff in H as [H|H]; [apply qdisc; assumption|].
    cbn in H. rewrite orb_false_r in H. apply Hd; assumption.
  - intros Hw Hs. apply wire_okb_app; [apply wire; assumption|]. cbn. rewrite Hk. reflexivity.
  - intros Hw. destruct (new Hw) as [A B]. split; [exact A|]. rewrite nocon_app, B. cbn. rewrite Hk. reflexivity.
Qed.
(* CONNECT is put at the head *)
Lemma V_append_connect s k : V false s k -> V true (set_outq (mkQ KConnect false :: outq s) s) k.
Proof.
  intros HV; dV HV. destruct (new eq_refl) as [Hp Hq]. constructor; ssimpl; try assumption.
  - intros _ _. rewrite Hp. cbn. exact Hq.
  - intros X; discriminate X.
Qed.

(* a packet leaves the queue head and is on the wire *)
Lemma V_tx id p q' s k : sock s = Some id -> outq s = p :: q' -> is_disconnect (qk p) = false -> V true s k ->
  V true (set_outq q' s) (k10_ev k (Tx id (qk p))).
Proof.
  intros Hs Hq Hd HV; dV HV. k10s.
  pose proof (wire eq_refl ltac:(congruence)) as W. rewrite Hq in W. unfold wire_okb in W.
  rewrite (cur3 id Hs), Z.eqb_refl. cbn [andb]. rewrite Hd.
  destruct (k3_phase (b3 k) =? 0) eqn:E0.
  - apply andb_true_iff in W as [W1 W2]. rewrite W1.
    constructor; k10s; ssimpl; try assumption; try (intros; discriminate); try (intros x X; congruence).
    + rewrite ok3. reflexivity.
    + intros H X. apply qdisc; [unfold has_disc in *; rewrite Hq; cbn [existsb]; rewrite H; apply orb_true_r|exact X].
    + intros _ _. unfold wire_okb. cbn. exact W2.
  - apply andb_true_iff in W as [W1 W2]. cbn [nocon forallb] in W2. apply andb_true_iff in W2 as [W2 W3].
    rewrite W1. apply negb_true_iff in W2. rewrite W2.
    constructor; k10s; ssimpl; try assumption; try (intros; discriminate); try (intros x X; congruence).
    + rewrite ok3. reflexivity.
    + intros H X. apply qdisc; [unfold has_disc in *; rewrite Hq; cbn [existsb]; rewrite H; apply orb_true_r|exact X].
    + intros _ _. unfold wire_okb. rewrite E0, W1. cbn. exact W3.
Qed.

(* on_connect: CONNECTED unless disconnect() is pending *)
Definition connack_state (rc : Z) (s : st) : st :=
  if rc =? 0 then match cs s with CsDisconnecting => s | _ => set_cs CsConnected s end else s.
Lemma V_cb_connect rc s k : V true s k -> sock s <> None ->
  V true (connack_state rc s) (k10_ev k (CbConnect rc)).
Proof.
  intros HV Hs; dV HV. k10s. unfold connack_state. destruct (rc =? 0) eqn:E.
  - assert (Hest : k1_est (b1 k) || true && is_some (k1_cur (b1 k)) = true).
    { rewrite cur1. destruct (sock s); [|congruence]. cbn. apply orb_true_r. }
    destruct (cs s) eqn:Ec;
      (constructor; k10s; ssimpl; unfold is_connected, disc_state in *; ssimpl; rewrite ?Ec in *; try assumption;
       try (intros; discriminate); try (intros _; split; [exact Hest|exact Hs]);
       try (intros X; rewrite disc by exact X; reflexivity);
       try (intros H1 H2; specialize (qdisc H1 H2); discriminate)).
    (* DISCONNECTED with a socket held is impossible *)
    all: try (exfalso; apply Hs; apply dsock; reflexivity).
  - cbn [andb]. rewrite orb_false_r. constructor; k10s; try assumption.
Qed.

(* a socket is created (after the previous one was closed and the queue cleared) *)
Lemma V_sock_new id w s k s' : V w s k -> sock s = None -> sock s' = Some id -> cs s' = CsConnecting -> outq s' = [] ->
  id <= nsock s' -> V false s' (k10_ev k (SockNew id)).
Proof.
  intros HV Hs Hs' Hc Hq Hn; dV HV. k10s.
  constructor; k10s; unfold is_connected, disc_state; rewrite ?Hs', ?Hc, ?Hq; try assumption; try reflexivity; try discriminate.
  - intros x X. inversion X. reflexivity.
  - split; reflexivity.
  - intros x X. inversion X. subst. exact Hn.
Qed.

(* the connection ends: replaced by connect()/reconnect() *)
Lemma V_end_replaced id w s k s' : V w s k -> sock s = Some id -> sock s' = None -> is_connected s' = false ->
  V true s' (k10_ev k (ConnEnd id RReplaced)).
Proof.
  intros HV Hs Hs' Hc; dV HV. apply V_nosock; k10s; try assumption; try reflexivity.
  - rewrite credit. cbn. assumption.
  - rewrite credit. reflexivity.
  - rewrite credit. cbn. assumption.
  - rewrite credit. reflexivity.
  - intros X; discriminate X.
Qed.

(* the connection ends for another reason and on_disconnect follows *)
Lemma V_end_lost id r rc fb w s k s' : V w s k -> sock s = Some id -> is_replaced r = false ->
  (fb = true \/ (rc =? 0) = disc_state s) -> sock s' = None -> is_connected s' = false ->
  V true s' (k10_ev (k10_ev k (ConnEnd id r)) (CbDisconnect rc fb)).
Proof.
  intros HV Hs Hr Hrc Hs' Hc; dV HV. apply V_nosock; k10s; rewrite ?credit, ?Hr; k10s; try assumption; try reflexivity.
  - rewrite ok2, owed. cbn [is_none andb]. rewrite disc by congruence.
    destruct Hrc as [-> | ->]; [reflexivity|]. rewrite Bool.eqb_reflx. apply orb_true_r.
  - intros X; discriminate X.
Qed.

(* ---- the window between the on_disconnect announcing a written DISCONNECT and the close ---- *)
Record Vc (id : Z) (s : st) (k : k10) : Prop := mkVc {
  c_ok1 : k1_ok (b1 k) = true;
  c_ok2 : k2_ok (b2 k) = true;
  c_ok3 : k3_ok (b3 k) = true;
  c_sock : sock s = Some id;
  c_cur1 : k1_cur (b1 k) = Some id;
  c_cur2 : k2_cur (b2 k) = Some id;
  c_cs : cs s = CsDisconnecting;
  c_owed : k2_owed (b2 k) = None;
  c_credit : k2_credit (b2 k) = Some id;
  c_fresh : id <= nsock s
}.
Ltac dVc H := destruct H as [cok1 cok2 cok3 csock ccur1 ccur2 ccs cowed ccredit cfresh].

Lemma Vc_enter id p q' s k : sock s = Some id -> outq s = p :: q' -> is_disconnect (qk p) = true -> V true s k ->
  Vc id (set_outq q' s) (k10_ev (k10_ev k (Tx id (qk p))) (CbDisconnect 0 false)).
Proof.
  intros Hs Hq Hd HV; dV HV.
  assert (Hcs : cs s = CsDisconnecting).
  { apply qdisc; [rewrite Hq; cbn; rewrite Hd; reflexivity|congruence]. }
  pose proof (wire eq_refl ltac:(congruence)) as W. rewrite Hq in W. unfold wire_okb in W.
  assert (Hnc : is_connect (qk p) = false) by (destruct (qk p); try discriminate; reflexivity).
  assert (Hph : (k3_phase (b3 k) =? 0) = false /\ (k3_phase (b3 k) =? 1) = true).
  { destruct (k3_phase (b3 k) =? 0); [rewrite Hnc in W; discriminate|]. apply andb_true_iff in W as [W _]. split; [reflexivity|exact W]. }
  destruct Hph as [P0 P1].
  k10s. rewrite owed, credit, cur2, Hs, (cur3 id Hs), Z.eqb_refl, P0, P1, Hnc. cbn [andb negb is_none is_some orb].
  constructor; k10s; ssimpl; try assumption; try reflexivity.
  - rewrite ok2. rewrite disc by congruence. unfold disc_state. rewrite Hcs. reflexivity.
  - rewrite ok3, ?Z.eqb_refl. reflexivity.
  - rewrite cur1. exact Hs.
  - apply fresh. exact Hs.
Qed.

Lemma Vc_obs id s k x hs ww rw : Vc id s k -> Vc id s (k10_ev k (Obs x (is_connected s) hs ww rw)).
Proof.
  intros HV. dVc HV.
  assert (E : is_connected s = false) by (unfold is_connected; rewrite ccs; reflexivity). rewrite E.
  k10s. destruct (teardown_site x && k1_repl (b1 k)); k10s; constructor; k10s; try assumption.
  rewrite cok1. reflexivity.
Qed.

(* the close that ends the window *)
Lemma Vc_end id s k s' : Vc id s k -> sock s' = None -> is_connected s' = false ->
  V true s' (k10_ev k (ConnEnd id RDiscWritten)).
Proof.
  intros HV Hs' Hc; dVc HV. apply V_nosock; k10s; rewrite ?ccredit; k10s; try assumption; try reflexivity.
  - rewrite cok2, Z.eqb_refl. reflexivity.
  - intros X; discriminate X.
Qed.
(* ... or reconnect() called by that on_disconnect: the connection counts as properly ended *)
Lemma Vc_end_replaced id s k s' : Vc id s k -> sock s' = None -> is_connected s' = false ->
  V true s' (k10_ev k (ConnEnd id RReplaced)).
Proof.
  intros HV Hs' Hc; dVc HV. apply V_nosock; k10s; rewrite ?ccredit; k10s; try assumption; try reflexivity.
  - rewrite cok2, Z.eqb_refl. reflexivity.
  - intros X; discriminate X.
Qed.

(* ---- folding the events of a reconnect()-free nested run over the checkers ---- *)
Lemma quiet_fold conn0 : forall l, Forall (fun e => qev e = true) l -> Forall (obs_sound conn0) l ->
  forall k, k2_owed (b2 k) = None -> k1_ok (b1 k) = true -> (conn0 = true -> k1_est (b1 k) = true) ->
  let k' := fold_right (fun e k => k10_ev k e) k l in
  k1_cur (b1 k') = k1_cur (b1 k) /\ k1_est (b1 k') = k1_est (b1 k) /\ k1_ok (b1 k') = true /\
  b3 k' = b3 k /\ k2_ok (b2 k') = k2_ok (b2 k) /\ k2_cur (b2 k') = k2_cur (b2 k) /\
  k2_owed (b2 k') = None /\ k2_credit (b2 k') = k2_credit (b2 k) /\
  k2_disc (b2 k') = k2_disc (b2 k) || has_call_disc l.
Proof.
  induction l as [|e l IH]; intros F1 F2 k Hk Hok Hest; cbn [fold_right].
  - cbn. rewrite orb_false_r. repeat split; assumption.
  - inversion F1 as [|? ? E1 F1']; subst. inversion F2 as [|? ? E2 F2']; subst.
    destruct (IH F1' F2' k Hk Hok Hest) as (A1 & A2 & A3 & A4 & A5 & A6 & A7 & A8 & A9).
    set (k' := fold_right (fun e k => k10_ev k e) k l) in *.
    unfold has_call_disc in *. cbn [existsb].
    destruct e as [| | | | | | | | | |x| | | | |x cn hs ? ?]; try discriminate E1; k10s; cbn [orb];
      try (repeat split; assumption).
    + destruct x; k10s; cbn [orb]; try (repeat split; assumption).
      rewrite A7. k10s. repeat split; try assumption. rewrite orb_true_r. reflexivity.
    + destruct x as [|si]; [discriminate E1|]. destruct si; try discriminate E1.
      cbn [teardown_site andb k1_ev k1_cur k1_est k1_ok].
      repeat split; try assumption. rewrite A3. cbn [andb].
      destruct cn; [|reflexivity]. cbn in E2. destruct (E2 eq_refl) as [E3 E4]. rewrite E4, A2, (Hest E3). reflexivity.
Qed.

(* reconnect()-free nested calls leave the window intact *)
Lemma Vc_quiet id s s' k0 : quiet_rel s s' -> Vc id s (KS k10_ev k0 s) -> Vc id s' (KS k10_ev k0 s').
Proof.
  intros Q HV; dVc HV.
  destruct (qr_tr _ _ Q) as (evs & Ht & Hq & Ho & Hc).
  assert (Hconn : is_connected s = false) by (unfold is_connected; rewrite ccs; reflexivity).
  unfold KS in *. rewrite Ht, fold_right_app.
  destruct (quiet_fold (is_connected s) evs Hq Ho _ cowed cok1 ltac:(rewrite Hconn; discriminate))
    as (A1 & A2 & A3 & A4 & A5 & A6 & A7 & A8 & A9).
  assert (Hcs' : cs s' = CsDisconnecting).
  { destruct (has_call_disc evs); rewrite Hc; [rewrite csock; reflexivity|exact ccs]. }
  constructor; rewrite ?A1, ?A4, ?A5, ?A6, ?A7, ?A8, ?(qr_sock _ _ Q), ?(qr_nsock _ _ Q); try assumption; try reflexivity.
Qed.

(* reconnect()-free nested calls preserve the invariant; [pre]: packets _packet_write holds at that moment *)
Lemma V_quiet w pre s s' k0 : quiet_rel s s' ->
  V w (set_outq (pre ++ outq s) s) (KS k10_ev k0 s) ->
  V w (set_outq (pre ++ outq s') s') (KS k10_ev k0 s').
Proof.
  intros Q HV; dV HV. ssimpl.
  destruct (qr_tr _ _ Q) as (evs & Ht & Hq & Ho & Hc).
  destruct (qr_outq _ _ Q) as (added & Ha & Hnc & Hnone & Hdisc).
  pose proof (qr_sock _ _ Q) as Hsock.
  unfold KS in *. rewrite Ht, fold_right_app.
  assert (Hest : is_connected s = true -> k1_est (b1 (fold_right (fun e k => k10_ev k e) k0 (tr s))) = true).
  { intros X. apply conn. exact X. }
  destruct (quiet_fold (is_connected s) evs Hq Ho _ owed ok1 Hest) as (A1 & A2 & A3 & A4 & A5 & A6 & A7 & A8 & A9).
  assert (Hcs : has_call_disc evs = true -> sock s <> None -> cs s' = CsDisconnecting).
  { intros X Y. rewrite X in Hc. rewrite Hc. destruct (sock s); [reflexivity|congruence]. }
  assert (Hcs0 : has_call_disc evs = false -> cs s' = cs s).
  { intros X. rewrite X in Hc. exact Hc. }
  constructor; unfold is_connected, disc_state in *; ssimpl;
    rewrite ?A1, ?A2, ?A4, ?A5, ?A6, ?A7, ?A8, ?Hsock, ?(qr_nsock _ _ Q); try assumption; try reflexivity.
  - intros X. destruct (has_call_disc evs) eqn:Ed.
    + exfalso. rewrite Hc in X. destruct (sock s); discriminate.
    + rewrite (Hcs0 eq_refl) in X. apply conn. exact X.
  - intros X. rewrite A9. destruct (has_call_disc evs) eqn:Ed.
    + rewrite orb_true_r. rewrite (Hcs eq_refl X). reflexivity.
    + rewrite orb_false_r, disc by exact X. rewrite (Hcs0 eq_refl). reflexivity.
  - rewrite Ha, app_assoc, has_disc_app. intros X Y. apply orb_true_iff in X as [X|X]; [|exact (Hdisc X)].
    pose proof (qdisc X Y) as Z0. destruct (has_call_disc evs) eqn:Ed; [apply Hcs; [reflexivity|exact Y]|].
    rewrite (Hcs0 eq_refl). exact Z0.
  - intros Hw Y. rewrite Ha, app_assoc. apply wire_okb_app; [apply wire; assumption|exact Hnc].
  - intros Hw. destruct (new Hw) as [B1 B2]. split; [exact B1|]. rewrite Ha, app_assoc, nocon_app, B2, Hnc. reflexivity.
  - (* DISCONNECTED only without a socket *)
    intros X. destruct (has_call_disc evs) eqn:Ed.
    + rewrite Hc in X. destruct (sock s); [discriminate|reflexivity].
    + rewrite (Hcs0 eq_refl) in X. apply dsock. exact X.
Qed.
