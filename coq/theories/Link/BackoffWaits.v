(* C09.1: every _reconnect_wait of a run chooses min * 2^j capped at max, j = number of waits since the
   last accepted CONNACK (or since the start). *)
From PahoV Require Import Base.Prelude Link.Backoff Link.BackoffProofs Link.BackoffU Link.BackoffDelays.

Definition wd_step (mn mx : Z) (j : nat) (e : bev) : option nat :=
  match e with
  | EvWait _ d _ => if (d =? delay_at mn mx j) && (mn <=? d) && (d <=? mx) then Some (S j) else None
  | EvAccepted _ => Some 0%nat
  | _ => Some j
  end.
Definition wait_delays_ok (mn mx : Z) (tr : list bev) : bool :=
  match chk (wd_step mn mx) 0%nat tr with Some _ => true | None => false end.

Section WD.
  Variable cfg : config.
  Hypothesis Hmm : 1 <= c_min cfg <= c_max cfg.
  Notation mn := (c_min cfg).
  Notation mx := (c_max cfg).
  Notation wd := (wd_step mn mx).

  Lemma wd_act j t f k : chk wd j (act_ev t f k) = Some j.
  Proof. destruct f; reflexivity. Qed.

  Lemma callback_wd pl rc s s1 e1 : callback cfg pl rc s = (s1, e1) ->
    (forall j, chk wd j e1 = Some j) /\ b_delay s1 = b_delay s.
  Proof.
    intros H. apply callback_u in H. destruct H as (f & d & k & _ & U & ->). destruct U as (U1 & _).
    split; [intros j; cbn [chk wd_step]; apply wd_act|exact U1].
  Qed.

  Lemma write_disconnect_wd s s1 e1 : write_disconnect cfg s = (s1, e1) ->
    (forall j, chk wd j e1 = Some j) /\ b_delay s1 = b_delay s.
  Proof.
    intros H. apply write_disconnect_u in H. destruct H as (f & d & k & -> & _ & U & _).
    split; [intros j; cbn [chk wd_step]; apply wd_act|exact U].
  Qed.

  Lemma failed_wd rc s : exists rc' s1 e1, failed cfg rc s = LRet rc' s1 e1 /\
    (forall j, chk wd j e1 = Some j) /\ b_delay s1 = b_delay s.
  Proof.
    destruct (failed_u cfg rc s) as (rc' & s3 & f & d & k & E & _ & _ & U & _).
    exists rc', s3, (EvFail (b_now s) :: EvCb (b_now s) PDisconnect rc' :: act_ev (b_now s) f k).
    split; [exact E|]. split; [intros j; cbn [chk wd_step]; apply wd_act|exact U].
  Qed.

  Lemma refused_connack_wd code s : exists rc' s1 e1, refused_connack cfg code s = LRet rc' s1 e1 /\
    (forall j, chk wd j e1 = Some j) /\ b_delay s1 = b_delay s.
  Proof.
    destruct (refused_connack_u cfg code s) as (rc' & s2 & f1 & d1 & k1 & f2 & d2 & k2 & E & _ & _ & U & _).
    eexists rc', s2, _. split; [exact E|]. split; [|exact U]. intros j.
    cbn [app chk wd_step]. rewrite chk_app, wd_act. cbn [chk wd_step]. apply wd_act.
  Qed.

  Lemma reconnect_wait_wd s s1 e1 : reconnect_wait cfg s = (s1, e1) -> forall j,
    delay_rel mn mx (b_delay s) j ->
    chk wd j e1 = Some (S j) /\ delay_rel mn mx (b_delay s1) (S j).
  Proof.
    intros H j R. apply reconnect_wait_u in H. cbn zeta in H.
    destruct H as (f & d & k & slept & Hd & _ & _ & -> & _).
    destruct (next_delay_rel cfg (b_delay s) j Hmm R) as (E & R').
    rewrite Hd. split; [|exact R'].
    cbn [chk wd_step]. rewrite E, Z.eqb_refl.
    pose proof (delay_at_ge_min mn mx j Hmm). pose proof (delay_at_le_max mn mx j).
    replace (mn <=? delay_at mn mx j) with true by lia. replace (delay_at mn mx j <=? mx) with true by lia.
    cbn [andb]. apply wd_act.
  Qed.

  Lemma do_reconnect_wd imm s :
    match do_reconnect imm s with
    | RcOk s1 e | RcFail s1 e | RcEnd s1 e => (forall j, chk wd j e = Some j) /\ b_delay s1 = b_delay s
    end.
  Proof.
    destruct (do_reconnect_cases imm s) as [(_ & E)|[(r & _ & E)|(o & r & _ & _ & E)]];
      cbn zeta in E; rewrite E; split; reflexivity.
  Qed.

  Ltac wd_delay :=
    bproj;
    repeat match goal with H : b_delay ?x = _ |- context [b_delay ?x] => rewrite H; bproj end;
    first [assumption | reflexivity | (exists 0%nat; split; reflexivity)].

  (* execute one primitive of the goal through its lemma *)
  Ltac wd1 jj :=
    match goal with
    | |- context [callback cfg ?p ?r ?s] =>
        let s1 := fresh "s" in let e1 := fresh "e" in let E := fresh "E" in
        destruct (callback cfg p r s) as [s1 e1] eqn:E; apply callback_wd in E; destruct E as (? & ?)
    | |- context [write_disconnect cfg ?s] =>
        let s1 := fresh "s" in let e1 := fresh "e" in let E := fresh "E" in
        destruct (write_disconnect cfg s) as [s1 e1] eqn:E; apply write_disconnect_wd in E; destruct E as (? & ?)
    | |- context [refused_connack cfg ?c ?s] =>
        let E := fresh "E" in
        destruct (refused_connack_wd c s) as (? & ? & ? & E & ? & ?); rewrite E; clear E
    | |- context [failed cfg ?rc ?s] =>
        let E := fresh "E" in
        destruct (failed_wd rc s) as (? & ? & ? & E & ? & ?); rewrite E; clear E
    | |- context [do_reconnect ?i ?s] =>
        let H := fresh "H" in
        pose proof (do_reconnect_wd i s) as H; destruct (do_reconnect i s); destruct H as (? & ?)
    | |- context [reconnect_wait cfg ?s] =>
        let s1 := fresh "s" in let e1 := fresh "e" in let E := fresh "E" in
        destruct (reconnect_wait cfg s) as [s1 e1] eqn:E;
        let P := fresh "P" in
        assert (P : delay_rel mn mx (b_delay s) jj) by wd_delay;
        destruct (reconnect_wait_wd _ _ _ E jj P) as (? & ?); clear E P
    | |- context [match ?x with _ => _ end] =>
        lazymatch x with
        | context [match _ with _ => _ end] => fail
        | _ => destruct x
        end
    end; bproj; cbn beta iota zeta.

  Ltac wd_chk :=
    repeat first
      [ rewrite chk_app
      | rewrite chk_cons
      | rewrite chk_nil
      | match goal with H : forall j, chk wd j ?e = Some j |- context [chk wd ?j0 ?e] => rewrite (H j0) end
      | match goal with H : chk wd ?j0 ?e = Some _ |- context [chk wd ?j0 ?e] => rewrite H end
      | progress cbn [wd_step app] ].

  Ltac wd_leaf := cbv beta; bproj; eexists; split; [wd_chk; reflexivity | wd_delay].

  Lemma WD_step : forall p s j, delay_rel mn mx (b_delay s) j -> is_done p = false ->
    exists j', chk wd j (st_evs (step cfg p s)) = Some j' /\
               delay_rel mn mx (b_delay (st_st (step cfg p s))) j'.
  Proof.
    intros p s j R Hd.
    set (G := fun x => exists j', chk wd j (st_evs x) = Some j' /\ delay_rel mn mx (b_delay (st_st x)) j').
    change (G (step cfg p s)).
    destruct p; try discriminate; unfold step, loop_once, loop_up, lose, read_pending; bproj.
    all: repeat wd1 j.
    all: subst G; wd_leaf.
  Qed.
End WD.

Theorem wait_delays : forall cfg t0 script, 1 <= c_min cfg <= c_max cfg ->
  wait_delays_ok (c_min cfg) (c_max cfg) (fst (run_script cfg t0 script)) = true.
Proof.
  intros cfg t0 script H. unfold wait_delays_ok, run_script.
  destruct (run_inv cfg (wd_step (c_min cfg) (c_max cfg))
              (fun p s j => delay_rel (c_min cfg) (c_max cfg) (b_delay s) j)
              (fun p s j R Hd => WD_step cfg H p s j R Hd)
              (fuel_for script) PcFirst (binit t0 script) 0%nat eq_refl) as (j' & E & _).
  rewrite E. reflexivity.
Qed.
