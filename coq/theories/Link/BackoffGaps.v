(* C09.1, literal statement, for EVERY configuration, script and application action: the gap between a failure /
   loss noticed at tf and the next (non-immediate) connection attempt is  min (min_delay * 2^i) max_delay,
   i = number of such retries since the last accepted CONNACK (or the start).
   Invariant (boolean, over the program point, the machine state and the checker state), three phases:
     quiet   - no failure pending; the delay state has seen exactly i waits since the last reset;
     failed  - a failure at tf = now is pending, no socket, the loop is on its way to _reconnect_wait;
     waited  - exactly one full wait was slept: now = tf + delay_at i, the delay state has seen i + 1 waits, the next
               thing the loop does is the attempt;
   and once the application has acted nothing is claimed any more (no attempt follows: BackoffFinal's invariant, which
   is carried along as a second component). *)
From PahoV Require Import Base.Prelude Link.Backoff Link.BackoffProofs Link.BackoffU Link.BoolTaut Link.BackoffDelays
  Link.BackoffFinal.

(* Base.Prelude replaces ZifyBool's post hook (the case analysis on boolean variables); here both are wanted *)
Local Ltac Zify.zify_post_hook ::= (ZifyBool.elim_bool_cstr; Z.to_euclidean_division_equations).

Definition gs := gaps_step.

Definition delay_ok (mn mx : Z) (d : option Z) (j : nat) : bool :=
  match d with
  | None => match j with O => true | S _ => false end
  | Some x => match j with O => false | S j' => x =? delay_at mn mx j' end
  end.

Lemma delay_ok_rel mn mx d j : delay_ok mn mx d j = true -> delay_rel mn mx d j.
Proof.
  unfold delay_ok, delay_rel. destruct d as [x|], j as [|j']; try discriminate; intros H; [|reflexivity].
  exists j'. split; [reflexivity|lia].
Qed.

Lemma next_delay_ok cfg d j : 1 <= c_min cfg <= c_max cfg -> delay_ok (c_min cfg) (c_max cfg) d j = true ->
  next_delay cfg d = delay_at (c_min cfg) (c_max cfg) j.
Proof. intros H R. exact (proj1 (next_delay_rel cfg d j H (delay_ok_rel _ _ _ _ R))). Qed.

Definition is_first (p : pc) : bool := match p with PcFirst => true | _ => false end.
Definition is_inner (p : pc) : bool := match p with PcInner => true | _ => false end.
Definition is_afterinner (p : pc) : bool := match p with PcAfterInner _ => true | _ => false end.

Definition IGb (mn mx : Z) (p : pc) (s : bst) (g : gst) : bool :=
  match g_dg g with None => true | Some _ => false end
  && (negb (b_outq s) || is_nosock (b_sock s) || b_acted s)
  && (is_done p || b_acted s ||
      match g_pend g with
      | None => delay_ok mn mx (b_delay s) (g_i g) && (is_first p || is_inner p)
                && (negb (is_nosock (b_sock s)) || (is_first p && is_async (b_cs s)))
      | Some tf =>
          is_nosock (b_sock s) &&
          (((tf =? b_now s) && delay_ok mn mx (b_delay s) (g_i g) && (is_inner p || is_afterinner p))
           || ((b_now s =? tf + delay_at mn mx (g_i g)) && delay_ok mn mx (b_delay s) (S (g_i g))
               && (is_afterwait p || (is_first p && is_async (b_cs s)))))
      end).

Lemma gs_act mn mx g t f k : chk (gs mn mx) g (act_ev t f k) = Some g.
Proof. destruct f; reflexivity. Qed.

(* the two checkers side by side *)
Definition both (mn mx : Z) (rof : bool) (x : gst * bool) (e : bev) : option (gst * bool) :=
  match gs mn mx (fst x) e, fs rof (snd x) e with
  | Some g, Some c => Some (g, c)
  | _, _ => None
  end.

Lemma chk_both mn mx rof : forall l g c,
  chk (both mn mx rof) (g, c) l =
  match chk (gs mn mx) g l, chk (fs rof) c l with Some g', Some c' => Some (g', c') | _, _ => None end.
Proof.
  induction l as [|e r IH]; intros g c; [reflexivity|].
  cbn [chk]. unfold both at 1. cbn [fst snd].
  destruct (gs mn mx g e) as [g1|]; [|reflexivity].
  destruct (fs rof c e) as [c1|]; [apply IH|].
  destruct (chk (gs mn mx) g1 r); reflexivity.
Qed.

Lemma invF_facts cfg p s c : invF cfg p s c = true ->
  b_acted s = should_exit s /\ (negb (b_acted s) || negb (is_pending (b_sock s)) = true) /\
  (negb (is_pending (b_sock s)) || is_first_or_inner p = true).
Proof.
  unfold invF. destruct (b_acted s), (should_exit s), (is_pending (b_sock s)), (is_first_or_inner p); cbn;
    intros H; try discriminate; repeat split; reflexivity.
Qed.

Lemma delay_ok_S mn mx x j : delay_ok mn mx (Some x) (S j) = (x =? delay_at mn mx j).
Proof. reflexivity. Qed.
Lemma delay_ok_N0 mn mx : delay_ok mn mx None 0%nat = true.
Proof. reflexivity. Qed.
Lemma delay_ok_NS mn mx j : delay_ok mn mx None (S j) = false.
Proof. reflexivity. Qed.

(* a callback in which the application does not act leaves _state alone *)
Lemma callback_cs cfg pl rc s s1 e1 : callback cfg pl rc s = (s1, e1) -> b_acted s1 = false -> b_cs s1 = b_cs s.
Proof.
  intros H Ha. apply callback_spec in H. destruct H as (_ & [(-> & _)|(k & A & _)]); [reflexivity|].
  destruct A as (_ & A & _). congruence.
Qed.

Section G.
  Variable cfg : config.
  Hypothesis Hmm : 1 <= c_min cfg <= c_max cfg.
  Notation mn := (c_min cfg).
  Notation mx := (c_max cfg).

  (* lia on the integer facts alone (the boolean case analysis of ZifyBool is exponential in the context) *)
  Ltac zlia :=
    repeat match goal with
    | H : ?T |- _ =>
        lazymatch T with
        | @eq Z _ _ => fail
        | Z.le _ _ => fail
        | Z.lt _ _ => fail
        | Z.ge _ _ => fail
        | Z.gt _ _ => fail
        | not (@eq Z _ _) => fail
        | _ <= _ <= _ => fail
        | _ => clear H
        end
    end; lia.

  Ltac g_chk :=
    repeat first
      [ rewrite chk_app
      | rewrite chk_cons
      | rewrite chk_nil
      | rewrite gs_act
      | progress cbn [gs gaps_step app g_i g_pend g_dg]
      | rewrite Z.eqb_refl
      | match goal with
        | |- context [if (?a =? ?b) then Some _ else None] => replace (a =? b) with true by (symmetry; apply Z.eqb_eq; first [zlia | timeout 90 lia])
        end ].

  Ltac g_pre :=
    repeat match goal with
    | |- context [delay_at mn mx ?j] =>
        lazymatch goal with
        | _ : mn <= delay_at mn mx j |- _ => fail
        | _ => pose proof (delay_at_ge_min mn mx j Hmm)
        end
    | _ : context [delay_at mn mx ?j] |- _ =>
        lazymatch goal with
        | _ : mn <= delay_at mn mx j |- _ => fail
        | _ => pose proof (delay_at_ge_min mn mx j Hmm)
        end
    end;
    repeat match goal with
    | H : delay_ok mn mx ?d ?j = true |- _ =>
        lazymatch goal with
        | _ : next_delay cfg d = delay_at mn mx j |- _ => fail
        | _ => pose proof (next_delay_ok cfg d j Hmm H)
        end
    end.

  (* split boolean hypotheses into atomic facts and use them *)
  Ltac bnorm :=
    repeat match goal with
    | H : true = true |- _ => clear H
    | H : ?a = ?a -> _ |- _ => specialize (H eq_refl)
    | H : true = false -> _ |- _ => clear H
    | H : false = true -> _ |- _ => clear H
    | H : _ = _ /\ _ |- _ => destruct H
    | H : false = false |- _ => clear H
    | H : false = true |- _ => discriminate H
    | H : true = false |- _ => discriminate H
    | H : true = _ |- _ => symmetry in H
    | H : false = _ |- _ => symmetry in H
    | H : _ && _ = true |- _ => apply andb_true_iff in H; destruct H
    | H : _ || _ = false |- _ => apply orb_false_iff in H; destruct H
    | H : negb _ = true |- _ => apply negb_true_iff in H
    | H : (_ =? _) = true |- _ => apply Z.eqb_eq in H
    | H : (_ =? _) = false |- _ => apply Z.eqb_neq in H
    | H : (_ <=? _) = true |- _ => apply Z.leb_le in H
    | H : (_ <=? _) = false |- _ => apply Z.leb_gt in H
    | H : (_ <? _) = true |- _ => apply Z.ltb_lt in H
    | H : (_ <? _) = false |- _ => apply Z.ltb_ge in H
    | H : negb _ = false |- _ => apply negb_false_iff in H
    | H : ?x = true |- _ => is_var x; subst x
    | H : ?x = false |- _ => is_var x; subst x
    | H : ?t = true |- _ => lazymatch t with _ && _ => fail | _ || _ => fail | negb _ => fail | (_ =? _) => fail | _ => progress (rewrite H in * ) end
    | H : ?t = false |- _ => lazymatch t with _ && _ => fail | _ || _ => fail | negb _ => fail | (_ =? _) => fail | _ => progress (rewrite H in * ) end
    | _ => progress cbn [andb orb negb] in *
    | _ => progress rewrite ?orb_false_r, ?orb_true_r, ?andb_true_r, ?andb_false_r in *
    end.

  Ltac g_names := cbn [is_first is_inner is_afterinner is_afterwait is_done is_pending is_nosock is_first_or_inner disc_like is_async g_i g_pend g_dg] in *.

  Ltac g_cb :=
    match goal with
    | |- context [callback ?c ?p ?r ?s] =>
        let s1 := fresh "s" in let e1 := fresh "e" in let E := fresh "E" in let K := fresh "K" in
        destruct (callback c p r s) as [s1 e1] eqn:E; pose proof (callback_cs _ _ _ _ _ _ E) as K;
        apply callback_u in E;
        destruct E as (? & ? & ? & ? & E & ?); unfold acted_u in E; bproj;
        destruct E as (? & ? & ? & ? & ? & ? & ? & ? & ? & ? & ? & ?); absorb s1
    end; bproj; cbn beta iota zeta.
  Ltac gsteps := repeat first [g_cb | ustep1].

  Ltac protect :=
    repeat match goal with
    | H : disc_like ?c = ?v |- _ => is_var c; change (id (disc_like c = v)) in H
    | H : is_async ?c = ?v |- _ => is_var c; change (id (is_async c = v)) in H
    end.

  Ltac g_fin :=
    bnorm; try reflexivity;
    repeat (match goal with
            | x : bool |- context [?y] => constr_eq x y; destruct x
            end; bnorm; try reflexivity);
    g_pre; try congruence; try (first [zlia | timeout 90 lia]).

  Ltac g_post :=
    g_pre; eexists; (split; [g_chk; reflexivity|]);
    unfold IGb; bproj; g_names; rewrite ?delay_ok_S, ?delay_ok_N0, ?delay_ok_NS; g_fin.

  Lemma G_step : forall p s g c, invF cfg p s c = true -> IGb mn mx p s g = true -> is_done p = false ->
    exists g', chk (gs mn mx) g (st_evs (step cfg p s)) = Some g' /\
               IGb mn mx (st_pc (step cfg p s)) (st_st (step cfg p s)) g' = true.
  Proof.
    intros p s g c HF HG Hd.
    destruct g as [i pend dg]. destruct s as [nw dl cs sk p3 tm oq sc n ac].
    apply invF_facts in HF. destruct HF as (HF1 & HF2 & HF3).
    unfold IGb, should_exit in HF1, HF2, HF3, HG. bproj. cbn [g_i g_pend g_dg] in HG.
    destruct dg; [discriminate|].
    pose proof (async_not_disc cs) as Hcs.
    pose proof (delay_at_ge_min mn mx i Hmm) as Hge.
    destruct p; try discriminate; unfold step, loop_once, loop_up, lose, read_pending; bproj; g_names.
    - (* PcFirst *)
      destruct ac; bnorm; protect.
      all: gsteps.
      all: unfold id in *; unfold should_exit in *; bproj; g_names; bnorm.
      all: destruct pend as [tf|]; bnorm.
      all: g_post.
    - (* PcInner *)
      destruct ac; bnorm.
      + (* the application has acted: nothing is claimed any more, and no attempt is made *)
        destruct sk; g_names; bnorm; protect.
        all: gsteps.
        all: unfold id in *; unfold should_exit in *; bproj; g_names; bnorm.
        all: g_post.
      + destruct pend as [tf|]; destruct sk; g_names; bnorm; protect.
        all: gsteps.
        all: unfold id in *; unfold should_exit in *; bproj; g_names; bnorm.
        all: g_post.
    - (* PcAfterInner *)
      destruct ac; bnorm; protect.
      all: gsteps.
      all: unfold id in *; unfold should_exit in *; bproj; g_names; bnorm.
      all: destruct pend as [tf|]; bnorm.
      all: g_post.
    - (* PcAfterWait *)
      destruct ac; bnorm; protect.
      all: gsteps.
      all: unfold id in *; unfold should_exit in *; bproj; g_names; bnorm.
      all: destruct pend as [tf|]; bnorm.
      all: g_post.
  Qed.

  (* both invariants along a run *)
  Lemma GF_run : forall fuel p s g c, invF cfg p s c = true -> IGb mn mx p s g = true ->
    exists g', chk (gs mn mx) g (fst (run fuel cfg p s)) = Some g'.
  Proof.
    intros fuel p s g c HF HG.
    destruct (run_inv cfg (both mn mx (c_rof cfg))
                (fun p s x => invF cfg p s (snd x) = true /\ IGb mn mx p s (fst x) = true)) with
      (fuel := fuel) (p := p) (s := s) (c := (g, c)) as (x' & E & _).
    - intros p0 s0 [g0 c0] [HF0 HG0] Hd. cbn [fst snd] in *.
      pose proof (F_step cfg p0 s0 c0 HF0 Hd) as HFs.
      destruct (G_step p0 s0 g0 c0 HF0 HG0 Hd) as (g1 & Eg & HG1).
      rewrite chk_both, Eg.
      destruct (chk (fs (c_rof cfg)) c0 (st_evs (step cfg p0 s0))) as [c1|]; [|discriminate].
      exists (g1, c1). split; [reflexivity|]. split; assumption.
    - split; assumption.
    - rewrite chk_both in E. destruct (chk (gs mn mx) g (fst (run fuel cfg p s))) as [g'|]; [|discriminate].
      exists g'. reflexivity.
  Qed.
End G.

(* the literal statement, for every configuration (retry_first_connection, reconnect_on_failure, keepalive, protocol
   version, any application action at any callback or sleep chunk), start time and script *)
Theorem gaps_all_runs : forall cfg t0 script, 1 <= c_min cfg <= c_max cfg ->
  gaps_ok (c_min cfg) (c_max cfg) (fst (run_script cfg t0 script)) = true.
Proof.
  intros cfg t0 script Hmm. unfold gaps_ok, run_script.
  destruct (GF_run cfg Hmm (fuel_for script) PcFirst (binit t0 script) (mkg 0%nat None None) false) as (g' & E).
  - unfold invF, binit, should_exit. bproj. cbn. destruct (c_rof cfg); reflexivity.
  - reflexivity.
  - unfold gs in E. rewrite E. reflexivity.
Qed.
Print Assumptions gaps_all_runs.
