(* C09: proofs about Link/Backoff.v - generic run invariant, termination within the fuel bound. *)
From PahoV Require Import Base.Prelude Link.Backoff.

Lemma chk_app {C} (f : C -> bev -> option C) : forall a b c,
  chk f c (a ++ b) = match chk f c a with Some c' => chk f c' b | None => None end.
Proof.
  induction a as [|e r IH]; intros b c; cbn [app chk]; [reflexivity|].
  destruct (f c e); [apply IH|reflexivity].
Qed.

Definition st_evs (x : list bev * pc * bst) := fst (fst x).
Definition st_pc (x : list bev * pc * bst) := snd (fst x).
Definition st_st (x : list bev * pc * bst) := snd x.

Lemma run_S fuel cfg p s :
  run (S fuel) cfg p s =
  if is_done p then ([], (p, s))
  else let r := run fuel cfg (st_pc (step cfg p s)) (st_st (step cfg p s)) in
       (st_evs (step cfg p s) ++ fst r, snd r).
Proof.
  cbn [run]. destruct (is_done p); [reflexivity|]. unfold st_evs, st_pc, st_st.
  destruct (step cfg p s) as [[e p1] s1]. cbn [fst snd]. destruct (run fuel cfg p1 s1). reflexivity.
Qed.

Section BInv.
  Variable cfg : config.
  Context {C : Type}.
  Variable f : C -> bev -> option C.
  Variable Inv : pc -> bst -> C -> Prop.
  Hypothesis Hstep : forall p s c, Inv p s c -> is_done p = false ->
    exists c', chk f c (st_evs (step cfg p s)) = Some c' /\
               Inv (st_pc (step cfg p s)) (st_st (step cfg p s)) c'.

  Lemma run_inv : forall fuel p s c, Inv p s c ->
    exists c', chk f c (fst (run fuel cfg p s)) = Some c' /\
               Inv (fst (snd (run fuel cfg p s))) (snd (snd (run fuel cfg p s))) c'.
  Proof.
    induction fuel as [|fuel IH]; intros p s c HI.
    - exists c. cbn. split; [reflexivity|exact HI].
    - rewrite run_S. destruct (is_done p) eqn:Ed.
      + exists c. cbn. split; [reflexivity|exact HI].
      + destruct (Hstep p s c HI Ed) as (c1 & Hc1 & HI1).
        destruct (IH _ _ _ HI1) as (c2 & Hc2 & HI2).
        exists c2. cbn [fst snd]. rewrite chk_app, Hc1. split; assumption.
  Qed.
End BInv.

(* projections of the state setters *)
Ltac bproj :=
  cbn [b_now b_delay b_cs b_sock b_p311 b_term b_outq b_script b_n b_acted
       set_now set_delay set_cs set_sock set_p311 set_term set_outq set_script set_n set_acted
       st_evs st_pc st_st fst snd] in *.

(* destruct the innermost scrutinee first *)
Ltac bcase :=
  repeat match goal with
  | |- context [match ?x with _ => _ end] =>
      lazymatch x with
      | context [match _ with _ => _ end] => fail
      | _ => destruct x eqn:?
      end
  end.

Ltac unfold_machine :=
  unfold step, loop_once, read_pending, refused_connack, failed, rc_handle, loop_up, write_disconnect,
    do_reconnect, reconnect_wait, callback, apply_act in *.

(* ------------------------------------------------------------------ termination *)

Definition lrank (p : pc) (s : bst) : nat :=
  match p with
  | PcDone _ => 0
  | PcAfterWait _ => 1
  | PcAfterInner _ => 2
  | PcInner =>
      match b_sock s with
      | NoSock => 3
      | Up _ None => if b_outq s then 4 else 5
      | Up _ (Some _) => 6
      | Pending _ => 7
      end
  | PcFirst => 8
  end.
Definition rank (p : pc) (s : bst) : nat := 9 * length (b_script s) + lrank p s.

Lemma step_decreases cfg p s : is_done p = false ->
  (rank (st_pc (step cfg p s)) (st_st (step cfg p s)) < rank p s)%nat.
Proof.
  intros Hd. destruct s as [nw dl cs sk p3 tm oq sc n ac]. unfold rank.
  destruct p; try discriminate; unfold_machine; bproj.
  - bcase; bproj; unfold lrank; bproj; cbn [length]; try lia; bcase; lia.
  - bcase; bproj; unfold lrank; bproj; cbn [length] in *; try lia; bcase; bproj; try lia.
  - bcase; bproj; unfold lrank; bproj; cbn [length]; lia.
  - bcase; bproj; unfold lrank; bproj; cbn [length]; try lia; bcase; lia.
Qed.
