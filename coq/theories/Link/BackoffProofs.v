(* C09: proofs about Link/Backoff.v - generic run invariant, termination within the fuel bound. *)
From PahoV Require Import Base.Prelude Link.Backoff.

Lemma chk_app {C} (f : C -> bev -> option C) : forall a b c,
  chk f c (a ++ b) = match chk f c a with Some c' => chk f c' b | None => None end.
Proof.
  induction a as [|e r IH]; intros b c; cbn [app chk]; [reflexivity|].
  destruct (f c e); [apply IH|reflexivity].
Qed.

Definition st_evs (x : list bev * pc * bst) := fst (fst x).
Definition st_pc (x : list bev * pc * bst) := snd (fst x).
Definition st_st (x : list bev * pc * bst) := snd x.

Lemma run_S fuel cfg p s :
  run (S fuel) cfg p s =
  if is_done p then ([], (p, s))
  else let r := run fuel cfg (st_pc (step cfg p s)) (st_st (step cfg p s)) in
       (st_evs (step cfg p s) ++ fst r, snd r).
Proof.
  cbn [run]. destruct (is_done p); [reflexivity|]. unfold st_evs, st_pc, st_st.
  destruct (step cfg p s) as [[e p1] s1]. cbn [fst snd]. destruct (run fuel cfg p1 s1). reflexivity.
Qed.

Section BInv.
  Variable cfg : config.
  Context {C : Type}.
  Variable f : C -> bev -> option C.
  Variable Inv : pc -> bst -> C -> Prop.
  Hypothesis Hstep : forall p s c, Inv p s c -> is_done p = false ->
    exists c', chk f c (st_evs (step cfg p s)) = Some c' /\
               Inv (st_pc (step cfg p s)) (st_st (step cfg p s)) c'.

  Lemma run_inv : forall fuel p s c, Inv p s c ->
    exists c', chk f c (fst (run fuel cfg p s)) = Some c' /\
               Inv (fst (snd (run fuel cfg p s))) (snd (snd (run fuel cfg p s))) c'.
  Proof.
    induction fuel as [|fuel IH]; intros p s c HI.
    - exists c. cbn. split; [reflexivity|exact HI].
    - rewrite run_S. destruct (is_done p) eqn:Ed.
      + exists c. cbn. split; [reflexivity|exact HI].
      + destruct (Hstep p s c HI Ed) as (c1 & Hc1 & HI1).
        destruct (IH _ _ _ HI1) as (c2 & Hc2 & HI2).
        exists c2. cbn [fst snd]. rewrite chk_app, Hc1. split; assumption.
  Qed.
End BInv.

(* projections of the state setters *)
Ltac bproj :=
  cbn [b_now b_delay b_cs b_sock b_p311 b_term b_outq b_script b_n b_acted
       set_now set_delay set_cs set_sock set_p311 set_term set_outq set_script set_n set_acted
       st_evs st_pc st_st fst snd] in *.

(* destruct the innermost scrutinee first *)
Ltac bcase :=
  repeat match goal with
  | |- context [match ?x with _ => _ end] =>
      lazymatch x with
      | context [match _ with _ => _ end] => fail
      | _ => destruct x eqn:?
      end
  end.

Ltac unfold_machine :=
  unfold step, loop_once, read_pending, refused_connack, failed, rc_handle, loop_up, write_disconnect,
    do_reconnect, reconnect_wait, callback, apply_act in *.

(* ------------------------------------------------------------------ what a callback / a wait can change *)

Definition same_conn (s s1 : bst) : Prop :=
  b_now s1 = b_now s /\ b_delay s1 = b_delay s /\ b_sock s1 = b_sock s /\ b_p311 s1 = b_p311 s /\
  b_script s1 = b_script s /\ b_n s1 = b_n s.

(* the application's action: the state changes only in _state / _thread_terminate / the out queue *)
Definition acted_from (s s1 : bst) : Prop :=
  b_acted s = false /\ b_acted s1 = true /\ should_exit s1 = true /\
  ((b_term s1 = true /\ b_cs s1 = b_cs s /\ b_outq s1 = b_outq s)
   \/ (b_term s1 = b_term s /\ b_sock s = NoSock /\ b_cs s1 = BDisconnected /\ b_outq s1 = b_outq s)
   \/ (b_term s1 = b_term s /\ b_sock s <> NoSock /\ b_cs s1 = BDisconnecting /\ b_outq s1 = true)).

Lemma apply_act_spec k s : b_acted s = false ->
  same_conn s (apply_act k s) /\ acted_from s (apply_act k s).
Proof.
  intros Ha. destruct s as [nw dl cs sk p3 tm oq sc n ac]. bproj. subst ac.
  unfold apply_act, same_conn, acted_from, should_exit. bproj.
  destruct k; [destruct sk|]; bproj; cbn [disc_like orb];
    repeat split; try reflexivity; try (rewrite orb_true_r; reflexivity);
    try (left; repeat split; reflexivity);
    try (right; left; repeat split; reflexivity);
    try (right; right; repeat split; try reflexivity; discriminate).
Qed.

Lemma wants_acted cfg s pl k : wants cfg s pl = Some k -> b_acted s = false.
Proof. unfold wants. destruct (b_acted s); [discriminate|reflexivity]. Qed.

Lemma callback_spec cfg pl rc s s1 e1 : callback cfg pl rc s = (s1, e1) ->
  same_conn s s1 /\
  ((s1 = s /\ e1 = [EvCb (b_now s) pl rc])
   \/ (exists k, acted_from s s1 /\ e1 = [EvCb (b_now s) pl rc; EvAct (b_now s) k])).
Proof.
  unfold callback. destruct (wants cfg s pl) as [k|] eqn:W; intros H; inv H.
  - destruct (apply_act_spec k s (wants_acted _ _ _ _ W)) as (F & A). split; [exact F|]. right. exists k. split; [exact A|reflexivity].
  - split; [unfold same_conn; repeat split; reflexivity|]. left. split; reflexivity.
Qed.

(* ------------------------------------------------------------------ termination *)

Definition lrank (p : pc) (s : bst) : nat :=
  match p with
  | PcDone _ => 0
  | PcAfterWait _ => 1
  | PcAfterInner _ => 2
  | PcInner =>
      match b_sock s with
      | NoSock => 3
      | Up _ _ None => 4
      | Up _ _ (Some _) => 5
      | Pending _ => 6
      end
  | PcFirst => 7
  end.
Definition rank (p : pc) (s : bst) : nat := 8 * length (b_script s) + lrank p s.

Lemma wait_frame cfg s s1 e1 : reconnect_wait cfg s = (s1, e1) ->
  b_sock s1 = b_sock s /\ b_script s1 = b_script s /\ b_p311 s1 = b_p311 s /\ b_n s1 = b_n s /\
  b_delay s1 = Some (next_delay cfg (b_delay s)).
Proof.
  unfold reconnect_wait. destruct (should_exit _); [intros H; inv H; bproj; repeat split; reflexivity|].
  destruct (wants_wait _ _ _) as [[j k]|] eqn:W; intros H; inv H.
  - unfold wants_wait in W. bproj. destruct (b_acted s) eqn:Ea; [discriminate|].
    destruct (apply_act_spec k (set_now (b_now s + j) (set_delay (Some (next_delay cfg (b_delay s))) s)) Ea)
      as ((_ & F2 & F3 & F4 & F5 & F6) & _). bproj. repeat split; assumption.
  - bproj. repeat split; reflexivity.
Qed.

Ltac frames :=
  repeat match goal with
  | H : callback _ _ _ _ = (_, _) |- _ =>
      let F := fresh "F" in pose proof (proj1 (callback_spec _ _ _ _ _ _ H)) as F; unfold same_conn in F; bproj;
      destruct F as (? & ? & ? & ? & ? & ?); clear H
  | H : reconnect_wait _ _ = (_, _) |- _ =>
      let F := fresh "F" in pose proof (wait_frame _ _ _ _ H) as F; bproj; destruct F as (? & ? & ? & ? & ?); clear H
  end.

Ltac bcase1 :=
  match goal with
  | |- context [match ?x with _ => _ end] =>
      lazymatch x with
      | context [match _ with _ => _ end] => fail
      | _ => destruct x eqn:?
      end
  end.
Ltac bcases := repeat (bcase1; bproj; cbn beta iota zeta).

Ltac unfold_ctl :=
  unfold step, loop_once, loop_up, lose, read_pending, refused_connack, failed, rc_handle, write_disconnect, do_reconnect in *.

Ltac fin_rank :=
  frames; unfold lrank; bproj; cbn [length];
  repeat match goal with H : b_sock _ = _ |- _ => rewrite H | H : b_script _ = _ |- _ => rewrite H end;
  bproj; cbn [length]; try lia; bcases; try lia.

Lemma step_decreases cfg p s : is_done p = false ->
  (rank (st_pc (step cfg p s)) (st_st (step cfg p s)) < rank p s)%nat.
Proof.
  intros Hd. destruct s as [nw dl cs sk p3 tm oq sc n ac]. unfold rank.
  destruct p; try discriminate; unfold_ctl; bproj; bcases; fin_rank.
Qed.

Lemma run_done cfg : forall fuel p s, (rank p s < fuel)%nat ->
  is_done (fst (snd (run fuel cfg p s))) = true.
Proof.
  induction fuel as [|fuel IH]; intros p s Hr; [lia|].
  rewrite run_S. destruct (is_done p) eqn:Ed; [exact Ed|]. cbn [fst snd].
  apply IH. pose proof (step_decreases cfg p s Ed). lia.
Qed.

Lemma run_script_done cfg t0 script :
  is_done (fst (snd (run_script cfg t0 script))) = true.
Proof.
  unfold run_script. apply run_done. unfold rank, fuel_for, binit. bproj. cbn [lrank]. lia.
Qed.

(* ------------------------------------------------------------------ full specs used by the trace invariants *)

Lemma reconnect_wait_spec cfg s s1 e1 : reconnect_wait cfg s = (s1, e1) ->
  b_delay s1 = Some (next_delay cfg (b_delay s)) /\ b_sock s1 = b_sock s /\ b_p311 s1 = b_p311 s /\
  b_script s1 = b_script s /\ b_n s1 = b_n s /\
  ((should_exit s = true /\ s1 = set_delay (Some (next_delay cfg (b_delay s))) s /\
    e1 = [EvWait (b_now s) (next_delay cfg (b_delay s)) 0])
   \/ (should_exit s = false /\
       s1 = set_now (b_now s + Z.max 0 (next_delay cfg (b_delay s))) (set_delay (Some (next_delay cfg (b_delay s))) s) /\
       e1 = [EvWait (b_now s) (next_delay cfg (b_delay s)) (Z.max 0 (next_delay cfg (b_delay s)))])
   \/ (should_exit s = false /\ exists j k, 1 <= j <= next_delay cfg (b_delay s) /\ b_now s1 = b_now s + j /\
       acted_from s s1 /\ e1 = [EvWait (b_now s) (next_delay cfg (b_delay s)) j; EvAct (b_now s + j) k])).
Proof.
  intros H. pose proof (wait_frame cfg s s1 e1 H) as (W1 & W2 & W3 & W4 & W5).
  split; [exact W5|]. split; [exact W1|]. split; [exact W3|]. split; [exact W2|]. split; [exact W4|].
  clear W1 W2 W3 W4 W5. revert H. unfold reconnect_wait.
  set (d := next_delay cfg (b_delay s)).
  assert (Hse : should_exit (set_delay (Some d) s) = should_exit s) by reflexivity. rewrite Hse.
  destruct (should_exit s) eqn:Ese.
  - intros H. inv H. left. repeat split; reflexivity.
  - destruct (wants_wait _ _ _) as [[j k]|] eqn:W; intros H; inv H.
    + right; right. split; [reflexivity|].
      unfold wants_wait in W. bproj. destruct (b_acted s) eqn:Ea; [discriminate|].
      destruct (c_act cfg) as [a|]; [|discriminate]. destruct (a_place a); try discriminate.
      destruct ((a_attempt a =? b_n s - 1) && (1 <=? chunk) && (chunk <=? d)) eqn:Ec; [|discriminate].
      injection W as Hj Hk. subst chunk k.
      exists j, (a_kind a). split; [lia|].
      destruct (apply_act_spec (a_kind a) (set_now (b_now s + j) (set_delay (Some d) s)) Ea) as ((F1 & _) & A).
      bproj. split; [exact F1|]. split; [|reflexivity].
      unfold acted_from in *. bproj. unfold should_exit in *. bproj. exact A.
    + right; left. repeat split; reflexivity.
Qed.

(* case-split every callback / wait equation in the context, then name the new state's fields *)
Ltac cb_split :=
  repeat match goal with
  | H : callback _ _ _ _ = (_, _) |- _ =>
      apply callback_spec in H; unfold same_conn in H; bproj;
      destruct H as ((? & ? & ? & ? & ? & ?) & [(? & ?)|(? & ? & ?)])
  | H : reconnect_wait _ _ = (_, _) |- _ =>
      apply reconnect_wait_spec in H; bproj;
      destruct H as (? & ? & ? & ? & ? & [(? & ? & ?)|[(? & ? & ?)|(? & ? & ? & ? & ? & ? & ?)]])
  end.
