(* Flat integer encoding of Conn operations, events and state projections for the driver. *)
From PahoV Require Import Base.Prelude Link.Conn Link.ConnCheck.

Definition b2z (b : bool) : Z := if b then 1 else 0.
Definition z2b (z : Z) : bool := negb (z =? 0).

(* ---- decoding ---- *)
Definition dec_acall (z : Z) : acall :=
  if z =? 0 then APublish0 else if z =? 1 then ASubscribe else if z =? 2 then ADisconnect
  else AReconnect (z =? 3).
Definition dec_outcome (z : Z) : outcome :=
  if z =? 0 then OAll else if z =? 1 then OPart else if z =? 2 then OBlock else if z =? 3 then OZero else OFail.

Definition take_n (n : Z) (l : list Z) : list Z * list Z :=
  let k := Z.to_nat n in (firstn k l, skipn k l).

(* [n; x1..xn; rest] *)
Definition dec_zlist (l : list Z) : list Z * list Z :=
  match l with [] => ([], []) | n :: r => take_n n r end.

Fixpoint dec_scripts_n (m : nat) (l : list Z) : list (list acall) * list Z :=
  match m with
  | O => ([], l)
  | S m' => let (x, r) := dec_zlist l in
            let (xs, r') := dec_scripts_n m' r in (map dec_acall x :: xs, r')
  end.
Definition dec_queue (l : list Z) : list (list acall) * list Z :=
  match l with [] => ([], []) | m :: r => dec_scripts_n (Z.to_nat m) r end.

Definition dec_inp (a b : Z) : inp :=
  if a =? 0 then IConnack b else if a =? 1 then IConnackDowngrade (z2b b)
  else if a =? 2 then IServerDisconnect b else if a =? 3 then IUnknown else if a =? 4 then IEof
  else if a =? 5 then IRecvError else if a =? 6 then IPingreq else if a =? 7 then IPingresp
  else if a =? 8 then IOther else INoData.
Definition dec_misc (a : Z) : misc := if a =? 0 then MFresh else if a =? 1 then MDue else MPingDue.
(* up to a inputs packed into b: (code * 256 + argument) in base 4096, first input in the lowest digit *)
Fixpoint dec_inps (n : nat) (z : Z) : list inp :=
  match n with
  | O => []
  | S n' => dec_inp ((z mod 4096) / 256) (z mod 256) :: dec_inps n' (z / 4096)
  end.
Definition dec_top (k a b : Z) : topcall :=
  if k =? 0 then TConnect (z2b a) else if k =? 1 then TReconnect (z2b a) else if k =? 2 then TDisconnect
  else if k =? 3 then TPublish0 else if k =? 4 then TSubscribe else if k =? 5 then TLoopRead (dec_inp a b)
  else if k =? 6 then TLoopWrite else if k =? 8 then TLoopReadN (dec_inps (Z.to_nat a) b) else TLoopMisc (dec_misc a).

(* [k; a; b; sched...(counted); 8 queues] *)
Definition dec_op (l : list Z) : op * list Z :=
  match l with
  | k :: a :: b :: r =>
      let (sc, r1) := dec_zlist r in
      let (q1, r2) := dec_queue r1 in let (q2, r3) := dec_queue r2 in let (q3, r4) := dec_queue r3 in
      let (q4, r5) := dec_queue r4 in let (q5, r6) := dec_queue r5 in let (q6, r7) := dec_queue r6 in
      let (q7, r8) := dec_queue r7 in let (q8, r9) := dec_queue r8 in
      (mkOp (dec_top k a b) (map dec_outcome sc) (mkScr q1 q2 q3 q4 q5 q6 q7 q8), r9)
  | _ => (mkOp TLoopWrite [] no_scripts, [])
  end.
Fixpoint dec_ops (n : nat) (l : list Z) : list op :=
  match n with
  | O => []
  | S n' => let (o, r) := dec_op l in o :: dec_ops n' r
  end.

(* ---- encoding ---- *)
Definition cs_code (x : cstate) : Z :=
  match x with CsNew => 0 | CsConnectAsync => 1 | CsConnecting => 2 | CsConnected => 3
             | CsConnectionLost => 4 | CsDisconnecting => 5 | CsDisconnected => 6 end.
Definition kind_code (k : pkind) : Z :=
  match k with KConnect => 1 | KDisconnect => 14 | KPublish0 => 3 | KPingreq => 12 | KSubscribe => 8 | KOther => 13 end.
Definition dec_kind (z : Z) : pkind :=
  if z =? 1 then KConnect else if z =? 14 then KDisconnect else if z =? 3 then KPublish0
  else if z =? 12 then KPingreq else if z =? 8 then KSubscribe else KOther.
Definition site_code (s : site) : Z :=
  match s with SiConnect => 1 | SiDisconnect => 2 | SiOpen => 3 | SiClose => 4 | SiRegW => 5 | SiUnregW => 6 | SiPublish => 7 | SiDiscOpen => 8 end.
Definition dec_wher (z : Z) : wher :=
  if z =? 0 then WEnd else if z =? 1 then WCb SiConnect else if z =? 2 then WCb SiDisconnect
  else if z =? 3 then WCb SiOpen else if z =? 4 then WCb SiClose else if z =? 5 then WCb SiRegW
  else if z =? 6 then WCb SiUnregW else if z =? 7 then WCb SiPublish else WCb SiDiscOpen.
Definition wher_code (w : wher) : Z := match w with WEnd => 0 | WCb s => site_code s end.
Definition reason_code (r : reason) : Z :=
  match r with RReplaced => 0 | RError => 1 | RKeepalive => 2 | RServerDisc => 3 | RDiscWritten => 4 end.
Definition dec_reason (z : Z) : reason :=
  if z =? 0 then RReplaced else if z =? 1 then RError else if z =? 2 then RKeepalive
  else if z =? 3 then RServerDisc else RDiscWritten.
Definition call_code (x : callkind) : Z :=
  match x with CConnect => 0 | CReconnect => 1 | CDisconnect => 2 | CPublish => 3 | CSubscribe => 4
             | CLoopRead => 5 | CLoopWrite => 6 | CLoopMisc => 7 end.
Definition dec_call (z : Z) : callkind :=
  if z =? 0 then CConnect else if z =? 1 then CReconnect else if z =? 2 then CDisconnect
  else if z =? 3 then CPublish else if z =? 4 then CSubscribe else if z =? 5 then CLoopRead
  else if z =? 6 then CLoopWrite else CLoopMisc.

Definition enc_event (e : event) : list Z :=
  match e with
  | SockNew id => [0; id; 0; 0; 0; 0]
  | ConnEnd id r => [1; id; reason_code r; 0; 0; 0]
  | SockOpen id => [2; id; 0; 0; 0; 0]
  | SockClose id => [3; id; 0; 0; 0; 0]
  | RegW id => [4; id; 0; 0; 0; 0]
  | UnregW id => [5; id; 0; 0; 0; 0]
  | CbConnect rc => [6; rc; 0; 0; 0; 0]
  | CbDisconnect rc fb => [7; rc; b2z fb; 0; 0; 0]
  | CbPublish => [8; 0; 0; 0; 0; 0]
  | Tx id k => [9; id; kind_code k; 0; 0; 0]
  | Call x => [10; call_code x; 0; 0; 0; 0]
  | Ret rc => [11; rc; 0; 0; 0; 0]
  | Raised => [12; 0; 0; 0; 0; 0]
  | Deadlock => [13; 0; 0; 0; 0; 0]
  | Fuel => [14; 0; 0; 0; 0; 0]
  | Obs w a b x d => [15; wher_code w; b2z a; b2z b; b2z x; b2z d]
  end.
Definition dec_event (k a b x d e : Z) : event :=
  if k =? 0 then SockNew a else if k =? 1 then ConnEnd a (dec_reason b) else if k =? 2 then SockOpen a
  else if k =? 3 then SockClose a else if k =? 4 then RegW a else if k =? 5 then UnregW a
  else if k =? 6 then CbConnect a else if k =? 7 then CbDisconnect a (z2b b) else if k =? 8 then CbPublish
  else if k =? 9 then Tx a (dec_kind b) else if k =? 10 then Call (dec_call a) else if k =? 11 then Ret a
  else if k =? 12 then Raised else if k =? 13 then Deadlock else if k =? 14 then Fuel
  else Obs (dec_wher a) (z2b b) (z2b x) (z2b d) (z2b e).

Fixpoint dec_events (fuel : nat) (l : list Z) : list event :=
  match fuel with
  | O => []
  | S f =>
      match l with
      | k :: a :: b :: x :: d :: e :: l' => dec_event k a b x d e :: dec_events f l'
      | _ => []
      end
  end.
Fixpoint dec_optrace (fuel : nat) (l : list Z) : list (list event) :=
  match fuel with
  | O => []
  | S f =>
      match l with
      | n :: l' =>
          let k := Z.to_nat (6 * n) in
          dec_events (Z.to_nat n) (firstn k l') :: dec_optrace f (skipn k l')
      | [] => []
      end
  end.

Definition enc_state (s : st) : list Z :=
  [cs_code (cs s); b2z (has_sock s); b2z (regw s); Z.of_nat (length (outq s)); b2z (ping s); proto s; b2z (cq s)].
Definition enc_step (r : st * list event) : list Z :=
  Z.of_nat (length (snd r)) :: flat_map enc_event (snd r) ++ enc_state (fst r).

Definition verdicts (c : cfg) (tr : list (list event)) : list Z :=
  [b2z (c10_connected_ok tr); b2z (c10_connected_x_ok tr); b2z (c10_one_disconnect_ok tr); b2z (c10_wire_ok tr);
   b2z (c16_open_close_ok tr); b2z (c16_reg_nested_ok tr); b2z (c16_no_lost_wakeup_ok c tr);
   b2z (no_fuel_ok tr); b2z (no_deadlock_ok tr)].

(* entry 1: [ext; sockcb; proto; nops; ops...] -> per op [nev; events; state] ++ [ops_wf] *)
Definition entry_conn (args : list Z) : list Z :=
  match args with
  | e :: sc :: p :: n :: rest =>
      let c := mkCfg (z2b e) (z2b sc) p in
      let ops := dec_ops (Z.to_nat n) rest in
      flat_map enc_step (run_steps c (init c) ops) ++ [b2z (ops_wf c ops)]
  | _ => []
  end.

(* entry 2: [ext; sockcb; proto; (nev; events)*] -> verdicts *)
Definition entry_check (args : list Z) : list Z :=
  match args with
  | e :: sc :: p :: rest => verdicts (mkCfg (z2b e) (z2b sc) p) (dec_optrace (length rest) rest)
  | _ => []
  end.

(* entry 3: [ext; sockcb; proto; nops; ops...] -> verdicts of the model's own trace ++ [ops_wf] *)
Definition entry_explore (args : list Z) : list Z :=
  match args with
  | e :: sc :: p :: n :: rest =>
      let c := mkCfg (z2b e) (z2b sc) p in
      let ops := dec_ops (Z.to_nat n) rest in
      verdicts c (optrace c ops) ++ [b2z (ops_wf c ops)]
  | _ => []
  end.
