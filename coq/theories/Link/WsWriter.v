(* M3 Link / WebSocket sender (property C06).  Model only, no proofs.
   Transliteration of _WebsocketWrapper._create_frame and _send_impl (with the flag _data_pending that tells a
   partly flushed DATA frame from a buffered control frame, see WsControl.v),
   used as the transport under Writer.packet_write; and an independent RFC 6455 section 5.2 frame
   parser / unmasker (parse_frame, deframe, frame_wf) that serves as the specification. *)
From PahoV Require Import Base.Prelude Link.Writer.

(* ------------------------------------------------------------------ implementation side *)

(* struct.pack("!H"/"!Q", v): n bytes, big endian *)
Fixpoint be_bytes (n : nat) (v : Z) : list Z :=
  match n with
  | O => []
  | S n' => be_bytes n' (v / 256) ++ [v mod 256]
  end.

(* for index in range(length): data[index] ^= mask_key[index % 4] *)
Fixpoint mask_from (i : nat) (key data : list Z) : list Z :=
  match data with
  | [] => []
  | x :: data' => Z.lxor x (nth (i mod 4) key 0) :: mask_from (S i) key data'
  end.
Definition mask_data (key data : list Z) : list Z := mask_from 0 key data.

(* _create_frame(opcode, data, do_masking) with mask_key = os.urandom(4) supplied as [key].
   None = ValueError("Maximum payload size is 2^63") *)
Definition create_frame (opcode : Z) (data : list Z) (mask_flag : Z) (key : list Z) : option (list Z) :=
  let length := zlen data in
  let h0 := [Z.lor (Z.shiftl 1 7) opcode] in
  let hdr :=
    if length <? 126 then Some (h0 ++ [Z.lor (Z.shiftl mask_flag 7) length])
    else if length <? 65536 then Some (h0 ++ [Z.lor (Z.shiftl mask_flag 7) 126] ++ be_bytes 2 length)
    else if length <? 9223372036854775809 (* 0x8000000000000001 *) then
      Some (h0 ++ [Z.lor (Z.shiftl mask_flag 7) 127] ++ be_bytes 8 length)
    else None in
  match hdr with
  | None => None
  | Some header =>
    if mask_flag =? 1 then Some (header ++ key ++ mask_data key data)
    else Some (header ++ data)
  end.

Record wsst := mkws {
  sendbuf : list Z;      (* _sendbuffer *)
  req : Z;               (* _requested_size *)
  nframes : nat;         (* ghost: number of os.urandom(4) calls so far = index of the next mask key *)
  pend : bool            (* _data_pending: the frame of the packet offered last is not flushed completely *)
}.

Definition ws_init : wsst := mkws [] 0 O false.

Definition is_nil {A} (l : list A) : bool := match l with [] => true | _ => false end.

(* _send_impl(data); the raw socket follows the schedule; keyf n = the n-th os.urandom(4) *)
Definition ws_send (keyf : nat -> list Z) (t : wsst) (data : list Z) (s : list outcome)
  : sendres * wsst * list Z * list outcome :=
  let created :=
    if negb (pend t) then
      match create_frame 2 data 1 (keyf (nframes t)) with
      | Some frame => Some (mkws (sendbuf t ++ frame) (zlen data) (S (nframes t)) true)
      | None => None
      end
    else Some t in
  match created with
  | None => (SFailV, mkws (sendbuf t) (req t) (S (nframes t)) (pend t), [], s)     (* ValueError out of _create_frame *)
  | Some t1 =>
    let '(o, s') := next_outcome (zlen (sendbuf t1)) s in                 (* self._socket.send(self._sendbuffer) *)
    match o with
    | Accept k =>
      let n := clip k (zlen (sendbuf t1)) in
      let buf' := zskip n (sendbuf t1) in                                 (* self._sendbuffer[length:] *)
      let t2 := mkws buf' (req t1) (nframes t1) (negb (is_nil buf') && pend t1) in
      (SWrote (if is_nil buf' then req t1 else 0), t2, ztake n (sendbuf t1), s')
    | Block => (SBlock, t1, [], s')
    | Fail => (SFail, t1, [], s')
    | FailV => (SFailV, t1, [], s')
    end
  end.

Definition ws_run (keyf : nat -> list Z) (c : cfg) (ops : list op) : rstate wsst :=
  run wsst (ws_send keyf) c ws_init ops.

(* ------------------------------------------------------------------ specification side (RFC 6455, 5.2) *)

Record frame := mkframe {
  f_fin : Z; f_rsv : Z; f_opcode : Z; f_masked : Z;
  f_len7 : Z;            (* the 7-bit length field *)
  f_len : Z;             (* the payload length it announces *)
  f_key : list Z;        (* masking key (empty if not masked) *)
  f_payload : list Z     (* payload with the mask removed *)
}.

Fixpoint be_val (l : list Z) (acc : Z) : Z :=
  match l with
  | [] => acc
  | b :: l' => be_val l' (acc * 256 + b)
  end.

(* octet i of the payload is XORed with octet (i mod 4) of the key: walk with a rotating key *)
Fixpoint unmask (k0 k1 k2 k3 : Z) (l : list Z) : list Z :=
  match l with
  | [] => []
  | x :: l' => Z.lxor x k0 :: unmask k1 k2 k3 k0 l'
  end.

(* parse one frame from the front; None = the input does not (yet) contain a whole frame *)
Definition parse_frame (l : list Z) : option (frame * list Z) :=
  match l with
  | b0 :: b1 :: r =>
    let len7 := b1 mod 128 in
    let masked := b1 / 128 in
    let ext := if len7 =? 126 then 2 else if len7 =? 127 then 8 else 0 in
    if zlen r <? ext then None else
    let plen := if ext =? 0 then len7 else be_val (ztake ext r) 0 in
    let r1 := zskip ext r in
    let kl := if masked =? 1 then 4 else 0 in
    if zlen r1 <? kl then None else
    let key := ztake kl r1 in
    let r2 := zskip kl r1 in
    if zlen r2 <? plen then None else
    let body := ztake plen r2 in
    let payload := match key with
                   | [k0; k1; k2; k3] => unmask k0 k1 k2 k3 body
                   | _ => body
                   end in
    Some (mkframe (b0 / 128) ((b0 / 16) mod 8) (b0 mod 16) masked len7 plen key payload, zskip plen r2)
  | _ => None
  end.

Fixpoint parse_frames (fuel : nat) (l : list Z) : list frame * list Z :=
  match fuel with
  | O => ([], l)
  | S f =>
    match parse_frame l with
    | None => ([], l)
    | Some (fr, r) => let '(fs, rest) := parse_frames f r in (fr :: fs, rest)
    end
  end.

(* what a client-to-server data frame produced by this client must look like *)
Definition frame_wf (fr : frame) : bool :=
  (f_fin fr =? 1) && (f_rsv fr =? 0) && (f_opcode fr =? 2) && (f_masked fr =? 1)
  && (Z.of_nat (length (f_key fr)) =? 4)
  && (if f_len7 fr <? 126 then f_len fr =? f_len7 fr
      else if f_len7 fr =? 126 then (126 <=? f_len fr) && (f_len fr <? 65536)
      else (65536 <=? f_len fr) && (f_len fr <? 9223372036854775808))     (* minimal form; MSB of the 64-bit length 0 *)
  && (zlen (f_payload fr) =? f_len fr).

Definition ws_frame_wf := frame_wf.

(* all complete frames at the front of the raw byte stream, the unmasked payloads, and what is left
   (an incomplete frame or nothing).  None = some complete frame is not well-formed. *)
Definition deframe (l : list Z) : option (list (list Z) * list Z) :=
  let '(fs, rest) := parse_frames (length l) l in
  if forallb frame_wf fs then Some (map f_payload fs, rest) else None.

(* ------------------------------------------------------------------ correspondence entries *)
Definition enc_ws (t : wsst) : list Z := [zlen (sendbuf t); req t; Z.of_nat (nframes t); if pend t then 1 else 0].

Fixpoint dec_keys (n : nat) (l : list Z) : list (list Z) * list Z :=
  match n with
  | O => ([], l)
  | S n' =>
    match l with
    | a :: b :: c :: d :: l' => let '(ks, r) := dec_keys n' l' in ([a; b; c; d] :: ks, r)
    | _ => ([], l)
    end
  end.

(* entry 2: [ext; onpub; suppress; nkeys; 4*nkeys key bytes; ops...] over the WebSocket wrapper.
   The i-th created frame uses key i (the last key repeats when the list is exhausted). *)
Definition entry_ws (args : list Z) : list Z :=
  match args with
  | ext :: onp :: sup :: nk :: rest =>
    let '(ks, rest') := dec_keys (Z.to_nat nk) rest in
    let keyf := fun n => nth n ks (last ks [0; 0; 0; 0]) in
    run_enc (ws_send keyf) enc_ws (mkcfg (ext =? 1) (onp =? 1) (sup =? 1)) (init wsst ws_init)
            (dec_ops (length rest') rest')
  | _ => []
  end.

Fixpoint enc_chunks (cs : list (list Z)) : list Z :=
  match cs with
  | [] => []
  | c :: cs' => enc_bytes c ++ enc_chunks cs'
  end.

(* entry 3: raw bytes -> [1; nframes; (len payload)* ; len rest; rest]  or [0] when a frame is ill-formed *)
Definition entry_deframe (args : list Z) : list Z :=
  match deframe args with
  | None => [0]
  | Some (cs, rest) => 1 :: Z.of_nat (length cs) :: enc_chunks cs ++ enc_bytes rest
  end.
