(* Properties C10 and C16 as computable checkers over the op-structured trace of Link/Conn.v
   (one list of events per top-level operation).  The same functions are extracted and applied
   to traces recorded from the implementation.  No proofs here. *)
From PahoV Require Import Base.Prelude Link.Conn.

Definition is_some {A} (o : option A) : bool := match o with Some _ => true | None => false end.
Definition is_connect (k : pkind) : bool := match k with KConnect => true | _ => false end.
Definition is_disconnect (k : pkind) : bool := match k with KDisconnect => true | _ => false end.
Definition is_replaced (r : reason) : bool := match r with RReplaced => true | _ => false end.

Definition run_checker {K} (ev : K -> event -> K) (fin : K -> K) (k0 : K) (tr : list (list event)) : K :=
  fold_left (fun k evs => fin (fold_left ev evs k)) tr k0.

(* ------------------------------------------------------------------ C10.1: is_connected is sound *)
(* at every observation (end of each operation, entry of each user callback):
   is_connected() -> a socket is held, and on that socket an accepting CONNACK was processed
   (on_connect(0) ran) and the connection has not ended since *)
Record k1 := mkK1 { k1_cur : option Z; k1_est : bool; k1_repl : bool; k1_ok : bool }.
Definition k1_init := mkK1 None false false true.
(* k1_repl: the last connection end was a replacement by connect()/reconnect() (used by k1x_ev only) *)
Definition k1_ev (k : k1) (e : event) : k1 :=
  match e with
  | SockNew id => mkK1 (Some id) false false (k1_ok k)
  | ConnEnd _ r => mkK1 None false (is_replaced r) (k1_ok k)
  | CbConnect rc => mkK1 (k1_cur k) (k1_est k || ((rc =? 0) && is_some (k1_cur k))) (k1_repl k) (k1_ok k)
  | Obs _ conn hs _ _ => mkK1 (k1_cur k) (k1_est k) (k1_repl k) (k1_ok k && (negb conn || (hs && k1_est k)))
  | _ => k
  end.
Definition c10_connected_ok (tr : list (list event)) : bool :=
  k1_ok (run_checker k1_ev (fun k => k) k1_init tr).

(* the same, not judging the observations made at the entry of on_socket_close and
   on_socket_unregister_write while connect()/reconnect() replaces a connection (finding F-C10h:
   connect_async() closes the socket before it leaves the connected state) *)
Definition teardown_site (w : wher) : bool :=
  match w with WCb SiClose | WCb SiUnregW => true | _ => false end.
Definition k1x_ev (k : k1) (e : event) : k1 :=
  match e with
  | Obs w _ _ _ _ => if teardown_site w && k1_repl k then k else k1_ev k e
  | _ => k1_ev k e
  end.
Definition c10_connected_x_ok (tr : list (list event)) : bool :=
  k1_ok (run_checker k1x_ev (fun k => k) k1_init tr).

(* ------------------------------------------------------------------ C10.2: exactly one on_disconnect *)
(* every ConnEnd whose reason is not "replaced by connect()/reconnect()" is matched by exactly one
   CbDisconnect inside the same operation (the one announcing a written DISCONNECT comes just
   before the socket is closed: [credit]); no other CbDisconnect occurs; a client-generated result
   is 0 iff disconnect() was called since the socket of that connection was created *)
Record k2 := mkK2 { k2_cur : option Z; k2_disc : bool; k2_owed : option bool; k2_credit : option Z; k2_ok : bool }.
Definition k2_init := mkK2 None false None None true.
Definition k2_ev (k : k2) (e : event) : k2 :=
  match e with
  | SockNew id => mkK2 (Some id) false (k2_owed k) (k2_credit k) (k2_ok k)
  | Call CDisconnect =>
      mkK2 (k2_cur k) true (match k2_owed k with Some _ => Some true | None => None end) (k2_credit k) (k2_ok k)
  | CbDisconnect rc fb =>
      match k2_owed k with
      | Some f => mkK2 (k2_cur k) (k2_disc k) None (k2_credit k) (k2_ok k && (fb || Bool.eqb (rc =? 0) f))
      | None => mkK2 (k2_cur k) (k2_disc k) None (k2_cur k)
                     (k2_ok k && is_none (k2_credit k) && is_some (k2_cur k) && (fb || Bool.eqb (rc =? 0) (k2_disc k)))
      end
  | ConnEnd id r =>
      match k2_credit k with
      | Some i => mkK2 None (k2_disc k) (k2_owed k) None (k2_ok k && (i =? id))
      | None =>
          if is_replaced r then mkK2 None (k2_disc k) (k2_owed k) None (k2_ok k)
          else mkK2 None (k2_disc k) (Some (k2_disc k)) None (k2_ok k && is_none (k2_owed k))
      end
  | _ => k
  end.
Definition k2_fin (k : k2) : k2 :=
  mkK2 (k2_cur k) (k2_disc k) (k2_owed k) (k2_credit k) (k2_ok k && is_none (k2_owed k) && is_none (k2_credit k)).
Definition c10_one_disconnect_ok (tr : list (list event)) : bool :=
  k2_ok (run_checker k2_ev k2_fin k2_init tr).

(* ------------------------------------------------------------------ C10.3: wire shape per socket *)
(* packets are written on the newest socket only; its first packet is CONNECT, no second CONNECT,
   nothing after DISCONNECT.  phase: 0 nothing written, 1 CONNECT written, 2 DISCONNECT written *)
Record k3 := mkK3 { k3_cur : Z; k3_phase : Z; k3_ok : bool }.
Definition k3_init := mkK3 0 0 true.
Definition k3_ev (k : k3) (e : event) : k3 :=
  match e with
  | SockNew id => mkK3 id 0 (k3_ok k)
  | Tx id p =>
      let good := (id =? k3_cur k) &&
                  (if k3_phase k =? 0 then is_connect p
                   else if k3_phase k =? 1 then negb (is_connect p) else false) in
      mkK3 (k3_cur k) (if is_disconnect p then 2 else if is_connect p then 1 else k3_phase k) (k3_ok k && good)
  | _ => k
  end.
Definition c10_wire_ok (tr : list (list event)) : bool :=
  k3_ok (run_checker k3_ev (fun k => k) k3_init tr).

(* ------------------------------------------------------------------ C16.1: open/close alternate *)
Record k4 := mkK4 { k4_open : option Z; k4_ok : bool }.
Definition k4_init := mkK4 None true.
Definition k4_ev (k : k4) (e : event) : k4 :=
  match e with
  | SockOpen s => mkK4 (Some s) (k4_ok k && is_none (k4_open k))
  | SockClose s => mkK4 None (k4_ok k && match k4_open k with Some s' => s' =? s | None => false end)
  | _ => k
  end.
Definition c16_open_close_ok (tr : list (list event)) : bool :=
  k4_ok (run_checker k4_ev (fun k => k) k4_init tr).

(* ------------------------------------------------------------------ C16.2: register/unregister nested *)
Record k5 := mkK5 { k5_open : option Z; k5_reg : option Z; k5_ok : bool }.
Definition k5_init := mkK5 None None true.
Definition same_id (o : option Z) (s : Z) : bool := match o with Some s' => s' =? s | None => false end.
Definition k5_ev (k : k5) (e : event) : k5 :=
  match e with
  | SockOpen s => mkK5 (Some s) (k5_reg k) (k5_ok k && is_none (k5_reg k))
  | SockClose s => mkK5 None (k5_reg k) (k5_ok k && is_none (k5_reg k))
  | RegW s => mkK5 (k5_open k) (Some s) (k5_ok k && is_none (k5_reg k) && same_id (k5_open k) s)
  | UnregW s => mkK5 (k5_open k) None (k5_ok k && same_id (k5_reg k) s && same_id (k5_open k) s)
  | _ => k
  end.
Definition c16_reg_nested_ok (tr : list (list event)) : bool :=
  k5_ok (run_checker k5_ev (fun k => k) k5_init tr).

(* ------------------------------------------------------------------ C16.3: no lost write wake-up *)
(* whenever an operation returns with a socket held and unsent data, a write registration is
   outstanding.  With the register-write callbacks installed ("external loop") outstanding means:
   an on_socket_register_write was delivered and not yet followed by on_socket_unregister_write,
   and the observed _registered_write flag agrees with that.  Without them (direct-write mode) there
   is nothing an application could observe but the flag, which is what is checked. *)
Record k6 := mkK6 { k6_reg : bool; k6_ok : bool }.
Definition k6_init := mkK6 false true.
Definition k6_ev (ext : bool) (k : k6) (e : event) : k6 :=
  match e with
  | RegW _ => mkK6 true (k6_ok k)
  | UnregW _ => mkK6 false (k6_ok k)
  | Obs WEnd _ hs ww rw =>
      mkK6 (k6_reg k) (k6_ok k && (negb (hs && ww) || (if ext then k6_reg k && rw else rw)))
  | _ => k
  end.
Definition c16_no_lost_wakeup_ok (c : cfg) (tr : list (list event)) : bool :=
  k6_ok (run_checker (k6_ev (c_ext c)) (fun k => k) k6_init tr).

(* ------------------------------------------------------------------ model sanity *)
Definition is_fuel (e : event) : bool := match e with Fuel => true | _ => false end.
Definition is_deadlock (e : event) : bool := match e with Deadlock => true | _ => false end.
Definition no_fuel_ok (tr : list (list event)) : bool := forallb (fun evs => negb (existsb is_fuel evs)) tr.
Definition no_deadlock_ok (tr : list (list event)) : bool := forallb (fun evs => negb (existsb is_deadlock evs)) tr.
