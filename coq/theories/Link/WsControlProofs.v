(* Proofs about Link/WsControl.v (property C06 over WebSockets, data AND control frames): for every sequence of
   _send_impl / _send_control_frame calls, every raw-socket behaviour and every mask key
     1. the bytes the raw socket accepted followed by the buffer are the concatenation of the frames created, in the
        order of their creation: no frame is ever started before the previous one is finished, none is lost or torn;
     2. once the buffer is empty the independent RFC 6455 parser reads that stream back as exactly those frames - each with
        FIN set, its own opcode, the mask bit, and the payload it was created with. *)
From PahoV Require Import Base.Prelude Link.Writer Link.WriterProofs Link.WsWriter Link.WsWriterProofs Link.WsControl.

Section K.
Variable keyf : nat -> list Z.

Definition WInv (r : wrun) : Prop :=
  w_wire r ++ sendbuf (w_t r) = concat (map frame_bytes (w_frames r)).

Lemma take_skip_app (n : Z) (a : list Z) : ztake n a ++ zskip n a = a.
Proof. apply ztake_zskip. Qed.

Lemma wstep_inv r op : WInv r -> WInv (wstep keyf r op).
Proof.
  unfold WInv. intros H. destruct r as [t wire frames res]. cbn [w_wire w_t w_frames] in *.
  destruct op as [d o|opcode d o]; cbn [wstep w_t w_wire w_frames].
  - unfold ws_send. destruct (pend t) eqn:Ep; cbn [negb].
    + (* the data frame is still in the buffer: no new frame *)
      destruct o; cbn -[ztake zskip zlen clip create_frame];
        rewrite ?app_nil_r, <- ?app_assoc, ?take_skip_app; exact H.
    + destruct (create_frame 2 d 1 (keyf (nframes t))) as [frame|] eqn:Ef.
      * destruct o; cbn -[ztake zskip zlen clip create_frame];
          rewrite map_app, concat_app; cbn [map concat frame_bytes]; rewrite Ef, app_nil_r, <- H;
          rewrite ?app_nil_r, <- ?app_assoc, ?take_skip_app; reflexivity.
      * cbn -[ztake zskip zlen clip create_frame]. rewrite !app_nil_r. exact H.
  - unfold ws_ctl. destruct (create_frame opcode d 1 (keyf (nframes t))) as [frame|] eqn:Ef.
    + destruct o; cbn -[ztake zskip zlen clip create_frame];
        rewrite map_app, concat_app; cbn [map concat frame_bytes]; rewrite Ef, app_nil_r, <- H;
        rewrite ?app_nil_r, <- ?app_assoc, ?take_skip_app; reflexivity.
    + cbn -[ztake zskip zlen clip create_frame]. rewrite !app_nil_r. exact H.
Qed.

Theorem ws_frames_fifo ops : WInv (wrun_ops keyf ops).
Proof.
  unfold wrun_ops. assert (H0 : WInv wr_init) by reflexivity. revert H0. generalize wr_init.
  induction ops as [|op ops IH]; intros r H; cbn [fold_left]; [exact H|].
  apply IH. apply wstep_inv. exact H.
Qed.

(* ---- what a created frame looks like, any opcode *)
Definition hdr_op (opcode len : Z) : list Z :=
  if len <? 126 then [128 + opcode; 128 + len]
  else if len <? 65536 then [128 + opcode; 254] ++ be_bytes 2 len
  else [128 + opcode; 255] ++ be_bytes 8 len.

Lemma create_frame_op opcode d key : 0 <= opcode < 16 -> zlen d < 9223372036854775809 ->
  create_frame opcode d 1 key = Some (hdr_op opcode (zlen d) ++ key ++ mask_data key d).
Proof.
  intros Ho H. unfold create_frame, hdr_op. pose proof (zlen_nonneg d) as H0.
  change (Z.shiftl 1 7) with 128. rewrite (lor_128_small opcode) by lia.
  change (Z.lor 128 126) with 254. change (Z.lor 128 127) with 255. change (1 =? 1) with true. cbv iota.
  destruct (zlen d <? 126) eqn:H1.
  - rewrite lor_128_small by lia. reflexivity.
  - destruct (zlen d <? 65536) eqn:H2; [reflexivity|].
    destruct (zlen d <? 9223372036854775809) eqn:H3; [reflexivity|lia].
Qed.

Definition frec_op (opcode : Z) (d key : list Z) : frame :=
  mkframe 1 0 opcode 1 (len7_of (zlen d)) (zlen d) key d.

Lemma parse_frame_op opcode d key : 0 <= opcode < 16 -> length key = 4%nat -> zlen d < 9223372036854775808 ->
  parse_frame (hdr_op opcode (zlen d) ++ key ++ mask_data key d) = Some (frec_op opcode d key, []).
Proof.
  intros Ho Hk Hl. pose proof (zlen_nonneg d) as H0. unfold hdr_op, frec_op, len7_of.
  assert (B1 : (128 + opcode) / 128 = 1) by lia.
  assert (B2 : ((128 + opcode) / 16) mod 8 = 0) by lia.
  assert (B3 : (128 + opcode) mod 16 = opcode) by lia.
  destruct (zlen d <? 126) eqn:H1; [|destruct (zlen d <? 65536) eqn:H2].
  - change ([128 + opcode; 128 + zlen d] ++ key ++ mask_data key d)
      with ((128 + opcode) :: (128 + zlen d) :: [] ++ key ++ mask_data key d).
    rewrite (parse_frame_gen (128 + opcode) (128 + zlen d) [] key d (zlen d) 0); try reflexivity; try assumption; try lia.
    + rewrite B1, B2, B3. reflexivity.
    + replace (zlen d =? 126) with false by lia. replace (zlen d =? 127) with false by lia. reflexivity.
  - change (([128 + opcode; 254] ++ be_bytes 2 (zlen d)) ++ key ++ mask_data key d)
      with ((128 + opcode) :: 254 :: be_bytes 2 (zlen d) ++ key ++ mask_data key d).
    rewrite (parse_frame_gen (128 + opcode) 254 (be_bytes 2 (zlen d)) key d 126 2); try reflexivity; try assumption.
    + rewrite B1, B2, B3. reflexivity.
    + change (2 =? 0) with false. cbv iota. apply be_roundtrip. change (256 ^ Z.of_nat 2) with 65536. lia.
  - change (([128 + opcode; 255] ++ be_bytes 8 (zlen d)) ++ key ++ mask_data key d)
      with ((128 + opcode) :: 255 :: be_bytes 8 (zlen d) ++ key ++ mask_data key d).
    rewrite (parse_frame_gen (128 + opcode) 255 (be_bytes 8 (zlen d)) key d 127 8); try reflexivity; try assumption.
    + rewrite B1, B2, B3. reflexivity.
    + change (8 =? 0) with false. cbv iota. apply be_roundtrip.
      change (256 ^ Z.of_nat 8) with 18446744073709551616. lia.
Qed.

(* frames as the client creates them: opcode in range, 4-byte key, payload below 2^63 *)
Definition frame_ok (f : Z * list Z * list Z) : Prop :=
  let '(opcode, d, key) := f in 0 <= opcode < 16 /\ length key = 4%nat /\ zlen d < 9223372036854775808.
Definition frec_of (f : Z * list Z * list Z) : frame := let '(opcode, d, key) := f in frec_op opcode d key.

Lemma frame_bytes_nonempty f : frame_ok f -> (1 <= length (frame_bytes f))%nat.
Proof.
  destruct f as [[opcode d] key]. intros (Ho & Hk & Hl). unfold frame_bytes.
  rewrite create_frame_op by lia. unfold hdr_op.
  destruct (zlen d <? 126); [|destruct (zlen d <? 65536)]; cbn [app length]; lia.
Qed.

Lemma parse_frames_all : forall fs fuel, Forall frame_ok fs -> (length fs <= fuel)%nat ->
  parse_frames fuel (concat (map frame_bytes fs)) = (map frec_of fs, []).
Proof.
  induction fs as [|f fs IH]; intros fuel Hok Hf.
  - cbn [map concat]. destruct fuel; reflexivity.
  - inversion Hok as [|? ? Hf1 Hrest]; subst. destruct fuel as [|fuel]; [cbn [length] in Hf; lia|].
    cbn [map concat parse_frames]. destruct f as [[opcode d] key]. destruct Hf1 as (Ho & Hk & Hl).
    unfold frame_bytes at 1. rewrite create_frame_op by lia.
    rewrite (parse_frame_mono _ (concat (map frame_bytes fs)) _ _ (parse_frame_op opcode d key Ho Hk Hl)).
    cbn [app]. rewrite (IH fuel Hrest) by (cbn [length] in Hf; lia). reflexivity.
Qed.

Lemma length_concat_ge (fs : list (Z * list Z * list Z)) : Forall frame_ok fs ->
  (length fs <= length (concat (map frame_bytes fs)))%nat.
Proof.
  induction 1 as [|f fs Hf _ IH]; cbn [map concat length]; [lia|].
  rewrite app_length. pose proof (frame_bytes_nonempty f Hf). lia.
Qed.

(* every frame of the run is as the client creates them when the mask keys have 4 bytes, the opcodes are in range and
   the payloads are below 2^63 *)
Definition wop_ok (op : wop) : Prop :=
  match op with
  | WData d _ => zlen d < 9223372036854775808
  | WCtl opcode d _ => 0 <= opcode < 16 /\ zlen d < 9223372036854775808
  end.

Lemma wstep_frames_ok r op : (forall n, length (keyf n) = 4%nat) -> wop_ok op ->
  Forall frame_ok (w_frames r) -> Forall frame_ok (w_frames (wstep keyf r op)).
Proof.
  intros Hk Hop H. destruct r as [t wire frames res]. cbn [w_frames w_t] in *.
  destruct op as [d o|opcode d o]; cbn [wstep wop_ok w_t w_wire w_frames] in *.
  - destruct (ws_send keyf t d [o]) as [[[res0 t'] raw] s']. cbn [w_frames].
    apply Forall_app. split; [exact H|].
    destruct (negb (pend t)); [|constructor].
    destruct (create_frame 2 d 1 (keyf (nframes t))); constructor; [|constructor].
    cbn. repeat split; try lia. apply Hk.
  - destruct (ws_ctl keyf t opcode d o) as [[res0 t'] raw]. cbn [w_frames].
    apply Forall_app. split; [exact H|].
    destruct (create_frame opcode d 1 (keyf (nframes t))); constructor; [|constructor].
    cbn. repeat split; try lia. apply Hk.
Qed.

Lemma wrun_frames_ok ops : (forall n, length (keyf n) = 4%nat) -> Forall wop_ok ops ->
  Forall frame_ok (w_frames (wrun_ops keyf ops)).
Proof.
  intros Hk. unfold wrun_ops. assert (H0 : Forall frame_ok (w_frames wr_init)) by constructor.
  revert H0. generalize wr_init. induction ops as [|op ops IH]; intros r H Hops; cbn [fold_left]; [exact H|].
  inversion Hops; subst. apply IH; [|assumption]. apply wstep_frames_ok; assumption.
Qed.

(* 2. read back by the independent parser *)
Theorem ws_control_stream ops :
  (forall n, length (keyf n) = 4%nat) -> Forall wop_ok ops ->
  let r := wrun_ops keyf ops in
  sendbuf (w_t r) = [] ->
  parse_frames (length (w_wire r)) (w_wire r) = (map frec_of (w_frames r), []).
Proof.
  intros Hk Hops r Hb. pose proof (ws_frames_fifo ops) as HI. unfold WInv in HI. fold r in HI.
  rewrite Hb, app_nil_r in HI. rewrite HI.
  pose proof (wrun_frames_ok ops Hk Hops) as Hok. fold r in Hok.
  apply parse_frames_all; [exact Hok|]. apply length_concat_ge. exact Hok.
Qed.

(* a data frame is created only by a _send_impl call that finds no data frame pending; a control frame never changes
   _data_pending *)
Lemma ws_ctl_pend t opcode d o : pend (snd (fst (ws_ctl keyf t opcode d o))) = pend t.
Proof.
  unfold ws_ctl. destruct (create_frame opcode d 1 (keyf (nframes t))); [destruct o|]; reflexivity.
Qed.
End K.
