(* Witnesses: the full-strength statements of C10 and C16 fail on the faithful model, and each
   exclusion of the partial statements is needed (dropping it alone admits a violating run).
   Every witness is replayed on the implementation by harness/c10.py / harness/c16.py (corpus). *)
From PahoV Require Import Base.Prelude Link.Conn Link.ConnCheck Link.ConnInv Link.ConnStatements.

Definition O (t : topcall) := mkOp t [] no_scripts.
Definition Os (t : topcall) (sc : list outcome) := mkOp t sc no_scripts.
Definition direct := mkCfg false false 4.
Definition direct_cb := mkCfg false true 4.
Definition extloop := mkCfg true false 4.
Definition extloop_cb := mkCfg true true 4.

(* F-C10h: is_connected() is true with no socket inside on_socket_unregister_write / on_socket_close *)
Definition w_H := [O (TConnect true); O (TLoopRead (IConnack 0)); O (TConnect false)].
Lemma C10_connected_refuted : ~ C10_connected_full.
Proof. intros H. specialize (H extloop w_H eq_refl). vm_compute in H. discriminate. Qed.

(* F-C10e: disconnect() while the DISCONNECT cannot be written, then CONNACK, then the write *)
Definition w_E := [O (TConnect true); Os TDisconnect [OBlock]; O (TLoopRead (IConnack 0)); O TLoopWrite].
Lemma C10_E_needed : c10_ops_sel true true true true true false direct w_E = true
  /\ c10_connected_x_ok (optrace direct w_E) = false.
Proof. vm_compute. split; reflexivity. Qed.
(* ... and the same connection lost instead: result code not success although disconnect() was called *)
Definition w_E2 := [O (TConnect true); Os TDisconnect [OBlock]; O (TLoopRead (IConnack 0)); O (TLoopRead IEof)].
Lemma C10_E_needed_rc : c10_ops_sel true true true true true false direct w_E2 = true
  /\ c10_one_disconnect_ok (optrace direct w_E2) = false.
Proof. vm_compute. split; reflexivity. Qed.

(* F-C10f: a reply written from inside loop_read fails: two on_disconnect *)
Definition w_F := [O (TConnect true); Os (TLoopRead IPingreq) [OFail]].
Lemma C10_F_needed : c10_ops_sel true true true true false true direct w_F = true
  /\ c10_one_disconnect_ok (optrace direct w_F) = false.
Proof. vm_compute. split; reflexivity. Qed.
Lemma C10_one_disconnect_refuted : ~ C10_one_disconnect_full.
Proof. intros H. specialize (H direct w_F eq_refl). vm_compute in H. discriminate. Qed.

(* F-C10g: reconnect() inside the on_disconnect that announces a written DISCONNECT *)
Definition w_G := [O (TConnect true);
                   mkOp TDisconnect [] (mkScr [] [] [] [] [] [] [] [[AReconnect true]])].
Lemma C10_G_needed : c10_ops_sel true false true true true true direct w_G = true
  /\ c10_one_disconnect_ok (optrace direct w_G) = false.
Proof. vm_compute. split; reflexivity. Qed.

(* F-C10d: publish() inside on_socket_open *)
Definition w_D := [mkOp (TConnect true) [] (mkScr [] [] [[APublish0]] [] [] [] [] [])].
Lemma C10_D_needed : c10_ops_sel false true true true true true direct_cb w_D = true
  /\ c10_wire_ok (optrace direct_cb w_D) = false.
Proof. vm_compute. split; reflexivity. Qed.
Lemma C10_wire_refuted : ~ C10_wire_full.
Proof. intros H. specialize (H direct_cb w_D eq_refl). vm_compute in H. discriminate. Qed.

(* F-C10i: reconnect() inside on_socket_unregister_write during the teardown after disconnect() *)
Definition w_R := [O (TConnect true); O TDisconnect;
                   mkOp (TLoopRead IEof) [] (mkScr [] [] [] [] [] [[AReconnect true]] [] [])].
Lemma C10_R_needed : c10_ops_sel true true false true true true extloop w_R = true
  /\ c10_one_disconnect_ok (optrace extloop w_R) = false.
Proof. vm_compute. split; reflexivity. Qed.
(* ... disconnect() inside on_socket_close while reconnect() replaces the socket *)
Definition w_R2 := [O (TReconnect true);
                    mkOp (TReconnect true) [OFail] (mkScr [] [] [] [[ADisconnect]] [] [] [] [])].
Lemma C10_R_needed_close : c10_ops_sel true true false true true true direct_cb w_R2 = true
  /\ c10_one_disconnect_ok (optrace direct_cb w_R2) = false.
Proof. vm_compute. split; reflexivity. Qed.

(* F-C10j: a failing reconnect() inside the on_connect that reports a refused connection *)
Definition w_C := [O (TConnect true);
                   mkOp (TLoopRead (IConnack 5)) [] (mkScr [[AReconnect false]] [] [] [] [] [] [] [])].
Lemma C10_C_needed : c10_ops_sel true true true false true true direct w_C = true
  /\ c10_one_disconnect_ok (optrace direct w_C) = false.
Proof. vm_compute. split; reflexivity. Qed.

(* F-C16a: reconnect() inside on_socket_unregister_write: the new socket is announced before the
   old one's on_socket_close *)
Definition w_T := [O (TConnect true);
                   mkOp (TConnect true) [] (mkScr [] [] [] [] [] [[AReconnect true]] [] [])].
Lemma C16_open_close_refuted : ~ C16_open_close_full.
Proof. intros H. specialize (H extloop_cb w_T eq_refl). vm_compute in H. discriminate. Qed.
Lemma C16_reg_nested_refuted : ~ C16_reg_nested_full.
Proof. intros H. specialize (H extloop_cb w_T eq_refl). vm_compute in H. discriminate. Qed.
(* ... and inside on_socket_close during reconnect(): the socket it opens is overwritten, never closed *)
Definition w_T2 := [O (TReconnect true);
                    mkOp (TReconnect true) [] (mkScr [] [] [] [[AReconnect true]] [] [] [] [])].
Lemma C16_T_needed_close : c16_open_close_ok (optrace direct_cb w_T2) = false.
Proof. vm_compute. reflexivity. Qed.
