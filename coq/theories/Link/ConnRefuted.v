(* Witnesses: the full-strength statements of C10 and C16 fail on the faithful model, and each
   exclusion of the partial statements is needed (dropping it alone admits a violating run).
   Every witness is replayed on the implementation by harness/c10.py / harness/c16.py (corpus).
   The witnesses of the defects repaired in /repo since (F-C10d, e, f, g, j) are kept as regressions:
   the model of the repaired code satisfies every clause on them. *)
From PahoV Require Import Base.Prelude Link.Conn Link.ConnCheck Link.ConnInv Link.ConnStatements.

Definition O (t : topcall) := mkOp t [] no_scripts.
Definition Os (t : topcall) (sc : list outcome) := mkOp t sc no_scripts.
Definition direct := mkCfg false false 4.
Definition direct_cb := mkCfg false true 4.
Definition extloop := mkCfg true false 4.
Definition extloop_cb := mkCfg true true 4.

(* F-C10h (open, narrowed): connect() on a live connection: connect_async() closes the socket while the
   state is still CONNECTED, so is_connected() is true with no socket inside on_socket_unregister_write /
   on_socket_close *)
Definition w_H := [O (TConnect true); O (TLoopRead (IConnack 0)); O (TConnect false)].
Lemma C10_connected_refuted : ~ C10_connected_full.
Proof. intros H. specialize (H extloop w_H eq_refl). vm_compute in H. discriminate. Qed.

(* F-C10k (remainder of F-C10d): reconnect() inside on_socket_open: the outer reconnect() queues a second
   CONNECT on the socket the inner one opened *)
Definition w_D := [mkOp (TConnect true) [] (mkScr [] [] [[AReconnect true]] [] [] [] [] []); O TLoopWrite].
Lemma C10_D_needed : c10_ops_sel false true extloop_cb w_D = true /\ c10_wire_ok (optrace extloop_cb w_D) = false.
Proof. vm_compute. split; reflexivity. Qed.
Lemma C10_wire_refuted : ~ C10_wire_full.
Proof. intros H. specialize (H extloop_cb w_D eq_refl). vm_compute in H. discriminate. Qed.
(* ... publish()/disconnect() there are only queued, behind CONNECT (0ed8c5c, 9f497e7): the old F-C10d witnesses *)
Definition w_D_old := [mkOp (TConnect true) [] (mkScr [] [] [[APublish0]] [] [] [] [] [])].
Definition w_D_ext := [mkOp (TConnect true) [] (mkScr [] [] [[APublish0; ADisconnect]] [] [] [] [] []); O TLoopWrite].

(* F-C10i (open): disconnect() inside on_socket_unregister_write during a keepalive teardown: the result code
   was computed before; disconnect() inside on_socket_close while reconnect() replaces the socket: the new
   socket is opened in state DISCONNECTED *)
Definition w_R := [O (TReconnect true); mkOp (TLoopMisc MDue) [] (mkScr [] [] [] [] [] [[ADisconnect]] [] [])].
Lemma C10_R_needed : c10_ops_sel true false extloop w_R = true /\ c10_one_disconnect_ok (optrace extloop w_R) = false.
Proof. vm_compute. split; reflexivity. Qed.
Definition w_R2 := [O (TReconnect true);
                    mkOp (TReconnect true) [OFail] (mkScr [] [] [] [[ADisconnect]] [] [] [] [])].
Lemma C10_R_needed_close : c10_ops_sel true false direct_cb w_R2 = true
  /\ c10_one_disconnect_ok (optrace direct_cb w_R2) = false.
Proof. vm_compute. split; reflexivity. Qed.
Lemma C10_one_disconnect_refuted : ~ C10_one_disconnect_full.
Proof. intros H. specialize (H extloop w_R eq_refl). vm_compute in H. discriminate. Qed.

(* ---- regressions: witnesses of the repaired F-C10e, F-C10f, F-C10g, F-C10j and of the first form of F-C10i ---- *)
Definition w_E := [O (TConnect true); Os TDisconnect [OBlock]; O (TLoopRead (IConnack 0)); O TLoopWrite].
Definition w_E2 := [O (TConnect true); Os TDisconnect [OBlock]; O (TLoopRead (IConnack 0)); O (TLoopRead IEof)].
Definition w_F := [O (TConnect true); Os (TLoopRead IPingreq) [OFail]].
Definition w_G := [O (TConnect true);
                   mkOp TDisconnect [] (mkScr [] [] [] [] [] [] [] [[AReconnect true]])].
Definition w_C := [O (TConnect true);
                   mkOp (TLoopRead (IConnack 5)) [] (mkScr [[AReconnect false]] [] [] [] [] [] [] [])].
Definition all_c10 (c : cfg) (ops : list op) : bool :=
  c10_ops_ok c ops && c10_connected_x_ok (optrace c ops) && c10_one_disconnect_ok (optrace c ops) && c10_wire_ok (optrace c ops).
Lemma C10_repaired_witnesses :
  all_c10 direct w_E = true /\ all_c10 direct w_E2 = true /\ all_c10 direct w_F = true /\
  all_c10 direct w_G = true /\ all_c10 direct w_C = true /\
  all_c10 direct_cb w_D_old = true /\ all_c10 extloop_cb w_D_ext = true.
Proof. vm_compute. repeat split; reflexivity. Qed.

(* F-C16a: reconnect() inside on_socket_unregister_write: the new socket is announced before the
   old one's on_socket_close *)
Definition w_T := [O (TConnect true);
                   mkOp (TConnect true) [] (mkScr [] [] [] [] [] [[AReconnect true]] [] [])].
Lemma C16_open_close_refuted : ~ C16_open_close_full.
Proof. intros H. specialize (H extloop_cb w_T eq_refl). vm_compute in H. discriminate. Qed.
Lemma C16_reg_nested_refuted : ~ C16_reg_nested_full.
Proof. intros H. specialize (H extloop_cb w_T eq_refl). vm_compute in H. discriminate. Qed.
(* ... and inside on_socket_close during reconnect(): the socket it opens is overwritten, never closed *)
Definition w_T2 := [O (TReconnect true);
                    mkOp (TReconnect true) [] (mkScr [] [] [] [[AReconnect true]] [] [] [] [])].
Lemma C16_T_needed_close : c16_open_close_ok (optrace direct_cb w_T2) = false.
Proof. vm_compute. reflexivity. Qed.
