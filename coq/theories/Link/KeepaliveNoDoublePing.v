(* C08: the client never sends a PINGREQ while one is outstanding (unless the PINGRESP was read in the very
   same loop call).  This is what makes the implementation-side oracle of clause 2 sound when it runs its
   deadline from the EARLIEST unanswered PINGREQ (seed S-C08-6). *)
From PahoV Require Import Base.Prelude Link.Keepalive.

Lemma check_keepalive_ping s : In TxPing (snd (check_keepalive s)) -> ping_t s = 0.
Proof.
  unfold check_keepalive. destruct (kk s =? 0); [intros []|].
  destruct (ka_due s); [|intros []].
  destruct (ka_may_ping s) eqn:E.
  - intros _. unfold ka_may_ping in E. apply andb_true_iff in E as [_ E]. lia.
  - cbn. intros [H|[H|[]]]; discriminate.
Qed.

Lemma loop_misc_ping s : In TxPing (snd (loop_misc s)) -> ping_t s = 0.
Proof.
  unfold loop_misc. destruct (negb (sock s)); [cbn; intros [H|[]]; discriminate|].
  pose proof (check_keepalive_ping s) as Hc.
  destruct (check_keepalive s) as [s1 e1]. cbn [snd] in Hc.
  assert (Hin : forall tl, (forall x, In x tl -> x <> TxPing) -> In TxPing (e1 ++ tl) -> ping_t s = 0).
  { intros tl Htl H. apply in_app_or in H as [H|H]; [auto|]. exfalso. exact (Htl _ H eq_refl). }
  destruct (negb (sock s1)).
  - cbn [snd]. apply Hin. intros x [<-|[]]; discriminate.
  - destruct (ka_ping_expired s1).
    + unfold close_with. cbn [snd]. apply Hin. cbn. intros x [<-|[<-|[<-|[]]]]; discriminate.
    + cbn [snd]. apply Hin. intros x [<-|[]]; discriminate.
Qed.

Lemma service_tail s1 pre : (forall x, In x pre -> x <> TxPing) ->
  In TxPing (snd (if negb (sock s1) then (s1, pre ++ [LoopRc RC_CONN_LOST])
                  else let (s2, e2) := loop_misc s1 in (s2, pre ++ e2))) -> ping_t s1 = 0.
Proof.
  intros Hpre. pose proof (loop_misc_ping s1) as Hm.
  destruct (negb (sock s1)).
  - cbn [snd]. intros H. apply in_app_or in H as [H|H]; [exfalso; exact (Hpre _ H eq_refl)|].
    destruct H as [H|[]]; discriminate.
  - destruct (loop_misc s1) as [s2 e2]. cbn [snd] in *. intros H.
    apply in_app_or in H as [H|H]; [exfalso; exact (Hpre _ H eq_refl)|auto].
Qed.

Theorem no_ping_while_ping_outstanding s o :
  In TxPing (snd (step s o)) -> ping_t s = 0 \/ In (Rd InPingresp) (snd (step s o)).
Proof.
  destruct o as [dt| | |p|]; cbn [step].
  - cbn. intros [H|[]]; discriminate.
  - unfold service. destruct (negb (sock s)) eqn:Es; [cbn; intros [H|[]]; discriminate|].
    unfold read_phase. destruct (inq s) as [|p rest].
    + rewrite Es. intros H. left.
      apply (service_tail s []); [intros x []|]. rewrite Es. cbn [app]. exact H.
    + destruct p; cbn [read_one close_with].
      * intros H. left. apply service_tail in H; [exact H|]. intros x [<-|[]]; discriminate.
      * intros H. right.
        match type of H with In _ (snd (if ?b then _ else _)) => destruct b end;
          [|match goal with |- context [loop_misc ?x] => destruct (loop_misc x) end];
          cbn [snd app]; left; reflexivity.
      * intros H. left. apply service_tail in H; [exact H|]. intros x [<-|[]]; discriminate.
      * cbn. intros [H|[H|[H|[H|[]]]]]; discriminate.
  - destruct (sock s); cbn; [intros [H|[]]; discriminate | intros []].
  - destruct (sock s); cbn; [intros [H|[]]; discriminate | intros []].
  - cbn [snd]. intros H. apply in_app_or in H as [H|H].
    + destruct (sock s); cbn in H; [destruct H as [H|[]]; discriminate | destruct H].
    + cbn in H. destruct H as [H|[]]; discriminate.
Qed.
