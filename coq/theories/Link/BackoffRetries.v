(* C09.2: loop_forever ends only because the script ended (i.e. every failure was followed by another
   attempt), because the application acted, because reconnect_on_failure is off, or with the documented
   OSError of a refused FIRST attempt without retry_first_connection. *)
From PahoV Require Import Base.Prelude Link.Backoff Link.BackoffProofs Link.BackoffU Link.BoolTaut Link.BackoffFinal.

Definition ss (seen : bool) (e : bev) : option bool :=
  match e with EvAct _ _ => Some true | _ => Some seen end.

Lemma has_act_chk : forall tr c, chk ss c tr = Some (c || has_act tr).
Proof.
  induction tr as [|e r IH]; intros c; cbn [chk has_act existsb]; [rewrite orb_false_r; reflexivity|].
  destruct e; cbn [ss]; rewrite IH; cbn [orb]; try reflexivity. rewrite orb_true_r. reflexivity.
Qed.

Definition is_first (p : pc) : bool := match p with PcFirst => true | _ => false end.
Definition is_inner (p : pc) : bool := match p with PcInner => true | _ => false end.

(* the first CONNACK rc 1 still ahead (or being read) is not followed by a refused connect *)
Definition dtr_ok (k : sockst) (sc : list outcome) : bool :=
  match k with
  | Pending Downgrade => negb (first_is_refused sc)
  | _ => negb (downgrade_then_refused sc)
  end.

Lemma dtr_dg r : downgrade_then_refused (Downgrade :: r) = first_is_refused r.
Proof. destruct r as [|[] r]; reflexivity. Qed.

Definition ret_ok (cfg : config) (script0 : list outcome) (p : pc) (s : bst) : bool :=
  match p with
  | PcDone (RRet _) => b_acted s || negb (c_rof cfg)
  | PcDone RRaise => negb (c_retry_first cfg) && first_is_refused script0
  | _ => true
  end.

Definition invR (cfg : config) (script0 : list outcome) (p : pc) (s : bst) (seen : bool) : bool :=
  negb (xorb seen (b_acted s))
  && negb (xorb (b_acted s) (should_exit s))
  && (negb (b_acted s) || negb (is_pending (b_sock s)))
  && (negb (is_pending (b_sock s)) || is_inner p || (is_first p && negb (is_async (b_cs s))))
  && (negb (is_async (b_cs s)) || is_nosock (b_sock s))
  && (negb (is_async (b_cs s)) || c_retry_first cfg
      || negb (xorb (first_is_refused (b_script s)) (first_is_refused script0)))
  && ret_ok cfg script0 p s.

Lemma ss_act c t f k : chk ss c (act_ev t f k) = Some (c || f).
Proof. destruct f; cbn; rewrite ?orb_true_r, ?orb_false_r; reflexivity. Qed.

(* observations: as for the final theorem, plus what the primitives leave alone *)
Definition keepR (s s1 : bst) : Prop := b_p311 s1 = b_p311 s /\ b_script s1 = b_script s.

Lemma callback_R cfg pl rc s s1 e1 : callback cfg pl rc s = (s1, e1) ->
  exists f d, (forall c, chk ss c e1 = Some (c || f)) /\ obsF s s1 f d /\ b_sock s1 = b_sock s /\ keepR s s1.
Proof.
  intros H. apply callback_u in H. destruct H as (f & d & k & _ & U & ->).
  assert (K : keepR s s1) by (unfold acted_u, keepR in *; tauto).
  apply acted_u_obsF in U. exists f, d. split; [|tauto].
  intros c. rewrite chk_cons. cbn [ss]. apply ss_act.
Qed.

Lemma reconnect_wait_R cfg s s1 e1 : reconnect_wait cfg s = (s1, e1) ->
  exists f d, (forall c, chk ss c e1 = Some (c || f)) /\ obsF s s1 f d /\ b_sock s1 = b_sock s /\ keepR s s1.
Proof.
  intros H. apply reconnect_wait_u in H. cbn zeta in H. destruct H as (f & d & k & sl & _ & _ & U & -> & _).
  assert (K : keepR s s1) by (unfold acted_u, keepR in *; bproj; tauto).
  apply acted_u_obsF in U. bproj. exists f, d. split; [|tauto].
  intros c. rewrite chk_cons. cbn [ss]. apply ss_act.
Qed.

Lemma write_disconnect_R cfg s s1 e1 : write_disconnect cfg s = (s1, e1) ->
  exists f d, (forall c, chk ss c e1 = Some (c || f)) /\ obsF s s1 f d /\ b_sock s1 = NoSock /\ keepR s s1.
Proof.
  intros H. apply write_disconnect_u in H.
  destruct H as (f & d & k & -> & _ & _ & U3 & U4 & U5 & _ & U7 & U8 & U9 & U10 & _ & U12 & U13).
  exists f, d. split; [|split; [unfold obsF; repeat split; assumption|split; [exact U3|split; assumption]]].
  intros c. rewrite chk_cons. cbn [ss]. apply ss_act.
Qed.

Lemma failed_R cfg rc s : exists rc' s1 e1 f d,
  failed cfg rc s = LRet rc' s1 e1 /\
  (forall c, chk ss c e1 = Some (c || f)) /\
  b_acted s1 = b_acted s || f /\ b_term s1 = b_term s || (f && negb d) /\
  disc_like (b_cs s1) = disc_like (b_cs s) || d /\ is_async (b_cs s1) = false /\
  f && b_acted s = false /\ d && negb f = false /\ b_sock s1 = NoSock /\ keepR s s1.
Proof.
  destruct (failed_u cfg rc s) as (rc' & s3 & f & d & k & E & Hrc & _ & _ & F3 & F4 & F5 & _ & F7 & F8 & F9 & F10 & _ & F12 & F13).
  eexists rc', s3, _, f, d. split; [exact E|]. split.
  - intros c. repeat (rewrite chk_cons; cbn [ss]). apply ss_act.
  - unfold keepR. repeat split; assumption.
Qed.

Lemma refused_connack_R cfg code s : exists rc' s1 e1 f1 d1 f2 d2,
  refused_connack cfg code s = LRet rc' s1 e1 /\
  (forall c, chk ss c e1 = Some (c || f1 || f2)) /\
  b_acted s1 = b_acted s || f1 || f2 /\
  b_term s1 = b_term s || (f1 && negb d1) || (f2 && negb d2) /\
  disc_like (b_cs s1) = disc_like (b_cs s) || d1 || d2 /\ is_async (b_cs s1) = false /\
  f1 && b_acted s = false /\ d1 && negb f1 = false /\
  f2 && (b_acted s || f1) = false /\ d2 && negb f2 = false /\ b_sock s1 = NoSock /\ keepR s s1.
Proof.
  destruct (refused_connack_u cfg code s)
    as (rc' & s2 & f1 & d1 & k1 & f2 & d2 & k2 & E & Hrc & _ & _ & R3 & R4 & R5 & _ & R7 & R8 & R9 & R10 & _ & R12 & R13 & R14 & R15).
  eexists rc', s2, _, f1, d1, f2, d2. split; [exact E|]. split.
  - intros c. rewrite chk_app. repeat (rewrite chk_cons; cbn [ss]). rewrite ss_act.
    repeat (rewrite chk_cons; cbn [ss]). apply ss_act.
  - unfold keepR. repeat split; assumption.
Qed.

Ltac r1 :=
  match goal with
  | |- ?G ?E = true =>
      lazymatch E with match _ with _ => _ end => idtac | _ => fail end;
      let h := head_scrut E in
      lazymatch h with
      | callback ?c ?p ?r ?s =>
          let s1 := fresh "s" in let e1 := fresh "e" in let E := fresh "E" in
          destruct (callback c p r s) as [s1 e1] eqn:E; apply callback_R in E;
          destruct E as (? & ? & ? & (? & ? & ? & ? & ? & ?) & ? & (? & ?))
      | reconnect_wait ?c ?s =>
          let s1 := fresh "s" in let e1 := fresh "e" in let E := fresh "E" in
          destruct (reconnect_wait c s) as [s1 e1] eqn:E; apply reconnect_wait_R in E;
          destruct E as (? & ? & ? & (? & ? & ? & ? & ? & ?) & ? & (? & ?))
      | write_disconnect ?c ?s =>
          let s1 := fresh "s" in let e1 := fresh "e" in let E := fresh "E" in
          destruct (write_disconnect c s) as [s1 e1] eqn:E; apply write_disconnect_R in E;
          destruct E as (? & ? & ? & (? & ? & ? & ? & ? & ?) & ? & (? & ?))
      | refused_connack ?c ?code ?s =>
          let E := fresh "E" in
          destruct (refused_connack_R c code s) as (? & ? & ? & ? & ? & ? & ? & E & ? & ? & ? & ? & ? & ? & ? & ? & ? & ? & (? & ?));
          rewrite E; clear E
      | failed ?c ?rc ?s =>
          let E := fresh "E" in
          destruct (failed_R c rc s) as (? & ? & ? & ? & ? & E & ? & ? & ? & ? & ? & ? & ? & ? & (? & ?));
          rewrite E; clear E
      | do_reconnect ?i ?s =>
          let E := fresh "E" in
          destruct (do_reconnect_cases i s) as [(? & E)|[(? & ? & E)|(? & ? & ? & ? & E)]];
          cbn zeta in E; rewrite E; clear E
      | _ => destruct h eqn:?
      end
  | |- ?G ?E = true =>
      match E with
      | context [match ?x with _ => _ end] =>
          lazymatch x with
          | context [match _ with _ => _ end] => fail
          | _ => destruct x eqn:?
          end
      end
  end; bproj; cbn beta iota zeta.

Ltac r_chk :=
  repeat first
    [ rewrite chk_app
    | rewrite chk_cons
    | rewrite chk_nil
    | match goal with H : forall c, chk ss c ?e = Some _ |- context [chk ss ?c0 ?e] => rewrite (H c0) end
    | progress cbn [ss app] ].

Ltac r_obs :=
  repeat match goal with
  | H : b_acted ?x = _ |- context [b_acted ?x] => rewrite H
  | H : b_term ?x = _ |- context [b_term ?x] => rewrite H
  | H : b_p311 ?x = _ |- context [b_p311 ?x] => rewrite H
  | H : b_script ?x = _ |- context [b_script ?x] => rewrite H
  | H : disc_like (b_cs ?x) = _ |- context [disc_like (b_cs ?x)] => rewrite H
  | H : is_async (b_cs ?x) = _ |- context [is_async (b_cs ?x)] => rewrite H
  end.

Ltac r_leaf :=
  try match goal with H : (?a =? ?b) = _ |- _ => discriminate H end;
  repeat match goal with
  | H : context [match b_cs ?s with BDisconnecting => _ | _ => _ end] |- _ => destruct (b_cs s) eqn:?
  | H : context [match b_cs ?s with BConnecting => _ | _ => _ end] |- _ => destruct (b_cs s) eqn:?
  | |- context [match b_cs ?s with BConnecting => _ | _ => _ end] => destruct (b_cs s) eqn:?
  end;
  repeat match goal with
  | H : context [if ?b then ?s else set_now ?t ?s] |- _ => destruct b
  | |- context [if ?b then ?s else set_now ?t ?s] => destruct b
  end;
  cbv beta; bproj; r_chk;
  unfold invR, ret_ok, should_exit in *; bproj;
  repeat match goal with H : b_cs ?x = _ |- _ => is_var x; try rewrite H in *; clear H end;
  repeat match goal with H : b_sock ?x = _ |- _ => rewrite H in *; clear H end;
  repeat match goal with H : b_script ?x = _ :: _ |- _ => rewrite H in *; clear H
                    | H : b_script ?x = [] |- _ => rewrite H in *; clear H end;
  repeat (r_obs; bproj);
  repeat match goal with o : outcome |- _ => destruct o; try congruence end;
  cbn [is_pending is_nosock is_first is_inner dtr_ok first_is_refused downgrade_then_refused
       disc_like is_async andb orb negb xorb] in *;
  clear_junk;
  repeat match goal with c : bst |- _ => lazymatch goal with H : negb (is_async (b_cs c)) || negb (disc_like (b_cs c)) = true |- _ => fail | _ => pose proof (async_not_disc (b_cs c)) end end;
  repeat match goal with
  | H : b_acted ?x = _ |- _ => is_var x; try rewrite H in *; clear H
  | H : b_term ?x = _ |- _ => is_var x; try rewrite H in *; clear H
  | H : disc_like (b_cs ?x) = _ |- _ => is_var x; try rewrite H in *; clear H
  | H : is_async (b_cs ?x) = _ |- _ => is_var x; try rewrite H in *; clear H
  end;
  cbn [disc_like is_async andb orb negb xorb] in *;
  ttaut.

Lemma R_step cfg script0 : forall p s c, invR cfg script0 p s c = true -> is_done p = false ->
  match chk ss c (st_evs (step cfg p s)) with
  | Some c' => invR cfg script0 (st_pc (step cfg p s)) (st_st (step cfg p s)) c'
  | None => false
  end = true.
Proof.
  intros p s c HI Hd.
  set (G := fun x => match chk ss c (st_evs x) with
                     | Some c' => invR cfg script0 (st_pc x) (st_st x) c' | None => false end).
  change (G (step cfg p s) = true).
  destruct p; try discriminate; unfold step, loop_once, loop_up, lose, read_pending; bproj.
  all: repeat r1.
  all: subst G; timeout 100 r_leaf.
Qed.
