(* M3 Link / Reader: executable model of client.py `_packet_read` (3054-3158) and of the repetition
   done by `loop_read` (2085-2107), as a resumable machine over the `_in_packet` record, plus the
   byte-at-a-time reference automaton `feed1`.  Model only, no proofs (see ReaderProofs.v).

   The reader is generic in the transport (type [T], function [recv]) so that the same definition is
   run over the raw socket model below ([sock]) and over the WebSocket wrapper model (WsReader.v). *)
From PahoV Require Import Base.Prelude.

(* ---- self._in_packet (802-811); `pos` is never read by the code paths modelled here ---- *)
Record rd : Type := mkRd {
  command : Z;                 (* 0 = "no command byte yet" (that is how the code tests it; a 0 byte is never stored) *)
  have_remaining : bool;
  remaining_count : list Z;
  remaining_mult : Z;
  remaining_length : Z;
  packet : list Z;
  to_process : Z
}.

Definition rd_init : rd := mkRd 0 false [] 1 0 [] 0.

Definition set_command (r : rd) (c : Z) : rd :=
  mkRd c (have_remaining r) (remaining_count r) (remaining_mult r) (remaining_length r) (packet r) (to_process r).

(* remaining_count.append(b) *)
Definition push_count (r : rd) (b : Z) : rd :=
  mkRd (command r) (have_remaining r) (remaining_count r ++ [b]) (remaining_mult r) (remaining_length r)
       (packet r) (to_process r).

(* remaining_length += (b & 127) * remaining_mult ; remaining_mult *= 128 *)
Definition add_length (r : rd) (b : Z) : rd :=
  mkRd (command r) (have_remaining r) (remaining_count r) (remaining_mult r * 128)
       (remaining_length r + Z.land b 127 * remaining_mult r) (packet r) (to_process r).

(* have_remaining = 1 ; to_process = remaining_length *)
Definition finish_length (r : rd) : rd :=
  mkRd (command r) true (remaining_count r) (remaining_mult r) (remaining_length r) (packet r) (remaining_length r).

(* to_process -= len(data) ; packet += data *)
Definition add_data (r : rd) (d : list Z) : rd :=
  mkRd (command r) (have_remaining r) (remaining_count r) (remaining_mult r) (remaining_length r)
       (packet r ++ d) (to_process r - Z.of_nat (length d)).

(* ---- what one recv() call on the transport can do ---- *)
Inductive rres : Type :=
| RData (d : list Z)      (* returned bytes; b"" (d = []) means the peer closed *)
| RBlock                  (* BlockingIOError *)
| REof                    (* returned b"" *)
| RErr.                   (* OSError / TimeoutError / ConnectionError *)

(* ---- result of one _packet_read() call ---- *)
Inductive prc : Type :=
| PrAgain                         (* MQTT_ERR_AGAIN (-1) *)
| PrConnLost                      (* MQTT_ERR_CONN_LOST (7) *)
| PrProtocol                      (* MQTT_ERR_PROTOCOL (2): zero first byte, or more than 4 remaining-length bytes *)
| PrFrame (cmd : Z) (body : list Z)   (* packet complete: _packet_handle() runs on it, _in_packet is reset,
                                         the return code is the handler's *)
| PrFuel.                         (* model artefact, proved unreachable *)

Inductive step (T : Type) : Type :=
| Ret (rc : prc) (r : rd) (t : T)
| Cont (r : rd) (t : T).
Arguments Ret {T} rc r t.
Arguments Cont {T} r t.

Definition frame : Type := (Z * list Z)%type.

Inductive status : Type := StIdle | StConnLost | StProtocol | StFuel.

Section Generic.
  Context {T : Type}.
  Variable recv : Z -> T -> rres * T.
  Variable idle : T -> bool.       (* nothing more can arrive: the driver stops calling loop_read() *)

  (* if self._in_packet['command'] == 0: command = self._sock_recv(1) ... *)
  Definition phase1 (r : rd) (t : T) : step T :=
    if command r =? 0 then
      match recv 1 t with
      | (RBlock, t') => Ret PrAgain r t'
      | (REof, t') => Ret PrConnLost r t'
      | (RErr, t') => Ret PrConnLost r t'
      | (RData [], t') => Ret PrConnLost r t'
      | (RData (b :: _), t') =>
          (* packet type 0 is reserved and 0 is the "no command yet" marker: never stored (362d314) *)
          if b =? 0 then Ret PrProtocol r t' else Cont (set_command r b) t'
      end
    else Cont r t.

  (* while True: byte = self._sock_recv(1) ... ; at most 5 iterations because of the `> 4` test *)
  Fixpoint len_loop (fuel : nat) (r : rd) (t : T) : step T :=
    match fuel with
    | O => Ret PrFuel r t
    | S f =>
        match recv 1 t with
        | (RBlock, t') => Ret PrAgain r t'
        | (REof, t') => Ret PrConnLost r t'
        | (RErr, t') => Ret PrConnLost r t'
        | (RData [], t') => Ret PrConnLost r t'
        | (RData (b :: _), t') =>
            let r1 := push_count r b in
            if 4 <? Z.of_nat (length (remaining_count r1)) then Ret PrProtocol r1 t'
            else
              let r2 := add_length r1 b in
              if Z.land b 128 =? 0 then Cont (finish_length r2) t'
              else len_loop f r2 t'
        end
    end.

  Definition phase2 (r : rd) (t : T) : step T :=
    if have_remaining r then Cont r t else len_loop 5 r t.

  (* count = 100 ; while to_process > 0: data = recv(to_process) ... count -= 1 ; if count == 0: return AGAIN *)
  Fixpoint body_loop (count : nat) (r : rd) (t : T) : step T :=
    if 0 <? to_process r then
      match count with
      | O => Ret PrFuel r t
      | S c =>
          match recv (to_process r) t with
          | (RBlock, t') => Ret PrAgain r t'
          | (REof, t') => Ret PrConnLost r t'
          | (RErr, t') => Ret PrConnLost r t'
          | (RData [], t') => Ret PrConnLost r t'
          | (RData d, t') =>
              let r1 := add_data r d in
              match c with
              | O => Ret PrAgain r1 t'
              | S _ => body_loop c r1 t'
              end
          end
      end
    else Cont r t.

  Definition packet_read (r : rd) (t : T) : prc * rd * T :=
    match phase1 r t with
    | Ret rc r1 t1 => (rc, r1, t1)
    | Cont r1 t1 =>
        match phase2 r1 t1 with
        | Ret rc r2 t2 => (rc, r2, t2)
        | Cont r2 t2 =>
            match body_loop 100 r2 t2 with
            | Ret rc r3 t3 => (rc, r3, t3)
            | Cont r3 t3 => (PrFrame (command r3) (packet r3), rd_init, t3)
            end
        end
    end.

  (* the application calling loop_read() again and again until the transport is idle or an error is
     returned.  Frames are collected in order; what the handlers do with them is not this model's matter. *)
  Fixpoint run (fuel : nat) (r : rd) (t : T) : list frame * status * rd * T :=
    match fuel with
    | O => ([], StFuel, r, t)
    | S f =>
        match packet_read r t with
        | (PrFrame c b, r', t') =>
            let '(fs, st, r'', t'') := run f r' t' in ((c, b) :: fs, st, r'', t'')
        | (PrAgain, r', t') => if idle t' then ([], StIdle, r', t') else run f r' t'
        | (PrConnLost, r', t') => ([], StConnLost, r', t')
        | (PrProtocol, r', t') => ([], StProtocol, r', t')
        | (PrFuel, r', t') => ([], StFuel, r', t')
        end
    end.
End Generic.

(* ------------------------------------------------------------------------------------------------ *)
(* The raw socket: bytes the broker has sent and not yet delivered, and a schedule saying what each
   successive recv() call does.  An exhausted schedule delivers everything asked for. *)
Inductive ev : Type :=
| Chunk (k : Z)     (* deliver at most k (>= 1) bytes; would-block if nothing is available *)
| Block             (* BlockingIOError *)
| Eof               (* b"" *)
| Err.              (* ConnectionResetError *)

Definition sock : Type := (list Z * list ev)%type.

Definition take (n : Z) (l : list Z) : list Z := firstn (Z.to_nat n) l.
Definition drop (n : Z) (l : list Z) : list Z := skipn (Z.to_nat n) l.

Definition sock_recv (n : Z) (s : sock) : rres * sock :=
  let '(av, sch) := s in
  match sch with
  | [] => match av with
          | [] => (RBlock, s)
          | _ => (RData (take n av), (drop n av, []))
          end
  | Block :: sch' => (RBlock, (av, sch'))
  | Eof :: sch' => (REof, (av, sch'))
  | Err :: sch' => (RErr, (av, sch'))
  | Chunk k :: sch' =>
      match av with
      | [] => (RBlock, (av, sch'))
      | _ => let m := Z.max 1 (Z.min n k) in (RData (take m av), (drop m av, sch'))
      end
  end.

Definition sock_idle (s : sock) : bool := match fst s with [] => true | _ => false end.

Definition sock_read := packet_read sock_recv.
Definition sock_run := run sock_recv sock_idle.

(* fuel that always suffices (ReaderProofs.sock_run_fuel) *)
Definition sock_fuel (s : sock) : nat := (2 * (length (fst s) + length (snd s)) + 2)%nat.

(* ------------------------------------------------------------------------------------------------ *)
(* Reference automaton: one byte at a time, no transport. *)
Inductive fres : Type :=
| FNone
| FFrame (cmd : Z) (body : list Z)
| FErr.                           (* zero first byte, or fifth remaining-length byte *)

(* effect of one byte on the record; true = protocol error *)
Definition raw1 (r : rd) (b : Z) : rd * bool :=
  if command r =? 0 then (if b =? 0 then (r, true) else (set_command r b, false))
  else if negb (have_remaining r) then
    let r1 := push_count r b in
    if 4 <? Z.of_nat (length (remaining_count r1)) then (r1, true)
    else
      let r2 := add_length r1 b in
      if Z.land b 128 =? 0 then (finish_length r2, false) else (r2, false)
  else (add_data r [b], false).

Definition complete (r : rd) : bool := have_remaining r && negb (0 <? to_process r).

Definition feed1 (r : rd) (b : Z) : rd * fres :=
  let '(r', e) := raw1 r b in
  if e then (r', FErr)
  else if complete r' then (rd_init, FFrame (command r') (packet r'))
  else (r', FNone).

(* fold: frames in order, whether a protocol error was met, state after the last byte used, bytes not used
   (only an error leaves bytes unused) *)
Fixpoint feed (r : rd) (bs : list Z) : list frame * bool * rd * list Z :=
  match bs with
  | [] => ([], false, r, [])
  | b :: bs' =>
      match feed1 r b with
      | (r', FErr) => ([], true, r', bs')
      | (r', FNone) => feed r' bs'
      | (r', FFrame c body) =>
          let '(fs, e, r'', rest) := feed r' bs' in ((c, body) :: fs, e, r'', rest)
      end
  end.

(* ------------------------------------------------------------------------------------------------ *)
(* Fixed header encoder written from MQTT 3.1.1 section 2.2.3 / MQTT 5.0 section 1.5.5:
     do  digit = X MOD 128 ; X = X DIV 128 ; if X > 0 then digit = digit OR 128 ; output digit  while X > 0 *)
Fixpoint enc_rl_fuel (fuel : nat) (x : Z) : list Z :=
  match fuel with
  | O => []
  | S f =>
      let digit := x mod 128 in
      let x' := x / 128 in
      if 0 <? x' then (digit + 128) :: enc_rl_fuel f x' else [digit]
  end.
Definition enc_rl (x : Z) : list Z := enc_rl_fuel 4 x.

Definition encode_frame (f : frame) : list Z :=
  fst f :: enc_rl (Z.of_nat (length (snd f))) ++ snd f.

Definition max_rl : Z := 268435455.

Definition frame_ok (f : frame) : bool :=
  (1 <=? fst f) && (fst f <=? 255) && (Z.of_nat (length (snd f)) <=? max_rl).

(* ------------------------------------------------------------------------------------------------ *)
(* flat encodings for the correspondence driver *)
Definition enc_list (l : list Z) : list Z := Z.of_nat (length l) :: l.

Definition enc_rd (r : rd) : list Z :=
  [command r; if have_remaining r then 1 else 0] ++ enc_list (remaining_count r) ++
  [remaining_mult r; remaining_length r] ++ enc_list (packet r) ++ [to_process r].

Fixpoint enc_frames (fs : list frame) : list Z :=
  match fs with
  | [] => []
  | (c, b) :: fs' => c :: enc_list b ++ enc_frames fs'
  end.

Definition status_code (st : status) : Z :=
  match st with StIdle => 0 | StConnLost => 7 | StProtocol => 2 | StFuel => 99 end.

Definition dec_ev (z : Z) : ev :=
  if 0 <? z then Chunk z else if z =? 0 then Block else if z =? -1 then Eof else Err.

(* a complete packet whose dispatch was postponed by the 100-reads early return is dispatched by the next call *)
Definition flush_pending (r : rd) : list frame * rd :=
  if complete r then ([(command r, packet r)], rd_init) else ([], r).

(* args = n :: bytes(n) ++ schedule ;
   result = status :: #frames :: frames (pending one included) ++ rd (after the pending one) ++ [#bytes left; #pending] *)
Definition entry_read (args : list Z) : list Z :=
  match args with
  | [] => []
  | n :: rest =>
      let bs := take n rest in
      let sch := map dec_ev (drop n rest) in
      let s : sock := (bs, sch) in
      let '(fs, st, r, s') := sock_run (sock_fuel s) rd_init s in
      let '(pf, r') := match st with StProtocol => ([], r) | _ => flush_pending r end in
      status_code st :: Z.of_nat (length (fs ++ pf)) :: enc_frames (fs ++ pf) ++ enc_rd r' ++
      [Z.of_nat (length (fst s')); Z.of_nat (length pf)]
  end.

(* args = bytes ; result = err :: #frames :: frames ++ rd ++ [#bytes unused] *)
Definition entry_feed (args : list Z) : list Z :=
  let '(fs, e, r, rest) := feed rd_init args in
  (if e then 2 else 0) :: Z.of_nat (length fs) :: enc_frames fs ++ enc_rd r ++ [Z.of_nat (length rest)].
