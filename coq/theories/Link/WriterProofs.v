(* Proofs about Link/Writer.v (property C06), generic in the transport.
   The transport is characterised by a relation TR t rw lw od  ("transport state t is consistent with the raw
   bytes rw accepted by the socket so far, the bytes lw that _packet_write counted as written so far, and the
   data od that will be offered next") and the two section hypotheses TR_none / tsend_spec, which are proved
   for the raw socket at the end of this file and for the WebSocket wrapper in WsWriterProofs.v. *)
From PahoV Require Import Base.Prelude Link.Writer.

(* ------------------------------------------------------------------ list facts with Z indices *)
Lemma firstn_add {A} a b (l : list A) : firstn (a + b) l = firstn a l ++ firstn b (skipn a l).
Proof.
  revert l; induction a as [|a IH]; intros l; [reflexivity|].
  destruct l as [|x l]; cbn [Nat.add firstn skipn app]; [now rewrite firstn_nil|].
  now rewrite IH.
Qed.

Lemma skipn_add {A} a b (l : list A) : skipn (a + b) l = skipn b (skipn a l).
Proof.
  revert l; induction a as [|a IH]; intros l; [reflexivity|].
  destruct l as [|x l]; cbn [Nat.add skipn]; [now rewrite skipn_nil|]. apply IH.
Qed.

Lemma zlen_nonneg l : 0 <= zlen l.
Proof. unfold zlen; lia. Qed.

Lemma zlen_app a b : zlen (a ++ b) = zlen a + zlen b.
Proof. unfold zlen; rewrite app_length; lia. Qed.

Lemma zlen_nil_inv l : zlen l = 0 -> l = [].
Proof. unfold zlen; destruct l; cbn [length]; [reflexivity|lia]. Qed.

Lemma ztake_0 l : ztake 0 l = [].
Proof. reflexivity. Qed.

Lemma zskip_0 l : zskip 0 l = l.
Proof. reflexivity. Qed.

Lemma ztake_all l n : zlen l <= n -> ztake n l = l.
Proof. unfold ztake, zlen; intros; apply firstn_all2; lia. Qed.

Lemma zskip_all l n : zlen l <= n -> zskip n l = [].
Proof. unfold zskip, zlen; intros; apply skipn_all2; lia. Qed.

Lemma ztake_zskip l n : ztake n l ++ zskip n l = l.
Proof. apply firstn_skipn. Qed.

Lemma ztake_add a b l : 0 <= a -> 0 <= b -> ztake (a + b) l = ztake a l ++ ztake b (zskip a l).
Proof.
  intros; unfold ztake, zskip. rewrite Z2Nat.inj_add by lia. apply firstn_add.
Qed.

Lemma zskip_add a b l : 0 <= a -> 0 <= b -> zskip (a + b) l = zskip b (zskip a l).
Proof.
  intros; unfold zskip. rewrite Z2Nat.inj_add by lia. apply skipn_add.
Qed.

Lemma zlen_zskip n l : 0 <= n <= zlen l -> zlen (zskip n l) = zlen l - n.
Proof. unfold zlen, zskip; intros; rewrite skipn_length; lia. Qed.

Lemma zlen_ztake n l : 0 <= n <= zlen l -> zlen (ztake n l) = n.
Proof. unfold zlen, ztake; intros; rewrite firstn_length; lia. Qed.

Lemma clip_range k n : 0 <= n -> 0 <= clip k n <= n.
Proof. unfold clip; lia. Qed.

(* ------------------------------------------------------------------ trace observations *)
Lemma wire_of_app a b : wire_of (a ++ b) = wire_of a ++ wire_of b.
Proof. induction a as [|e a IH]; [reflexivity|]. destruct e; cbn [app wire_of]; rewrite IH; try reflexivity. now rewrite app_assoc. Qed.

Lemma acc_of_app a b : acc_of (a ++ b) = acc_of a ++ acc_of b.
Proof. induction a as [|e a IH]; [reflexivity|]. destruct e; cbn [app acc_of]; rewrite IH; try reflexivity. now rewrite app_assoc. Qed.

Lemma setpub_ids_app a b : setpub_ids (a ++ b) = setpub_ids a ++ setpub_ids b.
Proof. induction a as [|e a IH]; [reflexivity|]. destruct e; cbn [app setpub_ids]; rewrite IH; reflexivity. Qed.

Lemma cbpub_ids_app a b : cbpub_ids (a ++ b) = cbpub_ids a ++ cbpub_ids b.
Proof. induction a as [|e a IH]; [reflexivity|]. destruct e; cbn [app cbpub_ids]; rewrite IH; reflexivity. Qed.

(* events that are neither Acc nor a publication report *)
Definition nopub_ev (e : event) : Prop :=
  match e with Acc _ | CbPublish _ | SetPublished _ => False | _ => True end.
Definition nopub (ev : list event) : Prop := Forall nopub_ev ev.

Lemma nopub_app a b : nopub a -> nopub b -> nopub (a ++ b).
Proof. apply Forall_app_intro || (intros; apply Forall_app; split; assumption). Qed.

Lemma nopub_acc ev : nopub ev -> acc_of ev = [].
Proof. induction 1 as [|e ev He _ IH]; [reflexivity|]. destruct e; cbn in *; try contradiction; assumption. Qed.

Lemma nopub_setpub ev : nopub ev -> setpub_ids ev = [].
Proof. induction 1 as [|e ev He _ IH]; [reflexivity|]. destruct e; cbn in *; try contradiction; assumption. Qed.

Lemma nopub_cbpub ev : nopub ev -> cbpub_ids ev = [].
Proof. induction 1 as [|e ev He _ IH]; [reflexivity|]. destruct e; cbn in *; try contradiction; assumption. Qed.

Lemma wire_ev_nopub raw : nopub (wire_ev raw).
Proof. destruct raw; cbn; repeat constructor. Qed.

Lemma wire_ev_wire raw : wire_of (wire_ev raw) = raw.
Proof. destruct raw; cbn; [reflexivity|]. now rewrite app_nil_r. Qed.

(* ------------------------------------------------------------------ packets and queues *)
Definition reset (p : opkt) : opkt := fresh_pkt (p_id p) (p_bytes p) (p_kind p) (p_cbraise p).
Definition fresh (p : opkt) : Prop := p_pos p = 0 /\ p_top p = zlen (p_bytes p).
Definition head_ok (p : opkt) : Prop :=
  0 <= p_pos p <= zlen (p_bytes p) /\ p_top p = zlen (p_bytes p) - p_pos p.
Definition q_ok (q : list opkt) : Prop :=
  match q with [] => True | p :: q' => head_ok p /\ Forall fresh q' end.
Definition sent_part (q : list opkt) : list Z :=
  match q with [] => [] | p :: _ => ztake (p_pos p) (p_bytes p) end.
Definition head_off (q : list opkt) : option (list Z) :=
  match q with [] => None | p :: _ => Some (offered p) end.

(* on_publish raised and the exception was not suppressed: _set_as_published is skipped *)
Definition swallowed (c : cfg) (p : opkt) : bool := p_cbraise p && c_onpub c && negb (c_suppress c).
Definition setpub_of (c : cfg) (done : list opkt) : list Z :=
  map p_id (filter (fun p => is_pub0 p && negb (swallowed c p)) done).
Definition cbpub_of (c : cfg) (done : list opkt) : list Z :=
  if c_onpub c then map p_id (filter is_pub0 done) else [].

Definition ids_ok (h : list opkt) : Prop := map p_id h = map Z.of_nat (seq 0 (length h)).

Lemma reset_fresh_pkt i b k r : reset (fresh_pkt i b k r) = fresh_pkt i b k r.
Proof. reflexivity. Qed.

Lemma reset_advance p n : reset (advance p n) = reset p.
Proof. reflexivity. Qed.

Lemma fresh_reset p : fresh p -> reset p = p.
Proof. destruct p as [b pos top k i r]; unfold fresh, reset, fresh_pkt; cbn; intros [-> ->]; reflexivity. Qed.

Lemma fresh_offered p : fresh p -> offered p = p_bytes p.
Proof. intros [H _]; unfold offered; rewrite H; reflexivity. Qed.

Lemma fresh_head_ok p : fresh p -> head_ok p.
Proof. intros [H1 H2]; unfold head_ok; rewrite H1, H2; pose proof (zlen_nonneg (p_bytes p)); lia. Qed.

Lemma q_ok_tail p q : q_ok (p :: q) -> q_ok q.
Proof.
  intros [_ H]; destruct q as [|x q]; [exact I|]. inversion H; subst. split; [now apply fresh_head_ok|assumption].
Qed.

Lemma sent_part_fresh_tail p q : q_ok (p :: q) -> sent_part q = [].
Proof.
  intros [_ H]; destruct q as [|x q]; [reflexivity|]. inversion H as [|? ? [Hx _] _]; subst.
  cbn [sent_part]. rewrite Hx. reflexivity.
Qed.

Lemma ids_ok_nth h a x b : ids_ok h -> h = a ++ x :: b -> p_id x = Z.of_nat (length a).
Proof.
  unfold ids_ok; intros H ->.
  apply (f_equal (fun l => nth (length a) l 0)) in H.
  rewrite map_app in H. cbn [map] in H.
  rewrite app_nth2 in H by (rewrite map_length; lia).
  rewrite map_length, Nat.sub_diag in H. cbn [nth] in H. rewrite H.
  rewrite (nth_indep _ 0 (Z.of_nat 0)) by (rewrite map_length, seq_length, app_length; cbn [length]; lia).
  rewrite map_nth, seq_nth by (rewrite app_length; cbn [length]; lia). reflexivity.
Qed.

Lemma ids_ok_snoc h i b k r : ids_ok h -> i = Z.of_nat (length h) -> ids_ok (h ++ [fresh_pkt i b k r]).
Proof.
  unfold ids_ok; intros H ->. rewrite app_length, map_app, H. cbn [length map p_id fresh_pkt].
  rewrite Nat.add_1_r, seq_S, map_app. reflexivity.
Qed.

Lemma setpub_of_snoc c done p :
  setpub_of c (done ++ [p]) = setpub_of c done ++ (if is_pub0 p && negb (swallowed c p) then [p_id p] else []).
Proof. unfold setpub_of; rewrite filter_app, map_app; cbn [filter]; destruct (is_pub0 p && negb (swallowed c p)); reflexivity. Qed.

Lemma cbpub_of_snoc c done p :
  cbpub_of c (done ++ [p]) = cbpub_of c done ++ (if c_onpub c && is_pub0 p then [p_id p] else []).
Proof.
  unfold cbpub_of; destruct (c_onpub c); cbn [andb]; [|reflexivity].
  rewrite filter_app, map_app; cbn [filter]; destruct (is_pub0 p); reflexivity.
Qed.

Lemma offered_len p : head_ok p -> zlen (offered p) = zlen (p_bytes p) - p_pos p.
Proof. intros [H _]; unfold offered; apply zlen_zskip; assumption. Qed.

(* ================================================================== generic invariant *)
Section GenericProofs.
Variable T : Type.
Variable tsend : T -> list Z -> list outcome -> sendres * T * list Z * list outcome.
Variable TR : T -> list Z -> list Z -> option (list Z) -> Prop.

Hypothesis TR_none : forall t rw lw, TR t rw lw None -> forall od, TR t rw lw od.
Hypothesis tsend_spec : forall t rw lw d s r t' raw s',
  TR t rw lw (Some d) -> tsend t d s = (r, t', raw, s') ->
  match r with
  | SWrote n => 0 <= n <= zlen d
                /\ (0 < n -> forall od, TR t' (rw ++ raw) (lw ++ ztake n d) od)
                /\ (n = 0 -> TR t' (rw ++ raw) lw (Some d))
  | _ => TR t' (rw ++ raw) lw (Some d)
  end.

(* a publication report for packet i is only made at a point where the bytes counted as written are exactly
   the packets 0..i of the history, and the transport holds nothing back *)
Definition pub_point (h : list opkt) (rw lw : list Z) (i : Z) : Prop :=
  0 <= i
  /\ (exists p, nth_error h (Z.to_nat i) = Some p /\ p_kind p = KPub0 /\ p_id p = i)
  /\ lw = concat (map p_bytes (firstn (S (Z.to_nat i)) h))
  /\ exists t, TR t rw lw None.

Fixpoint pubs_ok (h : list opkt) (rw lw : list Z) (tr : list event) : Prop :=
  match tr with
  | [] => True
  | Wire b :: t => pubs_ok h (rw ++ b) lw t
  | Acc b :: t => pubs_ok h rw (lw ++ b) t
  | CbPublish i :: t => pub_point h rw lw i /\ pubs_ok h rw lw t
  | SetPublished i :: t => pub_point h rw lw i /\ pubs_ok h rw lw t
  | _ :: t => pubs_ok h rw lw t
  end.

Lemma pubs_ok_app h a : forall rw lw b,
  pubs_ok h rw lw (a ++ b) <-> pubs_ok h rw lw a /\ pubs_ok h (rw ++ wire_of a) (lw ++ acc_of a) b.
Proof.
  induction a as [|e a IH]; intros rw lw b.
  - cbn [app pubs_ok wire_of acc_of]. rewrite !app_nil_r. tauto.
  - destruct e; cbn [app pubs_ok wire_of acc_of]; rewrite ?IH, ?app_assoc; tauto.
Qed.

Lemma nopub_pubs_ok h ev : nopub ev -> forall rw lw, pubs_ok h rw lw ev.
Proof.
  induction 1 as [|e ev He _ IH]; intros rw lw; [exact I|].
  destruct e; cbn in He |- *; try contradiction; apply IH.
Qed.

Lemma pub_point_ext h h' rw lw i : pub_point h rw lw i -> pub_point (h ++ h') rw lw i.
Proof.
  intros (H0 & (p & Hn & Hk & Hi) & Hl & Ht). split; [assumption|].
  assert (Hlt : (Z.to_nat i < length h)%nat) by (apply nth_error_Some; congruence).
  split; [exists p; split; [rewrite nth_error_app1 by assumption; assumption|tauto]|].
  split; [|assumption].
  rewrite firstn_app. replace (S (Z.to_nat i) - length h)%nat with O by lia.
  cbn [firstn]. rewrite app_nil_r. assumption.
Qed.

Lemma pubs_ok_ext h h' tr : forall rw lw, pubs_ok h rw lw tr -> pubs_ok (h ++ h') rw lw tr.
Proof.
  induction tr as [|e tr IH]; intros rw lw H; [exact I|].
  destruct e; cbn [pubs_ok] in *; try (apply IH; assumption);
    (destruct H as [H1 H2]; split; [apply pub_point_ext; assumption|apply IH; assumption]).
Qed.

(* the invariant, relative to the list [done] of completely written packets *)
Record IB (c : cfg) (q : list opkt) (t : T) (tr : list event) (h done : list opkt) : Prop := mkIB {
  ib_hist : h = done ++ map reset q;
  ib_acc : acc_of tr = concat (map p_bytes done) ++ sent_part q;
  ib_q : q_ok q;
  ib_ids : ids_ok h;
  ib_setpub : setpub_ids tr = setpub_of c done;
  ib_cbpub : cbpub_ids tr = cbpub_of c done;
  ib_tr : TR t (wire_of tr) (acc_of tr) (head_off q);
  ib_pubs : pubs_ok h [] [] tr
}.

Definition Inv (c : cfg) (q : list opkt) (t : T) (tr : list event) (h : list opkt) : Prop :=
  exists done, IB c q t tr h done.

(* events without Acc / publication reports and without wire bytes change nothing *)
Lemma IB_nopub c q t tr h done ev :
  IB c q t tr h done -> nopub ev -> wire_of ev = [] -> IB c q t (tr ++ ev) h done.
Proof.
  intros [H1 H2 H3 H4 H5 H6 H7 H8] Hn Hw. constructor; try assumption.
  - rewrite acc_of_app, (nopub_acc ev), app_nil_r by assumption. assumption.
  - rewrite setpub_ids_app, (nopub_setpub ev), app_nil_r by assumption. assumption.
  - rewrite cbpub_ids_app, (nopub_cbpub ev), app_nil_r by assumption. assumption.
  - rewrite wire_of_app, acc_of_app, Hw, (nopub_acc ev), !app_nil_r by assumption. assumption.
  - apply pubs_ok_app. split; [assumption|]. apply nopub_pubs_ok; assumption.
Qed.

(* ------------------------------------------------------------------ the small state functions *)
Lemma call_reg_write_facts st st' ev : call_reg_write T st = (st', ev) ->
  outq st' = outq st /\ tst st' = tst st /\ sock st' = sock st /\ nopub ev /\ wire_of ev = []
  /\ (sock st = true -> regw st' = true).
Proof.
  unfold call_reg_write. destruct (sock st) eqn:Hs, (regw st) eqn:Hr; cbn [negb orb]; intros H; inv H; cbn;
    repeat split; try assumption; try discriminate; try (intros _; assumption); repeat constructor.
Qed.

Lemma call_unreg_write_facts b st st' ev : call_unreg_write T b st = (st', ev) ->
  outq st' = outq st /\ tst st' = tst st /\ sock st' = sock st /\ nopub ev /\ wire_of ev = [].
Proof.
  unfold call_unreg_write. destruct (negb b || negb (regw st)); intros H; inv H; cbn;
    repeat split; repeat constructor.
Qed.

Lemma sock_close_facts st st' ev : sock_close T st = (st', ev) ->
  outq st' = outq st /\ tst st' = tst st /\ sock st' = false /\ nopub ev /\ wire_of ev = [].
Proof.
  unfold sock_close. destruct (sock st) eqn:Hs; cbn [negb].
  - destruct (call_unreg_write T true _) as [st1 ev1] eqn:Hu. intros H; inv H.
    apply call_unreg_write_facts in Hu as (H1 & H2 & H3 & H4 & H5). cbn in H1, H2, H3.
    repeat split; try assumption.
    + apply nopub_app; [assumption|repeat constructor].
    + rewrite wire_of_app, H5. reflexivity.
  - intros H; inv H. repeat split; try assumption; constructor.
Qed.

Lemma sock_send_facts st d s r st1 ev s1 : sock_send T tsend st d s = (r, st1, ev, s1) ->
  outq st1 = outq st /\ sock st1 = sock st /\ nopub ev /\
  ((sock st = false /\ r = SFail /\ tst st1 = tst st /\ wire_of ev = [])
   \/ (sock st = true /\ exists raw, tsend (tst st) d s = (r, tst st1, raw, s1) /\ wire_of ev = raw)).
Proof.
  unfold sock_send. destruct (sock st) eqn:Hs; cbn [negb].
  - destruct (tsend (tst st) d s) as [[[r0 t'] raw] s'] eqn:Ht.
    destruct r0;
      try (intros H; inv H; cbn; repeat split; try (rewrite Hs; reflexivity); try apply wire_ev_nopub;
           right; (split; [reflexivity|]); exists raw; (split; [reflexivity|apply wire_ev_wire])).
    destruct (call_reg_write T (set_tst T st t')) as [st2 ev2] eqn:Hc. intros H; inv H.
    apply call_reg_write_facts in Hc as (H1 & H2 & H3 & H4 & H5 & _). cbn in H1, H2, H3.
    repeat split; try assumption; try (rewrite H3; assumption).
    + apply nopub_app; [apply wire_ev_nopub|assumption].
    + right. split; [reflexivity|]. exists raw. rewrite H2. split; [reflexivity|].
      rewrite wire_of_app, wire_ev_wire, H5, app_nil_r. reflexivity.
  - intros H; inv H. split; [reflexivity|]. split; [assumption|]. split; [constructor|]. left. repeat split.
Qed.

Lemma sock_send_TR st d s r st1 ev s1 rw lw :
  sock_send T tsend st d s = (r, st1, ev, s1) -> TR (tst st) rw lw (Some d) ->
  match r with
  | SWrote n => 0 <= n <= zlen d
                /\ (0 < n -> forall od, TR (tst st1) (rw ++ wire_of ev) (lw ++ ztake n d) od)
                /\ (n = 0 -> TR (tst st1) (rw ++ wire_of ev) lw (Some d))
  | _ => TR (tst st1) (rw ++ wire_of ev) lw (Some d)
  end.
Proof.
  intros H HT. apply sock_send_facts in H as (_ & _ & _ & [(_ & -> & Ht & Hw)|(_ & raw & Hts & Hw)]).
  - rewrite Ht, Hw, app_nil_r. assumption.
  - rewrite Hw. eapply tsend_spec; eassumption.
Qed.
