(* Proofs about Link/Writer.v (property C06), generic in the transport.
   The transport is characterised by a relation TR t rw lw od  ("transport state t is consistent with the raw
   bytes rw accepted by the socket so far, the bytes lw that _packet_write counted as written so far, and the
   data od that will be offered next") and the two section hypotheses TR_none / tsend_spec, which are proved
   for the raw socket at the end of this file and for the WebSocket wrapper in WsWriterProofs.v. *)
From Coq Require Import FinFun.
From PahoV Require Import Base.Prelude Link.Writer.

(* ------------------------------------------------------------------ list facts with Z indices *)
Lemma firstn_add {A} a b (l : list A) : firstn (a + b) l = firstn a l ++ firstn b (skipn a l).
Proof.
  revert l; induction a as [|a IH]; intros l; [reflexivity|].
  destruct l as [|x l]; cbn [Nat.add firstn skipn app]; [now rewrite firstn_nil|].
  now rewrite IH.
Qed.

Lemma skipn_add {A} a b (l : list A) : skipn (a + b) l = skipn b (skipn a l).
Proof.
  revert l; induction a as [|a IH]; intros l; [reflexivity|].
  destruct l as [|x l]; cbn [Nat.add skipn]; [now rewrite skipn_nil|]. apply IH.
Qed.

Lemma zlen_nonneg l : 0 <= zlen l.
Proof. unfold zlen; lia. Qed.

Lemma zlen_app a b : zlen (a ++ b) = zlen a + zlen b.
Proof. unfold zlen; rewrite app_length; lia. Qed.

Lemma zlen_nil_inv l : zlen l = 0 -> l = [].
Proof. unfold zlen; destruct l; cbn [length]; [reflexivity|lia]. Qed.

Lemma ztake_0 l : ztake 0 l = [].
Proof. reflexivity. Qed.

Lemma zskip_0 l : zskip 0 l = l.
Proof. reflexivity. Qed.

Lemma ztake_all l n : zlen l <= n -> ztake n l = l.
Proof. unfold ztake, zlen; intros; apply firstn_all2; lia. Qed.

Lemma zskip_all l n : zlen l <= n -> zskip n l = [].
Proof. unfold zskip, zlen; intros; apply skipn_all2; lia. Qed.

Lemma ztake_zskip l n : ztake n l ++ zskip n l = l.
Proof. apply firstn_skipn. Qed.

Lemma ztake_add a b l : 0 <= a -> 0 <= b -> ztake (a + b) l = ztake a l ++ ztake b (zskip a l).
Proof.
  intros; unfold ztake, zskip. rewrite Z2Nat.inj_add by lia. apply firstn_add.
Qed.

Lemma zskip_add a b l : 0 <= a -> 0 <= b -> zskip (a + b) l = zskip b (zskip a l).
Proof.
  intros; unfold zskip. rewrite Z2Nat.inj_add by lia. apply skipn_add.
Qed.

Lemma zlen_zskip n l : 0 <= n <= zlen l -> zlen (zskip n l) = zlen l - n.
Proof. unfold zlen, zskip; intros; rewrite skipn_length; lia. Qed.

Lemma zlen_ztake n l : 0 <= n <= zlen l -> zlen (ztake n l) = n.
Proof. unfold zlen, ztake; intros; rewrite firstn_length; lia. Qed.

Lemma clip_range k n : 0 <= n -> 0 <= clip k n <= n.
Proof. unfold clip; lia. Qed.

(* ------------------------------------------------------------------ trace observations *)
Lemma wire_of_app a b : wire_of (a ++ b) = wire_of a ++ wire_of b.
Proof. induction a as [|e a IH]; [reflexivity|]. destruct e; cbn [app wire_of]; rewrite IH; try reflexivity. now rewrite app_assoc. Qed.

Lemma acc_of_app a b : acc_of (a ++ b) = acc_of a ++ acc_of b.
Proof. induction a as [|e a IH]; [reflexivity|]. destruct e; cbn [app acc_of]; rewrite IH; try reflexivity. now rewrite app_assoc. Qed.

Lemma setpub_ids_app a b : setpub_ids (a ++ b) = setpub_ids a ++ setpub_ids b.
Proof. induction a as [|e a IH]; [reflexivity|]. destruct e; cbn [app setpub_ids]; rewrite IH; reflexivity. Qed.

Lemma cbpub_ids_app a b : cbpub_ids (a ++ b) = cbpub_ids a ++ cbpub_ids b.
Proof. induction a as [|e a IH]; [reflexivity|]. destruct e; cbn [app cbpub_ids]; rewrite IH; reflexivity. Qed.

(* events that are neither Acc nor a publication report *)
Definition nopub_ev (e : event) : Prop :=
  match e with Acc _ | CbPublish _ | SetPublished _ => False | _ => True end.
Definition nopub (ev : list event) : Prop := Forall nopub_ev ev.

Lemma nopub_app a b : nopub a -> nopub b -> nopub (a ++ b).
Proof. apply Forall_app_intro || (intros; apply Forall_app; split; assumption). Qed.

Lemma nopub_acc ev : nopub ev -> acc_of ev = [].
Proof. induction 1 as [|e ev He _ IH]; [reflexivity|]. destruct e; cbn in *; try contradiction; assumption. Qed.

Lemma nopub_setpub ev : nopub ev -> setpub_ids ev = [].
Proof. induction 1 as [|e ev He _ IH]; [reflexivity|]. destruct e; cbn in *; try contradiction; assumption. Qed.

Lemma nopub_cbpub ev : nopub ev -> cbpub_ids ev = [].
Proof. induction 1 as [|e ev He _ IH]; [reflexivity|]. destruct e; cbn in *; try contradiction; assumption. Qed.

Lemma wire_ev_nopub raw : nopub (wire_ev raw).
Proof. destruct raw; cbn; repeat constructor. Qed.

Lemma wire_ev_wire raw : wire_of (wire_ev raw) = raw.
Proof. destruct raw; cbn; [reflexivity|]. now rewrite app_nil_r. Qed.

(* ------------------------------------------------------------------ packets and queues *)
Definition reset (p : opkt) : opkt := fresh_pkt (p_id p) (p_bytes p) (p_kind p) (p_cbraise p).
Definition fresh (p : opkt) : Prop := p_pos p = 0 /\ p_top p = zlen (p_bytes p).
Definition head_ok (p : opkt) : Prop :=
  0 <= p_pos p <= zlen (p_bytes p) /\ p_top p = zlen (p_bytes p) - p_pos p.
Definition q_ok (q : list opkt) : Prop :=
  match q with [] => True | p :: q' => head_ok p /\ Forall fresh q' end.
Definition sent_part (q : list opkt) : list Z :=
  match q with [] => [] | p :: _ => ztake (p_pos p) (p_bytes p) end.
Definition head_off (q : list opkt) : option (list Z) :=
  match q with [] => None | p :: _ => Some (offered p) end.

(* on_publish raised and the exception was not suppressed: _set_as_published is skipped *)
Definition swallowed (c : cfg) (p : opkt) : bool := p_cbraise p && c_onpub c && negb (c_suppress c).
Definition setpub_of (c : cfg) (done : list opkt) : list Z :=
  map p_id (filter (fun p => is_pub0 p && negb (swallowed c p)) done).
Definition cbpub_of (c : cfg) (done : list opkt) : list Z :=
  if c_onpub c then map p_id (filter is_pub0 done) else [].

(* identifiers are distinct and smaller than the number of packets queued so far *)
Definition ids_ok (h : list opkt) : Prop :=
  NoDup (map p_id h) /\ Forall (fun x => 0 <= p_id x < Z.of_nat (length h)) h.

Lemma reset_fresh_pkt i b k r : reset (fresh_pkt i b k r) = fresh_pkt i b k r.
Proof. reflexivity. Qed.

Lemma reset_advance p n : reset (advance p n) = reset p.
Proof. reflexivity. Qed.

Lemma fresh_reset p : fresh p -> reset p = p.
Proof. destruct p as [b pos top k i r]; unfold fresh, reset, fresh_pkt; cbn; intros [-> ->]; reflexivity. Qed.

Lemma fresh_offered p : fresh p -> offered p = p_bytes p.
Proof. intros [H _]; unfold offered; rewrite H; reflexivity. Qed.

Lemma fresh_head_ok p : fresh p -> head_ok p.
Proof. intros [H1 H2]; unfold head_ok; rewrite H1, H2; pose proof (zlen_nonneg (p_bytes p)); lia. Qed.

Lemma q_ok_tail p q : q_ok (p :: q) -> q_ok q.
Proof.
  intros [_ H]; destruct q as [|x q]; [exact I|]. inversion H; subst. split; [now apply fresh_head_ok|assumption].
Qed.

Lemma sent_part_fresh_tail p q : q_ok (p :: q) -> sent_part q = [].
Proof.
  intros [_ H]; destruct q as [|x q]; [reflexivity|]. inversion H as [|? ? [Hx _] _]; subst.
  cbn [sent_part]. rewrite Hx. reflexivity.
Qed.

Lemma NoDup_remove_inv_snoc {A} (l : list A) x : NoDup l -> ~ In x l -> NoDup (l ++ [x]).
Proof.
  induction l as [|y l IH]; cbn [app]; intros Hn Hx; [constructor; [intros []|constructor]|].
  inversion Hn as [|? ? Hy Hl]; subst. constructor.
  - intros Hin. apply in_app_or in Hin as [Hin|[Hin|[]]]; [contradiction|]. subst. apply Hx. left. reflexivity.
  - apply IH; [assumption|]. intros Hin. apply Hx. right. assumption.
Qed.

Lemma ids_ok_fresh_id h : ids_ok h -> ~ In (Z.of_nat (length h)) (map p_id h).
Proof.
  intros [_ Hb] Hin. apply in_map_iff in Hin as (x & Hx & Hin).
  rewrite Forall_forall in Hb. specialize (Hb x Hin). lia.
Qed.

Lemma ids_ok_bound_grow h n : (length h <= n)%nat ->
  Forall (fun x => 0 <= p_id x < Z.of_nat (length h)) h -> Forall (fun x => 0 <= p_id x < Z.of_nat n) h.
Proof. intros Hn. apply Forall_impl. intros x Hx. lia. Qed.

Lemma ids_ok_snoc h i b k r : ids_ok h -> i = Z.of_nat (length h) -> ids_ok (h ++ [fresh_pkt i b k r]).
Proof.
  intros H ->. pose proof (ids_ok_fresh_id h H) as Hf. destruct H as [Hn Hb]. split.
  - rewrite map_app. cbn [map p_id fresh_pkt].
    apply NoDup_remove_inv_snoc; assumption.
  - rewrite app_length. cbn [length]. apply Forall_app. split.
    + apply (ids_ok_bound_grow h); [lia|assumption].
    + constructor; [cbn [p_id fresh_pkt]; lia|constructor].
Qed.

Lemma ids_ok_cons h i b k r : ids_ok h -> i = Z.of_nat (length h) -> ids_ok (fresh_pkt i b k r :: h).
Proof.
  intros H ->. pose proof (ids_ok_fresh_id h H) as Hf. destruct H as [Hn Hb]. split.
  - cbn [map p_id fresh_pkt]. constructor; assumption.
  - cbn [length]. constructor; [cbn [p_id fresh_pkt]; lia|].
    apply (ids_ok_bound_grow h); [lia|assumption].
Qed.

Lemma setpub_of_snoc c done p :
  setpub_of c (done ++ [p]) = setpub_of c done ++ (if is_pub0 p && negb (swallowed c p) then [p_id p] else []).
Proof. unfold setpub_of; rewrite filter_app, map_app; cbn [filter]; destruct (is_pub0 p && negb (swallowed c p)); reflexivity. Qed.

Lemma cbpub_of_snoc c done p :
  cbpub_of c (done ++ [p]) = cbpub_of c done ++ (if c_onpub c && is_pub0 p then [p_id p] else []).
Proof.
  unfold cbpub_of; destruct (c_onpub c); cbn [andb]; [|reflexivity].
  rewrite filter_app, map_app; cbn [filter]; destruct (is_pub0 p); reflexivity.
Qed.

Lemma offered_len p : head_ok p -> zlen (offered p) = zlen (p_bytes p) - p_pos p.
Proof. intros [H _]; unfold offered; apply zlen_zskip; assumption. Qed.

(* ================================================================== generic invariant *)
Section GenericProofs.
Variable T : Type.
Variable tsend : T -> list Z -> list outcome -> sendres * T * list Z * list outcome.
Variable TR : T -> list Z -> list Z -> option (list Z) -> Prop.

Hypothesis TR_none : forall t rw lw, TR t rw lw None -> forall od, TR t rw lw od.
Hypothesis tsend_spec : forall t rw lw d s r t' raw s',
  TR t rw lw (Some d) -> tsend t d s = (r, t', raw, s') ->
  match r with
  | SWrote n => 0 <= n <= zlen d
                /\ (0 < n -> forall od, TR t' (rw ++ raw) (lw ++ ztake n d) od)
                /\ (n = 0 -> TR t' (rw ++ raw) lw (Some d))
  | _ => TR t' (rw ++ raw) lw (Some d)
  end.

(* a publication report for packet i is only made at a point where the bytes counted as written are exactly
   the packets 0..i of the history, and the transport holds nothing back *)
Definition pub_point (h : list opkt) (rw lw : list Z) (i : Z) : Prop :=
  exists pre p post,
    h = pre ++ p :: post /\ p_kind p = KPub0 /\ p_id p = i
    /\ lw = concat (map p_bytes (pre ++ [p]))
    /\ exists t, TR t rw lw None.

Fixpoint pubs_ok (h : list opkt) (rw lw : list Z) (tr : list event) : Prop :=
  match tr with
  | [] => True
  | Wire b :: t => pubs_ok h (rw ++ b) lw t
  | Acc b :: t => pubs_ok h rw (lw ++ b) t
  | CbPublish i :: t => pub_point h rw lw i /\ pubs_ok h rw lw t
  | SetPublished i :: t => pub_point h rw lw i /\ pubs_ok h rw lw t
  | _ :: t => pubs_ok h rw lw t
  end.

Lemma pubs_ok_app h a : forall rw lw b,
  pubs_ok h rw lw (a ++ b) <-> pubs_ok h rw lw a /\ pubs_ok h (rw ++ wire_of a) (lw ++ acc_of a) b.
Proof.
  induction a as [|e a IH]; intros rw lw b.
  - cbn [app pubs_ok wire_of acc_of]. rewrite !app_nil_r. tauto.
  - destruct e; cbn [app pubs_ok wire_of acc_of]; rewrite ?IH, ?app_assoc; tauto.
Qed.

Lemma nopub_pubs_ok h ev : nopub ev -> forall rw lw, pubs_ok h rw lw ev.
Proof.
  induction 1 as [|e ev He _ IH]; intros rw lw; [exact I|].
  destruct e; cbn in He |- *; try contradiction; apply IH.
Qed.

Lemma pub_point_ext h h' rw lw i : pub_point h rw lw i -> pub_point (h ++ h') rw lw i.
Proof.
  intros (pre & p & post & Hh & Hk & Hi & Hl & Ht). exists pre, p, (post ++ h').
  rewrite Hh, <- app_assoc. repeat split; assumption.
Qed.

Lemma pubs_ok_ext h h' tr : forall rw lw, pubs_ok h rw lw tr -> pubs_ok (h ++ h') rw lw tr.
Proof.
  induction tr as [|e tr IH]; intros rw lw H; [exact I|].
  destruct e; cbn [pubs_ok] in *; try (apply IH; assumption);
    (destruct H as [H1 H2]; split; [apply pub_point_ext; assumption|apply IH; assumption]).
Qed.

(* the invariant, relative to the list [done] of completely written packets; cq = _connect_queued *)
Record IB (c : cfg) (cq : bool) (q : list opkt) (t : T) (tr : list event) (h done : list opkt) : Prop := mkIB {
  ib_hist : h = done ++ map reset q;
  ib_acc : acc_of tr = concat (map p_bytes done) ++ sent_part q;
  ib_q : q_ok q;
  ib_ids : ids_ok h;
  ib_setpub : setpub_ids tr = setpub_of c done;
  ib_cbpub : cbpub_ids tr = cbpub_of c done;
  ib_tr : TR t (wire_of tr) (acc_of tr) (head_off q);
  ib_pubs : pubs_ok h [] [] tr;
  (* before CONNECT is queued nothing has been offered to the transport *)
  ib_pre : cq = false -> done = [] /\ nopub tr /\ wire_of tr = [] /\ Forall fresh q /\ forall od, TR t [] [] od
}.

Definition Inv (c : cfg) (cq : bool) (q : list opkt) (t : T) (tr : list event) (h : list opkt) : Prop :=
  exists done, IB c cq q t tr h done.

(* events without Acc / publication reports and without wire bytes change nothing *)
Lemma IB_nopub c cq q t tr h done ev :
  IB c cq q t tr h done -> nopub ev -> wire_of ev = [] -> IB c cq q t (tr ++ ev) h done.
Proof.
  intros [H1 H2 H3 H4 H5 H6 H7 H8 H9] Hn Hw. constructor; try assumption.
  - rewrite acc_of_app, (nopub_acc ev), app_nil_r by assumption. assumption.
  - rewrite setpub_ids_app, (nopub_setpub ev), app_nil_r by assumption. assumption.
  - rewrite cbpub_ids_app, (nopub_cbpub ev), app_nil_r by assumption. assumption.
  - rewrite wire_of_app, acc_of_app, Hw, (nopub_acc ev), !app_nil_r by assumption. assumption.
  - apply pubs_ok_app. split; [assumption|]. apply nopub_pubs_ok; assumption.
  - intros Hc. destruct (H9 Hc) as (P1 & P2 & P3 & P4 & P5). repeat split; try assumption.
    + apply nopub_app; assumption.
    + rewrite wire_of_app, P3, Hw. reflexivity.
Qed.

(* ------------------------------------------------------------------ the small state functions *)
Lemma call_reg_write_facts st st' ev : call_reg_write T st = (st', ev) ->
  outq st' = outq st /\ tst st' = tst st /\ sock st' = sock st /\ nopub ev /\ wire_of ev = []
  /\ (sock st = true -> regw st' = true).
Proof.
  unfold call_reg_write. destruct (sock st) eqn:Hs, (regw st) eqn:Hr; cbn [negb orb]; intros H; inv H; cbn;
    repeat split; try assumption; try discriminate; try (intros _; assumption); repeat constructor.
Qed.

Lemma call_unreg_write_facts b st st' ev : call_unreg_write T b st = (st', ev) ->
  outq st' = outq st /\ tst st' = tst st /\ sock st' = sock st /\ nopub ev /\ wire_of ev = [].
Proof.
  unfold call_unreg_write. destruct (negb b || negb (regw st)); intros H; inv H; cbn;
    repeat split; repeat constructor.
Qed.

Lemma sock_close_facts st st' ev : sock_close T st = (st', ev) ->
  outq st' = outq st /\ tst st' = tst st /\ sock st' = false /\ nopub ev /\ wire_of ev = [].
Proof.
  unfold sock_close. destruct (sock st) eqn:Hs; cbn [negb].
  - destruct (call_unreg_write T true _) as [st1 ev1] eqn:Hu. intros H; inv H.
    apply call_unreg_write_facts in Hu as (H1 & H2 & H3 & H4 & H5). cbn in H1, H2, H3.
    repeat split; try assumption.
    + apply nopub_app; [assumption|repeat constructor].
    + rewrite wire_of_app, H5. reflexivity.
  - intros H; inv H. repeat split; try assumption; constructor.
Qed.

Lemma sock_send_facts st d s r st1 ev s1 : sock_send T tsend st d s = (r, st1, ev, s1) ->
  outq st1 = outq st /\ sock st1 = sock st /\ nopub ev /\
  ((sock st = false /\ r = SFail /\ tst st1 = tst st /\ wire_of ev = [])
   \/ (sock st = true /\ exists raw, tsend (tst st) d s = (r, tst st1, raw, s1) /\ wire_of ev = raw)).
Proof.
  unfold sock_send. destruct (sock st) eqn:Hs; cbn [negb].
  - destruct (tsend (tst st) d s) as [[[r0 t'] raw] s'] eqn:Ht.
    destruct r0;
      try (intros H; inv H; cbn; repeat split; try (rewrite Hs; reflexivity); try apply wire_ev_nopub;
           right; (split; [reflexivity|]); exists raw; (split; [reflexivity|apply wire_ev_wire])).
    destruct (call_reg_write T (set_tst T st t')) as [st2 ev2] eqn:Hc. intros H; inv H.
    apply call_reg_write_facts in Hc as (H1 & H2 & H3 & H4 & H5 & _). cbn in H1, H2, H3.
    repeat split; try assumption; try (rewrite H3; assumption).
    + apply nopub_app; [apply wire_ev_nopub|assumption].
    + right. split; [reflexivity|]. exists raw. rewrite H2. split; [reflexivity|].
      rewrite wire_of_app, wire_ev_wire, H5, app_nil_r. reflexivity.
  - intros H; inv H. split; [reflexivity|]. split; [assumption|]. split; [constructor|]. left. repeat split.
Qed.

Lemma call_reg_write_connq st st' ev : call_reg_write T st = (st', ev) -> connq st' = connq st.
Proof. unfold call_reg_write. destruct (negb (sock st) || regw st); intros H; inv H; reflexivity. Qed.

Lemma call_unreg_write_connq b st st' ev : call_unreg_write T b st = (st', ev) -> connq st' = connq st.
Proof. unfold call_unreg_write. destruct (negb b || negb (regw st)); intros H; inv H; reflexivity. Qed.

Lemma sock_close_connq st st' ev : sock_close T st = (st', ev) -> connq st' = connq st.
Proof.
  unfold sock_close. destruct (negb (sock st)); [intros H; inv H; reflexivity|].
  destruct (call_unreg_write T true _) as [st1 ev1] eqn:Hu. intros H; inv H.
  apply call_unreg_write_connq in Hu. exact Hu.
Qed.

Lemma sock_send_connq st d s r st1 ev s1 : sock_send T tsend st d s = (r, st1, ev, s1) -> connq st1 = connq st.
Proof.
  unfold sock_send. destruct (negb (sock st)); [intros H; inv H; reflexivity|].
  destruct (tsend (tst st) d s) as [[[r0 t'] raw] s'].
  destruct r0; try (intros H; inv H; reflexivity).
  destruct (call_reg_write T (set_tst T st t')) as [st2 ev2] eqn:Hc. intros H; inv H.
  apply call_reg_write_connq in Hc. exact Hc.
Qed.

Lemma sock_send_TR st d s r st1 ev s1 rw lw :
  sock_send T tsend st d s = (r, st1, ev, s1) -> TR (tst st) rw lw (Some d) ->
  match r with
  | SWrote n => 0 <= n <= zlen d
                /\ (0 < n -> forall od, TR (tst st1) (rw ++ wire_of ev) (lw ++ ztake n d) od)
                /\ (n = 0 -> TR (tst st1) (rw ++ wire_of ev) lw (Some d))
  | _ => TR (tst st1) (rw ++ wire_of ev) lw (Some d)
  end.
Proof.
  intros H HT. apply sock_send_facts in H as (_ & _ & _ & [(_ & -> & Ht & Hw)|(_ & raw & Hts & Hw)]).
  - rewrite Ht, Hw, app_nil_r. assumption.
  - rewrite Hw. eapply tsend_spec; eassumption.
Qed.

(* ------------------------------------------------------------------ one iteration of the loop *)
Lemma acc_tail_facts ev1 a : nopub ev1 ->
  wire_of (ev1 ++ [Acc a]) = wire_of ev1 /\ acc_of (ev1 ++ [Acc a]) = a
  /\ setpub_ids (ev1 ++ [Acc a]) = [] /\ cbpub_ids (ev1 ++ [Acc a]) = []
  /\ forall h rw lw, pubs_ok h rw lw (ev1 ++ [Acc a]).
Proof.
  intros Hn. rewrite wire_of_app, acc_of_app, setpub_ids_app, cbpub_ids_app.
  rewrite (nopub_acc ev1), (nopub_setpub ev1), (nopub_cbpub ev1) by assumption.
  cbn [wire_of acc_of setpub_ids cbpub_ids app]. rewrite !app_nil_r. repeat split.
  intros h rw lw. apply pubs_ok_app. split; [apply nopub_pubs_ok; assumption|exact I].
Qed.

Lemma IB_requeue c p q t t' tr h done ev :
  IB c true (p :: q) t tr h done -> nopub ev ->
  TR t' (wire_of tr ++ wire_of ev) (acc_of tr) (Some (offered p)) ->
  IB c true (p :: q) t' (tr ++ ev) h done.
Proof.
  intros [H1 H2 H3 H4 H5 H6 H7 H8 _] Hn HT. constructor; try assumption; try discriminate.
  - rewrite acc_of_app, (nopub_acc ev), app_nil_r by assumption. assumption.
  - rewrite setpub_ids_app, (nopub_setpub ev), app_nil_r by assumption. assumption.
  - rewrite cbpub_ids_app, (nopub_cbpub ev), app_nil_r by assumption. assumption.
  - rewrite wire_of_app, acc_of_app, (nopub_acc ev), app_nil_r by assumption. exact HT.
  - apply pubs_ok_app. split; [assumption|]. apply nopub_pubs_ok; assumption.
Qed.

Lemma IB_partial c p q t t' tr h done ev1 n :
  IB c true (p :: q) t tr h done -> nopub ev1 -> 0 < n -> p_pos p + n < zlen (p_bytes p) ->
  (forall od, TR t' (wire_of tr ++ wire_of ev1) (acc_of tr ++ ztake n (offered p)) od) ->
  IB c true (advance p n :: q) t' (tr ++ ev1 ++ [Acc (ztake n (offered p))]) h done.
Proof.
  intros [H1 H2 H3 H4 H5 H6 H7 H8 _] Hn Hpos Hlt HT.
  destruct (acc_tail_facts ev1 (ztake n (offered p)) Hn) as (Ew & Ea & Es & Ec & Ep).
  destruct H3 as [[Hp1 Hp2] Hq].
  constructor; try assumption; try discriminate.
  - rewrite acc_of_app, Ea, H2. cbn [sent_part advance p_pos p_bytes]. unfold offered.
    rewrite <- app_assoc. f_equal. symmetry. apply ztake_add; lia.
  - split; [|assumption]. unfold head_ok; cbn [advance p_pos p_bytes p_top]. lia.
  - rewrite setpub_ids_app, Es, app_nil_r. assumption.
  - rewrite cbpub_ids_app, Ec, app_nil_r. assumption.
  - rewrite wire_of_app, acc_of_app, Ew, Ea. apply HT.
  - apply pubs_ok_app. split; [assumption|apply Ep].
Qed.

Lemma pub0_events_facts c p evp raised : pub0_events c p = (evp, raised) ->
  wire_of evp = [] /\ acc_of evp = []
  /\ setpub_ids evp = (if is_pub0 p && negb (swallowed c p) then [p_id p] else [])
  /\ cbpub_ids evp = (if c_onpub c && is_pub0 p then [p_id p] else [])
  /\ forall h rw lw, (is_pub0 p = true -> pub_point h rw lw (p_id p)) -> pubs_ok h rw lw evp.
Proof.
  unfold pub0_events, swallowed.
  destruct (is_pub0 p), (c_onpub c), (p_cbraise p), (c_suppress c); cbn [andb negb];
    intros H; inv H; cbn [wire_of acc_of setpub_ids cbpub_ids pubs_ok];
    (split; [reflexivity|]); (split; [reflexivity|]); (split; [reflexivity|]); (split; [reflexivity|]);
    intros h rw lw Hp; try specialize (Hp eq_refl); tauto.
Qed.

Lemma IB_complete c p q t t' tr h done ev1 n evp raised :
  IB c true (p :: q) t tr h done -> nopub ev1 -> 0 < n -> p_pos p + n = zlen (p_bytes p) ->
  (forall od, TR t' (wire_of tr ++ wire_of ev1) (acc_of tr ++ ztake n (offered p)) od) ->
  pub0_events c (advance p n) = (evp, raised) ->
  IB c true q t' (tr ++ (ev1 ++ [Acc (ztake n (offered p))]) ++ evp) h (done ++ [reset p]).
Proof.
  intros [H1 H2 H3 H4 H5 H6 H7 H8 _] Hn Hpos Heq HT Hev.
  destruct (acc_tail_facts ev1 (ztake n (offered p)) Hn) as (Ew & Ea & Es & Ec & Ep).
  apply pub0_events_facts in Hev as (Pw & Pa & Ps & Pc & Pp).
  change (is_pub0 (advance p n)) with (is_pub0 p) in *.
  change (swallowed c (advance p n)) with (swallowed c p) in *.
  change (p_id (advance p n)) with (p_id p) in *.
  pose proof H3 as [[Hp1 Hp2] Hq].
  assert (Hacc : acc_of tr ++ ztake n (offered p) = concat (map p_bytes (done ++ [reset p]))).
  { rewrite H2, map_app, concat_app. cbn [sent_part map concat reset fresh_pkt p_bytes]. rewrite app_nil_r.
    unfold offered. rewrite <- app_assoc. f_equal.
    rewrite <- ztake_add by lia. apply ztake_all. lia. }
  remember (ev1 ++ [Acc (ztake n (offered p))]) as ev2 eqn:Hev2. clear Hev2.
  constructor.
  - rewrite H1. cbn [map]. rewrite <- app_assoc. reflexivity.
  - rewrite !acc_of_app, Ea, Pa, app_nil_r, (sent_part_fresh_tail p q H3), app_nil_r. exact Hacc.
  - eapply q_ok_tail; eassumption.
  - assumption.
  - rewrite !setpub_ids_app, Es, Ps, H5, setpub_of_snoc. reflexivity.
  - rewrite !cbpub_ids_app, Ec, Pc, H6, cbpub_of_snoc. reflexivity.
  - rewrite !wire_of_app, !acc_of_app, Ew, Ea, Pw, Pa, !app_nil_r. apply HT.
  - apply pubs_ok_app. split; [assumption|]. apply pubs_ok_app. split; [apply Ep|].
    apply Pp. intros Hk. rewrite Ew, Ea, !app_nil_l.
    exists done, (reset p), (map reset q). split; [rewrite H1; reflexivity|]. split.
    { unfold is_pub0 in Hk. cbn [reset fresh_pkt p_kind]. destruct (p_kind p); try discriminate; reflexivity. }
    split; [reflexivity|]. split; [exact Hacc|]. exists t'. apply HT.
  - discriminate.
Qed.

Lemma zlen_lt_length (a b : list Z) : zlen a < zlen b -> (length a < length b)%nat.
Proof. unfold zlen; lia. Qed.

(* ------------------------------------------------------------------ _packet_write: invariant and termination *)
Lemma pw_inv c : forall fuel st s st' ev rc s' tr h,
  packet_write_fuel T tsend fuel c st s = (st', ev, rc, s') ->
  Inv c true (outq st) (tst st) tr h ->
  (q_measure (outq st) < fuel)%nat ->
  Inv c true (outq st') (tst st') (tr ++ ev) h /\ rc <> RcOutOfFuel.
Proof.
  induction fuel as [|fuel IH]; intros st s st' ev rc s' tr h Hpw HI Hm; [lia|].
  cbn [packet_write_fuel] in Hpw.
  destruct (outq st) as [|p q] eqn:Hq.
  { inv Hpw. rewrite app_nil_r, Hq. split; [assumption|discriminate]. }
  destruct (sock_send T tsend (set_outq T st q) (offered p) s) as [[[r st1] ev1] s1] eqn:Hss.
  pose proof (sock_send_facts _ _ _ _ _ _ _ Hss) as (Ho & _ & Hnp & _). cbn [set_outq outq] in Ho.
  destruct HI as [done HI]. subst q.
  pose proof (sock_send_TR _ _ _ _ _ _ _ _ _ Hss (ib_tr _ _ _ _ _ _ _ HI)) as HT.
  pose proof (ib_q _ _ _ _ _ _ _ HI) as [[Hp1 Hp2] Hfr].
  pose proof (offered_len p (conj Hp1 Hp2)) as Hol.
  cbn [q_measure] in Hm. unfold pkt_measure in Hm.
  destruct r as [n| | |];
    try (inv Hpw; cbn [set_outq outq tst]; split;
         [exists done; eapply IB_requeue; eassumption | discriminate]).
  destruct HT as (Hn & HT1 & HT0). destruct (0 <? n) eqn:Hn0.
  - apply Z.ltb_lt in Hn0. specialize (HT1 Hn0).
    destruct (p_top (advance p n) =? 0) eqn:Htop.
    + apply Z.eqb_eq in Htop. cbn [advance p_top] in Htop.
      destruct (pub0_events c (advance p n)) as [evp raised] eqn:Hpe.
      assert (Heq : p_pos p + n = zlen (p_bytes p)) by lia.
      pose proof (IB_complete _ _ _ _ _ _ _ _ _ _ _ _ HI Hnp Hn0 Heq HT1 Hpe) as HI'.
      destruct raised.
      * inv Hpw. split; [exists (done ++ [reset p]); exact HI'|discriminate].
      * destruct (is_disc (advance p n)).
        -- destruct (sock_close T st1) as [st2 evc] eqn:Hsc. inv Hpw.
           apply sock_close_facts in Hsc as (C1 & C2 & _ & C4 & C5).
           rewrite C1, C2. split; [|discriminate]. exists (done ++ [reset p]).
           match goal with |- IB _ _ _ _ ?t _ _ =>
             replace t with ((tr ++ (ev1 ++ [Acc (ztake n (offered p))]) ++ evp) ++ ([CbDisconnect] ++ evc))
               by (repeat rewrite <- app_assoc; reflexivity) end.
           apply IB_nopub; [exact HI'| |].
           ++ apply nopub_app; [repeat constructor|assumption].
           ++ rewrite wire_of_app, C5. reflexivity.
        -- destruct (packet_write_fuel T tsend fuel c st1 s1) as [[[st3 ev3] r3] s3] eqn:Hrec. inv Hpw.
           apply (IH _ _ _ _ _ _ (tr ++ (ev1 ++ [Acc (ztake n (offered p))]) ++ evp) h) in Hrec.
           ++ destruct Hrec as [Hr1 Hr2]. split; [|assumption].
              match goal with |- Inv _ _ _ _ ?t _ =>
                replace t with ((tr ++ (ev1 ++ [Acc (ztake n (offered p))]) ++ evp) ++ ev3)
                  by (repeat rewrite <- app_assoc; reflexivity) end.
              assumption.
           ++ exists (done ++ [reset p]). exact HI'.
           ++ lia.
    + apply Z.eqb_neq in Htop. cbn [advance p_top] in Htop.
      assert (Hlt : p_pos p + n < zlen (p_bytes p)) by lia.
      pose proof (IB_partial _ _ _ _ _ _ _ _ _ _ HI Hnp Hn0 Hlt HT1) as HI'.
      destruct (packet_write_fuel T tsend fuel c (set_outq T st1 (advance p n :: outq st1)) s1)
        as [[[st3 ev3] r3] s3] eqn:Hrec. inv Hpw.
      apply (IH _ _ _ _ _ _ (tr ++ ev1 ++ [Acc (ztake n (offered p))]) h) in Hrec.
      * destruct Hrec as [Hr1 Hr2]. split; [|assumption].
        match goal with |- Inv _ _ _ _ ?t _ =>
          replace t with ((tr ++ ev1 ++ [Acc (ztake n (offered p))]) ++ ev3)
            by (repeat rewrite <- app_assoc; reflexivity) end.
        assumption.
      * cbn [set_outq outq tst]. exists done. exact HI'.
      * cbn [set_outq outq]. cbn [q_measure]. unfold pkt_measure.
        assert ((length (offered (advance p n)) < length (offered p))%nat); [|lia].
        apply zlen_lt_length. rewrite Hol.
        rewrite (offered_len (advance p n)); cbn [advance p_pos p_bytes p_top]; [lia|].
        unfold head_ok; cbn [advance p_pos p_bytes p_top]. lia.
  - apply Z.ltb_ge in Hn0. assert (n = 0) by lia. subst n.
    inv Hpw. cbn [set_outq outq tst]. split; [|discriminate].
    exists done. eapply IB_requeue; try eassumption. apply HT0. reflexivity.
Qed.

(* ------------------------------------------------------------------ loop_write, _packet_queue, runs *)
Lemma pw_connq c : forall fuel st s st' ev rc s',
  packet_write_fuel T tsend fuel c st s = (st', ev, rc, s') -> connq st' = connq st.
Proof.
  induction fuel as [|fuel IH]; intros st s st' ev rc s' H; cbn [packet_write_fuel] in H; [inv H; reflexivity|].
  destruct (outq st) as [|p q]; [inv H; reflexivity|].
  destruct (sock_send T tsend (set_outq T st q) (offered p) s) as [[[r st1] ev1] s1] eqn:Hss.
  apply sock_send_connq in Hss. cbn [set_outq connq] in Hss.
  destruct r as [n| | |]; try (inv H; cbn [set_outq connq]; assumption).
  destruct (0 <? n); [|inv H; cbn [set_outq connq]; assumption].
  destruct (p_top (advance p n) =? 0).
  - destruct (pub0_events c (advance p n)) as [evp raised]. destruct raised; [inv H; assumption|].
    destruct (is_disc (advance p n)).
    + destruct (sock_close T st1) as [st2 evc] eqn:Hsc. inv H. apply sock_close_connq in Hsc. congruence.
    + destruct (packet_write_fuel T tsend fuel c st1 s1) as [[[st3 ev3] r3] s3] eqn:Hrec. inv H.
      apply IH in Hrec. congruence.
  - destruct (packet_write_fuel T tsend fuel c (set_outq T st1 (advance p n :: outq st1)) s1)
      as [[[st3 ev3] r3] s3] eqn:Hrec. inv H. apply IH in Hrec. cbn [set_outq connq] in Hrec. congruence.
Qed.

Lemma Inv_nopub c cq q t tr h ev : Inv c cq q t tr h -> nopub ev -> wire_of ev = [] -> Inv c cq q t (tr ++ ev) h.
Proof. intros [done H] Hn Hw. exists done. apply IB_nopub; assumption. Qed.

Definition asks (st : wstate T) : Prop := sock st = true -> outq st <> [] -> regw st = true.

Lemma loop_write_inv c st s st' ev rc s' tr h :
  loop_write T tsend c st s = (st', ev, rc, s') -> Inv c (connq st) (outq st) (tst st) tr h ->
  connq st = true \/ asks st ->
  Inv c (connq st') (outq st') (tst st') (tr ++ ev) h /\ rc <> RcOutOfFuel /\ connq st' = connq st
  /\ (sock st = true -> asks st').
Proof.
  unfold loop_write. destruct (sock st) eqn:Hs; cbn [negb]; intros H HI Hca.
  2:{ inv H. rewrite app_nil_r. split; [assumption|]. split; [discriminate|]. split; [reflexivity|discriminate]. }
  destruct (connq st) eqn:Hcq; cbn [negb] in H.
  2:{ inv H. rewrite app_nil_r, Hcq. split; [assumption|]. split; [discriminate|]. split; [reflexivity|].
      intros _. destruct Hca as [Hca|Hca]; [discriminate|assumption]. }
  destruct (packet_write T tsend c st s) as [[[st1 ev1] r] s1] eqn:Hpw.
  unfold packet_write in Hpw. pose proof (pw_connq _ _ _ _ _ _ _ _ Hpw) as Hq1.
  eapply pw_inv in Hpw as [HI1 Hr]; [|eassumption|lia].
  assert (Hmid : forall st2 ev2 r2,
     (match r with
      | RcAgain => (st1, [], RcSuccess)
      | RcConnLost => let '(st', ev') := loop_rc_handle T st1 in (st', ev', RcConnLost)
      | RcRaised => (st1, [], RcRaised)
      | RcOutOfFuel => (st1, [], RcOutOfFuel)
      | _ => (st1, [], RcSuccess)
      end) = (st2, ev2, r2) ->
     outq st2 = outq st1 /\ tst st2 = tst st1 /\ nopub ev2 /\ wire_of ev2 = [] /\ r2 <> RcOutOfFuel
     /\ connq st2 = connq st1).
  { intros st2 ev2 r2 Hm.
    destruct r; try congruence;
      try (inv Hm; repeat split; try constructor; discriminate).
    unfold loop_rc_handle in Hm. destruct (sock_close T st1) as [sta eva] eqn:Hsc. inv Hm.
    pose proof (sock_close_connq _ _ _ Hsc) as C6.
    apply sock_close_facts in Hsc as (C1 & C2 & _ & C4 & C5).
    repeat split; try assumption; try discriminate.
    - apply nopub_app; [assumption|repeat constructor].
    - rewrite wire_of_app, C5. reflexivity. }
  destruct (match r with
      | RcAgain => (st1, [], RcSuccess)
      | RcConnLost => let '(st', ev') := loop_rc_handle T st1 in (st', ev', RcConnLost)
      | RcRaised => (st1, [], RcRaised)
      | RcOutOfFuel => (st1, [], RcOutOfFuel)
      | _ => (st1, [], RcSuccess)
      end) as [[st2 ev2] r2] eqn:Hm.
  destruct (Hmid _ _ _ eq_refl) as (M1 & M2 & M3 & M4 & M5 & M6).
  assert (Hfin : forall st3 ev3,
     (if want_write st2 then call_reg_write T st2 else call_unreg_write T (sock st2) st2) = (st3, ev3) ->
     outq st3 = outq st2 /\ tst st3 = tst st2 /\ nopub ev3 /\ wire_of ev3 = [] /\ asks st3 /\ connq st3 = connq st2).
  { intros st3 ev3 Hf. unfold want_write in Hf. destruct (outq st2) as [|x q2] eqn:Hq2.
    - pose proof (call_unreg_write_connq _ _ _ _ Hf) as F6.
      apply call_unreg_write_facts in Hf as (F1 & F2 & F3 & F4 & F5).
      repeat split; try assumption; try congruence; try (intros _ Hne; congruence).
    - pose proof (call_reg_write_connq _ _ _ Hf) as F7.
      apply call_reg_write_facts in Hf as (F1 & F2 & F3 & F4 & F5 & F6).
      repeat split; try assumption; try congruence; try (intros Hsk _; apply F6; congruence). }
  destruct (if want_write st2 then call_reg_write T st2 else call_unreg_write T (sock st2) st2)
    as [st3 ev3] eqn:Hf.
  destruct (Hfin _ _ eq_refl) as (F1 & F2 & F3 & F4 & F5 & F6).
  inv H. rewrite F1, F2, M1, M2.
  assert (Hq3 : connq st' = true) by congruence. rewrite Hq3.
  split; [|split; [assumption|split; [reflexivity|intros _; assumption]]].
  replace (tr ++ ev1 ++ ev2 ++ ev3) with ((tr ++ ev1) ++ (ev2 ++ ev3)) by (repeat rewrite <- app_assoc; reflexivity).
  apply Inv_nopub; [assumption|apply nopub_app; assumption|].
  rewrite wire_of_app, M4, F4. reflexivity.
Qed.

(* a packet other than CONNECT: appended at the tail *)
Lemma Inv_enqueue c cq q t tr h b k r :
  Inv c cq q t tr h ->
  Inv c cq (q ++ [fresh_pkt (Z.of_nat (length h)) b k r]) t tr (h ++ [fresh_pkt (Z.of_nat (length h)) b k r]).
Proof.
  intros [done [H1 H2 H3 H4 H5 H6 H7 H8 H9]]. exists done.
  set (p := fresh_pkt (Z.of_nat (length h)) b k r).
  constructor; try assumption.
  - rewrite map_app. cbn [map]. unfold p at 2. rewrite reset_fresh_pkt. fold p. rewrite app_assoc, <- H1. reflexivity.
  - rewrite H2. f_equal. destruct q; reflexivity.
  - destruct q as [|x q]; cbn [app q_ok].
    + split; [|constructor]. unfold head_ok, p; cbn. pose proof (zlen_nonneg b). lia.
    + destruct H3 as [Hx Hq]. split; [assumption|]. apply Forall_app. split; [assumption|].
      constructor; [|constructor]. split; reflexivity.
  - apply ids_ok_snoc; [assumption|reflexivity].
  - destruct q as [|x q]; cbn [app head_off] in *; [apply TR_none|]; assumption.
  - apply pubs_ok_ext. assumption.
  - intros Hc. destruct (H9 Hc) as (P1 & P2 & P3 & P4 & P5). repeat split; try assumption.
    apply Forall_app. split; [assumption|]. constructor; [split; reflexivity|constructor].
Qed.

(* CONNECT, queued for the first time: put at the head; nothing has been offered to the transport yet *)
Lemma Inv_enqueue_head c q t tr h b k r :
  Inv c false q t tr h ->
  Inv c true (fresh_pkt (Z.of_nat (length h)) b k r :: q) t tr (fresh_pkt (Z.of_nat (length h)) b k r :: h).
Proof.
  intros [done [H1 H2 H3 H4 H5 H6 H7 H8 H9]]. destruct (H9 eq_refl) as (P1 & P2 & P3 & P4 & P5). subst done.
  exists []. set (p := fresh_pkt (Z.of_nat (length h)) b k r).
  cbn [app] in H1.
  constructor.
  - cbn [app map]. unfold p at 2. rewrite reset_fresh_pkt. fold p. rewrite <- H1. reflexivity.
  - rewrite (nopub_acc tr P2). reflexivity.
  - split; [|assumption]. unfold head_ok, p; cbn. pose proof (zlen_nonneg b). lia.
  - apply ids_ok_cons; [assumption|reflexivity].
  - rewrite (nopub_setpub tr P2). reflexivity.
  - rewrite (nopub_cbpub tr P2). unfold cbpub_of. destruct (c_onpub c); reflexivity.
  - rewrite P3, (nopub_acc tr P2). apply P5.
  - apply nopub_pubs_ok. assumption.
  - discriminate.
Qed.

Definition is_conn_k (k : pkind) : bool := match k with KConn => true | _ => false end.

Lemma enqueue_inv c in_cb st b k r s st' ev rc s' tr h :
  enqueue T tsend c in_cb st (fresh_pkt (Z.of_nat (length h)) b k r) s = (st', ev, rc, s') ->
  is_conn_k k = false \/ connq st = false ->
  Inv c (connq st) (outq st) (tst st) tr h -> asks st ->
  Inv c (connq st') (outq st') (tst st') (tr ++ ev)
      (if is_conn_k k then fresh_pkt (Z.of_nat (length h)) b k r :: h else h ++ [fresh_pkt (Z.of_nat (length h)) b k r])
  /\ rc <> RcOutOfFuel /\ asks st' /\ connq st' = (connq st || is_conn_k k).
Proof.
  unfold enqueue. intros H Hk HI Ha.
  set (p := fresh_pkt (Z.of_nat (length h)) b k r) in *.
  change (is_conn p) with (is_conn_k k) in H.
  set (st1 := if is_conn_k k then mkst (p :: outq st) (sock st) (regw st) true (tst st)
              else set_outq T st (outq st ++ [p])) in *.
  assert (HI1 : Inv c (connq st1) (outq st1) (tst st1) tr (if is_conn_k k then p :: h else h ++ [p])).
  { unfold st1. destruct (is_conn_k k) eqn:Ek; cbn [outq tst connq set_outq].
    - destruct Hk as [Hk|Hk]; [discriminate|]. rewrite Hk in HI. apply Inv_enqueue_head. assumption.
    - apply Inv_enqueue. assumption. }
  assert (Hq1 : connq st1 = (connq st || is_conn_k k)).
  { unfold st1. destruct (is_conn_k k); cbn [connq set_outq]; [rewrite orb_true_r|rewrite orb_false_r]; reflexivity. }
  assert (Hs1 : sock st1 = sock st) by (unfold st1; destruct (is_conn_k k); reflexivity).
  destruct (negb (c_ext c) && connq st1 && negb in_cb) eqn:Hdir.
  - assert (Hc1 : connq st1 = true).
    { apply andb_true_iff in Hdir as [Hd _]. apply andb_true_iff in Hd as [_ Hd]. exact Hd. }
    pose proof (loop_write_inv _ _ _ _ _ _ _ _ _ H HI1 (or_introl Hc1)) as (L1 & L2 & L3 & L4).
    split; [assumption|]. split; [assumption|]. split; [|congruence].
    rewrite Hs1 in L4. destruct (sock st) eqn:Hs; [apply L4; reflexivity|].
    (* socket closed: loop_write returned at once *)
    unfold loop_write in H. rewrite Hs1 in H. cbn [negb] in H. inv H.
    intros Hsk. congruence.
  - destruct (call_reg_write T st1) as [st2 ev2] eqn:Hc. inv H.
    pose proof (call_reg_write_connq _ _ _ Hc) as C7.
    apply call_reg_write_facts in Hc as (C1 & C2 & C3 & C4 & C5 & C6).
    rewrite C1, C2, C7. split; [apply Inv_nopub; assumption|]. split; [discriminate|].
    split; [|assumption]. intros Hsk _. apply C6. congruence.
Qed.

Record RInv (c : cfg) (r : rstate T) : Prop := mkRInv {
  ri_inv : Inv c (connq (r_st r)) (outq (r_st r)) (tst (r_st r)) (r_trace r) (r_hist r);
  ri_asks : asks (r_st r);
  ri_fuel : ~ In RcOutOfFuel (r_rcs r)
}.

Lemma step_inv c r o : not_conn_op o = true \/ connq (r_st r) = false ->
  RInv c r -> RInv c (step T tsend c r o) /\ connq (r_st (step T tsend c r o)) = (connq (r_st r) || negb (not_conn_op o)).
Proof.
  intros Hok [H1 H2 H3]. destruct o as [in_cb b k cbr s|s]; cbn [step].
  - change (is_conn (fresh_pkt (Z.of_nat (length (r_hist r))) b k cbr)) with (is_conn_k k).
    destruct (enqueue T tsend c in_cb (r_st r) _ s) as [[[st ev] rc] s'] eqn:He.
    apply (enqueue_inv _ _ _ _ _ _ _ _ _ _ _ (r_trace r)) in He as (E1 & E2 & E3 & E4); try assumption.
    + split.
      * constructor; cbn; try assumption.
        intros Hin. apply in_app_or in Hin as [Hin|[Hin|[]]]; [contradiction|congruence].
      * cbn. rewrite E4. destruct k; reflexivity.
    + destruct Hok as [Hok|Hok]; [left|right; assumption]. destruct k; cbn in Hok |- *; congruence.
  - destruct (loop_write T tsend c (r_st r) s) as [[[st ev] rc] s'] eqn:He.
    pose proof (loop_write_inv _ _ _ _ _ _ _ _ _ He H1 (or_intror H2)) as (E1 & E2 & E3 & E4).
    split.
    + constructor; cbn; try assumption.
      * destruct (sock (r_st r)) eqn:Hs; [apply E4; reflexivity|].
        unfold loop_write in He. rewrite Hs in He. cbn [negb] in He. inv He. assumption.
      * intros Hin. apply in_app_or in Hin as [Hin|[Hin|[]]]; [contradiction|congruence].
    + cbn. rewrite E3, orb_false_r. reflexivity.
Qed.

Lemma run_from_inv c ops : forall r, conn_ok (connq (r_st r)) ops = true ->
  RInv c r -> RInv c (fold_left (step T tsend c) ops r).
Proof.
  induction ops as [|o ops IH]; intros r Hok H; [assumption|]. cbn [fold_left]. cbn [conn_ok] in Hok.
  destruct (not_conn_op o) eqn:Ho.
  - destruct (step_inv c r o (or_introl Ho) H) as [S1 S2]. apply IH; [|assumption].
    rewrite S2, Ho, orb_false_r. assumption.
  - apply andb_true_iff in Hok as [Hseen Hops]. apply negb_true_iff in Hseen.
    destruct (step_inv c r o (or_intror Hseen) H) as [S1 S2]. apply IH; [|assumption].
    rewrite S2, Ho, orb_true_r. assumption.
Qed.

Lemma init_inv c t0 : TR t0 [] [] None -> RInv c (init T t0).
Proof.
  intros H0. constructor; cbn.
  - exists []. constructor; cbn; try reflexivity; try exact I; try assumption.
    + split; constructor.
    + unfold cbpub_of. destruct (c_onpub c); reflexivity.
    + intros _. repeat split; try constructor. apply TR_none. assumption.
  - unfold asks; cbn. intros _ Hne. exfalso; apply Hne; reflexivity.
  - intros [].
Qed.

Theorem run_inv c t0 ops : conn_once ops = true -> TR t0 [] [] None -> RInv c (run T tsend c t0 ops).
Proof. intros Hc H. unfold run. apply run_from_inv; [exact Hc|apply init_inv, H]. Qed.

(* ------------------------------------------------------------------ consequences, still generic *)
Lemma q_ok_split q : q_ok q -> sent_part q ++ unsent_q q = concat (map p_bytes q).
Proof.
  destruct q as [|p q]; [reflexivity|]. intros [_ Hf].
  unfold unsent_q. cbn [sent_part map concat]. rewrite app_assoc. unfold offered at 1.
  rewrite ztake_zskip. f_equal.
  induction Hf as [|x q Hx _ IH]; [reflexivity|]. cbn [map concat]. rewrite (fresh_offered x Hx), IH. reflexivity.
Qed.

Lemma map_bytes_reset q : map p_bytes (map reset q) = map p_bytes q.
Proof. rewrite map_map. apply map_ext. reflexivity. Qed.

Lemma IB_stream c cq q t tr h done : IB c cq q t tr h done -> acc_of tr ++ unsent_q q = concat (map p_bytes h).
Proof.
  intros [H1 H2 H3 _ _ _ _ _ _]. rewrite H2, H1, map_app, concat_app, map_bytes_reset, <- app_assoc.
  f_equal. apply q_ok_split. assumption.
Qed.

Lemma NoDup_map_filter {A B} (f : A -> B) (g : A -> bool) l : NoDup (map f l) -> NoDup (map f (filter g l)).
Proof.
  induction l as [|x l IH]; cbn [map filter]; intros H; [constructor|].
  inversion H as [|? ? Hx Hl]; subst. destruct (g x); [|apply IH; assumption].
  cbn [map]. constructor; [|apply IH; assumption].
  intros Hin. apply Hx. apply in_map_iff in Hin as (y & Hy & Hin). apply filter_In in Hin as [Hin _].
  apply in_map_iff. exists y. split; assumption.
Qed.

Lemma NoDup_app_l {A} (a b : list A) : NoDup (a ++ b) -> NoDup a.
Proof.
  induction a as [|x a IH]; cbn [app]; intros H; [constructor|].
  inversion H as [|? ? Hx Hl]; subst. constructor; [|apply IH; assumption].
  intros Hin. apply Hx. apply in_or_app. left. assumption.
Qed.

Lemma IB_once c cq q t tr h done : IB c cq q t tr h done ->
  NoDup (setpub_ids tr) /\ NoDup (cbpub_ids tr).
Proof.
  intros [H1 _ _ [H4 _] H5 H6 _ _ _]. rewrite H1, map_app in H4.
  apply NoDup_app_l in H4. rewrite H5, H6. split.
  - apply NoDup_map_filter. assumption.
  - unfold cbpub_of. destruct (c_onpub c); [apply NoDup_map_filter; assumption|constructor].
Qed.

Lemma pubs_ok_split h tr1 e tr2 i :
  pubs_ok h [] [] (tr1 ++ e :: tr2) -> e = CbPublish i \/ e = SetPublished i ->
  pub_point h (wire_of tr1) (acc_of tr1) i.
Proof.
  intros H He. apply pubs_ok_app in H as [_ H]. cbn [app] in H.
  destruct He as [-> | ->]; cbn [pubs_ok] in H; apply H.
Qed.

End GenericProofs.

(* ================================================================== the raw socket *)
Definition raw_TR (t : unit) (rw lw : list Z) (od : option (list Z)) : Prop := rw = lw.

Lemma raw_TR_none t rw lw : raw_TR t rw lw None -> forall od, raw_TR t rw lw od.
Proof. intros H od; exact H. Qed.

Lemma raw_send_spec t rw lw d s r t' raw s' :
  raw_TR t rw lw (Some d) -> raw_send t d s = (r, t', raw, s') ->
  match r with
  | SWrote n => 0 <= n <= zlen d
                /\ (0 < n -> forall od, raw_TR t' (rw ++ raw) (lw ++ ztake n d) od)
                /\ (n = 0 -> raw_TR t' (rw ++ raw) lw (Some d))
  | _ => raw_TR t' (rw ++ raw) lw (Some d)
  end.
Proof.
  unfold raw_TR, raw_send. intros -> H.
  destruct (next_outcome (zlen d) s) as [o s0]. destruct o; inv H; try (rewrite app_nil_r; reflexivity).
  pose proof (clip_range k (zlen d) (zlen_nonneg d)) as Hc.
  split; [assumption|]. split; [reflexivity|]. intros ->. rewrite ztake_0, app_nil_r. reflexivity.
Qed.

Definition raw_RInv := RInv unit raw_TR.

Lemma raw_run_inv c ops : conn_once ops = true -> raw_RInv c (raw_run c ops).
Proof. intros Hc. apply (run_inv unit raw_send raw_TR raw_TR_none raw_send_spec); [assumption|reflexivity]. Qed.

(* ------------------------------------------------------------------ the history as a function of the operations:
   the packets of the connection in QUEUE order - CONNECT at the front, everything else at the back in the order
   of the calls; the n-th packet queued gets id n *)
Fixpoint hist_fold (h : list opkt) (ops : list op) : list opkt :=
  match ops with
  | [] => h
  | OEnq _ b k r _ :: t =>
    let p := fresh_pkt (Z.of_nat (length h)) b k r in
    hist_fold (if is_conn_k k then p :: h else h ++ [p]) t
  | OWrite _ :: t => hist_fold h t
  end.
Definition hist_of (ops : list op) : list opkt := hist_fold [] ops.
Definition queued_bytes (ops : list op) : list (list Z) := map p_bytes (hist_of ops).

Fixpoint enq_bytes (ops : list op) : list (list Z) :=
  match ops with
  | [] => []
  | OEnq _ b _ _ _ :: t => b :: enq_bytes t
  | OWrite _ :: t => enq_bytes t
  end.

Lemma hist_fold_plain ops : forallb not_conn_op ops = true ->
  forall h, map p_bytes (hist_fold h ops) = map p_bytes h ++ enq_bytes ops.
Proof.
  induction ops as [|[? b k ? ?|?] ops IH]; intros Hok h; cbn [hist_fold enq_bytes forallb] in *.
  - rewrite app_nil_r. reflexivity.
  - apply andb_true_iff in Hok as [Hk Hops]. destruct k; try discriminate; cbn [is_conn_k];
      rewrite IH by assumption; rewrite map_app, <- app_assoc; reflexivity.
  - apply IH. assumption.
Qed.

(* no CONNECT among the operations: queue order = order of the calls *)
Lemma queued_bytes_plain ops : forallb not_conn_op ops = true -> queued_bytes ops = enq_bytes ops.
Proof. intros H. unfold queued_bytes, hist_of. rewrite hist_fold_plain by assumption. reflexivity. Qed.

(* one CONNECT, after the packets [early] (queued from on_socket_open or by another thread): it goes first *)
Lemma queued_bytes_connect early in_cb b r s rest :
  forallb not_conn_op early = true -> forallb not_conn_op rest = true ->
  queued_bytes (early ++ OEnq in_cb b KConn r s :: rest) = b :: enq_bytes early ++ enq_bytes rest.
Proof.
  intros He Hr. unfold queued_bytes, hist_of.
  assert (Hgen : forall h, hist_fold h (early ++ OEnq in_cb b KConn r s :: rest)
                           = hist_fold (fresh_pkt (Z.of_nat (length (hist_fold h early))) b KConn r :: hist_fold h early) rest).
  { induction early as [|[? b0 k ? ?|?] early IH]; intros h; cbn [app hist_fold forallb] in *.
    - reflexivity.
    - apply andb_true_iff in He as [_ He]. apply IH. assumption.
    - apply IH. assumption. }
  rewrite Hgen, hist_fold_plain by assumption. cbn [map p_bytes fresh_pkt].
  rewrite hist_fold_plain by assumption. cbn [map app]. reflexivity.
Qed.

Lemma run_from_hist T tsend c ops : forall r : rstate T,
  r_hist (fold_left (step T tsend c) ops r) = hist_fold (r_hist r) ops.
Proof.
  induction ops as [|o ops IH]; intros r; cbn [fold_left hist_fold]; [reflexivity|].
  rewrite IH. destruct o as [in_cb b k cbr s|s]; cbn [step].
  - destruct (enqueue T tsend c in_cb (r_st r) _ s) as [[[st ev] rc] s']. cbn [r_hist]. reflexivity.
  - destruct (loop_write T tsend c (r_st r) s) as [[[st ev] rc] s']. reflexivity.
Qed.

Lemma run_hist T tsend c t0 ops : r_hist (run T tsend c t0 ops) = hist_of ops.
Proof. unfold run. rewrite run_from_hist. reflexivity. Qed.

(* ------------------------------------------------------------------ C06 on the raw socket *)
Lemma raw_stream c ops : conn_once ops = true ->
  wire_of (r_trace (raw_run c ops)) ++ unsent (r_st (raw_run c ops)) = concat (queued_bytes ops).
Proof.
  intros Hcf. destruct (raw_run_inv c ops Hcf) as [[done HI] _ _].
  pose proof (IB_stream _ _ _ _ _ _ _ _ _ HI) as Hs. pose proof (ib_tr _ _ _ _ _ _ _ _ _ HI) as Ht.
  unfold raw_TR in Ht. unfold unsent. rewrite Ht, Hs. unfold raw_run. rewrite run_hist. reflexivity.
Qed.

Lemma raw_qos0_published c ops tr1 e tr2 i : conn_once ops = true ->
  r_trace (raw_run c ops) = tr1 ++ e :: tr2 -> e = CbPublish i \/ e = SetPublished i ->
  exists pre p post,
    hist_of ops = pre ++ p :: post /\ p_kind p = KPub0 /\ p_id p = i
    /\ wire_of tr1 = concat (map p_bytes (pre ++ [p])).
Proof.
  intros Hcf Htr He. destruct (raw_run_inv c ops Hcf) as [[done HI] _ _].
  pose proof (ib_pubs _ _ _ _ _ _ _ _ _ HI) as Hp. rewrite Htr in Hp.
  apply (pubs_ok_split unit raw_TR _ _ _ _ i) in Hp; [|assumption].
  destruct Hp as (pre & p & post & Hh & Hk & Hi & Hl & (t & Ht)). unfold raw_TR in Ht.
  unfold raw_run in Hh. rewrite run_hist in Hh.
  exists pre, p, post. repeat split; try assumption. rewrite Ht. exact Hl.
Qed.

Lemma raw_qos0_once c ops : conn_once ops = true ->
  let r := raw_run c ops in
  NoDup (setpub_ids (r_trace r)) /\ NoDup (cbpub_ids (r_trace r))
  /\ exists done,
       hist_of ops = done ++ map reset (outq (r_st r))
       /\ wire_of (r_trace r) = concat (map p_bytes done) ++ sent_part (outq (r_st r))
       /\ setpub_ids (r_trace r) = setpub_of c done
       /\ cbpub_ids (r_trace r) = cbpub_of c done.
Proof.
  intros Hcf. cbn zeta. destruct (raw_run_inv c ops Hcf) as [[done HI] _ _].
  destruct (IB_once _ _ _ _ _ _ _ _ _ HI) as [N1 N2]. split; [assumption|]. split; [assumption|].
  exists done. pose proof HI as [H1 H2 _ _ H5 H6 H7 _ _]. unfold raw_TR in H7.
  unfold raw_run in H1. rewrite run_hist in H1. rewrite H7. repeat split; assumption.
Qed.

Lemma unsent_want_write {T} (st : wstate T) : unsent st <> [] -> want_write st = true.
Proof. unfold unsent, want_write. destruct (outq st); [intros H; exfalso; apply H; reflexivity|reflexivity]. Qed.

Lemma raw_want_write c ops : conn_once ops = true ->
  let st := r_st (raw_run c ops) in
  unsent st <> [] -> want_write st = true /\ (sock st = true -> regw st = true).
Proof.
  intros Hcf. cbn zeta. intros H. split; [apply unsent_want_write; assumption|].
  destruct (raw_run_inv c ops Hcf) as [_ Ha _]. intros Hs. apply Ha; [assumption|].
  intros Hq. apply H. unfold unsent. rewrite Hq. reflexivity.
Qed.

Lemma raw_terminates c ops : conn_once ops = true -> ~ In RcOutOfFuel (r_rcs (raw_run c ops)).
Proof. intros Hcf. apply (raw_run_inv c ops Hcf). Qed.

(* nothing is offered to the transport before CONNECT is queued *)
Lemma raw_nothing_before_connect c ops : forallb not_conn_op ops = true ->
  wire_of (r_trace (raw_run c ops)) = [].
Proof.
  intros Hn. assert (Hc : conn_once ops = true).
  { unfold conn_once. generalize false. induction ops as [|o ops IH]; intros seen; [reflexivity|].
    cbn [forallb conn_ok] in *. apply andb_true_iff in Hn as [Ho Hops]. rewrite Ho. apply IH. assumption. }
  assert (Hq : forall r : rstate unit, connq (r_st r) = false ->
               connq (r_st (fold_left (step unit raw_send c) ops r)) = false).
  { clear Hc. induction ops as [|o ops IH]; intros r Hr; [assumption|]. cbn [fold_left forallb] in *.
    apply andb_true_iff in Hn as [Ho Hops]. apply IH; [assumption|].
    destruct o as [in_cb b k cbr s|s]; cbn [step].
    - unfold enqueue. destruct k; try discriminate; cbn [is_conn fresh_pkt p_kind set_outq connq];
        rewrite Hr, andb_false_r; cbn [andb];
        destruct (call_reg_write unit _) as [st2 ev2] eqn:Hcr;
        apply (call_reg_write_connq unit) in Hcr; cbn [r_st]; rewrite Hcr; cbn; assumption.
    - unfold loop_write. destruct (sock (r_st r)); cbn [negb]; [rewrite Hr; cbn [negb]|]; cbn [r_st]; assumption. }
  destruct (raw_run_inv c ops Hc) as [[done HI] _ _].
  pose proof (ib_pre _ _ _ _ _ _ _ _ _ HI) as Hp.
  unfold raw_run, run in Hp |- *. rewrite (Hq (init unit tt) eq_refl) in Hp.
  destruct (Hp eq_refl) as (_ & _ & Hw & _). exact Hw.
Qed.
