"""C11 - topic filter matching equals the MQTT spec; the filter trie stays consistent.
Model: coq/theories/Matcher/Trie.v (MQTTMatcher, topic_matches_sub); specification: Matcher/TrieSpec.v
(spec_match, reference dictionary).  matcher.py is generators/exceptions/dict walking - outside the py2v
subset - so the tie is this correspondence run: the real MQTTMatcher / topic_matches_sub against the
extracted model (disagreements) and, independently, against the extracted specification (violations)."""
import itertools, random

from vlib import model
from harness import _matcher as M

RULE = ("(1) exhaustive: every (filter, topic) pair of strings of 1..D levels over the level alphabet "
        "{a, b, '', +, #, $x, é} (D=4 quick; thorough adds D=5 for valid filter x valid topic), invalid ones included "
        "for the model comparison, valid x valid compared with the extracted spec_match; "
        "(2) exhaustive: every sequence of exactly L set/del operations (all shorter ones are its prefixes) over a "
        "7-filter universe (L=4 quick, 5 thorough; also 4-filter universe L=5 quick, 6-filter universe L=6 thorough), each "
        "set writing a fresh value so overwrites are visible, each mutation followed by a get and an iter_match, the last one "
        "by get of every universe filter and of unstored/prefix keys, iter_match of 7 topics and two deletes of unstored "
        "filters; structural dump of _root (children sorted) compared after every operation, results compared in "
        "yield order with the trie model and (sorted) with the reference dictionary + spec_match; "
        "(3) seeded random: deeper filters/topics over random byte levels (multi-byte UTF-8, '$', empty levels) with "
        "topics derived from the filter, and random op sequences up to length 40 over random universes. "
        "non-trivial = valid pair that involves a wildcard, a '$' topic, an empty level or a positive match; "
        "op sequence that deletes a stored filter or overwrites one")
EXTRACT_TAGS = ["matcher"]
GENERATED_ITEMS = []
ASSUMPTIONS = [
    "str.split('/') on Python strings agrees with splitting the UTF-8 bytes at 0x2F, str.startswith('$') with a first byte 0x24 (CPython codec facts)",
    "values stored in the matcher are never None (None is matcher.py's 'no content' marker; message_callback_add rejects None)",
    "a Python dict is a key-unique finite map with insertion order (modelled by an association list)",
    "matcher.py is not translated by py2v; the model is tied to it by the exhaustive/random differential runs of this harness only",
]

CAP = 25   # stored disagreements / violations


def _matcher_api():
    from paho.mqtt.client import topic_matches_sub
    from paho.mqtt.matcher import MQTTMatcher
    return topic_matches_sub, MQTTMatcher


# ---------------------------------------------------------------- (1) pairs
_PAIR = {}


def _pair_job(job):
    """job = (list of filter indices, list of topic indices); compares every pair"""
    fidx, tidx = job
    FS, TS = _PAIR["F"], _PAIR["T"]
    tms, _ = _matcher_api()
    fs = [FS[i] for i in fidx]
    ts = [TS[i] for i in tidx]
    args = [len(fs)] + [x for f in fs for x in M.enc_str(f)] + [len(ts)] + [x for t in ts for x in M.enc_str(t)]
    codes = model.run_batch(M.TAG, M.E_MATRIX, [args])[0]
    st = {"pairs": 0, "valid_pairs": 0, "valid_match": 0, "nontrivial": 0, "impl_match": 0}
    dis, vio, k = [], [], 0
    if len(codes) != len(fs) * len(ts):
        return st, [{"case": {"kind": "matrix", "filters": fs[:3], "topics": ts[:3]}, "what": f"model returned {codes[:5]}"}], []
    for f in fs:
        wild_f = "+" in f or "#" in f
        for t in ts:
            c = codes[k]
            k += 1
            r = bool(tms(f, t))
            st["pairs"] += 1
            st["impl_match"] += r
            if r != bool(c & 1) and len(dis) < CAP:
                dis.append({"case": {"kind": "pair", "filter": f, "topic": t}, "impl": r, "model": bool(c & 1)})
            if c & 12 == 12:
                sp = bool(c & 2)
                st["valid_pairs"] += 1
                st["valid_match"] += sp
                if sp or wild_f or t.startswith("$") or "//" in t or t.startswith("/") or t.endswith("/"):
                    st["nontrivial"] += 1
                if r != sp and len(vio) < CAP:
                    vio.append({"case": {"kind": "pair", "filter": f, "topic": t},
                                "what": f"topic_matches_sub({f!r}, {t!r}) = {r} but the MQTT specification says {sp}",
                                "signature": "c11-match-vs-spec"})
    return st, dis, vio


def _validity_crosscheck(strings, codes_row_major, nf, nt):
    """the model's valid_filter / valid_topic against an independent Python reading (sanity of the hypotheses)"""
    bad = []
    for i in range(nf):
        if bool(codes_row_major[i * nt] & 4) != M.py_valid_filter(strings[i]):
            bad.append(("filter", strings[i]))
    for j in range(nt):
        if bool(codes_row_major[j] & 8) != M.py_valid_topic(strings[j]):
            bad.append(("topic", strings[j]))
    return bad


def run_pairs(out, filters, topics, label, fchunk=40):
    _PAIR["F"], _PAIR["T"] = filters, topics
    tchunks = [list(range(i, min(i + 4000, len(topics)))) for i in range(0, len(topics), 4000)]
    jobs = [(list(range(i, min(i + fchunk, len(filters)))), tc)
            for i in range(0, len(filters), fchunk) for tc in tchunks]
    for st, dis, vio in M.pool_map(_pair_job, jobs):
        out.cases += st["pairs"]
        out.validated += st["pairs"]
        out.nontrivial.bulk += st["nontrivial"]
        out.stat(f"{label}:pairs", st["pairs"])
        out.stat(f"{label}:valid_filter_x_valid_topic", st["valid_pairs"])
        out.stat(f"{label}:spec_says_match", st["valid_match"])
        out.stat(f"{label}:impl_says_match(all pairs)", st["impl_match"])
        for d in dis:
            if len(out.disagreements) < CAP:
                out.disagreements.append(d)
        for v in vio:
            if len(out.violations) < CAP:
                out.violations.append(v)


# ---------------------------------------------------------------- (2) operation sequences
UNIVERSE7 = ["a", "a/b", "a/b/c", "a/+", "a/#", "+/b", "#"]
UNIVERSE6 = ["a/b", "a/b/c", "a/+", "+/b/#", "$x/#", "#"]
UNIVERSE4 = ["a/b", "a/b/c", "a/+", "#"]
PROBE_KEYS = ["a/b/c/d", "b", "a/b/", "+", ""]
PROBE_TOPICS = ["a", "a/b", "a/b/c", "b/b", "$x/b", "a/", "x"]
_OPS = {}


def seq_from_index(idx, L, universe):
    """the idx-th sequence of L mutations: digit < n -> set universe[digit], else del universe[digit-n]"""
    n = len(universe)
    ops = []
    for pos in range(L):
        idx, dgt = divmod(idx, 2 * n)
        ops.append(("set", universe[dgt], pos + 1) if dgt < n else ("del", universe[dgt - n]))
    return ops


def with_probes(muts, universe):
    ops = []
    for i, m in enumerate(muts):
        ops.append(m)
        # cheap probes after every mutation, the full set after the last
        if i == len(muts) - 1:
            ops += ([("get", k) for k in universe + PROBE_KEYS] + [("iter", t) for t in PROBE_TOPICS]
                    + [("del", "zz/zz"), ("del", "a/b/c/d")])
        else:
            ops += [("get", m[1]), ("iter", "a/b")]
    return ops


def compare_ops(ops, impl_t, impl_s, problems, mod_t, mod_s, dis, vio, valid_topics_only=True):
    """impl vs trie model (disagreement), impl vs reference dictionary/spec (violation)"""
    case = {"kind": "ops", "ops": [list(o) for o in ops]}
    if impl_t != mod_t and len(dis) < CAP:
        i = next((i for i, (a, b) in enumerate(zip(impl_t, mod_t)) if a != b), min(len(impl_t), len(mod_t)))
        dis.append({"case": case, "first_diff_at": i, "impl": impl_t[max(0, i - 4):i + 8], "model": mod_t[max(0, i - 4):i + 8]})
    if (impl_s != mod_s or problems) and len(vio) < CAP:
        what = "; ".join(f"op {i}: {p}" for i, p in problems)
        if impl_s != mod_s:
            i = next((i for i, (a, b) in enumerate(zip(impl_s, mod_s)) if a != b), min(len(impl_s), len(mod_s)))
            what += (f" results/stored filters differ from the reference dictionary + spec_match at trace position {i}: "
                     f"impl {impl_s[max(0, i - 4):i + 8]} spec {mod_s[max(0, i - 4):i + 8]}")
        vio.append({"case": case, "what": what.strip(), "signature": "c11-trie-vs-dict"})


def _ops_job(job):
    lo, hi, L, uname = job
    universe = _OPS[uname]
    _, MQTTMatcher = _matcher_api()
    st = {"seqs": 0, "ops": 0, "nontrivial": 0, "del_stored": 0, "overwrite": 0, "keyerror": 0, "prune": 0}
    dis, vio = [], []
    B = 1500
    for base in range(lo, hi, B):
        idxs = range(base, min(base + B, hi))
        seqs = [with_probes(seq_from_index(i, L, universe), universe) for i in idxs]
        mt = M.model_ops_batch(M.E_TRIE_OPS, seqs, 1)
        ms = M.model_ops_batch(M.E_DICT_OPS, seqs, 1)
        for ops, a, b in zip(seqs, mt, ms):
            try:
                it, is_, problems = M.impl_ops(MQTTMatcher, ops, 1)
            except Exception as e:
                it, is_, problems = [], [], [(0, f"the implementation raised {type(e).__name__}: {e}")]
            st["seqs"] += 1
            st["ops"] += len(ops)
            live, nt = set(), False
            for o in ops:
                if o[0] == "set":
                    if o[1] in live:
                        st["overwrite"] += 1
                        nt = True
                    live.add(o[1])
                elif o[0] == "del" and o[1] in live:
                    live.discard(o[1])
                    st["del_stored"] += 1
                    nt = True
            st["nontrivial"] += nt
            compare_ops(ops, it, is_, problems, a, b, dis, vio)
    return st, dis, vio


def run_opseqs(out, L, universe, uname, label):
    _OPS[uname] = universe
    total = (2 * len(universe)) ** L
    step = max(1500, -(-total // (M.workers() * 4)))
    jobs = [(lo, min(lo + step, total), L, uname) for lo in range(0, total, step)]
    for st, dis, vio in M.pool_map(_ops_job, jobs):
        out.cases += st["seqs"]
        out.validated += st["seqs"]
        out.nontrivial.bulk += st["nontrivial"]
        out.stat(f"{label}:sequences", st["seqs"])
        out.stat(f"{label}:operations", st["ops"])
        out.stat(f"{label}:deletes_of_stored", st["del_stored"])
        out.stat(f"{label}:overwrites", st["overwrite"])
        for d in dis:
            if len(out.disagreements) < CAP:
                out.disagreements.append(d)
        for v in vio:
            if len(out.violations) < CAP:
                out.violations.append(v)
    return total


# ---------------------------------------------------------------- (3) random deeper
RAND_LEVELS = ["a", "b", "ab", "A", "", "$", "$SYS", "é", "日本", "x y", "a+", "#a", "+", "#", "\x7f", "０"]


def rand_literal(rng):
    r = rng.random()
    if r < 0.75:
        return rng.choice(RAND_LEVELS[:10])
    return "".join(rng.choice("abAB$ é日_-. 09") for _ in range(rng.randrange(0, 5)))


def rand_filter(rng, maxdepth, valid=True):
    d = rng.randrange(1, maxdepth + 1)
    lv = []
    for i in range(d):
        r = rng.random()
        if r < 0.3:
            lv.append("+")
        elif r < 0.38 and i == d - 1:
            lv.append("#")
        elif not valid and r < 0.5:
            lv.append(rng.choice(RAND_LEVELS))
        else:
            lv.append(rand_literal(rng))
    return "/".join(lv)


def topic_from_filter(rng, f, valid=True):
    """a topic that matches f level by level, then perturbed with probability 1/2"""
    lv = []
    for p in f.split("/"):
        if p == "+":
            lv.append(rand_literal(rng))
        elif p == "#":
            lv += [rand_literal(rng) for _ in range(rng.randrange(0, 4))]
            if not lv:
                lv.append(rand_literal(rng))
        else:
            lv.append(p)
    if rng.random() < 0.5:
        k = rng.randrange(4)
        if k == 0 and lv:
            lv[rng.randrange(len(lv))] = rand_literal(rng)
        elif k == 1:
            lv.append(rand_literal(rng))
        elif k == 2 and len(lv) > 1:
            lv.pop()
        else:
            lv[0] = "$" + lv[0]
    t = "/".join(lv)
    if valid:
        t = t.replace("+", "p").replace("#", "h")
    return t


def run_random(ctx, out):
    rng = ctx.rng
    tms, MQTTMatcher = _matcher_api()
    # pairs
    npairs = ctx.n(4000, 60000)
    pairs = []
    for _ in range(npairs):
        valid = rng.random() < 0.85
        f = rand_filter(rng, 9, valid)
        if not valid and rng.random() < 0.3:
            f = f + rng.choice(["#", "/#/x", "+", "/"])
        t = topic_from_filter(rng, f, valid or rng.random() < 0.5)
        pairs.append((f, t))
    args = [[1] + M.enc_str(f) + [1] + M.enc_str(t) for f, t in pairs]
    codes = model.run_batch(M.TAG, M.E_MATRIX, args)
    for (f, t), cs in zip(pairs, codes):
        c = cs[0]
        r = bool(tms(f, t))
        out.cases += 1
        out.validated += 1
        out.stat("random:pairs")
        if c & 12 == 12:
            out.stat("random:valid_pairs")
            out.stat("random:valid_pairs_matching" if c & 2 else "random:valid_pairs_not_matching")
            out.seen(("rp", f, t), nontrivial=True)
        out.stat(f"random:pair_depth_{min(f.count('/') + 1, 9)}")
        if r != bool(c & 1) and len(out.disagreements) < CAP:
            out.disagreements.append({"case": {"kind": "pair", "filter": f, "topic": t}, "impl": r, "model": bool(c & 1)})
        if c & 12 == 12 and r != bool(c & 2) and len(out.violations) < CAP:
            out.violations.append({"case": {"kind": "pair", "filter": f, "topic": t},
                                   "what": f"topic_matches_sub({f!r}, {t!r}) = {r} but the MQTT specification says {bool(c & 2)}",
                                   "signature": "c11-match-vs-spec"})
    smp = [p for p, cs in zip(pairs, codes) if cs[0] & 14 == 14][:2] + [p for p, cs in zip(pairs, codes) if cs[0] & 14 == 12][:1]
    for f, t in smp:
        out.sample({"filter": f, "topic": t, "topic_matches_sub": bool(tms(f, t))})
    # op sequences over random universes
    nseq = ctx.n(400, 6000)
    seqs = []
    for _ in range(nseq):
        uni = [rand_filter(rng, 6, rng.random() < 0.9) for _ in range(rng.randrange(3, 11))]
        if rng.random() < 0.5:      # nested prefixes make pruning chains
            base = rand_filter(rng, 3).replace("#", "h")
            uni += [base, base + "/x", base + "/x/y", base + "/+", base + "/#"]
        topics = [topic_from_filter(rng, rng.choice(uni)) for _ in range(4)] + [rand_filter(rng, 4).replace("+", "p").replace("#", "h")]
        ops, v = [], 0
        for _ in range(rng.randrange(5, 41)):
            r = rng.random()
            if r < 0.35:
                v += 1
                ops.append(("set", rng.choice(uni), v))
            elif r < 0.65:
                ops.append(("del", rng.choice(uni)))
            elif r < 0.8:
                ops.append(("get", rng.choice(uni)))
            else:
                ops.append(("iter", rng.choice(topics)))
        ops += [("iter", t) for t in topics]
        seqs.append(ops)
    mt = M.model_ops_batch(M.E_TRIE_OPS, seqs, 0)
    ms = M.model_ops_batch(M.E_DICT_OPS, seqs, 0)
    for ops, a, b in zip(seqs, mt, ms):
        try:
            it, is_, problems = M.impl_ops(MQTTMatcher, ops, 0)
        except Exception as e:
            it, is_, problems = [], [], [(0, f"the implementation raised {type(e).__name__}: {e}")]
        out.cases += 1
        out.validated += 1
        out.stat("random:op_sequences")
        out.stat(f"random:seq_len_{len(ops) // 10 * 10}+")
        out.seen(("rs", repr(ops)), nontrivial=any(o[0] == "del" for o in ops))
        # topics here are valid names, so the sorted results must equal the spec's
        compare_ops(ops, it, is_, problems, a, b, out.disagreements, out.violations)
    if seqs:
        out.sample(readable_sample(MQTTMatcher, seqs[0][:10]))


def readable_sample(MQTTMatcher, ops):
    """ops with the implementation's result for each, and the stored filters at the end"""
    m = MQTTMatcher()
    res = []
    for o in ops:
        try:
            if o[0] == "set":
                m[o[1]] = o[2]
                r = None
            elif o[0] == "del":
                del m[o[1]]
                r = None
            elif o[0] == "get":
                r = m[o[1]]
            else:
                r = list(m.iter_match(o[1]))
        except KeyError:
            r = "KeyError"
        res.append(list(o) + ["->", r])
    return {"ops_with_impl_results": res, "stored_filters_after": dict(M.stored(m._root))}


def shrink_ops(v):
    """drop operations while the implementation still differs from the reference dictionary + spec_match"""
    _, MQTTMatcher = _matcher_api()
    ops = [tuple(o) for o in v["case"]["ops"]]

    def fails(oo):
        try:
            _, is_, problems = M.impl_ops(MQTTMatcher, oo, 0)
        except Exception:
            return True
        return bool(problems) or is_ != M.model_ops_batch(M.E_DICT_OPS, [oo], 0)[0]
    if not fails(ops):
        return v
    i = 0
    while i < len(ops):
        cand = ops[:i] + ops[i + 1:]
        if cand and fails(cand):
            ops = cand
        else:
            i += 1
    v = dict(v)
    v["case"] = {"kind": "ops", "ops": [list(o) for o in ops]}
    try:
        sample = readable_sample(MQTTMatcher, ops)
    except Exception as e:
        sample = f"raised {type(e).__name__}: {e}"
    v["signature"] = "c11-trie-vs-dict"
    v["what"] = f"minimised: {sample}; reference dictionary + spec_match trace: {M.model_ops_batch(M.E_DICT_OPS, [ops], 0)[0]} :: " + v["what"][:300]
    return v


def run(ctx, out):
    out.nontrivial = M.Distinct(out.nontrivial)
    tms, MQTTMatcher = _matcher_api()
    M.run_corpus(out, "C11", replay)
    m = MQTTMatcher()
    m["a/+"] = 7
    out.sample({"note": "outside valid_topic (theorem C11_wildcard_in_topic_yields_twice)", "filter": "a/+",
                "topic": "a/+", "impl_iter_match": list(m.iter_match("a/+"))})

    # (1) exhaustive pairs
    D = 4
    S = M.strings_upto(D)
    run_pairs(out, S, S, f"pairs_depth<={D}")
    exhaustive = {"pairs_all_depth": D}
    if not ctx.quick:
        S5 = M.strings_upto(5)
        F5 = [s for s in S5 if M.py_valid_filter(s)]
        T5 = [s for s in S5 if M.py_valid_topic(s)]
        run_pairs(out, F5, T5, "pairs_valid_depth<=5")
        exhaustive["pairs_valid_depth"] = 5
    # case sensitivity / literal comparison: a second small alphabet
    SC = M.strings_upto(3, ["a", "A", "ab", "+", "#"])
    run_pairs(out, SC, SC, "pairs_case_depth<=3")
    exhaustive["pairs_case_alphabet_depth"] = 3
    # validity predicates of the model against an independent reading, on the depth-3 strings
    S3 = M.strings_upto(3)
    args = [len(S3)] + [x for f in S3 for x in M.enc_str(f)] + [len(S3)] + [x for t in S3 for x in M.enc_str(t)]
    codes = model.run_batch(M.TAG, M.E_MATRIX, [args])[0]
    bad = _validity_crosscheck(S3, codes, len(S3), len(S3))
    out.stat("validity_crosscheck_strings", 2 * len(S3))
    if bad:
        out.disagreements.append({"case": {"kind": "validity", "items": bad[:5]},
                                  "what": "valid_filter/valid_topic of TrieSpec.v disagree with the harness's reading"})
    try:
        from paho.mqtt.client import Client
        paho_bad = [s for s in S3 if M.py_valid_filter(s) != (Client._filter_wildcard_len_check(s.encode()) == 0)]
        out.stat("valid_filter_vs_paho_filter_check_mismatches", len(paho_bad))
        if paho_bad:
            out.notes.append(f"valid_filter differs from paho's _filter_wildcard_len_check on {paho_bad[:5]}")
    except Exception as e:   # the cross-check is informative only
        out.notes.append(f"paho filter check not available: {e}")

    # (2) exhaustive operation sequences
    L = 4 if ctx.quick else 5
    run_opseqs(out, L, UNIVERSE7, "u7", f"ops_u7_len{L}")
    exhaustive["op_sequences"] = {"universe": UNIVERSE7, "mutations": L}
    if ctx.quick:
        run_opseqs(out, 5, UNIVERSE4, "u4", "ops_u4_len5")
        exhaustive["op_sequences_2"] = {"universe": UNIVERSE4, "mutations": 5}
    else:
        run_opseqs(out, 6, UNIVERSE6, "u6", "ops_u6_len6")
        exhaustive["op_sequences_2"] = {"universe": UNIVERSE6, "mutations": 6}
    out.sample(readable_sample(MQTTMatcher, with_probes(seq_from_index(1234, L, UNIVERSE7), UNIVERSE7)[:12]))

    # (3) random
    run_random(ctx, out)
    out.exhaustive = True
    out.notes.append(f"exhaustive bounds completed: {exhaustive}")
    for i, v in enumerate(out.violations):
        if v["case"].get("kind") == "ops":
            try:
                out.violations[i] = shrink_ops(v)
            except Exception as e:
                out.notes.append(f"shrinking failed: {e}")
            break


# ---------------------------------------------------------------- replay
def replay(payload):
    case = payload.get("case", {})
    tms, MQTTMatcher = _matcher_api()
    if case.get("kind") == "pair":
        f, t = case["filter"], case["topic"]
        c = model.run_one(M.TAG, M.E_MATRIX, [1] + M.enc_str(f) + [1] + M.enc_str(t))[0]
        r = bool(tms(f, t))
        detail = {"filter": f, "topic": t, "topic_matches_sub": r, "model": bool(c & 1), "spec_match": bool(c & 2),
                  "valid_filter": bool(c & 4), "valid_topic": bool(c & 8)}
        return (c & 12 != 12) or r == bool(c & 2), detail
    if case.get("kind") == "ops":
        ops = [tuple(o) for o in case["ops"]]
        it, is_, problems = M.impl_ops(MQTTMatcher, ops, 0)
        ms = M.model_ops_batch(M.E_DICT_OPS, [ops], 0)[0]
        mt = M.model_ops_batch(M.E_TRIE_OPS, [ops], 0)[0]
        return is_ == ms and not problems, {"ops": case["ops"], "impl_results_and_stored": is_, "spec": ms,
                                              "problems": problems, "impl_equals_trie_model": it == mt}
    return True, {"note": "nothing to replay for this kind"}


def finding_still_fails(f):
    return False, "no findings expected for C11"
