"""C10 - connection state and the on_connect/on_disconnect contract.  Model: coq/theories/Link/Conn.v; shared machinery in
harness/conn.py."""
from harness import conn

RULE = ("corpus first: replays of the repaired defects F-C10a/b/c (must pass) and the witnesses of the open findings F-C10d..j "
        "(Link/ConnRefuted.v; must be rejected, reported with their signatures); exhaustive operation lists of length 3 (quick) / 4 "
        "(thorough) starting with connect() over 14-18 operations (connect, reconnect ok/failing, disconnect, publish, blocked publish, "
        "loop_write plain/partial+blocked/failing, CONNACK accepted/refused, EOF, unknown packet, server DISCONNECT, keepalive due, ping "
        "overdue, on_connect publishing, on_disconnect reconnecting) x {direct-write, external loop} x {socket callbacks or not} x "
        "{MQTT 3.1.1, 5 (thorough: 3.1)} x callback API 1/2; seeded random lists of 2..20 operations with per-send outcomes "
        "(all, all-but-one-byte, would-block, zero, OSError), every broker input incl. protocol downgrade with failing reconnect, "
        "server DISCONNECT in three encodings, recv error, PINGREQ/PINGRESP, and scripts of nested publish/subscribe/disconnect/"
        "reconnect calls at all eight callback sites, 85% inside the hypotheses of the theorems. Every list runs on the real client "
        "and on the extracted model: events and (_state, _sock, _registered_write, len(_out_packet), _ping_t, protocol) are compared "
        "after every operation; the implementation trace is judged by the extracted checkers c10_*_ok. A rejected trace is attributed "
        "to a finding when exactly one exclusion of the theorem is broken by the operation list, and reported as "
        "C10-within-hypotheses otherwise. distinct = distinct (config, implementation trace); non-trivial = contains a connection end, "
        "on_connect or on_disconnect")
EXTRACT_TAGS = ["conn"]
GENERATED_ITEMS = []
ASSUMPTIONS = [
    "user callbacks do not raise (an OSError from a nested reconnect() is caught by the callback); on_pre_connect/on_message/on_subscribe not installed",
    "no background thread (_thread is None): loop_start()/threaded use is C07's",
    "one broker packet per loop_read(): no QoS>0 messages stored (max_packets = 1); inbound packets arrive whole (C05 owns fragmentation)",
    "partial writes are of the shape all-but-the-last-byte (C06 owns general partial writes); keepalive timing is an input (C08 owns the clock)",
    "exclusions of the partial theorems, each an open finding: D on_socket_open makes no API call; E no accepting CONNACK after disconnect(); "
    "F no failing send while loop_read handles a packet (direct-write mode); G no reconnect() in the on_disconnect announcing a written "
    "DISCONNECT; R on_socket_close/unregister_write call no disconnect()/reconnect(), register_write no reconnect(); C no reconnect() in "
    "on_connect of a refused CONNACK; observations at the entry of on_socket_close/on_socket_unregister_write are not judged (F-C10h)",
]


def run(ctx, out):
    conn.standard_run(ctx, out, "C10")


def replay(payload):
    return conn.replay_case(payload, "C10")


def finding_still_fails(f):
    return conn.finding_fails(f["sig"])
