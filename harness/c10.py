"""C10 - connection state and the on_connect/on_disconnect contract.  Model: coq/theories/Link/Conn.v; shared machinery in
harness/conn.py."""
from harness import conn

RULE = ("corpus first: regression replays of the repaired defects F-C10a/b/c/d/e/f/g/j and F-C10h on the error paths (must pass; a "
        "rejected one is reported as C10-regression) and the witnesses of the open findings F-C10h (connect() on a live connection), "
        "F-C10i, F-C10k (Link/ConnRefuted.v; must be rejected, reported with their signatures); "
        "exhaustive: connect() followed by every list of 3 operations (quick; thorough: also 4 over 11) out of 17-21 (connect, "
        "reconnect ok/failing, disconnect plain/blocked/with reconnecting on_disconnect, publish plain/blocked, loop_write "
        "plain/partial+blocked/failing, CONNACK accepted/refused, EOF, unknown packet, server DISCONNECT, keepalive due, ping overdue, "
        "PINGREQ with failing reply, on_connect publishing, on_disconnect reconnecting) x {direct-write, external loop} x {socket "
        "callbacks or not} x {MQTT 3.1.1, 5 (thorough: 3.1)} x callback API 1/2; seeded random lists of 2..20 operations with per-send "
        "outcomes (all, all-but-one-byte, would-block, zero, OSError), every broker input incl. protocol downgrade with failing "
        "reconnect, server DISCONNECT in three encodings, recv error, PINGREQ/PINGRESP, and scripts of nested publish/subscribe/"
        "disconnect/reconnect calls at all eight callback sites, 85% inside the hypotheses of the theorems. Every list runs on the "
        "real client and on the extracted model: events and (_state, _sock, _registered_write, len(_out_packet), _ping_t, protocol) "
        "are compared after every operation; the implementation trace is judged by the extracted checkers c10_*_ok. A rejected trace "
        "is attributed to a finding when exactly one exclusion of the theorem is broken by the operation list, and reported as "
        "C10-within-hypotheses otherwise. distinct = distinct (config, implementation trace); non-trivial = contains a connection end, "
        "on_connect or on_disconnect")
EXTRACT_TAGS = ["conn"]
GENERATED_ITEMS = []
ASSUMPTIONS = [
    "user callbacks do not raise (an OSError from a nested reconnect() is caught by the callback); on_pre_connect/on_message/on_subscribe not installed",
    "no background thread (_thread is None): loop_start()/threaded use is C07's",
    "one broker packet per loop_read(): no QoS>0 messages stored (max_packets = 1); inbound packets arrive whole (C05 owns fragmentation)",
    "partial writes are of the shape all-but-the-last-byte (C06 owns general partial writes); keepalive timing is an input (C08 owns the clock)",
    "the result code returned by publish() is not compared when a callback called reconnect() during that publish() (per-message results: C01/C07)",
    "exclusions of the partial theorems, each an open finding: D on_socket_open does not call reconnect() (F-C10k); R on_socket_close/unregister_write call no disconnect()/reconnect(), register_write no reconnect(); "
    "observations at the entry of on_socket_close/on_socket_unregister_write are not judged while connect()/reconnect() replaces a "
    "connection (F-C10h)",
]


def run(ctx, out):
    conn.standard_run(ctx, out, "C10")


def replay(payload):
    return conn.replay_case(payload, "C10")


def finding_still_fails(f):
    return conn.finding_fails(f["sig"])
