"""C10 - connection state and the on_connect/on_disconnect contract.  Model: coq/theories/Link/Conn.v; shared machinery in
harness/conn.py."""
from harness import conn

RULE = ("corpus first: regression replays of the repaired defects F-C10a/b/c/d/e/f/g/j and F-C10h on the error paths (must pass; a "
        "rejected one is reported as C10-regression) and the witnesses of the open findings F-C10h (connect() on a live connection), "
        "F-C10i, F-C10k (Link/ConnRefuted.v; must be rejected, reported with their signatures); "
        "exhaustive: connect() followed by every list of 3 operations (quick; thorough: also 4 over 11) out of 17-21 (connect, "
        "reconnect ok/failing, disconnect plain/blocked/with reconnecting on_disconnect, publish plain/blocked, loop_write "
        "plain/partial+blocked/failing, CONNACK accepted/refused, EOF, unknown packet, server DISCONNECT, keepalive due, ping overdue, "
        "PINGREQ with failing reply, on_connect publishing, on_disconnect reconnecting) x {direct-write, external loop} x {socket "
        "callbacks or not} x {MQTT 3.1.1, 5 (thorough: 3.1)} x callback API 1/2; seeded random lists of 2..20 operations with per-send "
        "outcomes (all, all-but-one-byte, would-block, zero, OSError), every broker input incl. protocol downgrade with failing "
        "reconnect, server DISCONNECT in three encodings, recv error, PINGREQ/PINGRESP, loop_read() calls handling 1..3 packets (readn), and scripts of nested publish/subscribe/"
        "disconnect/reconnect calls at all eight callback sites, 85% inside the hypotheses of the theorems. Every list runs on the "
        "real client and on the extracted model: events and (_state, _sock, _registered_write, len(_out_packet), _ping_t, protocol) "
        "are compared after every operation; the implementation trace is judged by the extracted checkers c10_*_ok. A rejected trace "
        "is attributed to a finding when exactly one exclusion of the theorem is broken by the operation list, and reported as "
        "C10-within-hypotheses otherwise. distinct = distinct (config, implementation trace); non-trivial = contains a connection end, "
        "on_connect or on_disconnect")
EXTRACT_TAGS = ["conn"]
GENERATED_ITEMS = []
ASSUMPTIONS = [
    "user callbacks do not raise (an OSError from a nested reconnect() is caught by the callback); on_pre_connect/on_message/on_subscribe not installed",
    "no background thread (_thread is None): loop_start()/threaded use is C07's",
    "loop_read() handles one packet per call, or (operation readn / TLoopReadN, messages stored for the duration of the call so that max_packets = number of inputs) up to three, input k being what the socket current at the k-th _packet_read() delivers; multi_packet_oracle additionally runs such calls with really stored QoS 1 messages on the implementation alone; inbound packets arrive whole (C05 owns fragmentation)",
    "partial writes are of the shape all-but-the-last-byte (C06 owns general partial writes); keepalive timing is an input (C08 owns the clock)",
    "the result code returned by publish() is not compared when a callback called reconnect() during that publish() (per-message results: C01/C07)",
    "exclusions of the partial theorems, each an open finding: D on_socket_open does not call reconnect() (F-C10k); R on_socket_close/unregister_write call no disconnect()/reconnect(), register_write no reconnect(); "
    "observations at the entry of on_socket_close/on_socket_unregister_write are not judged while connect()/reconnect() replaces a "
    "connection (F-C10h)",
]


def multi_packet_oracle(out):
    """loop_read() handles up to len(_out_messages) + len(_in_messages) packets per call.  The connection model reads one
    packet per call (no QoS>0 messages are stored there), so histories in which ONE loop_read() call (a) handles a packet
    that makes the library or a callback replace the socket and then (b) reads the end of the NEW connection are run on the
    implementation only and judged by the extracted checkers c10_*_ok (exploration, not proof).  Found necessary by seeded
    change S-C10-3 (the per-iteration socket snapshot of loop_read hoisted out of the loop)."""
    import collections
    import paho.mqtt.client as mqtt
    from vlib import impl
    endings = [("eof",), ("connack", 5), ("unknown",), ("rerr",)]
    cases = []
    for proto in (4, 5):
        for api in (1, 2):
            for stored in (2, 3):
                for trigger in ("downgrade", "on_connect_reconnect"):
                    if trigger == "downgrade" and proto != 4:
                        continue
                    for ending in endings:
                        cases.append((proto, api, stored, trigger, ending))
    traces = []
    for proto, api, stored, trigger, ending in cases:
        cfg = {"proto": proto, "api": api, "sockcb": 0, "ext": 0, "depth": 1}
        r = conn.Run(cfg)
        c = r.c
        for _ in range(stored):
            c.publish("t", b"x", 1)                      # stored while offline: max_packets = stored
        trace = [r.step(conn.norm_op(conn.O(("connect", True))))[0]]
        # what the NEW socket will have waiting when it is created inside the handler
        real_create = c._create_socket

        def create(real_create=real_create, ending=ending, c=c):
            s = real_create()
            if len(r.socks) >= 2:
                v5 = c._protocol == mqtt.MQTTv5
                if ending[0] == "eof":
                    s.eof = True
                elif ending[0] == "rerr":
                    s.recv_error = True
                elif ending[0] == "connack":
                    s.feed(impl.connack(rc=(0x87 if v5 else ending[1]), v5=v5))
                else:
                    s.feed(impl.pkt(0xF0))
            return s
        c._create_socket = create
        if trigger == "downgrade":
            op = conn.O(("read", "downgrade", True))
        else:
            # on_connect (site 0) calls reconnect(): the socket is replaced inside the CONNACK handler
            op = conn.O(("read", "connack", 0), (), conn.scr_of(connect=[[3]]))
        try:
            trace.append(r.step(conn.norm_op(op))[0])
        except Exception as e:                           # noqa: BLE001
            out.notes.append(f"multi-packet oracle: scenario {proto, api, stored, trigger, ending} raised {e!r}")
            continue
        traces.append((cfg, trace, (proto, api, stored, trigger, ending)))
        # direct judgement: the end of the new connection (fed by the harness and read by this very call) must have been
        # acted upon - socket closed and released, exactly one on_disconnect after the new socket was opened
        evs = trace[-1]
        opened = [i for i, e in enumerate(evs) if e[0] == 0]
        out.cases += 1
        out.validated += 1
        if len(r.socks) >= 2 and opened:
            after = evs[opened[-1]:]
            ndisc = sum(1 for e in after if e[0] == 7)
            if c._sock is not None or not r.socks[-1].closed or ndisc != 1:
                out.violations.append({"signature": "C10-multi-packet-loop-read",
                                       "what": f"one loop_read() call (max_packets = {stored}) replaced the socket while handling its first packet ({trigger}) and read the end "
                                               f"of the NEW connection ({ending[0]}): socket still held = {c._sock is not None}, fake socket closed = {r.socks[-1].closed}, "
                                               f"on_disconnect calls for the new connection = {ndisc} (expected: released, closed, 1)",
                                       "case": {"proto": proto, "api": api, "stored": stored, "trigger": trigger, "ending": list(ending)},
                                       "impl_trace": trace})
        else:
            out.notes.append(f"multi-packet oracle: scenario {proto, api, stored, trigger, ending} did not replace the socket")
    verdicts = conn.check_traces([(cfg, tr) for cfg, tr, _ in traces])
    for (cfg, tr, what), v in zip(traces, verdicts):
        out.stat("multi_packet_loop_read")
        bad = [k for k in conn.C10_KEYS if not v[k]]
        if bad:
            out.violations.append({"signature": "C10-multi-packet-loop-read",
                                   "what": f"one loop_read() call that handles several packets (max_packets = {what[2]}): the socket is replaced while "
                                           f"handling the first ({what[3]}) and the new connection ends ({what[4][0]}) in the same call; "
                                           f"checkers rejecting the implementation trace: {bad}",
                                   "case": {"proto": what[0], "api": what[1], "stored": what[2], "trigger": what[3], "ending": list(what[4])},
                                   "impl_trace": tr})


def run(ctx, out):
    conn.standard_run(ctx, out, "C10")
    multi_packet_oracle(out)


def replay(payload):
    if payload.get("signature") == "C10-multi-packet-loop-read":
        from vlib.main import Outcome
        o = Outcome()
        multi_packet_oracle(o)
        same = [v for v in o.violations if v["case"] == payload.get("case")]
        return (not same), {"violations_now": len(o.violations), "this_case": same[:1]}
    return conn.replay_case(payload, "C10")


def finding_still_fails(f):
    return conn.finding_fails(f["sig"])
